import ScnVerif.Lemmas.SqwReader
import ScnVerif.Lemmas.SqwBuildWF
/-! Builder objects are `Simple`; the `_parse_*` models return what was supplied. -/
namespace ScnVerif.Sqw

theorem Simples_append (xs ys : List Obj) : Simples (xs ++ ys) ↔ Simples xs ∧ Simples ys := by
  induction xs with
  | nil => simp [Simples]
  | cons x xs ih => simp [Simples, ih, and_assoc]

theorem Simples_of_forall (xs : List Obj) (h : ∀ x ∈ xs, Simple x) : Simples xs := by
  induction xs with
  | nil => trivial
  | cons x xs ih => exact ⟨h x (by simp), ih (fun y hy => h y (by simp [hy]))⟩

theorem simple_strField (s : Str) : Simple (strField s) := by
  unfold strField; cases s.isEmpty <;> simp [Simple]
theorem simple_f64Field (v : Nat) : Simple (f64Field v) := trivial
theorem simple_boolField (b : Bool) : Simple (boolField b) := by simp [boolField, Simple]
theorem simple_arr1 (vals : List Nat) : Simple (arr1 vals) := trivial
theorem simple_structObj (fields : List (Str × Obj)) (h : Simples (fields.map (·.2))) :
    Simple (structObj fields) := ⟨Or.inr ⟨rfl, by omega⟩, h⟩
theorem simple_strArray (ss : List Str) : Simple (strArray ss) := by
  refine ⟨by simp, Simples_of_forall _ ?_⟩
  intro x hx
  simp only [List.mem_map] at hx
  obtain ⟨s, _, rfl⟩ := hx
  simp [Simple]

theorem simple_mainHeader (h : MainHeader) (stamp : Str) : Simple (structObj (h.fields stamp)) := by
  apply simple_structObj
  simp only [MainHeader.fields, List.map, Simples]
  exact ⟨simple_strField _, trivial, simple_strField _, simple_strField _, trivial, simple_strField _,
    simple_boolField _, trivial⟩

theorem simples_experiment (e : Experiment) : Simples (e.fields.map (·.2)) := by
  simp only [Experiment.fields, List.map, Simples]
  exact ⟨simple_strField _, simple_strField _, trivial, trivial, trivial, trivial, trivial, trivial, trivial,
    trivial, trivial, trivial, trivial, simple_boolField _, trivial⟩

theorem simple_multiExperiment (es : List Experiment) (hne : es ≠ []) :
    Simple (structObj (multiExperimentFields es)) := by
  apply simple_structObj
  simp only [multiExperimentFields, List.map, Simples]
  refine ⟨simple_strField _, trivial, ⟨Or.inr ⟨rfl, ?_⟩, ?_⟩, trivial⟩
  · intro h; exact hne (List.length_eq_zero_iff.mp h)
  · clear hne
    induction es with
    | nil => trivial
    | cons e es ih => rw [List.flatMap_cons, Simples_append]; exact ⟨simples_experiment e, ih⟩

theorem simple_pixMeta (m : PixMeta) : Simple (structObj m.fields) := by
  apply simple_structObj
  simp only [PixMeta.fields, List.map, Simples]
  exact ⟨simple_strField _, trivial, simple_strField _, trivial, trivial, trivial⟩

theorem simple_source (s : Source) : Simple (structObj s.fields) := by
  apply simple_structObj
  simp only [Source.fields, List.map, Simples]
  exact ⟨simple_strField _, trivial, simple_strField _, simple_strField _, trivial, trivial⟩

theorem simple_instrument (i : Instrument) : Simple (structObj i.fields) := by
  apply simple_structObj
  simp only [Instrument.fields, List.map, Simples]
  exact ⟨simple_strField _, trivial, simple_source _, simple_strField _, trivial⟩

theorem simple_sample (s : Sample) : Simple (structObj s.fields) := by
  apply simple_structObj
  simp only [Sample.fields, List.map, Simples]
  exact ⟨simple_strField _, trivial, trivial, trivial, simple_strField _, trivial⟩

theorem simple_uniqueRef (g bc : Str) (objs : List Obj) (n : Nat) (ho : Simples objs) :
    Simple (structObj (uniqueRefFields g bc objs n)) := by
  apply simple_structObj
  simp only [uniqueRefFields, List.map, Simples]
  refine ⟨simple_strField _, trivial, simple_strField _, simple_strField _, ?_, trivial⟩
  apply simple_structObj
  simp only [uniqueObjFields, List.map, Simples]
  exact ⟨simple_strField _, trivial, simple_strField _, ⟨by simp, ho⟩, trivial, trivial⟩

theorem simple_lineAxes (a : LineAxes) (fn fp : Str) (h : a.nBins ≠ []) : Simple (structObj (a.fields fn fp)) := by
  apply simple_structObj
  simp only [LineAxes.fields, List.map, Simples]
  refine ⟨simple_strField _, trivial, simple_strField _, simple_strField _, simple_strField _, simple_strArray _,
    trivial, trivial, trivial, ?_, trivial, trivial, simple_boolField _, trivial⟩
  simp [Simple]

theorem simple_lineProj (p : LineProj) : Simple (structObj p.fields) := by
  apply simple_structObj
  simp only [LineProj.fields, List.map, Simples]
  exact ⟨simple_strField _, trivial, trivial, trivial, trivial, simple_strField _, simple_strArray _, trivial,
    trivial, trivial, simple_boolField _, simple_strField _, trivial⟩

theorem simple_dndMeta (d : DndMeta) (fn fp stamp : Str) (h : d.axes.nBins ≠ []) :
    Simple (structObj (d.fields fn fp stamp)) := by
  apply simple_structObj
  simp only [DndMeta.fields, List.map, Simples]
  exact ⟨simple_strField _, trivial, simple_lineAxes _ _ _ h, simple_lineProj _, simple_strField _, trivial⟩

/-- what the reader additionally needs of a block: at least one run, at least one histogram axis -/
def Block.ReaderOk : Block → Prop
  | .expdata es => es ≠ []
  | .dndMeta d => d.axes.nBins ≠ []
  | _ => True

theorem simple_block (b : Builder) (st : Stamps) (blk : Block) (h : blk.ReaderOk) : Simple (blk.toObj b st) := by
  cases blk with
  | mainHeader hd => exact simple_mainHeader hd st.main
  | expdata es => exact simple_multiExperiment es h
  | pixMeta m => exact simple_pixMeta m
  | detpar => exact simple_uniqueRef _ _ [] 0 trivial
  | dndMeta d => exact simple_dndMeta d _ _ _ h
  | instruments i n => exact simple_uniqueRef _ _ _ n ⟨simple_instrument i, trivial⟩
  | samples s n => exact simple_uniqueRef _ _ _ n ⟨simple_sample s, trivial⟩

/-! ## field access -/

theorem scalarStr_strField (names : List Bytes) (vals : List Obj) (name s : Bytes)
    (h : lookupField name names vals = some (strField s)) : scalarStr names vals name = some s := by
  unfold scalarStr; rw [h]; unfold strField; cases s.isEmpty <;> simp

theorem scalarF64_f64Field (names : List Bytes) (vals : List Obj) (name : Bytes) (v : Nat)
    (h : lookupField name names vals = some (f64Field v)) : scalarF64 names vals name = some v := by
  unfold scalarF64; rw [h]; simp [f64Field]

theorem scalarBool_boolField (names : List Bytes) (vals : List Obj) (name : Bytes) (v : Bool)
    (h : lookupField name names vals = some (boolField v)) : scalarBool names vals name = some v := by
  unfold scalarBool; rw [h]; simp [boolField]

theorem arrayF64_f64s (names : List Bytes) (vals : List Obj) (name : Bytes) (shape vs : List Nat)
    (h : lookupField name names vals = some (.f64s shape vs)) : arrayF64 names vals name = some (shape, vs) := by
  unfold arrayF64; rw [h]

/-! ## parsers on what the builder writes -/

theorem parse_mainHeader (h : MainHeader) (stamp : Str) (hn : h.nfiles < 2 ^ 53) :
    typeId ((h.fields stamp).map (·.1)) ((h.fields stamp).map (·.2)) = some ([109,97,105,110,95,104,101,97,100,101,114,95,99,108] /-main_header_cl-/, fTwo) ∧
    parseMainHeader ((h.fields stamp).map (·.1)) ((h.fields stamp).map (·.2)) =
      some ⟨h.fullFilename, h.title, h.nfiles, stamp⟩ := by
  refine ⟨rfl, ?_⟩
  unfold parseMainHeader
  rw [scalarStr_strField _ _ _ h.fullFilename rfl, scalarStr_strField _ _ _ h.title rfl,
    scalarF64_f64Field _ _ _ (natToF64 h.nfiles) rfl, scalarStr_strField _ _ _ stamp rfl]
  simp [f64ToNat_natToF64 _ hn]

theorem parse_pixMeta (m : PixMeta) (hn : m.npix < 2 ^ 53) :
    typeId (m.fields.map (·.1)) (m.fields.map (·.2)) = some ([112,105,120,95,109,101,116,97,100,97,116,97] /-pix_metadata-/, fOne) ∧
    parsePixMeta (m.fields.map (·.1)) (m.fields.map (·.2)) =
      some ⟨m.fullFilename, m.npix, [m.dataRange.length, 2], m.dataRange.flatMap (fun p => [p.1, p.2])⟩ := by
  refine ⟨rfl, ?_⟩
  unfold parsePixMeta
  rw [arrayF64_f64s _ _ _ [2, m.dataRange.length] (m.dataRange.flatMap (fun p => [p.1, p.2])) rfl,
    scalarStr_strField _ _ _ m.fullFilename rfl, scalarF64_f64Field _ _ _ (natToF64 m.npix) rfl]
  have hne : ¬ (m.dataRange.flatMap (fun p => [p.1, p.2])).length = 1 := by rw [pairs_flat_length]; omega
  simp only [hne, if_false, f64ToNat_natToF64 _ hn, Option.bind_eq_bind, Option.bind_some, List.reverse_cons,
    List.reverse_nil, List.nil_append, List.cons_append]

/-- what the reader returns for an experiment the builder wrote -/
def readBack (e : Experiment) : RExperiment :=
  { filename := e.filename, filepath := e.filepath, runId := e.runId, efix := e.efix,
    efixIsScalar := e.efix.length == 1, emode := e.emode,
    enShape := if e.en.length = 1 then [1] else if 1 < e.enRows then [e.enRows, e.enCols] else [e.enCols],
    en := e.en, psi := e.psi, u := e.u, v := e.v, omega := e.omega, dpsi := e.dpsi, gl := e.gl, gs := e.gs,
    anglesInDegrees := false }

/-- an experiment within what the reader supports: mode 1|2, 3-vectors, at least one detector row -/
def Experiment.Readable (e : Experiment) : Prop :=
  e.runId + 1 < 2 ^ 53 ∧ (e.emode = 1 ∨ e.emode = 2) ∧ e.en.length = e.enCols * e.enRows ∧ 1 ≤ e.enRows ∧
  e.u.length = 3 ∧ e.v.length = 3

theorem enShapeRead_spec (e : Experiment) (h3 : e.en.length = e.enCols * e.enRows) (h4 : 1 ≤ e.enRows) :
    enShapeRead [e.enCols, e.enRows].reverse e.en.length =
      some (if e.en.length = 1 then [1] else if 1 < e.enRows then [e.enRows, e.enCols] else [e.enCols]) := by
  unfold enShapeRead
  by_cases hl : e.en.length = 1
  · simp [hl]
  · by_cases hr : 1 < e.enRows
    · simp [hl, hr]
    · have hr1 : e.enRows = 1 := by omega
      have hc : e.enCols ≠ 1 := by intro hc; rw [hc, hr1] at h3; exact hl h3
      simp [hl, hr1, hc]

/-- the parser on ANY struct whose fields are the ones `Experiment.fields` produces -/
theorem parseExperiment_of_lookups (names : List Bytes) (vals : List Obj) (e : Experiment) (h : e.Readable)
    (a b : Nat) (ha : f64ToNat? a = some (e.runId + 1)) (hb : f64ToNat? b = some e.emode)
    (l1 : lookupField [101,102,105,120] /-efix-/ names vals = some (.f64s [e.efix.length] e.efix))
    (l2 : lookupField [101,110] /-en-/ names vals = some (.f64s [e.enCols, e.enRows] e.en))
    (l3 : lookupField [97,110,103,117,108,97,114,95,105,115,95,100,101,103,114,101,101] /-angular_is_degree-/ names vals = some (boolField false))
    (l4 : lookupField [114,117,110,95,105,100] /-run_id-/ names vals = some (f64Field a))
    (l5 : lookupField [101,109,111,100,101] /-emode-/ names vals = some (f64Field b))
    (l6 : lookupField [117] /-u-/ names vals = some (.f64s [e.u.length] e.u))
    (l7 : lookupField [118] /-v-/ names vals = some (.f64s [e.v.length] e.v))
    (l8 : lookupField [102,105,108,101,110,97,109,101] /-filename-/ names vals = some (strField e.filename))
    (l9 : lookupField [102,105,108,101,112,97,116,104] /-filepath-/ names vals = some (strField e.filepath))
    (l10 : lookupField [112,115,105] /-psi-/ names vals = some (f64Field e.psi))
    (l11 : lookupField [111,109,101,103,97] /-omega-/ names vals = some (f64Field e.omega))
    (l12 : lookupField [100,112,115,105] /-dpsi-/ names vals = some (f64Field e.dpsi))
    (l13 : lookupField [103,108] /-gl-/ names vals = some (f64Field e.gl))
    (l14 : lookupField [103,115] /-gs-/ names vals = some (f64Field e.gs)) :
    parseExperiment names vals = some (readBack e) := by
  obtain ⟨h1, h2, h3, h4, h5, h6⟩ := h
  have hem2 : ¬ (e.emode ≠ 1 ∧ e.emode ≠ 2) := by omega
  unfold parseExperiment
  rw [arrayF64_f64s _ _ _ _ _ l1, arrayF64_f64s _ _ _ _ _ l2, scalarBool_boolField _ _ _ _ l3,
    scalarF64_f64Field _ _ _ _ l4, scalarF64_f64Field _ _ _ _ l5, arrayF64_f64s _ _ _ _ _ l6,
    arrayF64_f64s _ _ _ _ _ l7, scalarStr_strField _ _ _ _ l8, scalarStr_strField _ _ _ _ l9,
    scalarF64_f64Field _ _ _ _ l10, scalarF64_f64Field _ _ _ _ l11, scalarF64_f64Field _ _ _ _ l12,
    scalarF64_f64Field _ _ _ _ l13, scalarF64_f64Field _ _ _ _ l14]
  simp only [ha, hb, enShapeRead_spec e h3 h4, Option.bind_eq_bind,
    Option.bind_some, Nat.add_eq_zero_iff, if_false, hem2, h5, h6, ne_eq, not_true_eq_false, or_self,
    Nat.add_sub_cancel]
  simp [readBack]

theorem parse_experiment (e : Experiment) (h : e.Readable) :
    parseExperiment (e.fields.map (·.1)) (e.fields.map (·.2)) = some (readBack e) :=
  parseExperiment_of_lookups _ _ e h (natToF64 (e.runId + 1)) (natToF64 e.emode)
    (f64ToNat_natToF64 _ h.1)
    (f64ToNat_natToF64 _ (by rcases h.2.1 with h | h <;> rw [h] <;> omega))
    rfl rfl rfl rfl rfl rfl rfl rfl rfl rfl rfl rfl rfl rfl

/-! ### all runs -/

theorem structAt_flatMap (es : List Experiment) (k : Nat) (e : Experiment) (hk : es[k]? = some e) :
    structAt experimentFieldNames (es.flatMap (fun e => e.fields.map (·.2))) k =
      (experimentFieldNames, e.fields.map (·.2)) := by
  unfold structAt
  congr 1
  induction es generalizing k with
  | nil => simp at hk
  | cons x xs ih =>
    have hl : (x.fields.map (·.2)).length = experimentFieldNames.length := rfl
    cases k with
    | zero =>
      simp only [List.getElem?_cons_zero, Option.some.injEq] at hk
      subst hk
      rw [List.flatMap_cons, Nat.zero_mul, List.drop_zero,
        List.take_append_of_le_length (Nat.le_of_eq hl.symm), ← hl, List.take_length]
    | succ k =>
      simp only [List.getElem?_cons_succ] at hk
      have e1 : (k + 1) * experimentFieldNames.length =
          (x.fields.map (·.2)).length + k * experimentFieldNames.length := by rw [hl, Nat.succ_mul, Nat.add_comm]
      rw [List.flatMap_cons, e1, List.drop_append, List.drop_eq_nil_of_le (Nat.le_add_right _ _),
        List.nil_append, Nat.add_sub_cancel_left]
      exact ih k hk

theorem mapM_range' {β} (g : Nat → Option β) (xs : List β) (s : Nat)
    (h : ∀ i, (hi : i < xs.length) → g (s + i) = some xs[i]) :
    (List.range' s xs.length).mapM g = some xs := by
  induction xs generalizing s with
  | nil => rfl
  | cons x xs ih =>
    have h0 := h 0 (by simp)
    simp only [Nat.add_zero, List.getElem_cons_zero] at h0
    have ih' := ih (s + 1) (fun i hi => by
      have := h (i + 1) (by simp; omega)
      simpa [Nat.add_assoc, Nat.add_comm 1 i] using this)
    simp [List.range'_succ, List.mapM_cons, h0, ih']

theorem parse_experiments (es : List Experiment) (hne : es ≠ []) (h : ∀ e ∈ es, e.Readable) :
    parseExperiments ((multiExperimentFields es).map (·.1)) ((multiExperimentFields es).map (·.2)) =
      some (es.map readBack) := by
  cases es with
  | nil => exact absurd rfl hne
  | cons e0 es' =>
    unfold parseExperiments
    have hl : lookupField [97,114,114,97,121,95,100,97,116] /-array_dat-/ ((multiExperimentFields (e0 :: es')).map (·.1))
        ((multiExperimentFields (e0 :: es')).map (·.2)) =
        some (.structs [(e0 :: es').length] (e0 :: es').length experimentFieldNames
          ((e0 :: es').flatMap (fun e => e.fields.map (·.2)))) := rfl
    rw [hl]
    have := mapM_range' (fun k => parseExperiment (structAt experimentFieldNames
        ((e0 :: es').flatMap (fun e => e.fields.map (·.2))) k).1 (structAt experimentFieldNames
        ((e0 :: es').flatMap (fun e => e.fields.map (·.2))) k).2) ((e0 :: es').map readBack) 0 (by
      intro i hi
      have hi' : i < (e0 :: es').length := by simpa using hi
      have hget : (e0 :: es')[i]? = some (e0 :: es')[i] := List.getElem?_eq_getElem hi'
      rw [Nat.zero_add, structAt_flatMap (e0 :: es') i (e0 :: es')[i] hget]
      simp only [List.getElem_map]
      exact parse_experiment (e0 :: es')[i] (h _ (List.getElem_mem hi')))
    simp only [List.length_map] at this
    simp only [List.range_eq_range']
    exact this

/-! ### sample, instrument, containers -/

theorem parse_sample (s : Sample) (h1 : s.alatt.length = 3) (h2 : s.angdeg.length = 3) :
    typeId (s.fields.map (·.1)) (s.fields.map (·.2)) = some ([73,88,95,115,97,109,112,108,101] /-IX_sample-/, fThree) ∧
    parseSample (s.fields.map (·.1)) (s.fields.map (·.2)) = some ⟨s.name, s.alatt, s.angdeg⟩ := by
  refine ⟨rfl, ?_⟩
  unfold parseSample
  rw [scalarStr_strField _ _ _ s.name rfl, arrayF64_f64s _ _ [97,108,97,116,116] /-alatt-/ [s.alatt.length] s.alatt rfl,
    arrayF64_f64s _ _ [97,110,103,100,101,103] /-angdeg-/ [s.angdeg.length] s.angdeg rfl]
  simp [h1, h2]

theorem parse_instrument (i : Instrument) :
    typeId (i.fields.map (·.1)) (i.fields.map (·.2)) = some ([73,88,95,110,117,108,108,95,105,110,115,116] /-IX_null_inst-/, fTwo) ∧
    parseInstrument (i.fields.map (·.1)) (i.fields.map (·.2)) =
      some ⟨i.name, i.source.name, i.source.targetName, i.source.frequency⟩ := by
  refine ⟨rfl, ?_⟩
  unfold parseInstrument
  have hl : lookupField [115,111,117,114,99,101] /-source-/ (i.fields.map (·.1)) (i.fields.map (·.2)) = some (structObj i.source.fields) := rfl
  rw [hl]
  have ht : typeId (i.source.fields.map (·.1)) (i.source.fields.map (·.2)) = some ([73,88,95,115,111,117,114,99,101] /-IX_source-/, fTwo) := rfl
  simp only [structObj, ht]
  rw [scalarStr_strField _ _ _ i.name rfl, scalarStr_strField _ _ _ i.source.name rfl,
    scalarStr_strField _ _ _ i.source.targetName rfl, scalarF64_f64Field _ _ _ i.source.frequency rfl]
  simp

theorem mapM_replicate_one (n : Nat) (one : Nat) (h : f64ToNat? one = some 1) :
    (List.replicate n one).mapM f64ToNat? = some (List.replicate n 1) := by
  induction n with
  | zero => rfl
  | succ n ih => simp [List.replicate_succ, List.mapM_cons, h, ih]

/-- a container broadcast to `n` runs parses to ONE stored object and `n` references to it -/
theorem parse_container (g bc : Str) (obj : Obj) (n : Nat) :
    parseContainer ((uniqueRefFields g bc [obj] n).map (·.1)) ((uniqueRefFields g bc [obj] n).map (·.2)) =
      some ([obj], List.replicate n 0) := by
  unfold parseContainer
  have h1 : lookupField [117,110,105,113,117,101,95,111,98,106,101,99,116,115] /-unique_objects-/ ((uniqueRefFields g bc [obj] n).map (·.1))
      ((uniqueRefFields g bc [obj] n).map (·.2)) = some (structObj (uniqueObjFields bc [obj] n)) := rfl
  rw [h1]
  have h2 : lookupField [117,110,105,113,117,101,95,111,98,106,101,99,116,115] /-unique_objects-/ ((uniqueObjFields bc [obj] n).map (·.1))
      ((uniqueObjFields bc [obj] n).map (·.2)) = some (.cell [1] [obj]) := rfl
  have h3 : lookupField [105,100,120] /-idx-/ ((uniqueObjFields bc [obj] n).map (·.1))
      ((uniqueObjFields bc [obj] n).map (·.2)) = some (.f64s [n] (List.replicate n fOne)) := rfl
  simp only [structObj, h2, h3]
  have hone : f64ToNat? fOne = some 1 := by decide +kernel
  generalize fOne = one at hone
  rw [mapM_replicate_one n one hone]
  simp

/-! ### histogram metadata -/

theorem pairsOf_flat (l : List (Nat × Nat)) : pairsOf (l.flatMap (fun p => [p.1, p.2])) = l := by
  induction l with
  | nil => rfl
  | cons p l ih => simp [List.flatMap_cons, pairsOf, ih]

theorem mapM_f64ToNat (l : List Nat) (h : ∀ n ∈ l, n < 2 ^ 53) : (l.map natToF64).mapM f64ToNat? = some l := by
  induction l with
  | nil => rfl
  | cons n l ih =>
    have h1 := f64ToNat_natToF64 n (h n (by simp))
    have h2 := ih (fun x hx => h x (by simp [hx]))
    simp [List.mapM_cons, h1, h2]

theorem unpackLabels_strArray (ss : List Str) : unpackLabels (strArray ss) = some ss := by
  unfold unpackLabels strArray
  simp only
  induction ss with
  | nil => rfl
  | cons s ss ih => simp [List.mapM_cons, ih]

theorem ndarrayF64_of (names : List Bytes) (vals : List Obj) (name : Bytes) (shape vs : List Nat)
    (h : lookupField name names vals = some (.f64s shape vs)) (hl : vs.length ≠ 1) :
    ndarrayF64 names vals name = some (shape, vs) := by
  unfold ndarrayF64; rw [arrayF64_f64s _ _ _ _ _ h]; simp [hl]

theorem vec3_of (names : List Bytes) (vals : List Obj) (name : Bytes) (vs : List Nat)
    (h : lookupField name names vals = some (arr1 vs)) (hl : vs.length = 3) :
    vec3 names vals name = some vs := by
  unfold vec3; rw [ndarrayF64_of _ _ _ [vs.length] vs h (by omega)]; simp [hl]

theorem getVec_of (names : List Bytes) (vals : List Obj) (name : Bytes) (vs : List Nat)
    (h : lookupField name names vals = some (arr1 vs)) (hl : vs = [] ∨ vs.length = 3) :
    getVec names vals name = some vs := by
  unfold getVec; rw [arrayF64_f64s _ _ _ [vs.length] vs h]
  rcases hl with rfl | hl
  · simp
  · simp [hl]

/-- a projection within what the reader supports: 3-vectors, four offsets -/
def LineProj.Readable (p : LineProj) : Prop :=
  p.alatt.length = 3 ∧ p.angdeg.length = 3 ∧ p.offset.length = 4 ∧ p.u.length = 3 ∧ p.v.length = 3 ∧
  (p.w = [] ∨ p.w.length = 3)

theorem parse_lineProj (p : LineProj) (h : p.Readable) :
    parseLineProj (p.fields.map (·.1)) (p.fields.map (·.2)) =
      some ⟨p.alatt, p.angdeg, p.offset, p.title, p.label, p.u, p.v, p.w, p.nonOrthogonal⟩ := by
  obtain ⟨h1, h2, h3, h4, h5, h6⟩ := h
  unfold parseLineProj
  have hl : lookupField [108,97,98,101,108] /-label-/ (p.fields.map (·.1)) (p.fields.map (·.2)) = some (strArray p.label) := rfl
  rw [scalarStr_strField _ _ [116,121,112,101] /-type-/ [97,97,97] /-aaa-/ rfl, vec3_of _ _ [97,108,97,116,116] /-alatt-/ p.alatt rfl h1,
    vec3_of _ _ [97,110,103,100,101,103] /-angdeg-/ p.angdeg rfl h2,
    ndarrayF64_of _ _ [111,102,102,115,101,116] /-offset-/ [p.offset.length] p.offset rfl (by omega),
    scalarStr_strField _ _ [116,105,116,108,101] /-title-/ p.title rfl, hl, getVec_of _ _ [117] /-u-/ p.u rfl (Or.inr h4),
    getVec_of _ _ [118] /-v-/ p.v rfl (Or.inr h5), getVec_of _ _ [119] /-w-/ p.w rfl h6,
    scalarBool_boolField _ _ [110,111,110,111,114,116,104,111,103,111,110,97,108] /-nonorthogonal-/ p.nonOrthogonal rfl]
  have ht : p.offset.take 4 = p.offset := List.take_of_length_le (by omega)
  simp [unpackLabels_strArray, ht]

/-- axes within what the reader supports: four axes -/
def LineAxes.Readable (a : LineAxes) : Prop :=
  a.imgScales.length = 4 ∧ a.imgRange.length = 4 ∧ a.nBins.length = 4 ∧ a.dax.length = 4 ∧
  a.offset.length = 4 ∧ (∀ n ∈ a.nBins, n < 2 ^ 53) ∧ (∀ d ∈ a.dax, d + 1 < 2 ^ 53)

/-- the parser on ANY struct with the fields `LineAxes.fields` produces; the doubles holding integers
are abstract (`nb`, `dx`) so that the kernel never unfolds `natToF64` -/
theorem parseLineAxes_of_lookups (names : List Bytes) (vals : List Obj) (a : LineAxes) (fn fp : Str)
    (nb dx : List Nat) (hnb : nb.mapM f64ToNat? = some a.nBins) (hdx : dx.mapM f64ToNat? = some (a.dax.map (· + 1)))
    (hnbl : nb.length = 4) (hdxl : dx.length = 4) (h : a.Readable)
    (l1 : lookupField [116,105,116,108,101] /-title-/ names vals = some (strField a.title))
    (l2 : lookupField [108,97,98,101,108] /-label-/ names vals = some (strArray a.label))
    (l3 : lookupField [105,109,103,95,115,99,97,108,101,115] /-img_scales-/ names vals = some (arr1 a.imgScales))
    (l4 : lookupField [105,109,103,95,114,97,110,103,101] /-img_range-/ names vals =
      some (.f64s [2, a.imgRange.length] (a.imgRange.flatMap (fun p => [p.1, p.2]))))
    (l5 : lookupField [110,98,105,110,115,95,97,108,108,95,100,105,109,115] /-nbins_all_dims-/ names vals = some (arr1 nb))
    (l6 : lookupField [115,105,110,103,108,101,95,98,105,110,95,100,101,102,105,110,101,115,95,105,97,120] /-single_bin_defines_iax-/ names vals = some (.logicals [a.nBins.length] a.singleBin))
    (l7 : lookupField [100,97,120] /-dax-/ names vals = some (arr1 dx))
    (l8 : lookupField [111,102,102,115,101,116] /-offset-/ names vals = some (arr1 a.offset))
    (l9 : lookupField [99,104,97,110,103,101,115,95,97,115,112,101,99,116,95,114,97,116,105,111] /-changes_aspect_ratio-/ names vals = some (boolField a.changesAspectRatio))
    (l10 : lookupField [102,105,108,101,110,97,109,101] /-filename-/ names vals = some (strField fn))
    (l11 : lookupField [102,105,108,101,112,97,116,104] /-filepath-/ names vals = some (strField fp)) :
    parseLineAxes names vals =
      some ⟨a.title, a.label, a.imgScales, a.imgRange, a.nBins, a.singleBin, a.dax, a.offset,
        a.changesAspectRatio, fn, fp⟩ := by
  obtain ⟨h1, h2, h3, h4, h5, _, _⟩ := h
  unfold parseLineAxes
  have hrl : (a.imgRange.flatMap (fun p => [p.1, p.2])).length ≠ 1 := by rw [pairs_flat_length]; omega
  rw [scalarStr_strField _ _ _ _ l1, l2, ndarrayF64_of _ _ _ _ _ l3 (by omega),
    ndarrayF64_of _ _ _ _ _ l4 hrl, ndarrayF64_of _ _ _ _ _ l5 (by omega), l6,
    ndarrayF64_of _ _ _ _ _ l7 (by omega), ndarrayF64_of _ _ _ _ _ l8 (by omega),
    scalarBool_boolField _ _ _ _ l9, scalarStr_strField _ _ _ _ l10, scalarStr_strField _ _ _ _ l11]
  have t1 : a.imgScales.take 4 = a.imgScales := List.take_of_length_le (by omega)
  have t2 : a.imgRange.take 4 = a.imgRange := List.take_of_length_le (by omega)
  have t3 : a.offset.take 4 = a.offset := List.take_of_length_le (by omega)
  have hany : (a.dax.map (· + 1)).any (· = 0) = false := by
    rw [List.any_eq_false]; intro x hx; simp at hx; obtain ⟨d, _, rfl⟩ := hx; simp
  have hsub : (a.dax.map (· + 1)).map (· - 1) = a.dax := by
    rw [List.map_map]; conv => rhs; rw [← List.map_id a.dax]
    apply List.map_congr_left; intro d _; simp
  simp [unpackLabels_strArray, hnb, hdx, pairsOf_flat, t1, t2, t3, hany, hsub]

theorem parse_lineAxes (a : LineAxes) (fn fp : Str) (h : a.Readable) :
    parseLineAxes ((a.fields fn fp).map (·.1)) ((a.fields fn fp).map (·.2)) =
      some ⟨a.title, a.label, a.imgScales, a.imgRange, a.nBins, a.singleBin, a.dax, a.offset,
        a.changesAspectRatio, fn, fp⟩ := by
  have hd : ∀ n ∈ a.dax.map (· + 1), n < 2 ^ 53 := by
    intro n hn; simp only [List.mem_map] at hn; obtain ⟨d, hd, rfl⟩ := hn; exact h.2.2.2.2.2.2 d hd
  have hdx := mapM_f64ToNat (a.dax.map (· + 1)) hd
  rw [List.map_map] at hdx
  exact parseLineAxes_of_lookups _ _ a fn fp (a.nBins.map natToF64) (a.dax.map (fun d => natToF64 (d + 1)))
    (mapM_f64ToNat a.nBins h.2.2.2.2.2.1) hdx (by simp [h.2.2.1]) (by simp [h.2.2.2.1]) h
    rfl rfl rfl rfl rfl rfl rfl rfl rfl rfl rfl

/-- histogram metadata: the reader returns the supplied axes, projection and time stamp -/
theorem parse_dnd (d : DndMeta) (fn fp stamp : Str) (ha : d.axes.Readable) (hp : d.proj.Readable) :
    typeId ((d.fields fn fp stamp).map (·.1)) ((d.fields fn fp stamp).map (·.2)) = some ([100,110,100,95,109,101,116,97,100,97,116,97] /-dnd_metadata-/, fOne) ∧
    parseDnd ((d.fields fn fp stamp).map (·.1)) ((d.fields fn fp stamp).map (·.2)) =
      some ⟨⟨d.axes.title, d.axes.label, d.axes.imgScales, d.axes.imgRange, d.axes.nBins, d.axes.singleBin,
          d.axes.dax, d.axes.offset, d.axes.changesAspectRatio, fn, fp⟩,
        ⟨d.proj.alatt, d.proj.angdeg, d.proj.offset, d.proj.title, d.proj.label, d.proj.u, d.proj.v, d.proj.w,
          d.proj.nonOrthogonal⟩, stamp⟩ := by
  refine ⟨rfl, ?_⟩
  unfold parseDnd
  have l1 : lookupField [97,120,101,115] /-axes-/ ((d.fields fn fp stamp).map (·.1)) ((d.fields fn fp stamp).map (·.2)) =
      some (structObj (d.axes.fields fn fp)) := rfl
  have l2 : lookupField [112,114,111,106] /-proj-/ ((d.fields fn fp stamp).map (·.1)) ((d.fields fn fp stamp).map (·.2)) =
      some (structObj d.proj.fields) := rfl
  rw [l1, l2]
  simp only [structObj]
  rw [parse_lineProj d.proj hp, parse_lineAxes d.axes fn fp ha, scalarStr_strField _ _ _ stamp rfl]
  rfl

end ScnVerif.Sqw
