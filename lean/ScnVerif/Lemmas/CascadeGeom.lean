import ScnVerif.Lemmas.CascadePairs
/-!
# Geometry of one `_chop` call over a linearly ordered field

convex combinations, hull, the intersection vertex as a convex combination on the line `t = c`,
what `emit` / `clipPath` / `chopStep` can output.
-/
set_option linter.unusedSectionVars false
namespace ScnVerif.Cascade
variable {α : Type} [Field α] [LinearOrder α] [IsStrictOrderedRing α]

/-- the point `(1-a)·p + a·q` -/
def cmb (a : α) (p q : Vtx α) : Vtx α := ((1 - a) * p.1 + a * q.1, (1 - a) * p.2 + a * q.2)

/-- a set of points (predicate) closed under taking points of segments -/
def Convex (P : Vtx α → Prop) : Prop :=
  ∀ p q a, P p → P q → 0 ≤ a → a ≤ 1 → P (cmb a p q)

/-- the convex hull of a vertex list: the least convex set containing the vertices -/
inductive Hull (vs : Poly α) : Vtx α → Prop
  | vertex {v : Vtx α} : v ∈ vs → Hull vs v
  | seg {p q : Vtx α} {a : α} : Hull vs p → Hull vs q → 0 ≤ a → a ≤ 1 → Hull vs (cmb a p q)

theorem Hull.le {vs : Poly α} {P : Vtx α → Prop} (hP : Convex P) (hv : ∀ v ∈ vs, P v) :
    ∀ x, Hull vs x → P x := by
  intro x hx
  induction hx with
  | vertex h => exact hv _ h
  | seg _ _ h0 h1 ihp ihq => exact hP _ _ _ ihp ihq h0 h1

theorem Hull.mono {vs ws : Poly α} (h : ∀ v ∈ vs, Hull ws v) : ∀ x, Hull vs x → Hull ws x :=
  Hull.le (fun _ _ _ hp hq h0 h1 => Hull.seg hp hq h0 h1) h

theorem convex_and {P Q : Vtx α → Prop} (hP : Convex P) (hQ : Convex Q) :
    Convex (fun x => P x ∧ Q x) :=
  fun p q a hp hq h0 h1 => ⟨hP p q a hp.1 hq.1 h0 h1, hQ p q a hp.2 hq.2 h0 h1⟩

theorem cmb_between {a lo hi x y : α} (h0 : 0 ≤ a) (h1 : a ≤ 1) (hx : lo ≤ x ∧ x ≤ hi)
    (hy : lo ≤ y ∧ y ≤ hi) : lo ≤ (1 - a) * x + a * y ∧ (1 - a) * x + a * y ≤ hi := by
  have h1' : 0 ≤ 1 - a := by linarith
  constructor
  · nlinarith [mul_nonneg h1' (sub_nonneg.2 hx.1), mul_nonneg h0 (sub_nonneg.2 hy.1)]
  · nlinarith [mul_nonneg h1' (sub_nonneg.2 hx.2), mul_nonneg h0 (sub_nonneg.2 hy.2)]

/-- half-planes `lo ≤ t`, `t ≤ hi`, `lo ≤ w`, `w ≤ hi` are convex -/
theorem convex_time_ge (c : α) : Convex (fun x : Vtx α => c ≤ x.1) := by
  intro p q a hp hq h0 h1
  have h1' : 0 ≤ 1 - a := by linarith
  show c ≤ (1 - a) * p.1 + a * q.1
  nlinarith [mul_nonneg h1' (sub_nonneg.2 hp), mul_nonneg h0 (sub_nonneg.2 hq)]

theorem convex_time_le (c : α) : Convex (fun x : Vtx α => x.1 ≤ c) := by
  intro p q a hp hq h0 h1
  have h1' : 0 ≤ 1 - a := by linarith
  show (1 - a) * p.1 + a * q.1 ≤ c
  nlinarith [mul_nonneg h1' (sub_nonneg.2 hp), mul_nonneg h0 (sub_nonneg.2 hq)]

/-! ## `inside`, `interp`, `emit` -/

theorem inside_true_iff (c t : α) : inside c true t = true ↔ c ≤ t := by simp [inside]
theorem inside_false_iff (c t : α) : inside c false t = true ↔ t ≤ c := by simp [inside]

/-- the sign of the clip direction: `inside c dir t ↔ 0 ≤ sg dir * (t - c)` -/
def sg (dir : Bool) : α := if dir then 1 else -1

theorem sg_mul_self (dir : Bool) : (sg dir : α) * sg dir = 1 := by cases dir <;> simp [sg]

theorem inside_iff_sg (c : α) (dir : Bool) (t : α) : inside c dir t = true ↔ 0 ≤ sg dir * (t - c) := by
  cases dir <;> simp [inside, sg]

theorem not_inside_iff_sg (c : α) (dir : Bool) (t : α) :
    inside c dir t = false ↔ sg dir * (t - c) < 0 := by
  rw [← not_le, ← inside_iff_sg]; simp

theorem inside_convex (c : α) (dir : Bool) : Convex (fun x : Vtx α => inside c dir x.1 = true) := by
  cases dir
  · simpa [inside_false_iff] using convex_time_le c
  · simpa [inside_true_iff] using convex_time_ge c

/-- the interpolation parameter of `_chop` -/
def lam (c : α) (p q : Vtx α) : α := (c - p.1) / (q.1 - p.1)

theorem interp_eq_cmb (c : α) (p q : Vtx α) (h : p.1 ≠ q.1) : interp c p q = cmb (lam c p q) p q := by
  have hne : q.1 - p.1 ≠ 0 := sub_ne_zero.2 (Ne.symm h)
  simp only [interp, cmb, lam, Prod.mk.injEq]
  constructor
  · field_simp
    ring
  · split
    · rename_i he
      simp only [Bool.and_eq_true, decide_eq_true_eq] at he
      have : p.2 = q.2 := le_antisymm he.1 he.2
      rw [← this]; ring
    · rfl

theorem interp_fst (c : α) (p q : Vtx α) : (interp c p q).1 = c := rfl

/-- one endpoint inside and the other outside: the times differ and the parameter is in `[0,1]` -/
theorem lam_bounds {c : α} {dir : Bool} {p q : Vtx α} (h : inside c dir p.1 ≠ inside c dir q.1) :
    p.1 ≠ q.1 ∧ 0 ≤ lam c p q ∧ lam c p q ≤ 1 := by
  have hne : p.1 ≠ q.1 := fun e => h (by rw [e])
  refine ⟨hne, ?_⟩
  unfold lam
  cases hp : inside c dir p.1 <;> cases hq : inside c dir q.1 <;> simp only [hp, hq, ne_eq, not_true] at h
  · -- p outside, q inside
    rw [not_inside_iff_sg] at hp; rw [inside_iff_sg] at hq
    cases dir
    · simp only [sg, Bool.false_eq_true, if_false] at hp hq
      have hd : q.1 - p.1 < 0 := by linarith
      constructor
      · exact div_nonneg_of_nonpos (by linarith) hd.le
      · rw [div_le_one_of_neg hd]; linarith
    · simp only [sg, if_true] at hp hq
      have hd : 0 < q.1 - p.1 := by linarith
      constructor
      · exact div_nonneg (by linarith) hd.le
      · rw [div_le_one hd]; linarith
  · -- p inside, q outside
    rw [inside_iff_sg] at hp; rw [not_inside_iff_sg] at hq
    cases dir
    · simp only [sg, Bool.false_eq_true, if_false] at hp hq
      have hd : 0 < q.1 - p.1 := by linarith
      constructor
      · exact div_nonneg (by linarith) hd.le
      · rw [div_le_one hd]; linarith
    · simp only [sg, if_true] at hp hq
      have hd : q.1 - p.1 < 0 := by linarith
      constructor
      · exact div_nonneg_of_nonpos (by linarith) hd.le
      · rw [div_le_one_of_neg hd]; linarith

theorem mem_emit {c : α} {dir : Bool} {p q v : Vtx α} (h : v ∈ emit c dir p q) :
    (v = p ∧ inside c dir p.1 = true) ∨
    (inside c dir p.1 ≠ inside c dir q.1 ∧ v = interp c p q) := by
  unfold emit at h
  rcases List.mem_append.1 h with h | h
  · left
    by_cases hp : inside c dir p.1 = true
    · simp only [hp, if_true, List.mem_singleton] at h; exact ⟨h, hp⟩
    · simp [hp] at h
  · right
    by_cases hd : (inside c dir p.1 != inside c dir q.1) = true
    · simp only [hd, if_true, List.mem_singleton] at h
      exact ⟨by simpa using hd, h⟩
    · simp [hd] at h

theorem mem_clipPath {c : α} {dir : Bool} {v : Vtx α} : ∀ {l : List (Vtx α)}, v ∈ clipPath c dir l →
    ∃ e ∈ pathPairs l, v ∈ emit c dir e.1 e.2
  | [], h => by simp [clipPath] at h
  | [_], h => by simp [clipPath] at h
  | p :: q :: l, h => by
      simp only [clipPath, List.mem_append] at h
      rcases h with h | h
      · exact ⟨(p, q), by simp [pathPairs_cons_cons], h⟩
      · obtain ⟨e, he, hv⟩ := mem_clipPath h
        exact ⟨e, by rw [pathPairs_cons_cons]; exact List.mem_cons_of_mem _ he, hv⟩

theorem mem_clipPath_of {c : α} {dir : Bool} {v : Vtx α} : ∀ {l : List (Vtx α)} {e : Vtx α × Vtx α},
    e ∈ pathPairs l → v ∈ emit c dir e.1 e.2 → v ∈ clipPath c dir l
  | [], _, h, _ => by simp [pathPairs] at h
  | [_], _, h, _ => by simp [pathPairs] at h
  | p :: q :: l, e, h, hv => by
      rw [pathPairs_cons_cons, List.mem_cons] at h
      simp only [clipPath, List.mem_append]
      rcases h with rfl | h
      · exact Or.inl hv
      · exact Or.inr (mem_clipPath_of h hv)

theorem chopStep_eq_some {c : α} {dir : Bool} {poly out : Poly α} (h : chopStep c dir poly = some out) :
    out = clipPath c dir (poly ++ poly.take 1) ∧ out ≠ [] := by
  unfold chopStep at h
  by_cases he : (clipPath c dir (poly ++ poly.take 1)).isEmpty = true
  · simp [he] at h
  · simp only [he] at h
    have : out = clipPath c dir (poly ++ poly.take 1) := by simpa using h.symm
    subst this
    exact ⟨rfl, by simpa using he⟩

/-- what `_chop` can output: a kept inside vertex, or a point on the line `t = c` of a cyclic edge
with one endpoint inside and one outside, at parameter `lam ∈ [0,1]` -/
theorem mem_chopStep {c : α} {dir : Bool} {poly out : Poly α} (h : chopStep c dir poly = some out)
    {v : Vtx α} (hv : v ∈ out) :
    (v ∈ poly ∧ inside c dir v.1 = true) ∨
    ∃ e ∈ cycPairs poly, inside c dir e.1.1 ≠ inside c dir e.2.1 ∧
      v = cmb (lam c e.1 e.2) e.1 e.2 ∧ v.1 = c ∧ 0 ≤ lam c e.1 e.2 ∧ lam c e.1 e.2 ≤ 1 := by
  obtain ⟨rfl, _⟩ := chopStep_eq_some h
  obtain ⟨e, he, hve⟩ := mem_clipPath hv
  rcases mem_emit hve with ⟨rfl, hin⟩ | ⟨hd, rfl⟩
  · exact Or.inl ⟨(mem_of_mem_cycPairs he).1, hin⟩
  · obtain ⟨hne, h0, h1⟩ := lam_bounds hd
    exact Or.inr ⟨e, he, hd, interp_eq_cmb c _ _ hne, rfl, h0, h1⟩

theorem inside_of_fst_eq (c : α) (dir : Bool) : inside c dir c = true := by
  cases dir <;> simp [inside]

/-- every output vertex of `_chop` is in the hull of the input and on the inner side -/
theorem chopStep_hull_inside {c : α} {dir : Bool} {poly out : Poly α}
    (h : chopStep c dir poly = some out) {v : Vtx α} (hv : v ∈ out) :
    Hull poly v ∧ inside c dir v.1 = true := by
  rcases mem_chopStep h hv with ⟨hm, hin⟩ | ⟨e, he, _, rfl, hc, h0, h1⟩
  · exact ⟨Hull.vertex hm, hin⟩
  · have hm := mem_of_mem_cycPairs he
    refine ⟨Hull.seg (Hull.vertex hm.1) (Hull.vertex hm.2) h0 h1, ?_⟩
    rw [hc]; exact inside_of_fst_eq c dir

/-- an inside vertex of the input is kept -/
theorem mem_chopStep_of_inside {c : α} {dir : Bool} {poly out : Poly α}
    (h : chopStep c dir poly = some out) {v : Vtx α} (hv : v ∈ poly) (hin : inside c dir v.1 = true) :
    v ∈ out := by
  obtain ⟨rfl, _⟩ := chopStep_eq_some h
  obtain ⟨q, hq⟩ := exists_cyc_succ hv
  refine mem_clipPath_of hq ?_
  simp [emit, hin]

/-- `_chop` returns a subframe as soon as one input vertex is inside -/
theorem chopStep_isSome_of_inside {c : α} {dir : Bool} {poly : Poly α} {v : Vtx α} (hv : v ∈ poly)
    (hin : inside c dir v.1 = true) : ∃ out, chopStep c dir poly = some out := by
  unfold chopStep
  obtain ⟨q, hq⟩ := exists_cyc_succ hv
  have : v ∈ clipPath c dir (poly ++ poly.take 1) := mem_clipPath_of hq (by simp [emit, hin])
  have hne : (clipPath c dir (poly ++ poly.take 1)).isEmpty = false := by
    cases hcp : clipPath c dir (poly ++ poly.take 1) with
    | nil => rw [hcp] at this; simp at this
    | cons _ _ => rfl
  simp [hne]

end ScnVerif.Cascade
