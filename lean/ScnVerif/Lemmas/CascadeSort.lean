import ScnVerif.Lemmas.CascadeSpec
import Mathlib.Data.List.Perm.Basic
import Mathlib.Data.List.Nodup
/-!
# `sorted(choppers, key=distance)` and the loop of `FrameSequence.chop`
-/
set_option linter.unusedSectionVars false
namespace ScnVerif.Cascade
variable {α : Type} [Field α] [LinearOrder α] [IsStrictOrderedRing α]

theorem insertByDist_perm (c : Chopper α) : ∀ l : List (Chopper α), (insertByDist c l).Perm (c :: l)
  | [] => List.Perm.refl _
  | b :: l => by
      unfold insertByDist
      split
      · exact ((insertByDist_perm c l).cons b).trans (List.Perm.swap c b l)
      · exact List.Perm.refl _

theorem sortByDist_perm : ∀ l : List (Chopper α), (sortByDist l).Perm l
  | [] => List.Perm.refl _
  | c :: l => (insertByDist_perm c (sortByDist l)).trans ((sortByDist_perm l).cons c)

theorem insertByDist_sorted (c : Chopper α) : ∀ l : List (Chopper α),
    l.Pairwise (fun a b => a.dist ≤ b.dist) → (insertByDist c l).Pairwise (fun a b => a.dist ≤ b.dist)
  | [], _ => by simp [insertByDist]
  | b :: l, h => by
      unfold insertByDist
      rw [List.pairwise_cons] at h
      split
      · rename_i hlt
        rw [List.pairwise_cons]
        refine ⟨?_, insertByDist_sorted c l h.2⟩
        intro x hx
        rcases List.mem_cons.1 ((insertByDist_perm c l).mem_iff.1 hx) with rfl | hx
        · exact hlt.le
        · exact h.1 x hx
      · rename_i hnlt
        have hcb : c.dist ≤ b.dist := not_lt.1 hnlt
        rw [List.pairwise_cons]
        refine ⟨?_, List.pairwise_cons.2 h⟩
        intro x hx
        rcases List.mem_cons.1 hx with rfl | hx
        · exact hcb
        · exact hcb.trans (h.1 x hx)

theorem sortByDist_sorted : ∀ l : List (Chopper α), (sortByDist l).Pairwise (fun a b => a.dist ≤ b.dist)
  | [] => List.Pairwise.nil
  | c :: l => insertByDist_sorted c _ (sortByDist_sorted l)

theorem sortByDist_eq_of_perm {cs cs' : List (Chopper α)} (h : cs.Perm cs')
    (hnd : (cs.map (·.dist)).Nodup) : sortByDist cs = sortByDist cs' := by
  have hp : (sortByDist cs).Perm (sortByDist cs') :=
    (sortByDist_perm cs).trans (h.trans (sortByDist_perm cs').symm)
  refine List.Perm.eq_of_pairwise ?_ (sortByDist_sorted cs) (sortByDist_sorted cs') hp
  intro a b ha hb hab hba
  have ha' : a ∈ cs := (sortByDist_perm cs).mem_iff.1 ha
  have hb' : b ∈ cs := h.mem_iff.2 ((sortByDist_perm cs').mem_iff.1 hb)
  exact List.inj_on_of_nodup_map hnd ha' hb' (le_antisymm hab hba)

end ScnVerif.Cascade
