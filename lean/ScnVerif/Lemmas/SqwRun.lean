import ScnVerif.Lemmas.SqwCreate
/-! From the inputs of a builder program to the hypotheses of `decode_create`. -/
namespace ScnVerif.Sqw

theorem minBy_mem (lt : Lt) (acc : Nat) (xs : List Nat) : minBy lt acc xs ∈ acc :: xs := by
  induction xs generalizing acc with
  | nil => simp [minBy]
  | cons x xs ih =>
    unfold minBy
    have := ih (if lt x acc then x else acc)
    rcases List.mem_cons.mp this with h | h
    · rw [h]; split <;> simp
    · simp [h]

theorem maxBy_mem (lt : Lt) (acc : Nat) (xs : List Nat) : maxBy lt acc xs ∈ acc :: xs := by
  induction xs generalizing acc with
  | nil => simp [maxBy]
  | cons x xs ih =>
    unfold maxBy
    have := ih (if lt acc x then x else acc)
    rcases List.mem_cons.mp this with h | h
    · rw [h]; split <;> simp
    · simp [h]

def PixRow.Ok (r : PixRow) : Prop := r.emptyLo < 2 ^ 64 ∧ r.emptyHi < 2 ^ 64 ∧ ∀ v ∈ r.vals, v < 2 ^ 64

theorem rowRange_lt (lt : Lt) (r : PixRow) (h : r.Ok) : (rowRange lt r).1 < 2 ^ 64 ∧ (rowRange lt r).2 < 2 ^ 64 := by
  unfold rowRange
  cases hv : r.vals with
  | nil => exact ⟨h.1, h.2.1⟩
  | cons x xs =>
    have hall := h.2.2
    rw [hv] at hall
    exact ⟨hall _ (minBy_mem lt x xs), hall _ (maxBy_mem lt x xs)⟩

/-- the arguments of one builder call fit the format -/
def Op.Ok : Op → Prop
  | .addPixelData rows exps nd =>
      (∀ r ∈ rows, r.Ok) ∧ rows.length < 2 ^ 32 ∧ nPixels rows < 2 ^ 53 ∧ (∀ e ∈ exps, e.Ok) ∧
      exps.length < 2 ^ 32 ∧ nd < 2 ^ 32
  | .addDefaultInstrument i => i.Ok
  | .addDefaultSample s => s.Ok
  | .addEmptyDndData d => d.Ok ∧ ∀ n ∈ d.axes.nBins, n < 2 ^ 32
  | .addEmptyDetectorParams => True

theorem Block.Ok_congr (b b' : Builder) (st : Stamps) (blk : Block) (h1 : b'.filename = b.filename)
    (h2 : b'.filepath = b.filepath) : blk.Ok b' st ↔ blk.Ok b st := by
  cases blk <;> simp [Block.Ok, h1, h2]

/-- invariant of the builder state under calls with good arguments -/
structure StateOk (b : Builder) (st : Stamps) : Prop where
  blocks : ∀ kv ∈ b.dataBlocks, kv.2.Ok b st
  nfiles : ∀ kv ∈ b.dataBlocks, ∀ h, kv.2 = .mainHeader h → h.nfiles < 2 ^ 32
  noPrepared : ∀ kv ∈ b.dataBlocks, (∀ i n, kv.2 ≠ .instruments i n) ∧ (∀ s n, kv.2 ≠ .samples s n)
  nDims : b.nDims < 2 ^ 32
  instrument : ∀ i, b.instrument = some i → i.Ok
  sample : ∀ s, b.sample = some s → s.Ok
  dnd : ∀ shape, b.dnd = some shape → shape.length < 2 ^ 32 ∧ ∀ d ∈ shape, d < 2 ^ 32
  pix : ∀ rows, b.pix = some rows → rows.length < 2 ^ 32 ∧ nPixels rows < 2 ^ 64
  full : StrOk b.fullFilename
  fname : StrOk b.filename
  fpath : StrOk b.filepath
  stampDnd : StrOk st.dnd
  stampMain : StrOk st.main

theorem stateOk_init (o : Order) (full fp fn title : Str) (st : Stamps) (h1 : StrOk full) (h2 : StrOk fp)
    (h3 : StrOk fn) (h4 : StrOk title) (h5 : StrOk st.main) (h6 : StrOk st.dnd) :
    StateOk (Builder.init o full fp fn title) st := by
  refine ⟨?_, ?_, ?_, by simp [Builder.init], by simp [Builder.init], by simp [Builder.init],
    by simp [Builder.init], by simp [Builder.init], h1, h3, h2, h6, h5⟩
  · intro kv hkv
    simp [Builder.init] at hkv; subst hkv
    exact ⟨h1, h4, by show 0 < 2 ^ 53; omega, h5⟩
  · intro kv hkv h hh
    simp [Builder.init] at hkv; subst hkv
    simp at hh; subst hh; show 0 < 2 ^ 32; omega
  · intro kv hkv
    simp [Builder.init] at hkv; subst hkv
    simp

theorem mem_setNfiles (n : Nat) (l : List (BlockName × Block)) (kv : BlockName × Block)
    (h : kv ∈ setNfiles n l) :
    kv ∈ l ∨ ∃ k hd, (k, Block.mainHeader hd) ∈ l ∧ kv = (k, .mainHeader { hd with nfiles := n }) := by
  induction l with
  | nil => simp [setNfiles] at h
  | cons x rest ih =>
    obtain ⟨k, blk⟩ := x
    cases blk with
    | mainHeader hd =>
      simp only [setNfiles, List.mem_cons] at h
      rcases h with h | h
      · exact Or.inr ⟨k, hd, by simp, h⟩
      · rcases ih h with h' | ⟨k', hd', hm, he⟩
        · exact Or.inl (List.mem_cons_of_mem _ h')
        · exact Or.inr ⟨k', hd', List.mem_cons_of_mem _ hm, he⟩
    | _ =>
      simp only [setNfiles, List.mem_cons] at h
      rcases h with h | h
      · exact Or.inl (by simp [h])
      · rcases ih h with h' | ⟨k', hd', hm, he⟩
        · exact Or.inl (List.mem_cons_of_mem _ h')
        · exact Or.inr ⟨k', hd', List.mem_cons_of_mem _ hm, he⟩

theorem stateOk_step (lt : Lt) (b : Builder) (st : Stamps) (op : Op) (h : StateOk b st) (hop : op.Ok) :
    StateOk (step lt b op) st := by
  cases op with
  | addDefaultInstrument i =>
    refine { h with instrument := ?_, blocks := ?_ }
    · intro kv hkv; exact (Block.Ok_congr b _ st kv.2 rfl rfl).mpr (h.blocks kv hkv)
    · intro i' hi'; simp [step] at hi'; subst hi'; exact hop
  | addDefaultSample s =>
    refine { h with sample := ?_, blocks := ?_ }
    · intro kv hkv; exact (Block.Ok_congr b _ st kv.2 rfl rfl).mpr (h.blocks kv hkv)
    · intro s' hs'; simp [step] at hs'; subst hs'; exact hop
  | addEmptyDetectorParams =>
    refine { h with blocks := ?_, nfiles := ?_, noPrepared := ?_ }
    · intro kv hkv
      rcases mem_dictSet _ _ _ _ hkv with rfl | hkv'
      · trivial
      · exact (Block.Ok_congr b _ st kv.2 rfl rfl).mpr (h.blocks kv hkv')
    · intro kv hkv hd hh
      rcases mem_dictSet _ _ _ _ hkv with rfl | hkv'
      · simp at hh
      · exact h.nfiles kv hkv' hd hh
    · intro kv hkv
      rcases mem_dictSet _ _ _ _ hkv with rfl | hkv'
      · simp
      · exact h.noPrepared kv hkv'
  | addEmptyDndData d =>
    refine { h with blocks := ?_, nfiles := ?_, noPrepared := ?_, dnd := ?_ }
    · intro kv hkv
      rcases mem_dictSet _ _ _ _ hkv with rfl | hkv'
      · exact ⟨hop.1, h.fname, h.fpath, h.stampDnd⟩
      · exact (Block.Ok_congr b _ st kv.2 rfl rfl).mpr (h.blocks kv hkv')
    · intro kv hkv hd hh
      rcases mem_dictSet _ _ _ _ hkv with rfl | hkv'
      · simp at hh
      · exact h.nfiles kv hkv' hd hh
    · intro kv hkv
      rcases mem_dictSet _ _ _ _ hkv with rfl | hkv'
      · simp
      · exact h.noPrepared kv hkv'
    · intro shape hs
      simp [step] at hs; subst hs
      exact ⟨hop.1.1.2.2.2.2.1.2, hop.2⟩
  | addPixelData rows exps nd =>
    obtain ⟨hrows, hrl, hnp, hexps, hel, hnd⟩ := hop
    have hmeta : (PixMeta.mk b.fullFilename (nPixels rows) (rows.map (rowRange lt))).Ok := by
      refine ⟨h.full, hnp, ?_, by simpa using hrl⟩
      intro p hp
      simp only [List.mem_map] at hp
      obtain ⟨r, hr, rfl⟩ := hp
      exact rowRange_lt lt r (hrows r hr)
    -- members of the new dict
    have hmem : ∀ kv ∈ (step lt b (.addPixelData rows exps nd)).dataBlocks,
        kv.2 = .expdata exps ∨ kv.2 = .pixMeta ⟨b.fullFilename, nPixels rows, rows.map (rowRange lt)⟩ ∨
        kv ∈ b.dataBlocks ∨ ∃ k hd, (k, Block.mainHeader hd) ∈ b.dataBlocks ∧
          kv = (k, .mainHeader { hd with nfiles := exps.length }) := by
      intro kv hkv
      simp only [step] at hkv
      rcases mem_setNfiles _ _ _ hkv with hkv | ⟨k, hd, hm, he⟩
      · rcases mem_dictSet _ _ _ _ hkv with rfl | hkv
        · exact Or.inr (Or.inl rfl)
        · rcases mem_dictSet _ _ _ _ hkv with rfl | hkv
          · exact Or.inl rfl
          · exact Or.inr (Or.inr (Or.inl hkv))
      · rcases mem_dictSet _ _ _ _ hm with hm | hm
        · simp at hm
        · rcases mem_dictSet _ _ _ _ hm with hm | hm
          · simp at hm
          · exact Or.inr (Or.inr (Or.inr ⟨k, hd, hm, he⟩))
    refine { h with blocks := ?_, nfiles := ?_, noPrepared := ?_, nDims := hnd, pix := ?_ }
    · intro kv hkv
      rcases hmem kv hkv with he | he | he | ⟨k, hd, hm, rfl⟩
      · rw [he]; exact ⟨hexps, hel⟩
      · rw [he]; exact hmeta
      · exact (Block.Ok_congr b _ st kv.2 rfl rfl).mpr (h.blocks kv he)
      · have := h.blocks _ hm
        exact ⟨this.1, this.2.1, by show exps.length < 2 ^ 53; omega, this.2.2.2⟩
    · intro kv hkv hd hh
      rcases hmem kv hkv with he | he | he | ⟨k, hd', hm, rfl⟩
      · rw [he] at hh; simp at hh
      · rw [he] at hh; simp at hh
      · exact h.nfiles kv he hd hh
      · simp at hh; subst hh; exact hel
    · intro kv hkv
      rcases hmem kv hkv with he | he | he | ⟨k, hd', hm, rfl⟩
      · rw [he]; simp
      · rw [he]; simp
      · exact h.noPrepared kv he
      · simp
    · intro rows' hr
      simp [step] at hr; subst hr
      exact ⟨hrl, by have : (2:Nat) ^ 53 ≤ 2 ^ 64 := Nat.pow_le_pow_right (by omega) (by omega); omega⟩

theorem stateOk_run (lt : Lt) (b : Builder) (st : Stamps) (ops : List Op) (h : StateOk b st)
    (hops : ∀ op ∈ ops, op.Ok) : StateOk (run lt b ops) st := by
  induction ops generalizing b with
  | nil => exact h
  | cons op ops ih =>
    exact ih (step lt b op) (stateOk_step lt b st op h (hops op (by simp))) (fun x hx => hops x (by simp [hx]))

theorem nfilesOf_lt (l : List (BlockName × Block))
    (h : ∀ kv ∈ l, ∀ hd, kv.2 = .mainHeader hd → hd.nfiles < 2 ^ 32) : nfilesOf l < 2 ^ 32 := by
  induction l with
  | nil => show 0 < 2 ^ 32; omega
  | cons x rest ih =>
    obtain ⟨k, blk⟩ := x
    cases blk with
    | mainHeader hd => exact h (k, .mainHeader hd) (by simp) hd rfl
    | _ => exact ih (fun kv hkv => h kv (by simp [hkv]))

theorem regularKeys_short : ∀ k ∈ regularKeys, k.1.length < 2 ^ 32 ∧ k.2.length < 2 ^ 32 := by
  decide +kernel

/-- the hypotheses of `decode_create` hold for a state reached by calls with good arguments -/
theorem createOk_of_stateOk (order : List BlockName) (ho : OrderOk order) (b : Builder) (st : Stamps)
    (round : Nat → Nat) (chunk : Nat) (hinv : Inv b) (h : StateOk b st) (hc : 1 ≤ chunk)
    (hr : ∀ v, round v < 2 ^ 32) (hsize : (create order b st round chunk).length < 2 ^ 32) :
    CreateOk order b st round chunk := by
  refine ⟨hc, h.nDims, ?_, h.dnd, h.pix, hr, hsize⟩
  intro kv hkv
  rw [prepareBlocks_canon order ho b hinv] at hkv
  have hmem := mem_of_mem_canonHead order _ kv hkv
  have hkey : kv.1 ∈ keys (preparedDict b) := List.mem_map_of_mem (f := (·.1)) hmem
  have hshort := regularKeys_short kv.1 (keys_preparedDict_regular b hinv kv.1 hkey)
  refine ⟨?_, hshort⟩
  have hn := nfilesOf_lt b.dataBlocks h.nfiles
  unfold preparedDict at hmem
  cases hi : b.instrument with
  | none =>
    cases hs : b.sample with
    | none => simp only [hi, hs] at hmem; exact h.blocks kv hmem
    | some s =>
      simp only [hi, hs] at hmem
      rcases mem_dictSet _ _ _ _ hmem with rfl | hm
      · exact ⟨h.sample s hs, hn⟩
      · exact h.blocks kv hm
  | some i =>
    cases hs : b.sample with
    | none =>
      simp only [hi, hs] at hmem
      rcases mem_dictSet _ _ _ _ hmem with rfl | hm
      · exact ⟨h.instrument i hi, hn⟩
      · exact h.blocks kv hm
    | some s =>
      simp only [hi, hs] at hmem
      rcases mem_dictSet _ _ _ _ hmem with rfl | hm
      · exact ⟨h.sample s hs, hn⟩
      · rcases mem_dictSet _ _ _ _ hm with rfl | hm
        · exact ⟨h.instrument i hi, hn⟩
        · exact h.blocks kv hm

end ScnVerif.Sqw
