import ScnVerif.Model.Cascade
import Mathlib.Tactic.Ring
import Mathlib.Tactic.FieldSimp
import Mathlib.Tactic.Linarith
import Mathlib.Algebra.Order.Field.Basic
import Mathlib.Data.List.Basic
/-!
# Helper definitions and lemmas for C11 (chopper cascade)

Geometry of `_chop` over a linearly ordered field: convex combinations, hull, orientation
(`cross`), the structure of consecutive pairs of `clipPath`.
-/
set_option linter.unusedSectionVars false
namespace ScnVerif.Cascade

/-! ## consecutive pairs -/
section Pairs
variable {β : Type}

theorem pathPairs_cons_cons (a b : β) (l : List β) :
    pathPairs (a :: b :: l) = (a, b) :: pathPairs (b :: l) := rfl

theorem mem_pathPairs_append {e : β × β} : ∀ (A B : List β),
    e ∈ pathPairs (A ++ B) ↔
      e ∈ pathPairs A ∨ e ∈ pathPairs B ∨ ∃ a b, A.getLast? = some a ∧ B.head? = some b ∧ e = (a, b)
  | [], B => by simp [pathPairs]
  | [a], [] => by simp [pathPairs]
  | [a], b :: B => by
      simp only [List.singleton_append, pathPairs_cons_cons, List.mem_cons, pathPairs]
      simp [or_comm]
  | a :: a' :: A, B => by
      have ih := mem_pathPairs_append (e := e) (a' :: A) B
      simp only [List.cons_append, pathPairs_cons_cons, List.mem_cons] at ih ⊢
      rw [ih]
      simp only [List.getLast?_cons_cons]
      tauto

theorem mem_of_mem_pathPairs {e : β × β} : ∀ {l : List β}, e ∈ pathPairs l → e.1 ∈ l ∧ e.2 ∈ l
  | [], h => by simp [pathPairs] at h
  | [_], h => by simp [pathPairs] at h
  | a :: b :: l, h => by
      rw [pathPairs_cons_cons, List.mem_cons] at h
      rcases h with rfl | h
      · simp
      · have := mem_of_mem_pathPairs h
        exact ⟨List.mem_cons_of_mem _ this.1, List.mem_cons_of_mem _ this.2⟩

theorem pathPairs_map {γ : Type} (f : β → γ) : ∀ l : List β,
    pathPairs (l.map f) = (pathPairs l).map (fun e => (f e.1, f e.2))
  | [] => rfl
  | [_] => rfl
  | a :: b :: l => by
      simp only [List.map_cons, pathPairs_cons_cons, List.cons.injEq, true_and]
      exact pathPairs_map f (b :: l)

theorem cycPairs_map {γ : Type} (f : β → γ) (l : List β) :
    cycPairs (l.map f) = (cycPairs l).map (fun e => (f e.1, f e.2)) := by
  unfold cycPairs
  rw [← List.map_take, ← List.map_append, pathPairs_map]

theorem mem_of_mem_cycPairs {e : β × β} {l : List β} (h : e ∈ cycPairs l) : e.1 ∈ l ∧ e.2 ∈ l := by
  have := mem_of_mem_pathPairs h
  have ht : ∀ x, x ∈ l ++ l.take 1 → x ∈ l := by
    intro x hx
    rcases List.mem_append.1 hx with h | h
    · exact h
    · exact List.mem_of_mem_take h
  exact ⟨ht _ this.1, ht _ this.2⟩

/-- the cyclic pairs are the consecutive pairs of the list written twice -/
theorem mem_cycPairs_iff {e : β × β} (l : List β) : e ∈ cycPairs l ↔ e ∈ pathPairs (l ++ l) := by
  unfold cycPairs
  cases l with
  | nil => simp [pathPairs]
  | cons a t =>
    rw [mem_pathPairs_append, mem_pathPairs_append]
    simp only [List.take_succ_cons, List.take_zero, List.head?_cons]
    constructor
    · rintro (h | h | h)
      · exact Or.inl h
      · simp [pathPairs] at h
      · exact Or.inr (Or.inr h)
    · rintro (h | h | h)
      · exact Or.inl h
      · exact Or.inl h
      · exact Or.inr (Or.inr h)

/-- every element of a list has a cyclic successor -/
theorem exists_cyc_succ {l : List β} {v : β} (hv : v ∈ l) : ∃ q, (v, q) ∈ cycPairs l := by
  obtain ⟨A, B, rfl⟩ := List.append_of_mem hv
  cases B with
  | nil =>
    cases A with
    | nil => exact ⟨v, by simp [cycPairs, pathPairs]⟩
    | cons a A =>
      refine ⟨a, ?_⟩
      unfold cycPairs
      rw [mem_pathPairs_append]
      refine Or.inr (Or.inr ⟨v, a, ?_, ?_, rfl⟩)
      · have : a :: (A ++ [v]) = (a :: A) ++ [v] := rfl
        simp only [List.cons_append]
        rw [this, List.getLast?_concat]
      · simp
  | cons b B =>
    refine ⟨b, ?_⟩
    unfold cycPairs
    rw [mem_pathPairs_append]
    refine Or.inl ?_
    rw [mem_pathPairs_append]
    refine Or.inr (Or.inl ?_)
    simp [pathPairs_cons_cons]

/-- along a path that starts at an element where `f` is false and contains one where it is true,
some consecutive pair switches from false to true -/
theorem path_switch (f : β → Bool) : ∀ (u : β) (l : List β), f u = false → (∃ v ∈ u :: l, f v = true) →
    ∃ e ∈ pathPairs (u :: l), f e.1 = false ∧ f e.2 = true
  | u, [], hu, ⟨v, hv, hfv⟩ => by
      simp only [List.mem_singleton] at hv
      subst hv; rw [hu] at hfv; cases hfv
  | u, q :: l, hu, ⟨v, hv, hfv⟩ => by
      by_cases hq : f q = true
      · exact ⟨(u, q), by simp [pathPairs_cons_cons], hu, hq⟩
      · have hq' : f q = false := by simpa using hq
        have hv' : v ∈ q :: l := by
          rcases List.mem_cons.1 hv with rfl | h
          · rw [hu] at hfv; cases hfv
          · exact h
        obtain ⟨e, he, h1, h2⟩ := path_switch f q l hq' ⟨v, hv', hfv⟩
        exact ⟨e, by rw [pathPairs_cons_cons]; exact List.mem_cons_of_mem _ he, h1, h2⟩

/-- in a cycle containing an element where `f` is false and one where it is true, some cyclic
pair switches from false to true -/
theorem cyc_switch (f : β → Bool) {l : List β} {a b : β} (ha : a ∈ l) (hb : b ∈ l)
    (hfa : f a = false) (hfb : f b = true) : ∃ e ∈ cycPairs l, f e.1 = false ∧ f e.2 = true := by
  obtain ⟨A, B, rfl⟩ := List.append_of_mem ha
  -- the path a :: B ++ (A ++ a :: B) contains b
  have hb' : b ∈ a :: (B ++ (A ++ a :: B)) := by
    simp only [List.mem_append, List.mem_cons] at hb ⊢
    tauto
  obtain ⟨e, he, h1, h2⟩ := path_switch f a (B ++ (A ++ a :: B)) hfa ⟨b, hb', hfb⟩
  refine ⟨e, ?_, h1, h2⟩
  rw [mem_cycPairs_iff]
  have : (A ++ a :: B) ++ (A ++ a :: B) = A ++ (a :: (B ++ (A ++ a :: B))) := by simp
  rw [this, mem_pathPairs_append]
  exact Or.inr (Or.inl he)

end Pairs

end ScnVerif.Cascade
