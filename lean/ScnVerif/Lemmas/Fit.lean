import ScnVerif.Model.Fit
import Mathlib.Data.List.Forall2
import Mathlib.Tactic.SplitIfs
import Mathlib.Tactic.Linarith
import Mathlib.Tactic.Ring
import Mathlib.Algebra.Order.Field.Basic
/-! helper lemmas for `Props/C17.lean` (windows) -/
set_option linter.unusedSectionVars false
namespace ScnVerif.Lemmas.Fit
open ScnVerif ScnVerif.Fit

section Windows
variable {α : Type} [Field α] [LinearOrder α] [IsStrictOrderedRing α]

theorem clip1_mem {dmin dmax : α} (h : dmin ≤ dmax) (w : α) :
    dmin ≤ clip1 dmin dmax w ∧ clip1 dmin dmax w ≤ dmax := by
  simp only [clip1]
  by_cases h1 : w < dmin <;> simp only [h1, if_true, if_false] <;> split_ifs <;> constructor <;> linarith

theorem clip1_le_of_le {dmin dmax w c : α} (hw : w ≤ c) (hc : dmin ≤ c) : clip1 dmin dmax w ≤ c := by
  simp only [clip1]
  by_cases h1 : w < dmin <;> simp only [h1, if_true, if_false] <;> split_ifs <;> linarith

theorem le_clip1_of_le {dmin dmax w c : α} (hw : c ≤ w) (hc : c ≤ dmax) : c ≤ clip1 dmin dmax w := by
  simp only [clip1]
  by_cases h1 : w < dmin <;> simp only [h1, if_true, if_false] <;> split_ifs <;> linarith

theorem sepLo_ge_lo (f : α) (prev : Option α) (c lo : α) : lo ≤ sepLo f prev c lo := by
  cases prev with
  | none => simp [sepLo]
  | some l => simp only [sepLo]; split_ifs <;> linarith

theorem sepLo_ge_bound (f l c lo : α) : l + (c - l) * f ≤ sepLo f (some l) c lo := by
  simp only [sepLo]; split_ifs <;> linarith

theorem sepLo_le {f c lo : α} {prev : Option α} (hlo : lo ≤ c) (hp : ∀ l, prev = some l → l + (c - l) * f ≤ c) :
    sepLo f prev c lo ≤ c := by
  cases prev with
  | none => simpa [sepLo] using hlo
  | some l => simp only [sepLo]; have := hp l rfl; split_ifs <;> linarith

theorem sepHi_le_hi (f : α) (nxt : Option α) (c hi : α) : sepHi f nxt c hi ≤ hi := by
  cases nxt with
  | none => simp [sepHi]
  | some r => simp only [sepHi]; split_ifs <;> linarith

theorem sepHi_le_bound (f r c hi : α) : sepHi f (some r) c hi ≤ r - (r - c) * f := by
  simp only [sepHi]; split_ifs <;> linarith

theorem le_sepHi {f c hi : α} {nxt : Option α} (hhi : c ≤ hi) (hp : ∀ r, nxt = some r → c ≤ r - (r - c) * f) :
    c ≤ sepHi f nxt c hi := by
  cases nxt with
  | none => simpa [sepHi] using hhi
  | some r => simp only [sepHi]; have := hp r rfl; split_ifs <;> linarith

/-- neighbour bound lies between the two estimates when `0 ≤ f ≤ 1` -/
theorem bound_between {l c f : α} (h : l ≤ c) (h0 : 0 ≤ f) (h1 : f ≤ 1) :
    l ≤ l + (c - l) * f ∧ l + (c - l) * f ≤ c := by
  have hd : 0 ≤ c - l := by linarith
  constructor
  · nlinarith [mul_nonneg hd h0]
  · nlinarith [mul_nonneg hd (sub_nonneg.mpr h1)]

theorem bound_between' {r c f : α} (h : c ≤ r) (h0 : 0 ≤ f) (h1 : f ≤ 1) :
    c ≤ r - (r - c) * f ∧ r - (r - c) * f ≤ r := by
  have hd : 0 ≤ r - c := by linarith
  constructor
  · nlinarith [mul_nonneg hd (sub_nonneg.mpr h1)]
  · nlinarith [mul_nonneg hd h0]

/-- element `i` of the separated windows -/
theorem separate_get (f : α) : ∀ (cs : List α) (prev : Option α) (ws : List (α × α)) (i : Nat),
    (separate f prev cs ws)[i]? =
      (match cs[i]?, ws[i]? with
       | some c, some w => some (sepLo f (if i = 0 then prev else cs[i - 1]?) c w.1, sepHi f cs[i + 1]? c w.2)
       | _, _ => none) := by
  intro cs
  induction cs with
  | nil => intro prev ws i; simp [separate]
  | cons c cs ih =>
    intro prev ws i
    cases ws with
    | nil => cases i <;> simp [separate]
    | cons w ws =>
      cases i with
      | zero => simp [separate, List.head?_eq_getElem?]
      | succ i =>
        simp only [separate, List.getElem?_cons_succ, ih]
        cases i with
        | zero => simp
        | succ j => simp

theorem separate_length (f : α) : ∀ (cs : List α) (prev : Option α) (ws : List (α × α)),
    cs.length = ws.length → (separate f prev cs ws).length = cs.length := by
  intro cs
  induction cs with
  | nil => intro prev ws _; simp [separate]
  | cons c cs ih =>
    intro prev ws h
    cases ws with
    | nil => simp at h
    | cons w ws => simp only [separate, List.length_cons]; rw [ih]; simpa using h

theorem isSorted_get : ∀ (cs : List α), isSorted cs = true → ∀ i a b, cs[i]? = some a → cs[i + 1]? = some b → a ≤ b := by
  intro cs
  induction cs with
  | nil => intro _ i a b h; simp at h
  | cons x xs ih =>
    intro hs i a b ha hb
    cases xs with
    | nil => simp at hb
    | cons y ys =>
      simp only [isSorted, Bool.and_eq_true, Bool.not_eq_true', decide_eq_false_iff_not, not_lt] at hs
      cases i with
      | zero => simp at ha hb; subst ha; subst hb; exact hs.1
      | succ i => exact ih hs.2 i a b (by simpa using ha) (by simpa using hb)

/-- window `i` as a closed formula, for both shapes of `_fit_windows` -/
def windowAt (V : Variant) (next : α → α) (dmin dmax width f : α) (prev : Option α) (c : α) (nxt : Option α) : α × α :=
  if V.clipFirst then
    (sepLo f prev c (clip1 dmin dmax (c - width / 2)), sepHi f nxt c (clip1 dmin dmax (next (c + width / 2))))
  else
    (clip1 dmin dmax (sepLo f prev c (c - width / 2)), clip1 dmin dmax (sepHi f nxt c (next (c + width / 2))))

theorem fitWindows_get {V : Variant} {next : α → α} {dmin dmax width f : α} {cs : List α} {ws : List (α × α)}
    (h : fitWindows V next dmin dmax cs width f = .ok ws) :
    isSorted cs = true ∧ ws.length = cs.length ∧
    ∀ i c, cs[i]? = some c →
      ws[i]? = some (windowAt V next dmin dmax width f (if i = 0 then none else cs[i - 1]?) c cs[i + 1]?) := by
  unfold fitWindows at h
  by_cases hs : isSorted cs = true
  · refine ⟨hs, ?_⟩
    cases hV : V.clipFirst
    · simp only [hV, hs, if_true, Bool.false_eq_true, if_false] at h
      injection h with h
      subst h
      refine ⟨by simp [clipAll, rawWindows, separate_length], ?_⟩
      intro i c hc
      simp [clipAll, separate_get, rawWindows, hc, windowAt, hV]
    · simp only [hV, hs, if_true] at h
      injection h with h
      subst h
      refine ⟨by simp [clipAll, rawWindows, separate_length], ?_⟩
      intro i c hc
      simp [clipAll, separate_get, rawWindows, hc, windowAt, hV]
  · cases hV : V.clipFirst <;> simp [hV, hs] at h

end Windows

section FitLoop
variable {α : Type} [Add α] [Sub α] [Mul α] [Div α] [LT α] [DecidableLT α]
  [OfNat α 0] [OfNat α 1] [OfNat α 2]

/-- what a result says, apart from the bookkeeping list of optimiser calls -/
def core (r : Result α) : Assessment × PeakKind × Nat × (α × α) × Option (Popt α) × Option (Stats α) :=
  (r.assessment, r.peak, r.degree, r.window, r.popt, r.stats)

theorem fitAll_forall₂ (V : Variant) (E : Env α) (R : Req α) (pts : List (Pt α)) (cands : List (PeakKind × Nat)) :
    ∀ (ws : List (α × α)) (rs : List (Option (Result α))), fitAll V E R pts cands ws = .ok rs →
      List.Forall₂ (fun w r => fitWindow V E R pts cands w = .ok r) ws rs := by
  intro ws
  induction ws with
  | nil => intro rs h; simp [fitAll] at h; subst h; exact List.Forall₂.nil
  | cons w ws ih =>
    intro rs h
    unfold fitAll at h
    cases hw : fitWindow V E R pts cands w with
    | error e => simp [hw] at h
    | ok r =>
      cases hrest : fitAll V E R pts cands ws with
      | error e => simp [hw, hrest] at h
      | ok rs' =>
        simp [hw, hrest] at h
        subst h
        exact List.Forall₂.cons hw (ih rs' hrest)

/-- the single-model fit always reports the window and models it was asked about -/
theorem single_fields {V : Variant} {E : Env α} {R : Req α} {pts : List (Pt α)} {w : α × α} {pk : PeakKind}
    {deg : Nat} {r : Result α} (h : fitPeakSingle V E R pts w pk deg = .ok r) :
    r.window = w ∧ r.peak = pk ∧ r.degree = deg := by
  unfold fitPeakSingle at h
  simp only at h
  split_ifs at h
  · injection h with h; subst h; simp [Fit.failure]
  · cases hfit : E.fit ⟨some pk, deg⟩ pts with
    | none => simp [hfit] at h; subst h; simp [Fit.failure]
    | some popt =>
      simp only [hfit] at h
      split at h
      · simp at h
      · injection h with h; subst h; simp

/-- the single-model fit, spelled out: the four ways it can end -/
theorem single_cases {V : Variant} {E : Env α} {R : Req α} {pts : List (Pt α)} {w : α × α} {pk : PeakKind}
    {deg : Nat} {r : Result α} (h : fitPeakSingle V E R pts w pk deg = .ok r) :
    (pts.length < (ModelId.mk (some pk) deg).nParams ∧ r = Fit.failure .windowTooNarrow pk deg w []) ∨
    (¬ pts.length < (ModelId.mk (some pk) deg).nParams ∧ E.fit ⟨some pk, deg⟩ pts = none ∧
      r = Fit.failure .failed pk deg w [⟨none, deg⟩, ⟨some pk, deg⟩]) ∨
    (¬ pts.length < (ModelId.mk (some pk) deg).nParams ∧ ∃ popt a, E.fit ⟨some pk, deg⟩ pts = some popt ∧
      assessFit V E R (pts.map (·.x)) pk popt (goodness E ⟨some pk, deg⟩ pts popt)
        ((E.fit ⟨none, deg⟩ pts).map (goodness E ⟨none, deg⟩ pts)) = .ok a ∧
      r = { assessment := a, peak := pk, degree := deg, window := w, popt := some popt,
            stats := some (goodness E ⟨some pk, deg⟩ pts popt), calls := [⟨none, deg⟩, ⟨some pk, deg⟩] }) := by
  unfold fitPeakSingle at h
  simp only at h
  split_ifs at h with h1 h2
  · injection h with h; exact Or.inl ⟨h1, h.symm⟩
  · cases hfit : E.fit ⟨some pk, deg⟩ pts with
    | none => simp [hfit] at h; exact Or.inr (Or.inl ⟨h1, rfl, h.symm⟩)
    | some popt =>
      simp only [hfit] at h
      split at h
      · simp at h
      · next a ha =>
        injection h with h
        exact Or.inr (Or.inr ⟨h1, popt, a, rfl, ha, h.symm⟩)

/-- results of the candidate loop -/
theorem loop_spec (V : Variant) (E : Env α) (R : Req α) (pts : List (Pt α)) (w : α × α) :
    ∀ (cands : List (PeakKind × Nat)) (cand : Option (Result α)) (calls : List ModelId) (res : Option (Result α)),
      fitPeakLoop V E R pts w cand calls cands = .ok res →
      (∃ pre pk deg post r0 r, cands = pre ++ (pk, deg) :: post ∧
          (∀ c ∈ pre, ∃ r', fitPeakSingle V E R pts w c.1 c.2 = .ok r' ∧ r'.success = false) ∧
          fitPeakSingle V E R pts w pk deg = .ok r0 ∧ r0.success = true ∧ res = some r ∧ core r = core r0) ∨
      ((∀ c ∈ cands, ∃ r', fitPeakSingle V E R pts w c.1 c.2 = .ok r' ∧ r'.success = false) ∧
          ((∃ c0, cand = some c0 ∧ ∃ r, res = some r ∧ core r = core c0) ∨
           (cand = none ∧ match cands with
              | [] => res = none
              | c :: _ => ∃ r0 r, fitPeakSingle V E R pts w c.1 c.2 = .ok r0 ∧ res = some r ∧ core r = core r0))) := by
  intro cands
  induction cands with
  | nil =>
    intro cand calls res h
    simp only [fitPeakLoop] at h
    injection h with h
    refine Or.inr ⟨by simp, ?_⟩
    cases cand with
    | none => right; simp at h; exact ⟨rfl, h.symm⟩
    | some c0 => left; exact ⟨c0, rfl, _, h.symm, rfl⟩
  | cons c cs ih =>
    intro cand calls res h
    obtain ⟨pk, deg⟩ := c
    simp only [fitPeakLoop] at h
    cases hs : fitPeakSingle V E R pts w pk deg with
    | error e => simp [hs] at h
    | ok r1 =>
      simp only [hs] at h
      by_cases hsucc : r1.success = true
      · simp only [hsucc, if_true] at h
        injection h with h
        exact Or.inl ⟨[], pk, deg, cs, r1, _, rfl, by simp, hs, hsucc, h.symm, rfl⟩
      · simp only [hsucc, Bool.false_eq_true, if_false] at h
        have hf : r1.success = false := by simpa using hsucc
        rcases ih _ _ _ h with ⟨pre, pk', deg', post, r0, r, hc, hpre, hs0, hs0s, hres, hcore⟩ | ⟨hall, hres⟩
        · refine Or.inl ⟨(pk, deg) :: pre, pk', deg', post, r0, r, by simp [hc], ?_, hs0, hs0s, hres, hcore⟩
          intro c hc'
          rcases List.mem_cons.mp hc' with rfl | hc'
          · exact ⟨r1, hs, hf⟩
          · exact hpre c hc'
        · refine Or.inr ⟨?_, ?_⟩
          · intro c hc'
            rcases List.mem_cons.mp hc' with rfl | hc'
            · exact ⟨r1, hs, hf⟩
            · exact hall c hc'
          · cases cand with
            | some c0 =>
              left
              rcases hres with ⟨c0', hc0, r, hr, hcore⟩ | ⟨hnone, _⟩
              · simp [Option.orElse] at hc0; subst hc0; exact ⟨c0, rfl, r, hr, hcore⟩
              · simp [Option.orElse] at hnone
            | none =>
              right
              rcases hres with ⟨c0', hc0, r, hr, hcore⟩ | ⟨hnone, _⟩
              · simp [Option.orElse] at hc0; subst hc0; exact ⟨rfl, r1, r, hs, hr, hcore⟩
              · simp [Option.orElse] at hnone

theorem candidates_ne_nil {peaks : List PeakKind} {bgs : List Nat} (hp : peaks ≠ []) (hb : bgs ≠ []) :
    candidates peaks bgs ≠ [] := by
  cases peaks with
  | nil => exact absurd rfl hp
  | cons p ps =>
    cases bgs with
    | nil => exact absurd rfl hb
    | cons b bs => simp [candidates]

/-- with at least one candidate `_fit_peak` returns the (core of the) single-model result of one of them -/
theorem fitPeak_some {V : Variant} {E : Env α} {R : Req α} {pts : List (Pt α)} {w : α × α}
    {cands : List (PeakKind × Nat)} {res : Option (Result α)} (hne : cands ≠ [])
    (h : fitPeak V E R pts w cands = .ok res) :
    ∃ r r0 pk deg, res = some r ∧ (pk, deg) ∈ cands ∧ fitPeakSingle V E R pts w pk deg = .ok r0 ∧ core r = core r0 := by
  rcases loop_spec V E R pts w cands none [] res h with
    ⟨pre, pk, deg, post, r0, r, hc, _, hs0, _, hres, hcore⟩ | ⟨_, hres⟩
  · exact ⟨r, r0, pk, deg, hres, by simp [hc], hs0, hcore⟩
  · rcases hres with ⟨c0, hc0, _⟩ | ⟨_, hm⟩
    · simp at hc0
    · cases cands with
      | nil => exact absurd rfl hne
      | cons c cs =>
        obtain ⟨r0, r, hs0, hres, hcore⟩ := hm
        exact ⟨r, r0, c.1, c.2, hres, by simp, hs0, hcore⟩

theorem narrow_loop (V : Variant) (E : Env α) (R : Req α) (pts : List (Pt α)) (w : α × α) :
    ∀ (cands : List (PeakKind × Nat)) (cand : Option (Result α)) (calls : List ModelId),
      (∀ c ∈ cands, pts.length < (ModelId.mk (some c.1) c.2).nParams) →
      fitPeakLoop V E R pts w cand calls cands =
        .ok ((cand.orElse (fun _ => cands.head?.map (fun c => Fit.failure .windowTooNarrow c.1 c.2 w []))).map
              (fun r => { r with calls := calls })) := by
  intro cands
  induction cands with
  | nil => intro cand calls _; cases cand <;> simp [fitPeakLoop, Option.orElse]
  | cons c cs ih =>
    intro cand calls hall
    obtain ⟨pk, deg⟩ := c
    have hn := hall (pk, deg) (by simp)
    have h1 : fitPeakSingle V E R pts w pk deg = .ok (Fit.failure .windowTooNarrow pk deg w []) := by
      simp only at hn; simp [fitPeakSingle, hn]
    simp only [fitPeakLoop, h1]
    have : (Fit.failure Assessment.windowTooNarrow pk deg w [] : Result α).success = false := by
      simp [Result.success, Fit.failure]
    simp only [this, Bool.false_eq_true, if_false]
    rw [ih _ _ (fun c hc => hall c (by simp [hc]))]
    cases cand <;> simp [Option.orElse, Fit.failure]

/-- what `success` means, read off the cascade -/
structure Requirements (V : Variant) (E : Env α) (R : Req α) (pts : List (Pt α)) (pk : PeakKind) (deg : Nat)
    (popt : Popt α) (st : Stats α) : Prop where
  enoughPoints : ¬ pts.length < (ModelId.mk (some pk) deg).nParams
  pValue : ¬ st.pValue < R.minP
  notNearEdge : nearEdge (pts.map (·.x)) popt.loc = false
  amplitude : ¬ popt.amplitude < 0
  notTooWide : tooWide R (pts.map (·.x)) (E.fwhm pk popt) = false
  notTooNarrow : tooNarrow V R (pts.map (·.x)) (E.fwhm pk popt) popt.loc = .ok false
  background : ∀ bpopt, E.fit ⟨none, deg⟩ pts = some bpopt → ¬ (goodness E ⟨none, deg⟩ pts bpopt).aic < st.aic

theorem assess_success {V : Variant} {E : Env α} {R : Req α} {xs : List α} {pk : PeakKind} {popt : Popt α}
    {st : Stats α} {bkg : Option (Stats α)} (h : assessFit V E R xs pk popt st bkg = .ok .success) :
    (∀ b, bkg = some b → ¬ b.aic < st.aic) ∧ ¬ st.pValue < R.minP ∧ nearEdge xs popt.loc = false ∧
      ¬ popt.amplitude < 0 ∧ tooWide R xs (E.fwhm pk popt) = false ∧
      tooNarrow V R xs (E.fwhm pk popt) popt.loc = .ok false := by
  unfold assessFit at h
  split_ifs at h with h1 h2 h3 h4 h5
  all_goals try (exact absurd h (by simp))
  refine ⟨?_, h2, by simpa using h3, h4, by simpa using h5, ?_⟩
  · intro b hb; subst hb; simpa using h1
  · split at h <;> simp_all

end FitLoop

section Remove
variable {α : Type} [Sub α] [LT α] [DecidableLT α]

theorem subRange_get (g : α → α) (b e : Nat) : ∀ (data : List (α × α)) (i j : Nat),
    (subRange g b e i data)[j]? =
      (data[j]?).map (fun p => (p.1, if b ≤ i + j ∧ i + j < e then p.2 - g p.1 else p.2)) := by
  intro data
  induction data with
  | nil => intro i j; simp [subRange]
  | cons p rest ih =>
    intro i j
    obtain ⟨x, y⟩ := p
    cases j with
    | zero => simp [subRange]
    | succ j =>
      simp only [subRange, List.getElem?_cons_succ, ih]
      have : i + 1 + j = i + (j + 1) := by omega
      simp [this]

theorem subRange_xs (g : α → α) (b e : Nat) : ∀ (data : List (α × α)) (i : Nat),
    (subRange g b e i data).map (·.1) = data.map (·.1) := by
  intro data
  induction data with
  | nil => intro i; simp [subRange]
  | cons p rest ih => intro i; obtain ⟨x, y⟩ := p; simp [subRange, ih]

/-- the value subtracted at index `j` by one result (0-ary: identity when the result is not successful or
`j` is outside its window) -/
def applyOne (E : Env α) (xs : List α) (j : Nat) (x : α) (y : α) (r : Result α) : α :=
  if r.success then
    match r.popt, sliceRange xs r.window with
    | some popt, .ok (b, e) => if b ≤ j ∧ j < e then y - E.evalPeak r.peak popt x else y
    | _, _ => y
  else y

theorem removeOne_spec {E : Env α} {data out : List (α × α)} {r : Result α}
    (h : removeOne E data r = .ok out) :
    out.map (·.1) = data.map (·.1) ∧
    ∀ (j : Nat) (p : α × α), data[j]? = some p → out[j]? = some (p.1, applyOne E (data.map (·.1)) j p.1 p.2 r) := by
  unfold removeOne at h
  by_cases hs : r.success = true
  · simp only [hs, Bool.not_true, Bool.false_eq_true, if_false] at h
    cases hp : r.popt with
    | none =>
      simp only [hp] at h; injection h with h; subst h
      refine ⟨rfl, ?_⟩
      intro j p hj; simp [applyOne, hs, hp, hj]
    | some popt =>
      simp only [hp] at h
      cases hr : sliceRange (data.map (·.1)) r.window with
      | error e => simp [hr] at h
      | ok be =>
        obtain ⟨b, e⟩ := be
        simp only [hr] at h; injection h with h; subst h
        refine ⟨subRange_xs _ _ _ _ _, ?_⟩
        intro j p hj
        simp [subRange_get, hj, applyOne, hs, hp, hr]
  · have hf : r.success = false := by simpa using hs
    simp only [hf, Bool.not_false, if_true] at h
    injection h with h; subst h
    refine ⟨rfl, ?_⟩
    intro j p hj; simp [applyOne, hf, hj]

end Remove
section NoExc
variable {α : Type} [Field α] [LinearOrder α] [IsStrictOrderedRing α]

theorem lowerIdx_mono {a b : α} (h : a ≤ b) : ∀ xs : List α, lowerIdx a xs ≤ lowerIdx b xs
  | [] => le_refl _
  | x :: xs => by
    simp only [lowerIdx]
    by_cases h1 : x < a
    · have h2 : x < b := lt_of_lt_of_le h1 h
      simp only [h1, h2, if_true]
      exact Nat.succ_le_succ (lowerIdx_mono h xs)
    · simp only [h1, if_false]; exact Nat.zero_le _

theorem tooNarrow_ok (V : Variant) (hV : V.clampIdx = true) (R : Req α) (xs : List α) (fw loc : α) :
    ∃ b, tooNarrow V R xs fw loc = .ok b := by
  simp only [tooNarrow, hV, if_true]
  exact ⟨_, rfl⟩

theorem assessFit_ok (V : Variant) (hV : V.clampIdx = true) (E : Env α) (R : Req α) (xs : List α) (pk : PeakKind)
    (popt : Popt α) (st : Stats α) (bkg : Option (Stats α)) : ∃ a, assessFit V E R xs pk popt st bkg = .ok a := by
  unfold assessFit
  split_ifs
  all_goals first | exact ⟨_, rfl⟩ | skip
  obtain ⟨b, hb⟩ := tooNarrow_ok V hV R xs (E.fwhm pk popt) popt.loc
  rw [hb]
  cases b <;> exact ⟨_, rfl⟩

theorem single_ok (V : Variant) (hV : V.clampIdx = true) (E : Env α)
    (hg : ∀ pk deg pts, E.guessOk pk deg pts = true) (R : Req α) (pts : List (Pt α)) (w : α × α)
    (pk : PeakKind) (deg : Nat) : ∃ r, fitPeakSingle V E R pts w pk deg = .ok r := by
  unfold fitPeakSingle
  simp only [hg, Bool.not_true, Bool.false_eq_true, if_false]
  split_ifs
  · exact ⟨_, rfl⟩
  · cases E.fit ⟨some pk, deg⟩ pts with
    | none => exact ⟨_, rfl⟩
    | some popt =>
      simp only
      obtain ⟨a, ha⟩ := assessFit_ok V hV E R (pts.map (·.x)) pk popt
        (goodness E ⟨some pk, deg⟩ pts popt) ((E.fit ⟨none, deg⟩ pts).map (goodness E ⟨none, deg⟩ pts))
      rw [ha]
      exact ⟨_, rfl⟩

theorem loop_ok (V : Variant) (hV : V.clampIdx = true) (E : Env α)
    (hg : ∀ pk deg pts, E.guessOk pk deg pts = true) (R : Req α) (pts : List (Pt α)) (w : α × α) :
    ∀ (cands : List (PeakKind × Nat)) (cand : Option (Result α)) (calls : List ModelId),
      ∃ res, fitPeakLoop V E R pts w cand calls cands = .ok res := by
  intro cands
  induction cands with
  | nil => intro cand calls; exact ⟨_, rfl⟩
  | cons c cs ih =>
    intro cand calls
    obtain ⟨pk, deg⟩ := c
    obtain ⟨r, hr⟩ := single_ok V hV E hg R pts w pk deg
    simp only [fitPeakLoop, hr]
    split_ifs
    · exact ⟨_, rfl⟩
    · exact ih _ _

end NoExc
end ScnVerif.Lemmas.Fit
