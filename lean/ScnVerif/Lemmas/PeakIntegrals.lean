import ScnVerif.Model.PeakModels
import ScnVerif.Real.Basic
import Mathlib.Analysis.SpecialFunctions.Gaussian.GaussianIntegral
import Mathlib.Analysis.SpecialFunctions.ImproperIntegrals
import Mathlib.MeasureTheory.Measure.Haar.NormedSpace
import Mathlib.MeasureTheory.Group.Integral
/-!
Analytic lemmas for C16: normalisation and integrability of the Gaussian and Lorentzian closed
forms (from Mathlib's `integral_gaussian` and `integral_univ_inv_one_add_sq` by an affine change
of variable), and the `ℝ` instance of the constant `math.log(2)`.
-/
namespace ScnVerif.PeakModels
open Real MeasureTheory

noncomputable instance : Consts ℝ := ⟨Real.log 2⟩
@[simp] theorem consts_ln2_real : (Consts.ln2 : ℝ) = Real.log 2 := rfl

theorem gauss_norm (A μ σ : ℝ) (hσ : 0 < σ) :
    ∫ x : ℝ, A / (√(2 * π) * σ) * rexp (-(x - μ) ^ 2 / (2 * σ ^ 2)) = A := by
  have h1 : ∀ x : ℝ, A / (√(2 * π) * σ) * rexp (-(x - μ) ^ 2 / (2 * σ ^ 2))
      = A / (√(2 * π) * σ) * (fun y : ℝ => rexp (-(1 / (2 * σ ^ 2)) * y ^ 2)) (x - μ) := by
    intro x; simp only; congr 2; ring
  simp_rw [h1]
  rw [integral_const_mul, integral_sub_right_eq_self (fun y : ℝ => rexp (-(1 / (2 * σ ^ 2)) * y ^ 2)) μ,
    integral_gaussian]
  have hpos : (0:ℝ) < 2 * π := by positivity
  have : π / (1 / (2 * σ ^ 2)) = (2 * π) * σ ^ 2 := by field_simp
  rw [this, Real.sqrt_mul hpos.le, Real.sqrt_sq hσ.le]
  have h2 : √(2 * π) ≠ 0 := (Real.sqrt_pos.mpr hpos).ne'
  field_simp

theorem lorentz_norm (A μ σ : ℝ) (hσ : 0 < σ) :
    ∫ x : ℝ, A * σ / π * ((x - μ) ^ 2 + σ ^ 2)⁻¹ = A := by
  have h1 : ∀ x : ℝ, A * σ / π * ((x - μ) ^ 2 + σ ^ 2)⁻¹
      = A / (π * σ) * (fun y : ℝ => (1 + y ^ 2)⁻¹) (σ⁻¹ * (x - μ)) := by
    intro x; simp only; field_simp; ring
  simp_rw [h1]
  rw [integral_const_mul,
    integral_sub_right_eq_self (fun y : ℝ => (fun z : ℝ => (1 + z ^ 2)⁻¹) (σ⁻¹ * y)) μ,
    Measure.integral_comp_mul_left (fun z : ℝ => (1 + z ^ 2)⁻¹) σ⁻¹, integral_univ_inv_one_add_sq]
  simp only [inv_inv, abs_of_pos hσ, smul_eq_mul]
  have := Real.pi_ne_zero
  field_simp

theorem gauss_integrable (A μ σ : ℝ) (hσ : 0 < σ) :
    Integrable (fun x : ℝ => A / (√(2 * π) * σ) * rexp (-(x - μ) ^ 2 / (2 * σ ^ 2))) := by
  have hb : (0:ℝ) < 1 / (2 * σ ^ 2) := by positivity
  have h0 : Integrable (fun y : ℝ => rexp (-(1 / (2 * σ ^ 2)) * y ^ 2)) := integrable_exp_neg_mul_sq hb
  have h1 := (h0.comp_sub_right μ).const_mul (A / (√(2 * π) * σ))
  refine h1.congr (Filter.Eventually.of_forall fun x => ?_)
  simp only; congr 2; ring

theorem lorentz_integrable (A μ σ : ℝ) (hσ : 0 < σ) :
    Integrable (fun x : ℝ => A * σ / π * ((x - μ) ^ 2 + σ ^ 2)⁻¹) := by
  have h0 : Integrable (fun z : ℝ => (1 + z ^ 2)⁻¹) := integrable_inv_one_add_sq
  have h1 := ((h0.comp_mul_left' (inv_ne_zero hσ.ne')).comp_sub_right μ).const_mul (A / (π * σ))
  refine h1.congr (Filter.Eventually.of_forall fun x => ?_)
  simp only; field_simp; ring

end ScnVerif.PeakModels
