import ScnVerif.Lemmas.Tof
import Mathlib.Analysis.SpecialFunctions.Pow.Real
import Mathlib.Tactic.NormNum
/-!
Helper lemmas shared by `Props/C01.lean` and `Props/C07.lean`: each elastic kernel of `Model/TofKernels.lean`,
read over `ℝ`, as a physical quantity.  (The property theorems of C01 restate these.)
-/
namespace ScnVerif.TofPhys
open ScnVerif ScnVerif.Tof

/-- `wavelength_from_tof`: λ = h t / (m_n L), reported in ångström -/
theorem wavelength_from_tof_phys (h mn sA sL sT t L : ℝ)
    (hh : 0 < h) (hmn : 0 < mn) (hA : 0 < sA) (hL : 0 < sL) (hT : 0 < sT) (ht : 0 < t) (hLL : 0 < L) :
    wavelengthFromTof (cWavelengthFromTof h mn sA sL sT) t L * sA = h * (t * sT) / (mn * (L * sL)) := by
  simp only [wavelengthFromTof, cWavelengthFromTof, toUnitC, asFloatLike_real]
  field_simp

/-- `dspacing_from_tof`: d = h t / (m_n L · 2 sin θ), θ = two_theta/2, reported in ångström -/
theorem dspacing_from_tof_phys (h mn sA sL sT sAng t L θ2 : ℝ)
    (hh : 0 < h) (hmn : 0 < mn) (hA : 0 < sA) (hL : 0 < sL) (hT : 0 < sT) (ht : 0 < t) (hLL : 0 < L)
    (hs : 0 < Real.sin (θ2 * sAng / 2)) :
    dspacingFromTof (cDspacingFromTof h mn sA sL sT) sAng t L θ2 * sA
      = h * (t * sT) / (mn * (L * sL)) / (2 * Real.sin (θ2 * sAng / 2)) := by
  simp only [dspacingFromTof, cDspacingFromTof, toUnitC, sinU, asFloatLike_real, i64_real, trans_sin_real]
  have e : θ2 / ((2:ℕ):ℝ) * sAng = θ2 * sAng / 2 := by push_cast; ring
  rw [e]
  generalize Real.sin (θ2 * sAng / 2) = s at hs
  push_cast
  field_simp

/-- `energy_from_tof`: E = m_n L² / (2 t²), reported in the energy unit with scale `sE` (meV in the code) -/
theorem energy_from_tof_phys (mn sE sL sT t L : ℝ)
    (hmn : 0 < mn) (hE : 0 < sE) (hL : 0 < sL) (hT : 0 < sT) (ht : 0 < t) (hLL : 0 < L) :
    energyFromTof (cEnergy mn sE sL sT) t L * sE = mn * (L * sL) ^ 2 / (2 * (t * sT) ^ 2) := by
  simp only [energyFromTof, cEnergy, toUnitC, asFloatLike_real, i64_real, sq_real, sqSame_real]
  push_cast
  field_simp

/-- `energy_from_wavelength`: E = h² / (2 m_n λ²) -/
theorem energy_from_wavelength_phys (h mn sE sW w : ℝ)
    (hh : 0 < h) (hmn : 0 < mn) (hE : 0 < sE) (hW : 0 < sW) (hw : 0 < w) :
    energyFromWavelength (cEnergyFromWavelength h mn sE sW w) w * sE = h ^ 2 / (2 * mn * (w * sW) ^ 2) := by
  simp only [energyFromWavelength, cEnergyFromWavelength, toUnitC, asFloatLike_real, i64_real, sq_real]
  push_cast
  field_simp

/-- the two expressions for the energy in the statement agree: m_n L²/(2t²) = h²/(2 m_n λ²) with λ = h t/(m_n L) -/
theorem energy_formulas_agree (h mn t L : ℝ) (hh : 0 < h) (hmn : 0 < mn) (ht : 0 < t) (hL : 0 < L) :
    mn * L ^ 2 / (2 * t ^ 2) = h ^ 2 / (2 * mn * (h * t / (mn * L)) ^ 2) := by
  field_simp

theorem sqrt_quot {a b x : ℝ} (hx : 0 ≤ x) (hb : 0 < b) (h : a = x ^ 2 * b) :
    Real.sqrt (a / b) = x := by
  have : a / b = x ^ 2 := by rw [h]; field_simp
  rw [this, Real.sqrt_sq hx]

/-- `wavelength_from_energy`: λ = h / √(2 m_n E), reported in ångström -/
theorem wavelength_from_energy_phys (h mn sA sE e : ℝ)
    (hh : 0 < h) (hmn : 0 < mn) (hA : 0 < sA) (hE : 0 < sE) (he : 0 < e) :
    wavelengthFromEnergy (cWavelengthFromEnergy h mn sA sE e) e * sA = h / Real.sqrt (2 * mn * (e * sE)) := by
  simp only [wavelengthFromEnergy, cWavelengthFromEnergy, toUnitC, asFloatLike_real, i64_real, sq_real,
    trans_sqrt_real]
  have hpos : 0 < 2 * mn * (e * sE) := by positivity
  have hr : 0 < Real.sqrt (2 * mn * (e * sE)) := Real.sqrt_pos.mpr hpos
  have hsq : Real.sqrt (2 * mn * (e * sE)) ^ 2 = 2 * mn * (e * sE) := Real.sq_sqrt hpos.le
  rw [sqrt_quot (x := h / (sA * Real.sqrt (2 * mn * (e * sE)))) (by positivity) he]
  · field_simp
  · rw [div_pow, mul_pow, hsq]; push_cast; field_simp

/-- `Q_from_wavelength`: Q = 4π sin θ / λ, in one over the wavelength unit -/
theorem Q_from_wavelength_phys (sAng sW w θ2 : ℝ) (hW : 0 < sW) (hw : 0 < w) :
    qFromWavelength sAng w θ2 / sW = 4 * Real.pi * Real.sin (θ2 * sAng / 2) / (w * sW) := by
  simp only [qFromWavelength, wavelengthQ, sinU, asFloatLike_real, i64_real, trans_sin_real, trans_pi_real]
  have e : θ2 / ((2:ℕ):ℝ) * sAng = θ2 * sAng / 2 := by push_cast; ring
  rw [e]; push_cast; field_simp

/-- `wavelength_from_Q`: λ = 4π sin θ / Q, reported in ångström (`q / sQinv` is Q in 1/m) -/
theorem wavelength_from_Q_phys (sAng sQinv sA q θ2 : ℝ) (hQ : 0 < sQinv) (hA : 0 < sA) (hq : 0 < q) :
    wavelengthFromQ sAng sQinv sA q θ2 * sA = 4 * Real.pi * Real.sin (θ2 * sAng / 2) / (q / sQinv) := by
  simp only [wavelengthFromQ, wavelengthQ, sinU, asFloatLike_real, i64_real, trans_sin_real, trans_pi_real]
  have e : θ2 / ((2:ℕ):ℝ) * sAng = θ2 * sAng / 2 := by push_cast; ring
  rw [e]; push_cast; field_simp

/-- `dspacing_from_wavelength`: d = λ / (2 sin θ), reported in ångström -/
theorem dspacing_from_wavelength_phys (sA sW sAng w θ2 : ℝ) (hA : 0 < sA) (hW : 0 < sW)
    (hs : 0 < Real.sin (θ2 * sAng / 2)) :
    dspacingFromWavelength (cDspacingFromWavelength sA sW w) sAng w θ2 * sA
      = w * sW / (2 * Real.sin (θ2 * sAng / 2)) := by
  simp only [dspacingFromWavelength, cDspacingFromWavelength, toUnitC, sinU, asFloatLike_real, i64_real,
    half_real, trans_sin_real]
  have e : θ2 / ((2:ℕ):ℝ) * sAng = θ2 * sAng / 2 := by push_cast; ring
  rw [e]
  generalize Real.sin (θ2 * sAng / 2) = s at hs
  field_simp

/-- `dspacing_from_energy`: d = h / (√(8 m_n E) sin θ), reported in ångström -/
theorem dspacing_from_energy_phys (h mn sA sE sAng e θ2 : ℝ)
    (hh : 0 < h) (hmn : 0 < mn) (hA : 0 < sA) (hE : 0 < sE) (he : 0 < e)
    (hs : 0 < Real.sin (θ2 * sAng / 2)) :
    dspacingFromEnergy (cDspacingFromEnergy h mn sA sE e) sAng e θ2 * sA
      = h / (Real.sqrt (8 * mn * (e * sE)) * Real.sin (θ2 * sAng / 2)) := by
  simp only [dspacingFromEnergy, cDspacingFromEnergy, toUnitC, sinU, asFloatLike_real, i64_real, sq_real,
    trans_sqrt_real, trans_sin_real]
  have e2 : θ2 / ((2:ℕ):ℝ) * sAng = θ2 * sAng / 2 := by push_cast; ring
  rw [e2]
  generalize Real.sin (θ2 * sAng / 2) = s at hs
  have hpos : 0 < 8 * mn * (e * sE) := by positivity
  have hr : 0 < Real.sqrt (8 * mn * (e * sE)) := Real.sqrt_pos.mpr hpos
  have hsq : Real.sqrt (8 * mn * (e * sE)) ^ 2 = 8 * mn * (e * sE) := Real.sq_sqrt hpos.le
  rw [sqrt_quot (x := h / (sA * Real.sqrt (8 * mn * (e * sE)))) (by positivity) he]
  · field_simp
  · rw [div_pow, mul_pow, hsq]; push_cast; field_simp

end ScnVerif.TofPhys
