import ScnVerif.Lemmas.Tof
import Mathlib.Analysis.SpecialFunctions.Pow.Real
import Mathlib.Tactic.NormNum
/-!
# Standard model of floating-point rounding, and a carrier that evaluates the generic kernels under it

`RelErr u k x̂ x`: `x̂ = x·e` with `(1-u)^k ≤ e ≤ (1-u)^(-k)` — "`x̂` is `x` up to `k` roundings of unit roundoff `u`".
It is closed under `×`, `÷`, `√` (indices add / stay), one more rounding adds 1, and `k·u/(1-k·u)` bounds the
relative error.

`Rounding` packages the standard model as a *hypothesis*: two rounding functions (binary64, binary32) with
`rnd x = x(1+δ)`, `|δ| ≤ u` (no overflow / underflow), and uninterpreted libm functions.  `Fl R` is a carrier for
the generic kernels of `Model/TofKernels.lean`: a real value tagged with a scipp element type; every operation
computes exactly, then rounds in the element type scipp's promotion rule (`DTy.arith` …) selects — integers are
exact.  So `(K args : Fl R).val` is the value the model computes in floating point, and `K (args.val) : ℝ` is the
exact value of the *same definition*.
-/
namespace ScnVerif.Fp
open ScnVerif ScnVerif.Tof

def RelErr (u : ℝ) (k : ℕ) (xh x : ℝ) : Prop :=
  ∃ e : ℝ, xh = x * e ∧ (1 - u) ^ k ≤ e ∧ e ≤ ((1 - u) ^ k)⁻¹

section basic
variable {u : ℝ}

theorem pow_pos' (hu1 : u < 1) (k : ℕ) : 0 < (1 - u) ^ k := pow_pos (by linarith) k
theorem pow_le_one' (hu0 : 0 ≤ u) (hu1 : u < 1) (k : ℕ) : (1 - u) ^ k ≤ 1 :=
  pow_le_one₀ (by linarith) (by linarith)

theorem RelErr.refl (x : ℝ) : RelErr u 0 x x := ⟨1, by ring, by simp, by simp⟩

theorem RelErr.mono (hu0 : 0 ≤ u) (hu1 : u < 1) {k k' : ℕ} (h : k ≤ k') {xh x : ℝ} :
    RelErr u k xh x → RelErr u k' xh x := by
  rintro ⟨e, rfl, h1, h2⟩
  have hp : (1 - u) ^ k' ≤ (1 - u) ^ k := pow_le_pow_of_le_one (by linarith) (by linarith) h
  exact ⟨e, rfl, hp.trans h1, h2.trans (inv_anti₀ (pow_pos' hu1 k') hp)⟩

theorem RelErr.weaken {u' : ℝ} (hu0 : 0 ≤ u) (huu : u ≤ u') (hu1 : u' < 1) {k : ℕ} {xh x : ℝ} :
    RelErr u k xh x → RelErr u' k xh x := by
  rintro ⟨e, rfl, h1, h2⟩
  have hp : (1 - u') ^ k ≤ (1 - u) ^ k := pow_le_pow_left₀ (by linarith) (by linarith) k
  exact ⟨e, rfl, hp.trans h1, h2.trans (inv_anti₀ (pow_pos' hu1 k) hp)⟩

theorem RelErr.mul (hu1 : u < 1) {a b : ℕ} {xh x yh y : ℝ} :
    RelErr u a xh x → RelErr u b yh y → RelErr u (a + b) (xh * yh) (x * y) := by
  rintro ⟨e, rfl, h1, h2⟩ ⟨f, rfl, g1, g2⟩
  have pa := pow_pos' hu1 a; have pb := pow_pos' hu1 b
  refine ⟨e * f, by ring, ?_, ?_⟩
  · rw [pow_add]; exact mul_le_mul h1 g1 pb.le (pa.le.trans h1)
  · rw [pow_add, mul_inv]; exact mul_le_mul h2 g2 (pb.le.trans g1) (inv_pos.mpr pa).le

theorem RelErr.inv (hu1 : u < 1) {a : ℕ} {xh x : ℝ} : RelErr u a xh x → RelErr u a xh⁻¹ x⁻¹ := by
  rintro ⟨e, rfl, h1, h2⟩
  have pa := pow_pos' hu1 a
  have he : 0 < e := pa.trans_le h1
  refine ⟨e⁻¹, by rw [mul_inv], ?_, ?_⟩
  · have := inv_anti₀ he h2; rwa [inv_inv] at this
  · exact inv_anti₀ pa h1

theorem RelErr.div (hu1 : u < 1) {a b : ℕ} {xh x yh y : ℝ} (hx : RelErr u a xh x) (hy : RelErr u b yh y) :
    RelErr u (a + b) (xh / yh) (x / y) := by
  rw [div_eq_mul_inv, div_eq_mul_inv]; exact hx.mul hu1 (hy.inv hu1)

theorem RelErr.sqrt (hu0 : 0 ≤ u) (hu1 : u < 1) {a : ℕ} {xh x : ℝ} (hx0 : 0 ≤ x) :
    RelErr u a xh x → RelErr u a (Real.sqrt xh) (Real.sqrt x) := by
  rintro ⟨e, rfl, h1, h2⟩
  have pa := pow_pos' hu1 a
  have p1 := pow_le_one' hu0 hu1 a
  have he : 0 < e := pa.trans_le h1
  refine ⟨Real.sqrt e, Real.sqrt_mul hx0 e, ?_, ?_⟩
  · calc (1 - u) ^ a ≤ Real.sqrt ((1 - u) ^ a) := by
          rw [Real.le_sqrt' pa]; nlinarith
      _ ≤ Real.sqrt e := Real.sqrt_le_sqrt h1
  · have hi : 1 ≤ ((1 - u) ^ a)⁻¹ := (one_le_inv₀ pa).mpr p1
    calc Real.sqrt e ≤ Real.sqrt ((1 - u) ^ a)⁻¹ := Real.sqrt_le_sqrt h2
      _ ≤ ((1 - u) ^ a)⁻¹ := by rw [Real.sqrt_le_left (by positivity)]; nlinarith

/-- one more rounding -/
theorem RelErr.round (hu0 : 0 ≤ u) (hu1 : u < 1) {a : ℕ} {xh x δ : ℝ} (hδ : |δ| ≤ u) :
    RelErr u a xh x → RelErr u (a + 1) (xh * (1 + δ)) x := by
  intro hx
  have h1 : RelErr u 1 (1 + δ) 1 := by
    have := abs_le.mp hδ
    refine ⟨1 + δ, by ring, by simp; linarith, ?_⟩
    simp only [pow_one]
    rw [le_inv_comm₀ (by linarith) (by linarith)]
    have : (1 + δ) * (1 - u) ≤ 1 := by nlinarith
    rw [inv_eq_one_div, le_div_iff₀ (by linarith)]; linarith
  have := hx.mul hu1 h1
  simpa using this

/-- the relative error after `k` roundings is at most `k u / (1 - k u)` -/
theorem RelErr.bound (hu0 : 0 ≤ u) (hu1 : u < 1) {k : ℕ} {xh x : ℝ} (hk : (k : ℝ) * u < 1) :
    RelErr u k xh x → |xh - x| ≤ (k * u / (1 - k * u)) * |x| := by
  rintro ⟨e, rfl, h1, h2⟩
  have hb : 1 - (k : ℝ) * u ≤ (1 - u) ^ k := by
    have := one_add_mul_le_pow (a := -u) (by linarith) k
    simpa [sub_eq_add_neg, mul_neg] using this
  have hpos : 0 < 1 - (k : ℝ) * u := by linarith
  have e1 : 1 - (k : ℝ) * u ≤ e := hb.trans h1
  have e2 : e ≤ (1 - (k : ℝ) * u)⁻¹ := h2.trans (inv_anti₀ hpos hb)
  have hk0 : 0 ≤ (k : ℝ) * u := by positivity
  have : |e - 1| ≤ k * u / (1 - k * u) := by
    rw [abs_le]
    have h3 : (1 - (k : ℝ) * u)⁻¹ - 1 = k * u / (1 - k * u) := by field_simp; ring
    constructor
    · have : -(k * u / (1 - k * u)) ≤ -(k * u) := by
        rw [neg_le_neg_iff, le_div_iff₀ hpos]; nlinarith
      linarith
    · linarith
  calc |x * e - x| = |x| * |e - 1| := by rw [← abs_mul]; ring_nf
    _ ≤ |x| * (k * u / (1 - k * u)) := mul_le_mul_of_nonneg_left this (abs_nonneg x)
    _ = _ := by ring

/-- up to 64 roundings in binary64 stay below the property's 1e-11 -/
theorem bound_double {k : ℕ} (hk : k ≤ 64) : (k : ℝ) * (2 : ℝ)⁻¹ ^ 53 / (1 - k * (2 : ℝ)⁻¹ ^ 53) < 1e-11 := by
  have hk' : (k : ℝ) ≤ 64 := by exact_mod_cast hk
  have hu : (0 : ℝ) < (2 : ℝ)⁻¹ ^ 53 := by positivity
  have h1 : (k : ℝ) * (2 : ℝ)⁻¹ ^ 53 ≤ 64 * (2 : ℝ)⁻¹ ^ 53 := mul_le_mul_of_nonneg_right hk' hu.le
  have h2 : (64 : ℝ) * (2 : ℝ)⁻¹ ^ 53 < 1e-14 := by norm_num
  rw [div_lt_iff₀ (by linarith)]
  nlinarith

/-- up to 64 roundings in binary32 stay below the property's 1e-5 -/
theorem bound_single {k : ℕ} (hk : k ≤ 64) : (k : ℝ) * (2 : ℝ)⁻¹ ^ 24 / (1 - k * (2 : ℝ)⁻¹ ^ 24) < 1e-5 := by
  have hk' : (k : ℝ) ≤ 64 := by exact_mod_cast hk
  have hu : (0 : ℝ) < (2 : ℝ)⁻¹ ^ 24 := by positivity
  have h1 : (k : ℝ) * (2 : ℝ)⁻¹ ^ 24 ≤ 64 * (2 : ℝ)⁻¹ ^ 24 := mul_le_mul_of_nonneg_right hk' hu.le
  have h2 : (64 : ℝ) * (2 : ℝ)⁻¹ ^ 24 < 4e-6 := by norm_num
  rw [div_lt_iff₀ (by linarith)]
  nlinarith

end basic

end ScnVerif.Fp
