import ScnVerif.Model.Sqw.Build
import ScnVerif.Lemmas.SqwDict
/-! Invariants of the builder state machine and the list of block names `create` writes. -/
namespace ScnVerif.Sqw

def dataKeys : List BlockName := [nMainHeader, nExpdata, nPixMeta, nDetpar, nDataMeta]
/-- names a regular (object-array) block can have -/
def regularKeys : List BlockName := dataKeys ++ [nInstruments, nSamples]

/-- invariant of `_data_blocks`: distinct keys, all among the five the builder ever inserts -/
def Inv (b : Builder) : Prop :=
  (keys b.dataBlocks).Nodup ∧ ∀ k ∈ keys b.dataBlocks, k ∈ dataKeys

theorem keys_setNfiles (n : Nat) (l : List (BlockName × Block)) : keys (setNfiles n l) = keys l := by
  induction l with
  | nil => rfl
  | cons kv rest ih =>
    obtain ⟨k, blk⟩ := kv
    cases blk <;> simp_all [setNfiles, keys]

theorem inv_init (o : Order) (a b c d : Str) : Inv (Builder.init o a b c d) := by
  constructor
  · simp [Builder.init, keys]
  · intro k hk
    simp [Builder.init, keys] at hk
    subst hk; simp [dataKeys]

theorem inv_dictSet (b : Builder) (k : BlockName) (v : Block) (hk : k ∈ dataKeys) (h : Inv b) :
    (keys (dictSet k v b.dataBlocks)).Nodup ∧ ∀ x ∈ keys (dictSet k v b.dataBlocks), x ∈ dataKeys := by
  refine ⟨nodup_keys_dictSet k v _ h.1, ?_⟩
  intro x hx
  rcases (mem_keys_dictSet k v _ x).mp hx with hx | rfl
  · exact h.2 x hx
  · exact hk

theorem inv_step (lt : Lt) (b : Builder) (op : Op) (h : Inv b) : Inv (step lt b op) := by
  cases op with
  | addPixelData rows exps nd =>
    have h1 := inv_dictSet b nExpdata (.expdata exps) (by simp [dataKeys]) h
    have h2 := inv_dictSet { b with dataBlocks := dictSet nExpdata (.expdata exps) b.dataBlocks } nPixMeta
      (.pixMeta ⟨b.fullFilename, nPixels rows, rows.map (rowRange lt)⟩) (by simp [dataKeys]) h1
    simpa [Inv, step, keys_setNfiles] using h2
  | addDefaultInstrument i => exact h
  | addDefaultSample s => exact h
  | addEmptyDndData d => simpa [Inv, step] using inv_dictSet b nDataMeta (.dndMeta d) (by simp [dataKeys]) h
  | addEmptyDetectorParams => simpa [Inv, step] using inv_dictSet b nDetpar .detpar (by simp [dataKeys]) h

theorem inv_run (lt : Lt) (b : Builder) (ops : List Op) (h : Inv b) : Inv (run lt b ops) := by
  induction ops generalizing b with
  | nil => exact h
  | cons op ops ih => exact ih (step lt b op) (inv_step lt b op h)

/-- the dict `_prepare_data_blocks` hands to `_to_canonical_block_order` -/
def preparedDict (b : Builder) : List (BlockName × Block) :=
  let blocks := b.dataBlocks
  let n := nfilesOf blocks
  let blocks := match b.instrument with
    | some i => dictSet nInstruments (.instruments i n) blocks
    | none => blocks
  match b.sample with
    | some s => dictSet nSamples (.samples s n) blocks
    | none => blocks

theorem prepareBlocks_eq (order : List BlockName) (b : Builder) :
    prepareBlocks order b = toCanonicalOrder order (preparedDict b) := rfl

theorem mem_keys_preparedDict (b : Builder) (x : BlockName) :
    x ∈ keys (preparedDict b) ↔
      x ∈ keys b.dataBlocks ∨ (b.instrument.isSome ∧ x = nInstruments) ∨ (b.sample.isSome ∧ x = nSamples) := by
  unfold preparedDict
  cases hi : b.instrument <;> cases hs : b.sample <;>
    simp [mem_keys_dictSet, or_assoc]

theorem nodup_keys_preparedDict (b : Builder) (h : Inv b) : (keys (preparedDict b)).Nodup := by
  unfold preparedDict
  cases hi : b.instrument <;> cases hs : b.sample <;> simp only
  · exact h.1
  · exact nodup_keys_dictSet _ _ _ h.1
  · exact nodup_keys_dictSet _ _ _ h.1
  · exact nodup_keys_dictSet _ _ _ (nodup_keys_dictSet _ _ _ h.1)

theorem keys_preparedDict_regular (b : Builder) (h : Inv b) : ∀ k ∈ keys (preparedDict b), k ∈ regularKeys := by
  intro k hk
  rcases (mem_keys_preparedDict b k).mp hk with hk | ⟨_, rfl⟩ | ⟨_, rfl⟩
  · exact List.mem_append_left _ (h.2 k hk)
  · simp [regularKeys]
  · simp [regularKeys]

/-- facts about the order table that make the order canonical -/
structure OrderOk (order : List BlockName) : Prop where
  nodup : order.Nodup
  complete : ∀ k ∈ regularKeys, k ∈ order

theorem prepareBlocks_canon (order : List BlockName) (ho : OrderOk order) (b : Builder) (h : Inv b) :
    prepareBlocks order b = canonHead order (preparedDict b) := by
  rw [prepareBlocks_eq]
  exact toCanonicalOrder_eq order _ ho.nodup (nodup_keys_preparedDict b h)
    (fun k hk => ho.complete k (keys_preparedDict_regular b h k hk))

/-- names of the descriptors `create` writes, in table order -/
def descNames (order : List BlockName) (b : Builder) (st : Stamps) (round : Nat → Nat) (chunk : Nat) :
    List BlockName := (blockOuts order b st round chunk).map (·.desc.name)

theorem descNames_eq (order : List BlockName) (b : Builder) (st : Stamps) (round : Nat → Nat) (chunk : Nat) :
    descNames order b st round chunk =
      keys (prepareBlocks order b) ++ ((if b.dnd.isSome then [nNdData] else []) ++
        (if b.pix.isSome then [nPixData] else [])) := by
  unfold descNames blockOuts
  cases b.dnd <;> cases b.pix <;> simp [keys, List.map_map, Function.comp_def]

/-! ## which calls were made -/

inductive Kind | P | I | S | N | D
  deriving DecidableEq, Repr

def Op.kind : Op → Kind
  | .addPixelData .. => .P
  | .addDefaultInstrument _ => .I
  | .addDefaultSample _ => .S
  | .addEmptyDndData _ => .N
  | .addEmptyDetectorParams => .D

theorem kind_beq (a b : Kind) : (a == b) = decide (a = b) := by cases a <;> cases b <;> rfl

def has (k : Kind) (ops : List Op) : Bool := ops.any (fun op => op.kind == k)

theorem has_cons (k : Kind) (op : Op) (ops : List Op) : has k (op :: ops) = (op.kind == k || has k ops) := by
  simp [has]

theorem mem_keys_run (lt : Lt) (b : Builder) (ops : List Op) (x : BlockName) :
    x ∈ keys (run lt b ops).dataBlocks ↔
      x ∈ keys b.dataBlocks ∨ (has .P ops = true ∧ (x = nExpdata ∨ x = nPixMeta)) ∨
      (has .D ops = true ∧ x = nDetpar) ∨ (has .N ops = true ∧ x = nDataMeta) := by
  induction ops generalizing b with
  | nil => simp [run, has]
  | cons op ops ih =>
    have := ih (step lt b op)
    simp only [run, List.foldl_cons] at this ⊢
    rw [this]
    cases op <;>
      simp only [step, has_cons, Op.kind, keys_setNfiles, mem_keys_dictSet, Bool.or_eq_true,
        beq_iff_eq, reduceCtorEq, false_or, true_or, true_and] <;> grind

theorem instrument_run (lt : Lt) (b : Builder) (ops : List Op) :
    (run lt b ops).instrument.isSome = (b.instrument.isSome || has .I ops) := by
  induction ops generalizing b with
  | nil => simp [run, has]
  | cons op ops ih =>
    have := ih (step lt b op)
    simp only [run, List.foldl_cons] at this ⊢
    rw [this]
    cases op <;> simp [step, has_cons, Op.kind, kind_beq]

theorem sample_run (lt : Lt) (b : Builder) (ops : List Op) :
    (run lt b ops).sample.isSome = (b.sample.isSome || has .S ops) := by
  induction ops generalizing b with
  | nil => simp [run, has]
  | cons op ops ih =>
    have := ih (step lt b op)
    simp only [run, List.foldl_cons] at this ⊢
    rw [this]
    cases op <;> simp [step, has_cons, Op.kind, kind_beq]

theorem dnd_run (lt : Lt) (b : Builder) (ops : List Op) :
    (run lt b ops).dnd.isSome = (b.dnd.isSome || has .N ops) := by
  induction ops generalizing b with
  | nil => simp [run, has]
  | cons op ops ih =>
    have := ih (step lt b op)
    simp only [run, List.foldl_cons] at this ⊢
    rw [this]
    cases op <;> simp [step, has_cons, Op.kind, kind_beq]

theorem pix_run (lt : Lt) (b : Builder) (ops : List Op) :
    (run lt b ops).pix.isSome = (b.pix.isSome || has .P ops) := by
  induction ops generalizing b with
  | nil => simp [run, has]
  | cons op ops ih =>
    have := ih (step lt b op)
    simp only [run, List.foldl_cons] at this ⊢
    rw [this]
    cases op <;> simp [step, has_cons, Op.kind, kind_beq]

theorem order_run (lt : Lt) (b : Builder) (ops : List Op) : (run lt b ops).order = b.order := by
  induction ops generalizing b with
  | nil => rfl
  | cons op ops ih =>
    have := ih (step lt b op)
    simp only [run, List.foldl_cons] at this ⊢
    rw [this]; cases op <;> rfl

/-- block names as a function of the SET of calls made -/
def expectedNames (order : List BlockName) (p i s n d : Bool) : List BlockName :=
  order.filter (fun x => x == nMainHeader || (p && (x == nExpdata || x == nPixMeta)) || (d && x == nDetpar) ||
    (n && x == nDataMeta) || (i && x == nInstruments) || (s && x == nSamples))
  ++ ((if n then [nNdData] else []) ++ (if p then [nPixData] else []))

theorem keys_init (o : Order) (a b c d : Str) : keys (Builder.init o a b c d).dataBlocks = [nMainHeader] := rfl
theorem instrument_init (o : Order) (a b c d : Str) : (Builder.init o a b c d).instrument = none := rfl
theorem sample_init (o : Order) (a b c d : Str) : (Builder.init o a b c d).sample = none := rfl
theorem dnd_init (o : Order) (a b c d : Str) : (Builder.init o a b c d).dnd = none := rfl
theorem pix_init (o : Order) (a b c d : Str) : (Builder.init o a b c d).pix = none := rfl

theorem descNames_run (order : List BlockName) (ho : OrderOk order) (lt : Lt) (o : Order)
    (full fp fn title : Str) (ops : List Op) (st : Stamps) (round : Nat → Nat) (chunk : Nat) :
    descNames order (run lt (Builder.init o full fp fn title) ops) st round chunk =
      expectedNames order (has .P ops) (has .I ops) (has .S ops) (has .N ops) (has .D ops) := by
  have hinv := inv_run lt _ ops (inv_init o full fp fn title)
  rw [descNames_eq, prepareBlocks_canon order ho _ hinv, keys_canonHead, dnd_run, pix_run]
  unfold expectedNames
  congr 1
  apply List.filter_congr
  intro x _
  have hm := mem_keys_preparedDict (run lt (Builder.init o full fp fn title) ops) x
  rw [mem_keys_run, instrument_run, sample_run] at hm
  simp only [keys_init, instrument_init, sample_init, List.mem_singleton, Option.isSome_none,
    Bool.false_or] at hm
  rw [Bool.eq_iff_iff]
  simp only [decide_eq_true_eq, Bool.or_eq_true, Bool.and_eq_true, beq_iff_eq, dnd_init, pix_init,
    Option.isSome_none, Bool.false_or]
  rw [hm]
  grind

end ScnVerif.Sqw
