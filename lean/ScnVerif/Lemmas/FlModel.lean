import ScnVerif.Lemmas.RelErr
/-!
# The generic kernels evaluated under the standard model of rounding

`Fl R` (see `Lemmas/RelErr.lean` for the idea): a real value tagged with a scipp element type.  Every
arithmetic operation computes exactly and then rounds in the element type selected by scipp's promotion rules
(the very `DTy.arith / divT / powT / floatOnly / asFloatLike` of the model); float64 rounds with `rnd64`, float32
with `rnd32`, integers are exact.  `Approx R u a x k` says: the tagged value `a` approximates the real `x` within
`k` roundings of size `u`, and `u` is large enough for `a`'s element type (`u32 ≤ u` if `a` is float32).
With `u = u32` this covers all operand types; with `u = u64` exactly the computations in which no operand is
float32.
-/
namespace ScnVerif.Fp
open ScnVerif ScnVerif.Tof

structure Rounding where
  u64 : ℝ
  u32 : ℝ
  h0 : 0 ≤ u64
  h64 : u64 ≤ u32
  h32 : u32 < 1
  rnd64 : ℝ → ℝ
  rnd32 : ℝ → ℝ
  spec64 : ∀ x, ∃ δ, |δ| ≤ u64 ∧ rnd64 x = x * (1 + δ)
  spec32 : ∀ x, ∃ δ, |δ| ≤ u32 ∧ rnd32 x = x * (1 + δ)
  /-- libm, uninterpreted: accuracy enters the theorems as an explicit hypothesis -/
  fsin : DTy → ℝ → ℝ
  fcos : DTy → ℝ → ℝ
  fexp : DTy → ℝ → ℝ
  fatan2 : DTy → ℝ → ℝ → ℝ
  fpi : ℝ

namespace Rounding
variable (R : Rounding)

def rd : DTy → ℝ → ℝ
  | .f64, x => R.rnd64 x
  | .f32, x => R.rnd32 x
  | _, x => x

def bnd : DTy → ℝ
  | .f64 => R.u64
  | .f32 => R.u32
  | _ => 0

theorem rd_spec (t : DTy) (x : ℝ) : ∃ δ, |δ| ≤ R.bnd t ∧ R.rd t x = x * (1 + δ) := by
  cases t
  · exact R.spec64 x
  · exact R.spec32 x
  all_goals exact ⟨0, by simp [bnd], by simp [rd]⟩

end Rounding

structure Fl (R : Rounding) where
  val : ℝ
  ty : DTy

variable {R : Rounding}

noncomputable instance : Add (Fl R) := ⟨fun a b => ⟨R.rd (DTy.arith a.ty b.ty) (a.val + b.val), DTy.arith a.ty b.ty⟩⟩
noncomputable instance : Sub (Fl R) := ⟨fun a b => ⟨R.rd (DTy.arith a.ty b.ty) (a.val - b.val), DTy.arith a.ty b.ty⟩⟩
noncomputable instance : Mul (Fl R) := ⟨fun a b => ⟨R.rd (DTy.arith a.ty b.ty) (a.val * b.val), DTy.arith a.ty b.ty⟩⟩
noncomputable instance : Div (Fl R) := ⟨fun a b => ⟨R.rd (DTy.divT a.ty b.ty) (a.val / b.val), DTy.divT a.ty b.ty⟩⟩

noncomputable instance : Trans (Fl R) where
  sqrt := fun a => ⟨R.rd (DTy.floatOnly a.ty) (Real.sqrt a.val), DTy.floatOnly a.ty⟩
  sin := fun a => ⟨R.fsin (DTy.floatOnly a.ty) a.val, DTy.floatOnly a.ty⟩
  cos := fun a => ⟨R.fcos (DTy.floatOnly a.ty) a.val, DTy.floatOnly a.ty⟩
  atan2 := fun y x => ⟨R.fatan2 (DTy.floatOnly (DTy.arith y.ty x.ty)) y.val x.val, DTy.floatOnly (DTy.arith y.ty x.ty)⟩
  exp := fun a => ⟨R.fexp (DTy.floatOnly a.ty) a.val, DTy.floatOnly a.ty⟩
  pi := ⟨R.fpi, .f64⟩

/-- a cast rounds only when it narrows to float32 -/
noncomputable def castVal (R : Rounding) (t : DTy) (a : Fl R) : ℝ :=
  if t = .f32 ∧ a.ty ≠ .f32 then R.rnd32 a.val else a.val

noncomputable instance : Scipp (Fl R) where
  asFloatLike := fun x ref => ⟨castVal R (DTy.asFloatLike x.ty ref.ty) x, DTy.asFloatLike x.ty ref.ty⟩
  sq := fun x => ⟨R.rd (DTy.powT x.ty .i64) (x.val ^ 2), DTy.powT x.ty .i64⟩
  sqSame := fun x => ⟨R.rd (DTy.powT x.ty x.ty) (x.val ^ 2), DTy.powT x.ty x.ty⟩
  i64 := fun n => ⟨(n : ℝ), .i64⟩
  half := ⟨1 / 2, .f64⟩
  asCommon4 := fun x a b c d =>
    ⟨castVal R (DTy.asCommon4 x.ty a.ty b.ty c.ty d.ty) x, DTy.asCommon4 x.ty a.ty b.ty c.ty d.ty⟩

/-- `u` covers the rounding of element type `t` -/
def TyOk (R : Rounding) (u : ℝ) (t : DTy) : Prop := t = .f32 → R.u32 ≤ u

def Approx (R : Rounding) (u : ℝ) (a : Fl R) (x : ℝ) (k : ℕ) : Prop := TyOk R u a.ty ∧ RelErr u k a.val x

section closure
variable {u : ℝ} (hu : R.u64 ≤ u) (hu1 : u < 1)
include hu hu1

theorem bnd_le {t : DTy} (h : TyOk R u t) : R.bnd t ≤ u := by
  cases t <;> simp only [Rounding.bnd]
  · exact hu
  · exact h rfl
  all_goals exact R.h0.trans hu

theorem round_ok {t : DTy} (h : TyOk R u t) {k : ℕ} {xh x : ℝ} (hx : RelErr u k xh x) :
    RelErr u (k + 1) (R.rd t xh) x := by
  obtain ⟨δ, hδ, e⟩ := R.rd_spec t xh
  rw [e]
  exact hx.round (R.h0.trans hu) hu1 (hδ.trans (bnd_le hu hu1 h))

theorem tyOk_arith {a b : DTy} (ha : TyOk R u a) (hb : TyOk R u b) : TyOk R u (DTy.arith a b) := by
  intro h; cases a <;> cases b <;> simp_all [DTy.arith, TyOk]

theorem tyOk_divT {a b : DTy} (ha : TyOk R u a) (hb : TyOk R u b) : TyOk R u (DTy.divT a b) := by
  intro h; cases a <;> cases b <;> simp_all [DTy.divT, TyOk]

theorem tyOk_floatOnly {a : DTy} (ha : TyOk R u a) : TyOk R u (DTy.floatOnly a) := by
  intro h; cases a <;> simp_all [DTy.floatOnly, TyOk]

theorem tyOk_powT {a b : DTy} (ha : TyOk R u a) (hb : TyOk R u b) : TyOk R u (DTy.powT a b) := by
  intro h; cases a <;> cases b <;> simp_all [DTy.powT, TyOk]

theorem tyOk_asFloatLike {a r : DTy} (hr : TyOk R u r) : TyOk R u (DTy.asFloatLike a r) := by
  intro h; cases a <;> cases r <;> simp_all [DTy.asFloatLike, DTy.floatDType, TyOk]

theorem Approx.exact (a : Fl R) (h : TyOk R u a.ty) : Approx R u a a.val 0 := ⟨h, RelErr.refl _⟩

theorem Approx.mul {a b : Fl R} {x y : ℝ} {ka kb : ℕ} (ha : Approx R u a x ka) (hb : Approx R u b y kb) :
    Approx R u (a * b) (x * y) (ka + kb + 1) :=
  ⟨tyOk_arith hu hu1 ha.1 hb.1, round_ok hu hu1 (tyOk_arith hu hu1 ha.1 hb.1) (ha.2.mul hu1 hb.2)⟩

theorem Approx.div {a b : Fl R} {x y : ℝ} {ka kb : ℕ} (ha : Approx R u a x ka) (hb : Approx R u b y kb) :
    Approx R u (a / b) (x / y) (ka + kb + 1) :=
  ⟨tyOk_divT hu hu1 ha.1 hb.1, round_ok hu hu1 (tyOk_divT hu hu1 ha.1 hb.1) (ha.2.div hu1 hb.2)⟩

theorem Approx.sqrt {a : Fl R} {x : ℝ} {k : ℕ} (hx : 0 ≤ x) (ha : Approx R u a x k) :
    Approx R u (Trans.sqrt a) (Real.sqrt x) (k + 1) :=
  ⟨tyOk_floatOnly hu hu1 ha.1,
    round_ok hu hu1 (tyOk_floatOnly hu hu1 ha.1) (ha.2.sqrt (R.h0.trans hu) hu1 hx)⟩

theorem Approx.sq {a : Fl R} {x : ℝ} {k : ℕ} (ha : Approx R u a x k) :
    Approx R u (sq a) (x ^ 2) (k + k + 1) := by
  refine ⟨tyOk_powT hu hu1 ha.1 (by intro h; cases h), ?_⟩
  have := ha.2.mul hu1 ha.2
  rw [← pow_two, ← pow_two] at this
  exact round_ok hu hu1 (tyOk_powT hu hu1 ha.1 (by intro h; cases h)) this

theorem Approx.sqSame {a : Fl R} {x : ℝ} {k : ℕ} (ha : Approx R u a x k) :
    Approx R u (sqSame a) (x ^ 2) (k + k + 1) := by
  refine ⟨tyOk_powT hu hu1 ha.1 ha.1, ?_⟩
  have := ha.2.mul hu1 ha.2
  rw [← pow_two, ← pow_two] at this
  exact round_ok hu hu1 (tyOk_powT hu hu1 ha.1 ha.1) this

/-- `as_float_type(a, ref)`: at most one more rounding, and the precision of `ref` must be covered by `u` -/
theorem Approx.cast {a r : Fl R} {x : ℝ} {k : ℕ} (ha : Approx R u a x k) (hr : TyOk R u r.ty) :
    Approx R u (asFloatLike a r) x (k + 1) := by
  refine ⟨tyOk_asFloatLike hu hu1 hr, ?_⟩
  show RelErr u (k + 1) (castVal R (DTy.asFloatLike a.ty r.ty) a) x
  unfold castVal
  split
  · next h =>
    obtain ⟨δ, hδ, e⟩ := R.spec32 a.val
    rw [e]
    have h32 : R.u32 ≤ u := tyOk_asFloatLike hu hu1 hr h.1
    exact ha.2.round (R.h0.trans hu) hu1 (hδ.trans h32)
  · exact ha.2.mono (R.h0.trans hu) hu1 (Nat.le_succ k)

theorem Approx.lit (n : ℕ) : Approx R u (i64 n : Fl R) (n : ℝ) 0 := ⟨(by intro h; cases h), RelErr.refl _⟩

theorem Approx.half : Approx R u (half : Fl R) (1 / 2 : ℝ) 0 := ⟨(by intro h; cases h), RelErr.refl _⟩

theorem Approx.mono {a : Fl R} {x : ℝ} {k k' : ℕ} (h : k ≤ k') (ha : Approx R u a x k) : Approx R u a x k' :=
  ⟨ha.1, ha.2.mono (R.h0.trans hu) hu1 h⟩

end closure

/-- every element type is covered by the single-precision unit roundoff -/
theorem tyOk_single (t : DTy) : TyOk R R.u32 t := fun _ => le_rfl

/-- the double-precision unit roundoff covers every element type but float32 -/
theorem tyOk_double {t : DTy} (h : t ≠ .f32) : TyOk R R.u64 t := fun e => absurd e h

/-- binary32 standard model, at most 64 roundings: within the property's 1e-5 -/
theorem Approx.bound_single (h32 : R.u32 = (2 : ℝ)⁻¹ ^ 24) {a : Fl R} {x : ℝ} {k : ℕ} (hk : k ≤ 64)
    (h : Approx R R.u32 a x k) : |a.val - x| ≤ 1e-5 * |x| := by
  have hk' : (k : ℝ) ≤ 64 := by exact_mod_cast hk
  have hku : (k : ℝ) * R.u32 < 1 := by
    rw [h32]; have : (64 : ℝ) * (2 : ℝ)⁻¹ ^ 24 < 1 := by norm_num
    have hu : (0 : ℝ) ≤ (2 : ℝ)⁻¹ ^ 24 := by positivity
    nlinarith
  have := h.2.bound (R.h0.trans R.h64) R.h32 hku
  have hb := ScnVerif.Fp.bound_single hk
  rw [← h32] at hb
  exact this.trans (mul_le_mul_of_nonneg_right hb.le (abs_nonneg x))

/-- binary64 standard model, no float32 anywhere, at most 64 roundings: within the property's 1e-11 -/
theorem Approx.bound_double (h64 : R.u64 = (2 : ℝ)⁻¹ ^ 53) {a : Fl R} {x : ℝ} {k : ℕ} (hk : k ≤ 64)
    (h : Approx R R.u64 a x k) : |a.val - x| ≤ 1e-11 * |x| := by
  have hk' : (k : ℝ) ≤ 64 := by exact_mod_cast hk
  have hku : (k : ℝ) * R.u64 < 1 := by
    rw [h64]; have : (64 : ℝ) * (2 : ℝ)⁻¹ ^ 53 < 1 := by norm_num
    have hu : (0 : ℝ) ≤ (2 : ℝ)⁻¹ ^ 53 := by positivity
    nlinarith
  have := h.2.bound R.h0 (lt_of_le_of_lt R.h64 R.h32) hku
  have hb := ScnVerif.Fp.bound_double hk
  rw [← h64] at hb
  exact this.trans (mul_le_mul_of_nonneg_right hb.le (abs_nonneg x))

/-- the standard model is satisfiable (exact arithmetic is an instance), so theorems quantified over `Rounding`
are not vacuous -/
noncomputable def Rounding.exact : Rounding where
  u64 := (2 : ℝ)⁻¹ ^ 53
  u32 := (2 : ℝ)⁻¹ ^ 24
  h0 := by positivity
  h64 := by norm_num
  h32 := by norm_num
  rnd64 := id
  rnd32 := id
  spec64 := fun x => ⟨0, by simp, by simp⟩
  spec32 := fun x => ⟨0, by simp, by simp⟩
  fsin := fun _ => Real.sin
  fcos := fun _ => Real.cos
  fexp := fun _ => Real.exp
  fatan2 := fun _ y x => Complex.arg ⟨x, y⟩
  fpi := Real.pi

end ScnVerif.Fp
