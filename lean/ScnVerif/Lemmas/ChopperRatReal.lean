import ScnVerif.Model.ChopperRat
import ScnVerif.Model.DiskChopper
import Mathlib.Tactic.Ring
import Mathlib.Tactic.Linarith
import Mathlib.Tactic.FieldSimp
import Mathlib.Tactic.Positivity
import Mathlib.Data.Real.Basic
import Mathlib.Data.Nat.Cast.Field
import Mathlib.Data.Int.Cast.Field
/-!
# The executable rationals `Q` embed into `ℝ` as a field with order

`toReal` commutes with every operation the disk-chopper model uses, so evaluating the model at `Q`
(as the correspondence run does) and then embedding equals evaluating the model at `ℝ` (where the
theorems are) on the embedded inputs.
-/
namespace ScnVerif.Lemmas.ChopperRatReal
open ScnVerif ScnVerif.ChopperRat

/-- well-formed: positive denominator -/
def WF (a : Q) : Prop := 0 < a.den

noncomputable def toReal (a : Q) : ℝ := (a.num : ℝ) / (a.den : ℝ)

theorem normalize_wf (n : ℤ) (d : ℕ) : WF (Q.normalize n d) := by
  unfold Q.normalize WF
  by_cases hd : d = 0
  · simp [hd]
  · simp only [hd, if_false]
    have hg : Nat.gcd n.natAbs d ≠ 0 := by
      intro h; exact hd (Nat.gcd_eq_zero_iff.mp h).2
    simp only [hg, if_false]
    exact Nat.div_pos (Nat.le_of_dvd (Nat.pos_of_ne_zero hd) (Nat.gcd_dvd_right _ _)) (Nat.pos_of_ne_zero hg)

theorem toReal_normalize (n : ℤ) (d : ℕ) (hd : d ≠ 0) : toReal (Q.normalize n d) = (n : ℝ) / (d : ℝ) := by
  unfold Q.normalize toReal
  have hg : Nat.gcd n.natAbs d ≠ 0 := by
    intro h; exact hd (Nat.gcd_eq_zero_iff.mp h).2
  simp only [hd, hg, if_false]
  have hgR : ((Nat.gcd n.natAbs d : ℕ) : ℝ) ≠ 0 := by exact_mod_cast hg
  have h1 : ((Nat.gcd n.natAbs d : ℕ) : ℤ) ∣ n := by
    have := Nat.gcd_dvd_left n.natAbs d
    exact Int.natCast_dvd.mpr this
  have h2 : Nat.gcd n.natAbs d ∣ d := Nat.gcd_dvd_right _ _
  rw [Int.cast_div h1 (by exact_mod_cast hg), Nat.cast_div h2 hgR]
  have hdR : (d : ℝ) ≠ 0 := by exact_mod_cast hd
  push_cast
  field_simp

theorem toReal_ofInt (n : ℤ) : toReal (Q.ofInt n) = n := by simp [toReal, Q.ofInt]
theorem ofInt_wf (n : ℤ) : WF (Q.ofInt n) := by simp [WF, Q.ofInt]

theorem toReal_intCast (n : ℤ) : toReal ((n : Int) : Q) = ((n : Int) : ℝ) := toReal_ofInt n
theorem intCast_wf (n : ℤ) : WF ((n : Int) : Q) := ofInt_wf n

theorem denR_pos {a : Q} (h : WF a) : (0 : ℝ) < a.den := by exact_mod_cast h

theorem toReal_add {a b : Q} (ha : WF a) (hb : WF b) : toReal (a + b) = toReal a + toReal b := by
  show toReal (Q.add a b) = _
  unfold Q.add
  rw [toReal_normalize _ _ (Nat.mul_ne_zero (Nat.ne_of_gt ha) (Nat.ne_of_gt hb))]
  have := denR_pos ha; have := denR_pos hb
  unfold toReal; push_cast; field_simp

theorem toReal_sub {a b : Q} (ha : WF a) (hb : WF b) : toReal (a - b) = toReal a - toReal b := by
  show toReal (Q.sub a b) = _
  unfold Q.sub
  rw [toReal_normalize _ _ (Nat.mul_ne_zero (Nat.ne_of_gt ha) (Nat.ne_of_gt hb))]
  have := denR_pos ha; have := denR_pos hb
  unfold toReal; push_cast; field_simp

theorem toReal_mul {a b : Q} (ha : WF a) (hb : WF b) : toReal (a * b) = toReal a * toReal b := by
  show toReal (Q.mul a b) = _
  unfold Q.mul
  rw [toReal_normalize _ _ (Nat.mul_ne_zero (Nat.ne_of_gt ha) (Nat.ne_of_gt hb))]
  have := denR_pos ha; have := denR_pos hb
  unfold toReal; push_cast; field_simp

theorem toReal_neg (a : Q) : toReal (-a) = -toReal a := by
  show toReal (Q.neg a) = _
  unfold Q.neg toReal; push_cast; ring

theorem add_wf (a b : Q) : WF (a + b) := normalize_wf _ _
theorem sub_wf (a b : Q) : WF (a - b) := normalize_wf _ _
theorem mul_wf (a b : Q) : WF (a * b) := normalize_wf _ _
theorem neg_wf {a : Q} (h : WF a) : WF (-a) := h

theorem div_wf (a b : Q) : WF (a / b) := by
  show WF (Q.div a b)
  unfold Q.div
  split
  · simp [WF]
  · split <;> exact normalize_wf _ _

theorem toReal_div {a b : Q} (ha : WF a) (hb : WF b) : toReal (a / b) = toReal a / toReal b := by
  show toReal (Q.div a b) = _
  unfold Q.div
  have hda := denR_pos ha; have hdb := denR_pos hb
  by_cases h0 : b.num = 0
  · simp [h0, toReal]
  · simp only [h0, if_false]
    have hnat : b.num.natAbs ≠ 0 := Int.natAbs_ne_zero.mpr h0
    have hne : a.den * b.num.natAbs ≠ 0 := Nat.mul_ne_zero (Nat.ne_of_gt ha) hnat
    by_cases hpos : b.num > 0
    · simp only [hpos, if_true]
      rw [toReal_normalize _ _ hne]
      have habs : ((b.num.natAbs : ℕ) : ℝ) = (b.num : ℝ) := by
        rw [Nat.cast_natAbs, Int.cast_abs, abs_of_pos (by exact_mod_cast hpos)]
      have hbR : (b.num : ℝ) ≠ 0 := by exact_mod_cast h0
      unfold toReal; push_cast; rw [habs]; field_simp
    · simp only [hpos, if_false]
      rw [toReal_normalize _ _ hne]
      have hneg : b.num < 0 := lt_of_le_of_ne (not_lt.mp hpos) h0
      have habs : ((b.num.natAbs : ℕ) : ℝ) = -(b.num : ℝ) := by
        rw [Nat.cast_natAbs, Int.cast_abs, abs_of_neg (by exact_mod_cast hneg)]
      have hbR : (b.num : ℝ) ≠ 0 := by exact_mod_cast h0
      unfold toReal; push_cast; rw [habs]; field_simp

theorem toReal_lt {a b : Q} (ha : WF a) (hb : WF b) : a < b ↔ toReal a < toReal b := by
  show a.num * b.den < b.num * a.den ↔ _
  have hda := denR_pos ha; have hdb := denR_pos hb
  unfold toReal
  rw [div_lt_div_iff₀ hda hdb]
  constructor
  · intro h; exact_mod_cast h
  · intro h; exact_mod_cast h

theorem toReal_le {a b : Q} (ha : WF a) (hb : WF b) : a ≤ b ↔ toReal a ≤ toReal b := by
  show a.num * b.den ≤ b.num * a.den ↔ _
  have hda := denR_pos ha; have hdb := denR_pos hb
  unfold toReal
  rw [div_le_div_iff₀ hda hdb]
  constructor
  · intro h; exact_mod_cast h
  · intro h; exact_mod_cast h

end ScnVerif.Lemmas.ChopperRatReal
