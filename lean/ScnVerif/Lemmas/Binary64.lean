import Mathlib.Tactic.Ring
import Mathlib.Tactic.Linarith
import Mathlib.Tactic.NormNum
import Mathlib.Tactic.Positivity
import Mathlib.Tactic.FieldSimp
import Mathlib.Data.Real.Basic
import Mathlib.Algebra.Order.Field.Power
/-!
# The set of binary64 values and its gaps (C15)

`B64` is the set of reals `a·2^e` with an integer significand `|a| < 2^53` and an exponent
`-1074 ≤ e ≤ 971`: all finite binary64 numbers (normal, subnormal, both zeros collapse to `0`).
Distinct elements are at least `2^-53·max(|x|,|y|)` apart (this only needs the significand bound,
not the exponent range) and at least `2^-1074` apart (this only needs the lower exponent bound).
-/
namespace ScnVerif.Binary64

/-- `p`-bit significand floats with unbounded exponent -/
def Sig53 (x : ℝ) : Prop := ∃ (a e : ℤ), |a| < 2 ^ 53 ∧ x = a * (2 : ℝ) ^ e

/-- the finite binary64 numbers -/
def B64 (x : ℝ) : Prop := ∃ (a e : ℤ), |a| < 2 ^ 53 ∧ -1074 ≤ e ∧ e ≤ 971 ∧ x = a * (2 : ℝ) ^ e

theorem B64.sig53 {x : ℝ} (h : B64 x) : Sig53 x := by
  obtain ⟨a, e, ha, _, _, rfl⟩ := h; exact ⟨a, e, ha, rfl⟩

/-- integer core: a 53-bit integer `b` and any other integer `A ≠ b` -/
theorem int_rel_gap (A b : ℤ) (hb : |b| < 2 ^ 53) (hne : A ≠ b) : |A| ≤ 2 ^ 53 * |A - b| := by
  rcases abs_cases A with ⟨h1, _⟩ | ⟨h1, _⟩ <;> rcases abs_cases b with ⟨h2, _⟩ | ⟨h2, _⟩ <;>
    rcases abs_cases (A - b) with ⟨h3, _⟩ | ⟨h3, _⟩ <;> rw [h1, h3] <;> rw [h2] at hb <;> omega

theorem int_rel_gap' (A b : ℤ) (hA : |A| < 2 ^ 53) (hne : A ≠ b) : |A| ≤ 2 ^ 53 * |A - b| := by
  have : 1 ≤ |A - b| := Int.one_le_abs (sub_ne_zero.mpr hne)
  nlinarith

theorem two_zpow_split (e : ℤ) (n : ℕ) : (2 : ℝ) ^ (e + n) = 2 ^ n * 2 ^ e := by
  rw [zpow_add₀ (by norm_num), zpow_natCast, mul_comm]

/-- relative gap, one-sided -/
theorem sig53_gap_left {x y : ℝ} (hx : Sig53 x) (hy : Sig53 y) (hne : x ≠ y) :
    (2 : ℝ) ^ (-53 : ℤ) * |x| ≤ |x - y| := by
  obtain ⟨a, e, ha, rfl⟩ := hx
  obtain ⟨b, f, hb, rfl⟩ := hy
  have h53 : (2 : ℝ) ^ (-53 : ℤ) = 1 / 2 ^ 53 := by
    rw [zpow_neg, one_div]; norm_cast
  rw [h53]
  -- bring both to the smaller exponent g: x = A·2^g, y = B·2^g with |A| ≤ 2^53·|A - B|
  suffices h : ∃ (A B : ℤ) (g : ℤ), (a : ℝ) * 2 ^ e = A * 2 ^ g ∧ (b : ℝ) * 2 ^ f = B * 2 ^ g ∧
      |A| ≤ 2 ^ 53 * |A - B| by
    obtain ⟨A, B, g, hA, hB, hgap⟩ := h
    rw [hA, hB, ← sub_mul, abs_mul, abs_mul]
    have hg : (0 : ℝ) < |(2 : ℝ) ^ g| := abs_pos.mpr (zpow_ne_zero _ (by norm_num))
    have hgap' : |(A : ℝ)| ≤ 2 ^ 53 * |(A : ℝ) - B| := by exact_mod_cast hgap
    rw [div_mul_eq_mul_div, one_mul, div_le_iff₀ (by positivity)]
    nlinarith [abs_nonneg ((A : ℝ) - B)]
  rcases le_total e f with hef | hef
  · obtain ⟨n, hn⟩ := Int.le.dest hef
    refine ⟨a, b * 2 ^ n, e, rfl, ?_, ?_⟩
    · rw [← hn, two_zpow_split]; push_cast; ring
    · apply int_rel_gap' _ _ ha
      intro h; apply hne
      rw [← hn, two_zpow_split, h]; push_cast; ring
  · obtain ⟨n, hn⟩ := Int.le.dest hef
    refine ⟨a * 2 ^ n, b, f, ?_, rfl, ?_⟩
    · rw [← hn, two_zpow_split]; push_cast; ring
    · apply int_rel_gap _ _ hb
      intro h; apply hne
      rw [← hn, two_zpow_split, ← h]; push_cast; ring

/-- **binary64 gap** (relative): distinct finite binary64 numbers are at least
`2^-53·max(|x|,|y|)` apart -/
theorem binary64_gap {x y : ℝ} (hx : B64 x) (hy : B64 y) (hne : x ≠ y) :
    (2 : ℝ) ^ (-53 : ℤ) * max |x| |y| ≤ |x - y| := by
  have h1 := sig53_gap_left hx.sig53 hy.sig53 hne
  have h2 := sig53_gap_left hy.sig53 hx.sig53 (Ne.symm hne)
  rw [abs_sub_comm y x] at h2
  have hp : (0 : ℝ) ≤ (2 : ℝ) ^ (-53 : ℤ) := by positivity
  rcases max_cases |x| |y| with ⟨h, _⟩ | ⟨h, _⟩ <;> rw [h] <;> assumption

/-- **binary64 gap** (absolute; this is the one that matters for subnormals): distinct finite
binary64 numbers are at least `2^-1074` apart -/
theorem binary64_abs_gap {x y : ℝ} (hx : B64 x) (hy : B64 y) (hne : x ≠ y) :
    (2 : ℝ) ^ (-1074 : ℤ) ≤ |x - y| := by
  obtain ⟨a, e, _, he, _, rfl⟩ := hx
  obtain ⟨b, f, _, hf, _, rfl⟩ := hy
  obtain ⟨n, hn⟩ := Int.le.dest he
  obtain ⟨m, hm⟩ := Int.le.dest hf
  have e1 : (a : ℝ) * 2 ^ e = ((a * 2 ^ n : ℤ) : ℝ) * 2 ^ (-1074 : ℤ) := by
    rw [← hn, two_zpow_split]; push_cast; ring
  have e2 : (b : ℝ) * 2 ^ f = ((b * 2 ^ m : ℤ) : ℝ) * 2 ^ (-1074 : ℤ) := by
    rw [← hm, two_zpow_split]; push_cast; ring
  rw [e1, e2] at hne ⊢
  have hk : a * 2 ^ n ≠ b * 2 ^ m := fun h => hne (by rw [h])
  rw [← sub_mul, abs_mul, abs_of_pos (by positivity : (0 : ℝ) < 2 ^ (-1074 : ℤ))]
  have : (1 : ℝ) ≤ |((a * 2 ^ n : ℤ) : ℝ) - ((b * 2 ^ m : ℤ) : ℝ)| := by
    have := Int.one_le_abs (sub_ne_zero.mpr hk)
    exact_mod_cast this
  nlinarith [show (0 : ℝ) < 2 ^ (-1074 : ℤ) by positivity]

example : B64 1 := ⟨1, 0, by norm_num, by norm_num, by norm_num, by norm_num⟩
example : B64 ((2 : ℝ) ^ (-1074 : ℤ)) := ⟨1, -1074, by norm_num, by norm_num, by norm_num, by norm_num⟩

end ScnVerif.Binary64
