import ScnVerif.Lemmas.CascadeSpec
/-!
# Orientation: every point on the inner side of all edges stays so after `_chop`

`cross p q x ≥ 0` says `x` is on the left of (or on) the directed line `p → q`. The source rectangle
is listed counter-clockwise in the (time, wavelength) plane, shear has determinant 1, and the
Sutherland–Hodgman step only creates sub-edges of input edges and edges along the clip line whose
direction is forced by convexity.
-/
set_option linter.unusedSectionVars false
namespace ScnVerif.Cascade
variable {α : Type} [Field α] [LinearOrder α] [IsStrictOrderedRing α]

def cross (p q x : Vtx α) : α := (q.1 - p.1) * (x.2 - p.2) - (q.2 - p.2) * (x.1 - p.1)

/-- `x` is on the left of (or on) the directed line through the edge `e` -/
def LeftOf (e : Vtx α × Vtx α) (x : Vtx α) : Prop := 0 ≤ cross e.1 e.2 x

/-- on the inner side of every cyclic edge of the polygon -/
def LeftAll (poly : Poly α) (x : Vtx α) : Prop := ∀ e ∈ cycPairs poly, LeftOf e x

/-- convex counter-clockwise cycle: every vertex is on the inner side of every edge -/
def AllLeft (poly : Poly α) : Prop := ∀ v ∈ poly, LeftAll poly v

theorem cross_cmb (p q x y : Vtx α) (a : α) :
    cross p q (cmb a x y) = (1 - a) * cross p q x + a * cross p q y := by
  simp only [cross, cmb]; ring

theorem leftOf_convex (e : Vtx α × Vtx α) : Convex (LeftOf e) := by
  intro x y a hx hy h0 h1
  unfold LeftOf at *
  rw [cross_cmb]
  have : 0 ≤ 1 - a := by linarith
  positivity

theorem leftAll_convex (poly : Poly α) : Convex (LeftAll poly) :=
  fun x y a hx hy h0 h1 e he => leftOf_convex e x y a (hx e he) (hy e he) h0 h1

theorem cross_shear (k : Consts α) (d : α) (p q x : Vtx α) :
    cross (shearV k d p) (shearV k d q) (shearV k d x) = cross p q x := by
  simp only [cross, shearV, propagateTimes]; ring

theorem cross_cmb_left (p q x : Vtx α) (a : α) : cross p (cmb a p q) x = a * cross p q x := by
  simp only [cross, cmb]; ring

theorem cross_cmb_right (p q x : Vtx α) (a : α) : cross (cmb a p q) q x = (1 - a) * cross p q x := by
  simp only [cross, cmb]; ring

/-- relative to a point `X = cmb a p q` of the line -/
theorem cross_via (p q z : Vtx α) (a : α) :
    cross p q z = (q.1 - p.1) * (z.2 - (cmb a p q).2) - (q.2 - p.2) * (z.1 - (cmb a p q).1) := by
  simp only [cross, cmb]; ring

theorem leftAll_shear (k : Consts α) (d : α) {poly : Poly α} {x : Vtx α} (h : LeftAll poly x) :
    LeftAll (shearPoly k d poly) (shearV k d x) := by
  intro e he
  rw [shearPoly_eq, cycPairs_map, List.mem_map] at he
  obtain ⟨e0, he0, rfl⟩ := he
  unfold LeftOf
  rw [cross_shear]; exact h e0 he0

theorem allLeft_shear (k : Consts α) (d : α) {poly : Poly α} (h : AllLeft poly) :
    AllLeft (shearPoly k d poly) := by
  intro v hv
  rw [shearPoly_eq, List.mem_map] at hv
  obtain ⟨v0, hv0, rfl⟩ := hv
  exact leftAll_shear k d (h v0 hv0)

/-! ## `emit` by cases -/

theorem emit_tt {c : α} {dir : Bool} {p q : Vtx α} (hp : inside c dir p.1 = true)
    (hq : inside c dir q.1 = true) : emit c dir p q = [p] := by simp [emit, hp, hq]
theorem emit_tf {c : α} {dir : Bool} {p q : Vtx α} (hp : inside c dir p.1 = true)
    (hq : inside c dir q.1 = false) : emit c dir p q = [p, interp c p q] := by simp [emit, hp, hq]
theorem emit_ft {c : α} {dir : Bool} {p q : Vtx α} (hp : inside c dir p.1 = false)
    (hq : inside c dir q.1 = true) : emit c dir p q = [interp c p q] := by simp [emit, hp, hq]
theorem emit_ff {c : α} {dir : Bool} {p q : Vtx α} (hp : inside c dir p.1 = false)
    (hq : inside c dir q.1 = false) : emit c dir p q = [] := by simp [emit, hp, hq]

/-- the new edge along the clip line, from an exit point `X` (on the edge `p → q`, `p` inside,
`q` outside) to any point `h` of the clip line that is on the left of `p → q`, has every inside
point on its left -/
theorem leftOf_clipline {c : α} {dir : Bool} {p q h x : Vtx α} {a : α}
    (hp : inside c dir p.1 = true) (hq : inside c dir q.1 = false) (hx : inside c dir x.1 = true)
    (hX : (cmb a p q).1 = c) (hh : h.1 = c) (hl : LeftOf (p, q) h) : LeftOf (cmb a p q, h) x := by
  unfold LeftOf at *
  simp only at hl ⊢
  rw [cross_via p q h a, hX, hh] at hl
  rw [inside_iff_sg] at hp hx
  rw [not_inside_iff_sg] at hq
  have hcr : cross (cmb a p q) h x = -((h.2 - (cmb a p q).2) * (x.1 - c)) := by
    simp only [cross, hX, hh]; ring
  rw [hcr]
  simp only [sub_self, mul_zero, sub_zero] at hl
  set δ := h.2 - (cmb a p q).2
  -- s (q.1 - p.1) < 0, s (x.1 - c) ≥ 0, (q.1 - p.1) δ ≥ 0  ⟹  δ (x.1 - c) ≤ 0
  cases dir
  · simp only [sg, Bool.false_eq_true, if_false] at hp hq hx
    have hd : 0 < q.1 - p.1 := by linarith
    have hδ : 0 ≤ δ := by
      by_contra hn
      have : (q.1 - p.1) * δ < 0 := mul_neg_of_pos_of_neg hd (not_le.1 hn)
      linarith
    have : δ * (x.1 - c) ≤ 0 := mul_nonpos_of_nonneg_of_nonpos hδ (by linarith)
    linarith
  · simp only [sg, if_true] at hp hq hx
    have hd : q.1 - p.1 < 0 := by linarith
    have hδ : δ ≤ 0 := by
      by_contra hn
      have : (q.1 - p.1) * δ < 0 := mul_neg_of_neg_of_pos hd (not_le.1 hn)
      linarith
    have : δ * (x.1 - c) ≤ 0 := mul_nonpos_of_nonpos_of_nonneg hδ (by linarith)
    linarith

/-- **the core induction**: along a vertex path all of whose edges belong to `E` and all of whose
vertices are on the left of all of `E`, any inside point `x` on the left of all of `E` is on the
left of every consecutive pair of the clipped path. (Second component: what the first output
vertex is, needed to join pieces.) -/
theorem clipPath_left (c : α) (dir : Bool) (E : List (Vtx α × Vtx α)) (x : Vtx α)
    (hxE : ∀ e ∈ E, LeftOf e x) (hxin : inside c dir x.1 = true) :
    ∀ L : List (Vtx α), (∀ e ∈ pathPairs L, e ∈ E) → (∀ v ∈ L, ∀ e ∈ E, LeftOf e v) →
      (∀ e' ∈ pathPairs (clipPath c dir L), LeftOf e' x) ∧
      (∀ h, (clipPath c dir L).head? = some h → ∀ p, L.head? = some p →
        (inside c dir p.1 = true → h = p) ∧
        (inside c dir p.1 = false → h.1 = c ∧ ∀ e ∈ E, LeftOf e h))
  | [], _, _ => by simp [clipPath, pathPairs]
  | [_], _, _ => by simp [clipPath, pathPairs]
  | p :: q :: rest, hE, hV => by
      have hpq : (p, q) ∈ E := hE _ (by simp [pathPairs_cons_cons])
      obtain ⟨ih1, ih2⟩ := clipPath_left c dir E x hxE hxin (q :: rest)
        (fun e he => hE e (by rw [pathPairs_cons_cons]; exact List.mem_cons_of_mem _ he))
        (fun v hv => hV v (List.mem_cons_of_mem _ hv))
      have hpV := hV p (by simp)
      have hqV := hV q (by simp)
      simp only [clipPath]
      set R := clipPath c dir (q :: rest) with hR
      have ih2' := fun h hh => ih2 h hh q rfl
      cases hp : inside c dir p.1 <;> cases hq : inside c dir q.1
      · -- outside, outside
        rw [emit_ff hp hq, List.nil_append]
        refine ⟨ih1, ?_⟩
        intro h hh p' hp'
        simp only [List.head?_cons, Option.some.injEq] at hp'
        subst hp'
        refine ⟨fun h' => (by rw [hp] at h'; cases h'), fun _ => ((ih2' h hh).2 hq)⟩
      · -- outside, inside: entry point
        have hd : inside c dir p.1 ≠ inside c dir q.1 := by rw [hp, hq]; decide
        obtain ⟨hne, h0, h1⟩ := lam_bounds hd
        rw [emit_ft hp hq, interp_eq_cmb c p q hne]
        have hY1 : (cmb (lam c p q) p q).1 = c := by rw [← interp_eq_cmb c p q hne]; rfl
        constructor
        · intro e' he'
          simp only [List.singleton_append] at he'
          cases hRR : R with
          | nil => rw [hRR] at he'; simp [pathPairs] at he'
          | cons h R' =>
            rw [hRR, pathPairs_cons_cons, List.mem_cons] at he'
            rcases he' with rfl | he'
            · have hhq : h = q := ((ih2' h (by rw [hRR]; rfl)).1 hq)
              rw [hhq]
              unfold LeftOf; simp only
              rw [cross_cmb_right]
              have := hxE _ hpq
              unfold LeftOf at this
              have h1' : 0 ≤ 1 - lam c p q := by linarith
              positivity
            · exact ih1 e' (by rw [hRR]; exact he')
        · intro h hh p' hp'
          simp only [List.singleton_append, List.head?_cons, Option.some.injEq] at hh hp'
          subst hh; subst hp'
          refine ⟨fun h' => (by rw [hp] at h'; cases h'), fun _ => ⟨hY1, ?_⟩⟩
          intro e he
          exact leftOf_convex e p q _ (hpV e he) (hqV e he) h0 h1
      · -- inside, outside: exit point
        have hd : inside c dir p.1 ≠ inside c dir q.1 := by rw [hp, hq]; decide
        obtain ⟨hne, h0, h1⟩ := lam_bounds hd
        rw [emit_tf hp hq, interp_eq_cmb c p q hne]
        have hX1 : (cmb (lam c p q) p q).1 = c := by rw [← interp_eq_cmb c p q hne]; rfl
        constructor
        · intro e' he'
          simp only [List.cons_append, List.nil_append, pathPairs_cons_cons, List.mem_cons] at he'
          rcases he' with rfl | he'
          · unfold LeftOf; simp only
            rw [cross_cmb_left]
            have := hxE _ hpq
            unfold LeftOf at this
            positivity
          · cases hRR : R with
            | nil => rw [hRR] at he'; simp [pathPairs] at he'
            | cons h R' =>
              rw [hRR, pathPairs_cons_cons, List.mem_cons] at he'
              rcases he' with rfl | he'
              · obtain ⟨hh1, hhE⟩ := (ih2' h (by rw [hRR]; rfl)).2 hq
                exact leftOf_clipline hp hq hxin hX1 hh1 (hhE _ hpq)
              · exact ih1 e' (by rw [hRR]; exact he')
        · intro h hh p' hp'
          simp only [List.cons_append, List.head?_cons, Option.some.injEq] at hh hp'
          subst hh; subst hp'
          exact ⟨fun _ => rfl, fun h' => (by rw [hp] at h'; cases h')⟩
      · -- inside, inside
        rw [emit_tt hp hq]
        constructor
        · intro e' he'
          simp only [List.singleton_append] at he'
          cases hRR : R with
          | nil => rw [hRR] at he'; simp [pathPairs] at he'
          | cons h R' =>
            rw [hRR, pathPairs_cons_cons, List.mem_cons] at he'
            rcases he' with rfl | he'
            · have hhq : h = q := ((ih2' h (by rw [hRR]; rfl)).1 hq)
              rw [hhq]
              exact hxE _ hpq
            · exact ih1 e' (by rw [hRR]; exact he')
        · intro h hh p' hp'
          simp only [List.singleton_append, List.head?_cons, Option.some.injEq] at hh hp'
          subst hh; subst hp'
          exact ⟨fun _ => rfl, fun h' => (by rw [hp] at h'; cases h')⟩

theorem clipPath_append_cons (c : α) (dir : Bool) : ∀ (A : List (Vtx α)) (x : Vtx α) (B : List (Vtx α)),
    clipPath c dir (A ++ x :: B) = clipPath c dir (A ++ [x]) ++ clipPath c dir (x :: B)
  | [], x, B => by simp [clipPath]
  | [a], x, B => by simp [clipPath]
  | a :: a' :: A, x, B => by
      have := clipPath_append_cons c dir (a' :: A) x B
      simp only [List.cons_append, clipPath] at this ⊢
      rw [this, List.append_assoc]

/-- the clipped cycle written twice is the clipped path around the cycle twice -/
theorem clipPath_double (c : α) (dir : Bool) (poly : Poly α) :
    clipPath c dir (poly ++ poly.take 1) ++ clipPath c dir (poly ++ poly.take 1) =
      clipPath c dir (poly ++ (poly ++ poly.take 1)) := by
  cases poly with
  | nil => simp [clipPath]
  | cons a t =>
    simp only [List.take_succ_cons, List.take_zero]
    have := clipPath_append_cons c dir (a :: t) a (t ++ [a])
    simp only [List.cons_append] at this ⊢
    rw [this]

/-- **`_chop` keeps the inner side**: an inside point on the inner side of every edge of a convex
counter-clockwise cycle is on the inner side of every edge of the clipped cycle -/
theorem chopStep_leftAll {c : α} {dir : Bool} {poly out : Poly α} (h : chopStep c dir poly = some out)
    (hconv : AllLeft poly) {x : Vtx α} (hx : LeftAll poly x) (hxin : inside c dir x.1 = true) :
    LeftAll out x := by
  obtain ⟨rfl, _⟩ := chopStep_eq_some h
  intro e' he'
  rw [mem_cycPairs_iff, clipPath_double] at he'
  have hmem : ∀ v, v ∈ poly ++ (poly ++ poly.take 1) → v ∈ poly := by
    intro v hv
    simp only [List.mem_append] at hv
    rcases hv with hv | hv | hv
    · exact hv
    · exact hv
    · exact List.mem_of_mem_take hv
  have hE : ∀ e ∈ pathPairs (poly ++ (poly ++ poly.take 1)), e ∈ cycPairs poly := by
    intro e he
    rw [mem_pathPairs_append] at he
    rcases he with he | he | ⟨a, b, ha, hb, rfl⟩
    · unfold cycPairs; rw [mem_pathPairs_append]; exact Or.inl he
    · exact he
    · cases poly with
      | nil => simp at ha
      | cons p t =>
        simp only [List.cons_append, List.head?_cons, Option.some.injEq] at hb
        subst hb
        unfold cycPairs
        rw [mem_pathPairs_append]
        exact Or.inr (Or.inr ⟨a, p, ha, by simp, rfl⟩)
  exact (clipPath_left c dir (cycPairs poly) x hx hxin _ hE
    (fun v hv => hconv v (hmem v hv))).1 e' he'

/-- `_chop` keeps convex counter-clockwise cycles -/
theorem chopStep_allLeft {c : α} {dir : Bool} {poly out : Poly α} (h : chopStep c dir poly = some out)
    (hconv : AllLeft poly) : AllLeft out := by
  intro v hv
  obtain ⟨hh, hin⟩ := chopStep_hull_inside h hv
  exact chopStep_leftAll h hconv (Hull.le (leftAll_convex poly) hconv v hh) hin

end ScnVerif.Cascade
