import ScnVerif.Lemmas.RelErr
import Mathlib.Tactic.Linarith
import Mathlib.Tactic.Positivity
import Mathlib.Tactic.FieldSimp
/-! standard-model rounding analysis of the inelastic kernels (C05), built on `Lemmas/RelErr.lean` -/
namespace ScnVerif.Lemmas.InelasticRounding
open ScnVerif ScnVerif.Fp

/-- an absolute perturbation of at most `w·|x|` is a `RelErr w 1` -/
theorem relErr_of_abs {w xh x : ℝ} (hw0 : 0 ≤ w) (hw1 : w < 1) (hx : 0 < x) (h : |xh - x| ≤ w * x) :
    RelErr w 1 xh x := by
  have hb := abs_le.mp h
  refine ⟨xh / x, by field_simp, ?_, ?_⟩
  · rw [pow_one, le_div_iff₀ hx]; nlinarith
  · rw [pow_one, div_le_iff₀ hx, inv_mul_eq_div, le_div_iff₀ (by linarith)]
    nlinarith

/-- the computed difference `δh = fl(tof − t0h)` against the exact `δ = tof − t0` -/
theorem delta_relErr {u w tof t0 t0h d1 : ℝ} (hu0 : 0 ≤ u) (hw1 : w < 1) (hδ : 0 < tof - t0) (hd1 : |d1| ≤ u)
    (h0 : |t0h - t0| * (1 + u) + u * (tof - t0) ≤ w * (tof - t0)) :
    RelErr w 1 ((tof - t0h) * (1 + d1)) (tof - t0) := by
  have hw0 : 0 ≤ w := by
    by_contra hc
    push Not at hc
    have : w * (tof - t0) < 0 := mul_neg_of_neg_of_pos hc hδ
    have : 0 ≤ |t0h - t0| * (1 + u) + u * (tof - t0) := by positivity
    linarith
  apply relErr_of_abs hw0 hw1 hδ
  have e : (tof - t0h) * (1 + d1) - (tof - t0) = (t0 - t0h) * (1 + d1) + (tof - t0) * d1 := by ring
  rw [e]
  have hb := abs_le.mp hd1
  calc |(t0 - t0h) * (1 + d1) + (tof - t0) * d1|
      ≤ |(t0 - t0h) * (1 + d1)| + |(tof - t0) * d1| := abs_add_le _ _
    _ = |t0h - t0| * |1 + d1| + (tof - t0) * |d1| := by
        rw [abs_mul, abs_mul, abs_sub_comm, abs_of_pos hδ]
    _ ≤ |t0h - t0| * (1 + u) + (tof - t0) * u := by
        have h1 : |1 + d1| ≤ 1 + u := by rw [abs_le]; constructor <;> linarith
        gcongr
    _ ≤ w * (tof - t0) := by linarith

/-- Standard-model rounding of the variable leg and the final subtraction of `energy_transfer_direct_from_tof`
(`+ − × ÷` each with a relative error `|d_i| ≤ u`).  `w` is the condition-aware error level: it has to
dominate `u`, the relative error of the computed `scale`, and `(1+u)·|t0h − t0|/(t − t0) + u`, the relative
error of the computed `t − t0`, which contains the rounding of `t0` amplified by `t0/(t − t0)`. -/
theorem direct_rounding_core {u w tof t0 t0h s sh Ei d1 d2 d3 d4 : ℝ} (hu0 : 0 ≤ u) (huw : u ≤ w) (hw : 5 * w < 1)
    (hδ : 0 < tof - t0) (hd1 : |d1| ≤ u) (hd2 : |d2| ≤ u) (hd3 : |d3| ≤ u) (hd4 : |d4| ≤ u)
    (h0 : |t0h - t0| * (1 + u) + u * (tof - t0) ≤ w * (tof - t0))
    (hs : RelErr w 1 sh s) :
    |(Ei - sh / ((tof - t0h) * (1 + d1) * ((tof - t0h) * (1 + d1)) * (1 + d2)) * (1 + d3)) * (1 + d4)
        - (Ei - s / ((tof - t0) * (tof - t0)))|
      ≤ u * (|Ei| + |s / ((tof - t0) * (tof - t0))|)
        + (1 + u) * (5 * w / (1 - 5 * w)) * |s / ((tof - t0) * (tof - t0))| := by
  have hw0 : 0 ≤ w := hu0.trans huw
  have hw1 : w < 1 := by linarith
  have hδr := delta_relErr hu0 hw1 hδ hd1 h0
  set δh := (tof - t0h) * (1 + d1)
  set δ := tof - t0
  have hq : RelErr w 3 (δh * δh * (1 + d2)) (δ * δ) :=
    (hδr.mul hw1 hδr).round hw0 hw1 (hd2.trans huw)
  have hv : RelErr w 5 (sh / (δh * δh * (1 + d2)) * (1 + d3)) (s / (δ * δ)) :=
    (hs.div hw1 hq).round hw0 hw1 (hd3.trans huw)
  have hvb := hv.bound hw0 hw1 (by push_cast; linarith)
  push_cast at hvb
  set vh := sh / (δh * δh * (1 + d2)) * (1 + d3)
  set V := s / (δ * δ)
  set B := 5 * w / (1 - 5 * w)
  have hB : 0 ≤ B := div_nonneg (by linarith) (by linarith)
  have e : (Ei - vh) * (1 + d4) - (Ei - V) = (Ei - vh) * d4 - (vh - V) := by ring
  rw [e]
  have h1 : |Ei - vh| ≤ |Ei| + |V| + B * |V| := by
    calc |Ei - vh| = |Ei - V - (vh - V)| := by ring_nf
      _ ≤ |Ei - V| + |vh - V| := abs_sub _ _
      _ ≤ |Ei| + |V| + B * |V| := by
          have := abs_sub Ei V
          linarith
  calc |(Ei - vh) * d4 - (vh - V)| ≤ |(Ei - vh) * d4| + |vh - V| := abs_sub _ _
    _ = |Ei - vh| * |d4| + |vh - V| := by rw [abs_mul]
    _ ≤ (|Ei| + |V| + B * |V|) * u + B * |V| := by
        have : |Ei - vh| * |d4| ≤ (|Ei| + |V| + B * |V|) * u :=
          mul_le_mul h1 hd4 (abs_nonneg _) (by positivity)
        linarith
    _ = u * (|Ei| + |V|) + (1 + u) * B * |V| := by ring

/-- the same for `energy_transfer_indirect_from_tof` (`delta_tof = -t0 + tof`, result `scale/δ² − Ef`) -/
theorem indirect_rounding_core {u w tof t0 t0h s sh Ef d1 d2 d3 d4 : ℝ} (hu0 : 0 ≤ u) (huw : u ≤ w) (hw : 5 * w < 1)
    (hδ : 0 < -t0 + tof) (hd1 : |d1| ≤ u) (hd2 : |d2| ≤ u) (hd3 : |d3| ≤ u) (hd4 : |d4| ≤ u)
    (h0 : |t0h - t0| * (1 + u) + u * (-t0 + tof) ≤ w * (-t0 + tof))
    (hs : RelErr w 1 sh s) :
    |(sh / ((-t0h + tof) * (1 + d1) * ((-t0h + tof) * (1 + d1)) * (1 + d2)) * (1 + d3) - Ef) * (1 + d4)
        - (s / ((-t0 + tof) * (-t0 + tof)) - Ef)|
      ≤ u * (|Ef| + |s / ((-t0 + tof) * (-t0 + tof))|)
        + (1 + u) * (5 * w / (1 - 5 * w)) * |s / ((-t0 + tof) * (-t0 + tof))| := by
  have e1 : -t0 + tof = tof - t0 := by ring
  have e2 : -t0h + tof = tof - t0h := by ring
  rw [e1] at hδ h0 ⊢
  rw [e2]
  have := direct_rounding_core (Ei := Ef) hu0 huw hw hδ hd1 hd2 hd3 hd4 h0 hs
  rw [abs_sub_comm] at this
  convert this using 2
  ring

/-- the condition-aware level: if the computed `t0h` carries `k` roundings (`RelErr u k`), then
`w = (1+u)·(k u/(1−k u))·t0/(t−t0) + u` satisfies the hypothesis on `t − t0` — the rounding of `t0` enters
amplified by `t0/(t − t0)` -/
theorem w_of_t0_relErr {u tof t0 t0h : ℝ} {k : ℕ} (hu0 : 0 ≤ u) (hu1 : u < 1) (hk : (k : ℝ) * u < 1)
    (ht0 : 0 < t0) (hδ : 0 < tof - t0) (h : RelErr u k t0h t0) :
    |t0h - t0| * (1 + u) + u * (tof - t0)
      ≤ ((1 + u) * (k * u / (1 - k * u)) * (t0 / (tof - t0)) + u) * (tof - t0) := by
  have hb := h.bound hu0 hu1 hk
  rw [abs_of_pos ht0] at hb
  have : ((1 + u) * (k * u / (1 - k * u)) * (t0 / (tof - t0)) + u) * (tof - t0)
      = (k * u / (1 - k * u) * t0) * (1 + u) + u * (tof - t0) := by
    field_simp
  rw [this]
  have h1 : 0 ≤ 1 + u := by linarith
  nlinarith [mul_le_mul_of_nonneg_right hb h1]

end ScnVerif.Lemmas.InelasticRounding
