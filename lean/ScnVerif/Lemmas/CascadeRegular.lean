import ScnVerif.Lemmas.CascadeOrient
/-!
# Regular subframes and the covering region

`IsExt true poly E`: `E` is a vertex attaining both the minimum time and the minimum wavelength;
`IsExt false poly E`: both maxima. `Regular` = both exist (this is `Subframe.is_regular`).
`Region poly x`: `x` is on the inner side of every edge and inside the bounding box.
-/
set_option linter.unusedSectionVars false
namespace ScnVerif.Cascade
variable {α : Type} [Field α] [LinearOrder α] [IsStrictOrderedRing α]

/-- `d = true`: vertex with minimal time and minimal wavelength; `d = false`: both maximal -/
def IsExt (d : Bool) (poly : Poly α) (E : Vtx α) : Prop :=
  E ∈ poly ∧ ∀ v ∈ poly, 0 ≤ sg d * (v.1 - E.1) ∧ 0 ≤ sg d * (v.2 - E.2)

theorem isExt_true_iff (poly : Poly α) (E : Vtx α) :
    IsExt true poly E ↔ E ∈ poly ∧ ∀ v ∈ poly, E.1 ≤ v.1 ∧ E.2 ≤ v.2 := by
  simp [IsExt, sg]

theorem isExt_false_iff (poly : Poly α) (E : Vtx α) :
    IsExt false poly E ↔ E ∈ poly ∧ ∀ v ∈ poly, v.1 ≤ E.1 ∧ v.2 ≤ E.2 := by
  simp [IsExt, sg]

/-- `Subframe.is_regular` as a proposition -/
def Regular (poly : Poly α) : Prop := (∃ m, IsExt true poly m) ∧ ∃ M, IsExt false poly M

/-- `x` is inside the quadrant spanned by an extreme vertex -/
def ExtBox (d : Bool) (poly : Poly α) (x : Vtx α) : Prop :=
  ∃ E, IsExt d poly E ∧ 0 ≤ sg d * (x.1 - E.1) ∧ 0 ≤ sg d * (x.2 - E.2)

/-- inside the bounding box of a regular subframe -/
def InBox (poly : Poly α) (x : Vtx α) : Prop := ExtBox true poly x ∧ ExtBox false poly x

/-- on the inner side of every edge and inside the bounding box -/
def Region (poly : Poly α) (x : Vtx α) : Prop := LeftAll poly x ∧ InBox poly x

theorem convex_quadrant (d : Bool) (E : Vtx α) :
    Convex (fun x : Vtx α => 0 ≤ sg d * (x.1 - E.1) ∧ 0 ≤ sg d * (x.2 - E.2)) := by
  intro p q a hp hq h0 h1
  have h1' : 0 ≤ 1 - a := by linarith
  simp only [cmb]
  constructor
  · nlinarith [mul_nonneg h1' hp.1, mul_nonneg h0 hq.1]
  · nlinarith [mul_nonneg h1' hp.2, mul_nonneg h0 hq.2]

/-! ## shear with `d·κ ≥ 0` -/

theorem shear_quadrant (k : Consts α) {δ : α} (hκ : 0 ≤ k.mn / k.h * k.s) (hδ : 0 ≤ δ) (d : Bool)
    {E x : Vtx α} (h : 0 ≤ sg d * (x.1 - E.1) ∧ 0 ≤ sg d * (x.2 - E.2)) :
    0 ≤ sg d * ((shearV k δ x).1 - (shearV k δ E).1) ∧ 0 ≤ sg d * ((shearV k δ x).2 - (shearV k δ E).2) := by
  refine ⟨?_, h.2⟩
  have e : sg d * ((shearV k δ x).1 - (shearV k δ E).1) =
      sg d * (x.1 - E.1) + δ * (k.mn / k.h * k.s) * (sg d * (x.2 - E.2)) := by
    simp only [shearV, propagateTimes]; ring
  rw [e]
  have := mul_nonneg (mul_nonneg hδ hκ) h.2
  linarith [h.1]

theorem isExt_shear (k : Consts α) {δ : α} (hκ : 0 ≤ k.mn / k.h * k.s) (hδ : 0 ≤ δ) {d : Bool}
    {poly : Poly α} {E : Vtx α} (h : IsExt d poly E) : IsExt d (shearPoly k δ poly) (shearV k δ E) := by
  refine ⟨by rw [shearPoly_eq]; exact List.mem_map_of_mem h.1, ?_⟩
  intro v hv
  rw [shearPoly_eq, List.mem_map] at hv
  obtain ⟨v0, hv0, rfl⟩ := hv
  exact shear_quadrant k hκ hδ d (h.2 v0 hv0)

theorem regular_shear (k : Consts α) {δ : α} (hκ : 0 ≤ k.mn / k.h * k.s) (hδ : 0 ≤ δ) {poly : Poly α}
    (h : Regular poly) : Regular (shearPoly k δ poly) := by
  obtain ⟨⟨m, hm⟩, ⟨M, hM⟩⟩ := h
  exact ⟨⟨_, isExt_shear k hκ hδ hm⟩, ⟨_, isExt_shear k hκ hδ hM⟩⟩

theorem region_shear (k : Consts α) {δ : α} (hκ : 0 ≤ k.mn / k.h * k.s) (hδ : 0 ≤ δ) {poly : Poly α}
    {x : Vtx α} (h : Region poly x) : Region (shearPoly k δ poly) (shearV k δ x) := by
  obtain ⟨hl, ⟨m, hm, hmx⟩, ⟨M, hM, hMx⟩⟩ := h
  exact ⟨leftAll_shear k δ hl, ⟨_, isExt_shear k hκ hδ hm, shear_quadrant k hκ hδ true hmx⟩,
    ⟨_, isExt_shear k hκ hδ hM, shear_quadrant k hκ hδ false hMx⟩⟩

/-! ## one `_chop` call -/

/-- an extreme vertex that is on the inner side is kept and stays extreme -/
theorem isExt_chop_of_inside {c : α} {dir d : Bool} {poly out : Poly α} (h : chopStep c dir poly = some out)
    {E : Vtx α} (hE : IsExt d poly E) (hin : inside c dir E.1 = true) : IsExt d out E := by
  refine ⟨mem_chopStep_of_inside h hE.1 hin, ?_⟩
  intro v hv
  exact Hull.le (convex_quadrant d E) hE.2 v (chopStep_hull_inside h hv).1

theorem key_ineq {A B u1 u2 m1 m2 : α} (hA : 0 < A) (hu1 : 0 ≤ u1) (hm1 : m1 < 0) (hm2 : m2 ≤ 0)
    (hi : 0 ≤ A * u2 - B * u1) (hii : 0 ≤ A * m2 - B * m1) : 0 ≤ u2 := by
  have h1 : A * m2 ≤ 0 := mul_nonpos_of_nonneg_of_nonpos hA.le hm2
  have hB : 0 ≤ B := by
    by_contra hn
    have : 0 < B * m1 := mul_pos_of_neg_of_neg (not_le.1 hn) hm1
    linarith
  have h2 : 0 ≤ B * u1 := mul_nonneg hB hu1
  have h3 : 0 ≤ A * u2 := by linarith
  by_contra hn
  have : A * u2 < 0 := mul_neg_of_pos_of_neg hA (not_le.1 hn)
  linarith

/-- if the extreme vertex on the clipped side is cut off, the entry point of the cycle into the
half-plane is the new extreme vertex: it lies on the clip line and no inside point on the inner
side of all edges has a smaller (`dir = true`) / larger (`dir = false`) wavelength -/
theorem exists_new_ext {c : α} {dir : Bool} {poly out : Poly α} (h : chopStep c dir poly = some out)
    (hconv : AllLeft poly) {E : Vtx α} (hE : IsExt dir poly E) (hout : inside c dir E.1 = false) :
    ∃ Y ∈ out, Y.1 = c ∧ ∀ x, LeftAll poly x → inside c dir x.1 = true → 0 ≤ sg dir * (x.2 - Y.2) := by
  obtain ⟨hdef, hne⟩ := chopStep_eq_some h
  -- an inside vertex exists
  obtain ⟨v, hv⟩ := List.exists_mem_of_ne_nil _ hne
  have hb : ∃ b ∈ poly, inside c dir b.1 = true := by
    rcases mem_chopStep h hv with ⟨hm, hin⟩ | ⟨e, he, hd, _⟩
    · exact ⟨v, hm, hin⟩
    · have hm := mem_of_mem_cycPairs he
      cases h1 : inside c dir e.1.1
      · cases h2 : inside c dir e.2.1
        · rw [h1, h2] at hd; exact absurd rfl hd
        · exact ⟨e.2, hm.2, h2⟩
      · exact ⟨e.1, hm.1, h1⟩
  obtain ⟨b, hbm, hbin⟩ := hb
  obtain ⟨e, he, hp, hq⟩ := cyc_switch (fun v : Vtx α => inside c dir v.1) hE.1 hbm hout hbin
  have hd : inside c dir e.1.1 ≠ inside c dir e.2.1 := by rw [hp, hq]; decide
  obtain ⟨hne', h0, h1⟩ := lam_bounds hd
  have hm := mem_of_mem_cycPairs he
  refine ⟨interp c e.1 e.2, ?_, rfl, ?_⟩
  · rw [hdef]
    exact mem_clipPath_of he (by rw [emit_ft hp hq]; simp)
  · intro x hx hxin
    rw [interp_eq_cmb c _ _ hne']
    have hY1 : (cmb (lam c e.1 e.2) e.1 e.2).1 = c := by rw [← interp_eq_cmb c _ _ hne']; rfl
    have hYh : Hull poly (cmb (lam c e.1 e.2) e.1 e.2) :=
      Hull.seg (Hull.vertex hm.1) (Hull.vertex hm.2) h0 h1
    have hYq := Hull.le (convex_quadrant dir E) hE.2 _ hYh
    have cx := hx e he
    have cE := hconv E hE.1 e he
    unfold LeftOf at cx cE
    rw [cross_via e.1 e.2 x (lam c e.1 e.2), hY1] at cx
    rw [cross_via e.1 e.2 E (lam c e.1 e.2), hY1] at cE
    rw [inside_iff_sg] at hxin hq
    rw [not_inside_iff_sg] at hout hp
    set Y := cmb (lam c e.1 e.2) e.1 e.2
    have hs := sg_mul_self (α := α) dir
    refine key_ineq (A := sg dir * (e.2.1 - e.1.1)) (B := sg dir * (e.2.2 - e.1.2))
      (u1 := sg dir * (x.1 - c)) (m1 := sg dir * (E.1 - c)) (m2 := sg dir * (E.2 - Y.2))
      ?_ hxin hout ?_ ?_ ?_
    · have : sg dir * (e.2.1 - e.1.1) = sg dir * (e.2.1 - c) - sg dir * (e.1.1 - c) := by ring
      rw [this]; linarith
    · have := hYq.2
      have e2 : sg dir * (E.2 - Y.2) = -(sg dir * (Y.2 - E.2)) := by ring
      rw [e2]; linarith
    · have : sg dir * (e.2.1 - e.1.1) * (sg dir * (x.2 - Y.2)) - sg dir * (e.2.2 - e.1.2) * (sg dir * (x.1 - c))
          = (sg dir * sg dir) * ((e.2.1 - e.1.1) * (x.2 - Y.2) - (e.2.2 - e.1.2) * (x.1 - c)) := by ring
      rw [this, hs, one_mul]; exact cx
    · have : sg dir * (e.2.1 - e.1.1) * (sg dir * (E.2 - Y.2)) - sg dir * (e.2.2 - e.1.2) * (sg dir * (E.1 - c))
          = (sg dir * sg dir) * ((e.2.1 - e.1.1) * (E.2 - Y.2) - (e.2.2 - e.1.2) * (E.1 - c)) := by ring
      rw [this, hs, one_mul]; exact cE

theorem sg_not (d : Bool) : (sg (!d) : α) = -sg d := by cases d <;> simp [sg]

/-- the quadrant of an extreme vertex is kept by `_chop` for every inside point of the old region -/
theorem extBox_chop {c : α} {dir d : Bool} {poly out : Poly α} (h : chopStep c dir poly = some out)
    (hconv : AllLeft poly) {x : Vtx α} (hl : LeftAll poly x) (hxin : inside c dir x.1 = true)
    (hb : ExtBox d poly x) : ExtBox d out x := by
  obtain ⟨E, hE, hx1, hx2⟩ := hb
  by_cases hEin : inside c dir E.1 = true
  · exact ⟨E, isExt_chop_of_inside h hE hEin, hx1, hx2⟩
  · have hEout : inside c dir E.1 = false := by simpa using hEin
    -- then `d = dir`: the far extreme vertex is inside whenever `x` is
    have hd : d = dir := by
      by_contra hne
      have hd' : d = !dir := by cases d <;> cases dir <;> simp_all
      subst hd'
      rw [inside_iff_sg] at hxin
      rw [not_inside_iff_sg] at hEout
      rw [sg_not] at hx1
      have : sg dir * (E.1 - c) = sg dir * (x.1 - c) + -sg dir * (x.1 - E.1) := by ring
      linarith
    subst hd
    obtain ⟨Y, hYm, hY1, hY⟩ := exists_new_ext h hconv hE hEout
    refine ⟨Y, ⟨hYm, ?_⟩, ?_, hY x hl hxin⟩
    · intro v hv
      obtain ⟨hh, hin⟩ := chopStep_hull_inside h hv
      refine ⟨?_, hY v (Hull.le (leftAll_convex poly) hconv v hh) hin⟩
      rw [hY1]; exact (inside_iff_sg c d v.1).1 hin
    · rw [hY1]; exact (inside_iff_sg c d x.1).1 hxin

/-- `regular_preserved` for one `_chop` call on a convex counter-clockwise cycle -/
theorem chopStep_regular {c : α} {dir : Bool} {poly out : Poly α} (h : chopStep c dir poly = some out)
    (hconv : AllLeft poly) (hr : Regular poly) : Regular out := by
  obtain ⟨hdef, hne⟩ := chopStep_eq_some h
  obtain ⟨v, hv⟩ := List.exists_mem_of_ne_nil _ hne
  obtain ⟨hh, hin⟩ := chopStep_hull_inside h hv
  have hl := Hull.le (leftAll_convex poly) hconv v hh
  obtain ⟨⟨m, hm⟩, ⟨M, hM⟩⟩ := hr
  have b1 : ExtBox true poly v := ⟨m, hm, Hull.le (convex_quadrant true m) hm.2 v hh⟩
  have b2 : ExtBox false poly v := ⟨M, hM, Hull.le (convex_quadrant false M) hM.2 v hh⟩
  obtain ⟨m', hm', _⟩ := extBox_chop h hconv hl hin b1
  obtain ⟨M', hM', _⟩ := extBox_chop h hconv hl hin b2
  exact ⟨⟨m', hm'⟩, ⟨M', hM'⟩⟩

/-- an inside point of the region of a convex counter-clockwise cycle: `_chop` returns a subframe
(not `None`) and the point is in its region -/
theorem chopStep_region {c : α} {dir : Bool} {poly : Poly α} (hconv : AllLeft poly) {x : Vtx α}
    (hx : Region poly x) (hxin : inside c dir x.1 = true) :
    ∃ out, chopStep c dir poly = some out ∧ Region out x := by
  obtain ⟨hl, hb1, hb2⟩ := hx
  -- the far extreme vertex is inside
  have hfar : ∃ F ∈ poly, inside c dir F.1 = true := by
    have hbb : ExtBox (!dir) poly x := by cases dir; exact hb1; exact hb2
    obtain ⟨F, hF, hF1, _⟩ := hbb
    refine ⟨F, hF.1, ?_⟩
    rw [inside_iff_sg] at hxin ⊢
    rw [sg_not] at hF1
    have : sg dir * (F.1 - c) = sg dir * (x.1 - c) + -sg dir * (x.1 - F.1) := by ring
    linarith
  obtain ⟨F, hFm, hFin⟩ := hfar
  obtain ⟨out, h⟩ := chopStep_isSome_of_inside hFm hFin
  exact ⟨out, h, chopStep_leftAll h hconv hl hxin, extBox_chop h hconv hl hxin hb1,
    extBox_chop h hconv hl hxin hb2⟩

end ScnVerif.Cascade
