import ScnVerif.Props.C03
import ScnVerif.Props.C04
import ScnVerif.Props.C05
import ScnVerif.Props.C08
import ScnVerif.Model.Cascade
import ScnVerif.Model.CascadeTyped
/-!
# Helper layer for the geometry / inelastic / cascade part of C07

* a small **unit algebra** (`Dim`: exponents of m, s, kg; `U`: SI scale × dimension; `* / sq sqrt`) in which the
  unit computations of the kernels are replayed (`Props/C07.lean`: the output unit is the documented one for all
  input unit choices);
* scale-invariance lemmas for the documented gravity construction of `Props/C04.lean` (`Spec`), used to turn C04's
  "implementation = construction" theorems into unit equivariance.

Nothing here changes the models of the other properties; their theorems are cited.
-/
namespace ScnVerif.C07Geometry
open ScnVerif ScnVerif.Beamline ScnVerif.Gravity ScnVerif.V3R ScnVerif.Props ScnVerif.Props.C04 Real

/-! ## unit algebra -/

/-- exponents of metre, second, kilogram (angles are dimensionless: rad has scale 1, deg scale π/180) -/
structure Dim where
  len : Int
  time : Int
  mass : Int
  deriving DecidableEq, Repr

namespace Dim
def one : Dim := ⟨0, 0, 0⟩
def mul (a b : Dim) : Dim := ⟨a.len + b.len, a.time + b.time, a.mass + b.mass⟩
def inv (a : Dim) : Dim := ⟨-a.len, -a.time, -a.mass⟩
def div (a b : Dim) : Dim := mul a (inv b)
def sq (a : Dim) : Dim := mul a a
/-- square root of a unit: exponents are halved (scipp raises unless all are even) -/
def sqrt (a : Dim) : Dim := ⟨a.len / 2, a.time / 2, a.mass / 2⟩
def length : Dim := ⟨1, 0, 0⟩
def time' : Dim := ⟨0, 1, 0⟩
def energy : Dim := ⟨2, -2, 1⟩
def accel : Dim := ⟨1, -2, 0⟩
def massD : Dim := ⟨0, 0, 1⟩
def action : Dim := ⟨2, -1, 1⟩   -- J s
end Dim

/-- a unit: SI scale and dimension -/
structure U where
  scale : ℝ
  dim : Dim

namespace U
noncomputable def mul (a b : U) : U := ⟨a.scale * b.scale, a.dim.mul b.dim⟩
noncomputable def div (a b : U) : U := ⟨a.scale / b.scale, a.dim.div b.dim⟩
noncomputable def sq (a : U) : U := mul a a
noncomputable def sqrt (a : U) : U := ⟨Real.sqrt a.scale, a.dim.sqrt⟩
def one : U := ⟨1, Dim.one⟩
noncomputable instance : Mul U := ⟨mul⟩
noncomputable instance : Div U := ⟨div⟩
theorem ext' {a b : U} (h1 : a.scale = b.scale) (h2 : a.dim = b.dim) : a = b := by
  cases a; cases b; simp_all
def lengthU (s : ℝ) : U := ⟨s, Dim.length⟩
def timeU (s : ℝ) : U := ⟨s, Dim.time'⟩
def energyU (s : ℝ) : U := ⟨s, Dim.energy⟩
def accelU (s : ℝ) : U := ⟨s, Dim.accel⟩
/-- dimensionless units (rad, deg, one) -/
def plainU (s : ℝ) : U := ⟨s, Dim.one⟩
end U
open U


/-! ## scale invariance of the documented gravity construction -/

theorem smul_smul (a b : ℝ) (v : V3 ℝ) : V3.smul a (V3.smul b v) = V3.smul (a * b) v := by
  simp only [V3.smul]; apply V3R.ext <;> ring

theorem angle_smul_smul {c d : ℝ} (hc : 0 < c) (hd : 0 < d) (a b : V3 ℝ) (ha : a ≠ zero) (hb : b ≠ zero) :
    angle (V3.smul c a) (V3.smul d b) = angle a b := by
  unfold angle
  rw [cosAngle_smul_left hc a _ ha (smul_ne_zero hd.ne' hb), cosAngle_comm, cosAngle_smul_left hd b a hb ha, cosAngle_comm]

theorem zproj_smul {u t : ℝ} (ht : 0 < t) (b1 g : V3 ℝ) (hg : g ≠ zero) :
    Spec.zproj (V3.smul u b1) (V3.smul t g) = V3.smul u (Spec.zproj b1 g) := by
  rw [Spec.zproj, ey_smul t ht g hg, Spec.zproj]
  simp only [V3.smul, V3.sub, V3.dot]; apply V3R.ext <;> ring

theorem ez_smul {u t : ℝ} (hu : 0 < u) (ht : 0 < t) (b1 g : V3 ℝ) (hg : g ≠ zero) (hz : Spec.zproj b1 g ≠ zero) :
    Spec.ez (V3.smul u b1) (V3.smul t g) = Spec.ez b1 g := by
  have hn := norm_pos hz
  rw [Spec.ez, zproj_smul ht b1 g hg, norm_smul hu.le, smul_smul, Spec.ez]
  congr 1; field_simp

theorem ex_smul {u t : ℝ} (hu : 0 < u) (ht : 0 < t) (b1 g : V3 ℝ) (hg : g ≠ zero) (hz : Spec.zproj b1 g ≠ zero) :
    Spec.ex (V3.smul u b1) (V3.smul t g) = Spec.ex b1 g := by
  rw [Spec.ex, ey_smul t ht g hg, ez_smul hu ht b1 g hg hz, Spec.ex]

theorem raised_smul {d t : ℝ} (ht : 0 < t) (g b2 : V3 ℝ) (hg : g ≠ zero) (δ : ℝ) :
    Spec.raised (V3.smul t g) (V3.smul d b2) (d * δ) = V3.smul d (Spec.raised g b2 δ) := by
  rw [Spec.raised, ey_smul t ht g hg, Spec.raised]
  simp only [V3.smul, V3.add]; apply V3R.ext <;> ring

theorem arg_scale {k : ℝ} (hk : 0 < k) (x y : ℝ) : Complex.arg ⟨k * x, k * y⟩ = Complex.arg ⟨x, y⟩ := by
  have : (⟨k * x, k * y⟩ : ℂ) = (k : ℂ) * ⟨x, y⟩ := by
    apply Complex.ext <;> simp
  rw [this, Complex.arg_real_mul _ hk]

/-- the documented construction is invariant under positive rescaling of each beam, of gravity, and of the drop
together with the scattered beam -/
theorem spec_scale {u1 ud ug : ℝ} (h1 : 0 < u1) (hd : 0 < ud) (hgs : 0 < ug) (b1 b2 g : V3 ℝ) (δ : ℝ)
    (hg : g ≠ zero) (hb1 : b1 ≠ zero) (hz : Spec.zproj b1 g ≠ zero) (hr : Spec.raised g b2 δ ≠ zero) :
    Spec.twoTheta (V3.smul u1 b1) (V3.smul ug g) (V3.smul ud b2) (ud * δ) = Spec.twoTheta b1 g b2 δ ∧
    Spec.phi (V3.smul u1 b1) (V3.smul ug g) (V3.smul ud b2) (ud * δ) = Spec.phi b1 g b2 δ := by
  constructor
  · rw [Spec.twoTheta, raised_smul hgs g b2 hg, angle_smul_smul h1 hd _ _ hb1 hr, Spec.twoTheta]
  · rw [Spec.phi, raised_smul hgs g b2 hg, ex_smul h1 hgs b1 g hg hz, ey_smul ug hgs g hg, dot_smul_left, dot_smul_left,
      arg_scale hd, Spec.phi]

end ScnVerif.C07Geometry
