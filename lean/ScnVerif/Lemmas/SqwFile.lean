import ScnVerif.Model.Sqw.Build
import ScnVerif.Lemmas.SqwBytes
/-! Size and layout lemmas for the SQW builder model. -/
namespace ScnVerif.Sqw

theorem pixChunk_length (o : Order) (round : Nat → Nat) (rows : List PixRow) (off chunk n : Nat) :
    (pixChunk o round rows off chunk n).length = n * (rows.length * 4) := by
  unfold pixChunk
  rw [length_flatMap_const _ _ (rows.length * 4)]
  · simp
  · intro k
    exact length_flatMap_const _ _ 4 (fun r => by simp)

/-- the chunk loop, bounded by `bound`, emits one f32 per row for each of
`min bound (remaining pixels)`… here for the loop as coded (`bound = npix`): all `npix - offset`. -/
theorem pixLoop_length (o : Order) (round : Nat → Nat) (rows : List PixRow) (npix chunk : Nat)
    (hc : 0 < chunk) :
    ∀ fuel off rem, rem = npix - off → npix - off ≤ fuel →
      (pixLoop o round rows npix chunk fuel off rem).length = (npix - off) * (rows.length * 4) := by
  intro fuel
  induction fuel with
  | zero =>
    intro off rem _ hf
    have : npix - off = 0 := by omega
    simp [pixLoop, this]
  | succ fuel ih =>
    intro off rem hrem hf
    unfold pixLoop
    by_cases hlt : off < npix
    · simp only [hlt, if_true, List.length_append, pixChunk_length]
      have hrem' : rem - min chunk rem = npix - (off + chunk) := by omega
      rw [ih (off + chunk) (rem - min chunk rem) hrem' (by omega), ← Nat.add_mul]
      congr 1
      omega
    · have : npix - off = 0 := by omega
      simp [hlt, this]

theorem prod_replicate_length (n : Nat) : (List.replicate n (0 : Nat)).length = n := by simp

theorem assignPos_length (p : Nat) (ds : List Desc) : (assignPos p ds).length = ds.length := by
  induction ds generalizing p with
  | nil => rfl
  | cons d ds ih => simp [assignPos, ih]

@[simp] theorem descBytes_length (o : Order) (d : Desc) :
    (descBytes o d).length = 28 + d.ty.length + d.name.1.length + d.name.2.length := by
  simp [descBytes]; omega

/-- the serialised table does not change length when positions are patched in -/
theorem batBody_assignPos_length (o : Order) (p : Nat) (ds : List Desc) :
    (batBody o (assignPos p ds)).length = (batBody o ds).length := by
  simp only [batBody, List.length_append, u32_length, assignPos_length]
  congr 1
  induction ds generalizing p with
  | nil => rfl
  | cons d ds ih => simp [assignPos, List.flatMap_cons, ih]

/-- extents tile `[start, total)`: every block starts where the previous one ended -/
def Tiles : Nat → List Desc → Nat → Prop
  | start, [], total => start = total
  | start, d :: ds, total => d.pos = start ∧ Tiles (start + d.size) ds total

def sumSizes : List Desc → Nat
  | [] => 0
  | d :: ds => d.size + sumSizes ds

theorem tiles_assignPos (p : Nat) (ds : List Desc) : Tiles p (assignPos p ds) (p + sumSizes ds) := by
  induction ds generalizing p with
  | nil => simp [assignPos, Tiles, sumSizes]
  | cons d ds ih =>
    simp only [assignPos, Tiles, sumSizes, true_and]
    have := ih (p + d.size)
    rwa [Nat.add_assoc] at this

theorem assignPos_map_size (p : Nat) (ds : List Desc) :
    (assignPos p ds).map (·.size) = ds.map (·.size) := by
  induction ds generalizing p with
  | nil => rfl
  | cons d ds ih => simp [assignPos, ih]

theorem assignPos_map_name (p : Nat) (ds : List Desc) :
    (assignPos p ds).map (·.name) = ds.map (·.name) := by
  induction ds generalizing p with
  | nil => rfl
  | cons d ds ih => simp [assignPos, ih]

theorem assignPos_map_ty (p : Nat) (ds : List Desc) :
    (assignPos p ds).map (·.ty) = ds.map (·.ty) := by
  induction ds generalizing p with
  | nil => rfl
  | cons d ds ih => simp [assignPos, ih]

theorem flatten_length_of_sizes (outs : List BlockOut)
    (h : ∀ x ∈ outs, x.desc.size = x.bytes.length) :
    ((outs.map (·.bytes)).flatten).length = sumSizes (outs.map (·.desc)) := by
  induction outs with
  | nil => rfl
  | cons x xs ih =>
    have hx := h x (by simp)
    have := ih (fun y hy => h y (by simp [hy]))
    simp [sumSizes, hx, this]

theorem deduceOrder_prefix (a r : Bytes) (h : a.length = 4) : deduceOrder (a ++ r) = deduceOrder a := by
  unfold deduceOrder
  have : (a ++ r).take 4 = a.take 4 := by
    rw [List.take_append_of_le_length (by omega)]
  rw [this]

theorem deduceOrder_fileHeader (o : Order) (nd : Nat) (r : Bytes) : deduceOrder (fileHeader o nd ++ r) = o := by
  have : fileHeader o nd ++ r = u32 o 6 ++ (sHorace ++ (f64 o fFour ++ (u32 o 1 ++ u32 o nd)) ++ r) := by
    simp [fileHeader, charArray, sHorace, List.append_assoc]
  rw [this, deduceOrder_prefix _ _ (u32_length _ _)]
  cases o <;> decide

end ScnVerif.Sqw
