import ScnVerif.Lemmas.CascadePairs
/-!
# Facts about `_chop` that hold for every carrier

No field or order axioms are used: these statements hold for the `Float` instance that is replayed
against the code, not only in exact arithmetic.
-/
namespace ScnVerif.Cascade
variable {β : Type} [Add β] [Sub β] [Mul β] [Div β] [OfNat β 1] [LE β] [DecidableLE β]

/-- on an edge whose endpoints have equal wavelengths (`==`), the new vertex gets exactly that
wavelength, whatever the rounding of `t`, `1 - t` and the products -/
theorem interp_const_edge (c : β) (p q : Vtx β)
    (h : (decide (p.2 ≤ q.2) && decide (q.2 ≤ p.2)) = true) : interp c p q = (c, p.2) := by
  simp only [interp, h, if_true]

theorem interp_fst_generic (c : β) (p q : Vtx β) : (interp c p q).1 = c := rfl

theorem mem_emit_generic {c : β} {dir : Bool} {p q v : Vtx β} (h : v ∈ emit c dir p q) :
    (v = p ∧ inside c dir p.1 = true) ∨ (inside c dir p.1 ≠ inside c dir q.1 ∧ v = interp c p q) := by
  unfold emit at h
  rcases List.mem_append.1 h with h | h
  · left
    by_cases hp : inside c dir p.1 = true
    · simp only [hp, if_true, List.mem_singleton] at h; exact ⟨h, hp⟩
    · simp [hp] at h
  · right
    by_cases hd : (inside c dir p.1 != inside c dir q.1) = true
    · simp only [hd, if_true, List.mem_singleton] at h
      exact ⟨by simpa using hd, h⟩
    · simp [hd] at h

theorem mem_clipPath_generic {c : β} {dir : Bool} {v : Vtx β} : ∀ {l : List (Vtx β)},
    v ∈ clipPath c dir l → ∃ e ∈ pathPairs l, v ∈ emit c dir e.1 e.2
  | [], h => by simp [clipPath] at h
  | [_], h => by simp [clipPath] at h
  | p :: q :: l, h => by
      simp only [clipPath, List.mem_append] at h
      rcases h with h | h
      · exact ⟨(p, q), by simp [pathPairs_cons_cons], h⟩
      · obtain ⟨e, he, hv⟩ := mem_clipPath_generic h
        exact ⟨e, by rw [pathPairs_cons_cons]; exact List.mem_cons_of_mem _ he, hv⟩

/-- what `_chop` outputs, for every carrier: kept input vertices and intersection vertices of cyclic
edges; an intersection vertex on an edge of constant wavelength carries exactly that wavelength -/
theorem mem_chopStep_generic {c : β} {dir : Bool} {poly out : Poly β} (h : chopStep c dir poly = some out)
    {v : Vtx β} (hv : v ∈ out) :
    (v ∈ poly ∧ inside c dir v.1 = true) ∨
    ∃ e ∈ cycPairs poly, inside c dir e.1.1 ≠ inside c dir e.2.1 ∧ v = interp c e.1 e.2 ∧ v.1 = c ∧
      ((decide (e.1.2 ≤ e.2.2) && decide (e.2.2 ≤ e.1.2)) = true → v.2 = e.1.2) := by
  unfold chopStep at h
  by_cases he : (clipPath c dir (poly ++ poly.take 1)).isEmpty = true
  · simp [he] at h
  · simp only [he] at h
    have : out = clipPath c dir (poly ++ poly.take 1) := by simpa using h.symm
    subst this
    obtain ⟨e, hee, hve⟩ := mem_clipPath_generic hv
    rcases mem_emit_generic hve with ⟨rfl, hin⟩ | ⟨hd, rfl⟩
    · exact Or.inl ⟨(mem_of_mem_cycPairs hee).1, hin⟩
    · exact Or.inr ⟨e, hee, hd, rfl, rfl, fun hc => by rw [interp_const_edge c _ _ hc]⟩

end ScnVerif.Cascade
