import ScnVerif.Model.Sqw.Bytes
/-! Round-trip lemmas for the SQW byte layer. -/
namespace ScnVerif.Sqw

theorem length_flatMap_const {α β} (l : List α) (f : α → List β) (c : Nat)
    (h : ∀ x, (f x).length = c) : (l.flatMap f).length = l.length * c := by
  induction l with
  | nil => simp
  | cons a l ih => simp [List.flatMap_cons, ih, h, Nat.add_mul, Nat.add_comm]

@[simp] theorem leBytes_length (w n : Nat) : (leBytes w n).length = w := by
  induction w generalizing n with
  | zero => rfl
  | succ w ih => simp [leBytes, ih]

theorem leNat_leBytes (w n : Nat) : leNat (leBytes w n) = n % 256 ^ w := by
  induction w generalizing n with
  | zero => simp [leBytes, leNat, Nat.mod_one]
  | succ w ih =>
    simp only [leBytes, leNat, ih]
    rw [Nat.pow_succ, Nat.mul_comm (256 ^ w) 256, Nat.mod_mul]

@[simp] theorem encUInt_length (o : Order) (w n : Nat) : (encUInt o w n).length = w := by
  cases o <;> simp [encUInt]

theorem decUInt_encUInt (o : Order) (w n : Nat) (h : n < 256 ^ w) :
    decUInt o (encUInt o w n) = n := by
  cases o <;> simp [decUInt, encUInt, leNat_leBytes, Nat.mod_eq_of_lt h]

@[simp] theorem u32_length (o : Order) (n : Nat) : (u32 o n).length = 4 := by simp [u32]
@[simp] theorem u64_length (o : Order) (n : Nat) : (u64 o n).length = 8 := by simp [u64]
@[simp] theorem f64_length (o : Order) (n : Nat) : (f64 o n).length = 8 := by simp [f64]
@[simp] theorem f32_length (o : Order) (n : Nat) : (f32 o n).length = 4 := by simp [f32]
@[simp] theorem u8_length (n : Nat) : (u8 n).length = 1 := by simp [u8]

theorem takeN_append (a r : Bytes) : takeN a.length (a ++ r) = some (a, r) := by
  simp [takeN]

theorem takeN_append' (n : Nat) (a r : Bytes) (h : a.length = n) : takeN n (a ++ r) = some (a, r) := by
  subst h; exact takeN_append a r

theorem rdUInt_enc (o : Order) (w n : Nat) (r : Bytes) (h : n < 256 ^ w) :
    rdUInt o w (encUInt o w n ++ r) = some (n, r) := by
  simp [rdUInt, takeN_append' w _ r (encUInt_length o w n), decUInt_encUInt o w n h]

theorem rdU32_u32 (o : Order) (n : Nat) (r : Bytes) (h : n < 2 ^ 32) :
    rdU32 o (u32 o n ++ r) = some (n, r) := by
  have : n < 256 ^ 4 := by simpa using h
  simpa [rdU32, u32] using rdUInt_enc o 4 n r this

theorem rdU64_u64 (o : Order) (n : Nat) (r : Bytes) (h : n < 2 ^ 64) :
    rdU64 o (u64 o n ++ r) = some (n, r) := by
  have : n < 256 ^ 8 := by simpa using h
  simpa [rdU64, u64] using rdUInt_enc o 8 n r this

theorem rdU64_f64 (o : Order) (n : Nat) (r : Bytes) (h : n < 2 ^ 64) :
    rdU64 o (f64 o n ++ r) = some (n, r) := rdU64_u64 o n r h

theorem rdU32_f32 (o : Order) (n : Nat) (r : Bytes) (h : n < 2 ^ 32) :
    rdU32 o (f32 o n ++ r) = some (n, r) := rdU32_u32 o n r h

theorem rdCharArray_charArray (o : Order) (s r : Bytes) (h : s.length < 2 ^ 32) :
    rdCharArray o (charArray o s ++ r) = some (s, r) := by
  simp [rdCharArray, charArray, List.append_assoc, rdU32_u32 o _ _ h, takeN_append]

@[simp] theorem charArray_length (o : Order) (s : Bytes) : (charArray o s).length = 4 + s.length := by
  simp [charArray]

end ScnVerif.Sqw
