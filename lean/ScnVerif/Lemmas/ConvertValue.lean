import ScnVerif.Model.Convert
import ScnVerif.Gen.Graphs
import ScnVerif.Model.QVec
import ScnVerif.Lemmas.TofPhys
import ScnVerif.Props.C03
import ScnVerif.Props.C05
/-!
# Ground truth of one neutron on one straight beamline, and the meaning of every kernel NAME

Used by `Props/C02.lean` (`kernels_sound`, `convert_value`).

* `World`: positions (in a length unit), flight time, fixed energies, sample orientation matrices,
  the constants `h`, `m_n` and the SI scales of the units involved.
* `truth W scatter n`: the documented value of coordinate `n` in that world, in the unit the kernels
  report it (ångström, meV, rad, the length/time units of the inputs, the unit of `Ei`/`Ef`).
* `sem W k out args`: what the kernel with code `k` (a name of `Gen/Graphs.lean`) returns for output
  `out` — the ℝ instance of the models of the other properties (`Model/Beamline.lean`,
  `Model/TofKernels.lean`, `Model/Inelastic.lean`, `Model/QVec.lean`), with the constants computed
  from the units exactly as those models do.
* `rule_sound`: every rule of the generated tables maps truth of its inputs to truth of its output,
  citing `TofPhys.*_phys` (C01), `Props.C03.two_theta_eq_angle` (C03),
  `Props.C05.direct_conserves_energy` / `indirect_conserves_energy` (C05).
-/
namespace ScnVerif.ConvertValue
open ScnVerif ScnVerif.Convert ScnVerif.Gen.Graphs

/-- values of coordinates: scalar, 3-vector, 3×3 matrix; `bad` = NaN / ill-typed call -/
inductive Val
  | s (x : ℝ)
  | v (x : V3 ℝ)
  | m (x : QVec.M3 ℝ)
  | bad

structure World where
  /-- Planck constant and neutron mass (SI) -/
  h : ℝ
  mn : ℝ
  /-- SI scales: seconds per tof unit, metres per length unit, metres per ångström, joule per meV,
  joule per unit of `incident_energy`/`final_energy` -/
  sT : ℝ
  sL : ℝ
  sA : ℝ
  sE : ℝ
  sEn : ℝ
  /-- the three positions (in the length unit) -/
  source : V3 ℝ
  sample : V3 ℝ
  position : V3 ℝ
  /-- time of flight (in the tof unit) and pulse time -/
  t : ℝ
  pulse : ℝ
  /-- energy before / after the sample (inelastic modes) -/
  Ei : ℝ
  Ef : ℝ
  /-- U, B and the sample rotation R -/
  U : QVec.M3 ℝ
  B : QVec.M3 ℝ
  R : QVec.M3 ℝ

namespace World
variable (W : World)

/-- incident and scattered beam -/
def ib : V3 ℝ := Beamline.straightIncidentBeam W.source W.sample
def sb : V3 ℝ := Beamline.straightScatteredBeam W.position W.sample
noncomputable def L1 : ℝ := V3.norm W.ib
noncomputable def L2 : ℝ := V3.norm W.sb
/-- the scattering angle: the Euclidean angle between the beams -/
noncomputable def θ : ℝ := V3R.angle W.ib W.sb
/-- flight path: `L1 + L2` with scattering, the straight distance source → detector without -/
noncomputable def Ltot (scatter : Bool) : ℝ :=
  if scatter then W.L1 + W.L2 else V3.norm (V3.sub W.position W.source)
/-- de Broglie wavelength in metres: `λ = h t / (m_n L)` -/
noncomputable def lam (scatter : Bool) : ℝ := W.h * (W.t * W.sT) / (W.mn * (W.Ltot scatter * W.sL))
/-- kinetic energy in joule: `E = m_n L² / (2 t²)` -/
noncomputable def energy (scatter : Bool) : ℝ := W.mn * (W.Ltot scatter * W.sL) ^ 2 / (2 * (W.t * W.sT) ^ 2)
/-- momentum transfer vector in 1/ångström: `(2π/λ)(ê_i − ê_f)` -/
noncomputable def qvec (scatter : Bool) : V3 ℝ := QVec.qElements (W.lam scatter / W.sA) W.ib W.sb
def ub : QVec.M3 ℝ := QVec.ubFromUAndB W.U W.B
noncomputable def hkl (scatter : Bool) : V3 ℝ := QVec.hklVecFromQVec (W.qvec scatter) W.ub W.R

structure Valid : Prop where
  h : 0 < W.h
  mn : 0 < W.mn
  sT : 0 < W.sT
  sL : 0 < W.sL
  sA : 0 < W.sA
  sE : 0 < W.sE
  sEn : 0 < W.sEn
  t : 0 < W.t
  ib : W.ib ≠ V3R.zero
  sb : W.sb ≠ V3R.zero
  /-- the detector is not at the source (flight path without scattering) -/
  direct : V3.sub W.position W.source ≠ V3R.zero
  /-- the beams are not parallel (`sin θ > 0`: the kernels divide by it) -/
  s : 0 < Real.sin (W.θ / 2)
  Ei : 0 < W.Ei
  Ef : 0 < W.Ef

/-- inelastic kinematics: the neutron flies `L1` with `Ei`, `L2` with `Ef` -/
def Flight : Prop :=
  W.t * W.sT = W.L1 * W.sL / Lemmas.Inelastic.speed W.mn (W.Ei * W.sEn)
             + W.L2 * W.sL / Lemmas.Inelastic.speed W.mn (W.Ef * W.sEn)

end World

/-- **the documented value of every coordinate** (in the unit in which the kernels report it) -/
noncomputable def truth (W : World) (scatter : Bool) (n : Name) : Val :=
  if n = nPosition then .v W.position
  else if n = nSourcePosition then .v W.source
  else if n = nSamplePosition then .v W.sample
  else if n = nIncidentBeam then .v W.ib
  else if n = nScatteredBeam then .v W.sb
  else if n = nL1 then .s W.L1
  else if n = nL2 then .s W.L2
  else if n = nLtotal then .s (W.Ltot scatter)
  else if n = nTwoTheta then .s W.θ
  else if n = nIncidentEnergy then .s W.Ei
  else if n = nFinalEnergy then .s W.Ef
  else if n = nTof then .s W.t
  else if n = nWavelength then .s (W.lam scatter / W.sA)
  else if n = nEnergy then .s (W.energy scatter / W.sE)
  else if n = nQ then .s (4 * Real.pi * Real.sin (W.θ / 2) / (W.lam scatter / W.sA))
  else if n = nDspacing then .s (W.lam scatter / (2 * Real.sin (W.θ / 2)) / W.sA)
  else if n = nEnergyTransfer then .s (W.Ei - W.Ef)
  else if n = nQvec then .v (W.qvec scatter)
  else if n = nQx then .s (W.qvec scatter).x
  else if n = nQy then .s (W.qvec scatter).y
  else if n = nQz then .s (W.qvec scatter).z
  else if n = nHklVec then .v (W.hkl scatter)
  else if n = nH then .s (W.hkl scatter).x
  else if n = nK then .s (W.hkl scatter).y
  else if n = nL then .s (W.hkl scatter).z
  else if n = nUbMatrix then .m W.ub
  else if n = nTimeAtSample then
    .s (W.pulse + W.t - W.L2 * W.sL * W.mn * W.lam scatter / (W.h * W.sT))
  else if n = n_b_matrix then .m W.B
  else if n = n_pulse_time then .s W.pulse
  else if n = n_sample_rotation then .m W.R
  else if n = n_u_matrix then .m W.U
  else .bad

def ofOpt : Option ℝ → Val
  | some x => .s x
  | none => .bad

/-- **meaning of every kernel name of `Gen/Graphs.lean`** over ℝ, for output name `out` -/
noncomputable def sem (W : World) (k : Kernel) (out : Name) (args : List Val) : Val :=
  if k = k_beamline_straight_incident_beam then
    match args with | [.v src, .v smp] => .v (Beamline.straightIncidentBeam src smp) | _ => .bad
  else if k = k_beamline_straight_scattered_beam then
    match args with | [.v pos, .v smp] => .v (Beamline.straightScatteredBeam pos smp) | _ => .bad
  else if k = k_beamline_L1 then
    match args with | [.v b] => .s (Beamline.l1 b) | _ => .bad
  else if k = k_beamline_L2 then
    match args with | [.v b] => .s (Beamline.l2 b) | _ => .bad
  else if k = k_beamline_total_beam_length then
    match args with | [.s a, .s b] => .s (Beamline.totalBeamLength a b) | _ => .bad
  else if k = k_beamline_total_straight_beam_length_no_scatter then
    match args with | [.v src, .v pos] => .s (Beamline.totalStraightNoScatter src pos) | _ => .bad
  else if k = k_beamline_two_theta then
    match args with | [.v b1, .v b2] => .s (Beamline.twoTheta b1 b2) | _ => .bad
  else if k = k_tof_wavelength_from_tof then
    match args with
    | [.s t, .s L] => .s (Tof.wavelengthFromTof (Tof.cWavelengthFromTof W.h W.mn W.sA W.sL W.sT) t L)
    | _ => .bad
  else if k = k_tof_dspacing_from_tof then
    match args with
    | [.s t, .s L, .s th] => .s (Tof.dspacingFromTof (Tof.cDspacingFromTof W.h W.mn W.sA W.sL W.sT) 1 t L th)
    | _ => .bad
  else if k = k_tof_energy_from_tof then
    match args with
    | [.s t, .s L] => .s (Tof.energyFromTof (Tof.cEnergy W.mn W.sE W.sL W.sT) t L)
    | _ => .bad
  else if k = k_tof_energy_from_wavelength then
    match args with
    | [.s w] => .s (Tof.energyFromWavelength (Tof.cEnergyFromWavelength W.h W.mn W.sE W.sA w) w)
    | _ => .bad
  else if k = k_tof_wavelength_from_energy then
    match args with
    | [.s e] => .s (Tof.wavelengthFromEnergy (Tof.cWavelengthFromEnergy W.h W.mn W.sA W.sE e) e)
    | _ => .bad
  else if k = k_tof_Q_from_wavelength then
    match args with | [.s w, .s th] => .s (Tof.qFromWavelength 1 w th) | _ => .bad
  else if k = k_tof_wavelength_from_Q then
    match args with | [.s q, .s th] => .s (Tof.wavelengthFromQ 1 W.sA W.sA q th) | _ => .bad
  else if k = k_tof_dspacing_from_wavelength then
    match args with
    | [.s w, .s th] => .s (Tof.dspacingFromWavelength (Tof.cDspacingFromWavelength W.sA W.sA w) 1 w th)
    | _ => .bad
  else if k = k_tof_dspacing_from_energy then
    match args with
    | [.s e, .s th] => .s (Tof.dspacingFromEnergy (Tof.cDspacingFromEnergy W.h W.mn W.sA W.sE e) 1 e th)
    | _ => .bad
  else if k = k_tof_time_at_sample_from_tof then
    match args with
    | [.s p, .s t, .s l2, .s w] =>
        .s (Tof.timeAtSampleFromTof (Tof.cWavelengthFromTof W.h W.mn W.sA W.sL W.sT) p t l2 w)
    | _ => .bad
  else if k = k_tof_energy_transfer_direct_from_tof then
    match args with
    | [.s t, .s l1, .s l2, .s ei] => ofOpt (Inelastic.directFromUnits (W.mn / 2) W.sEn W.sT W.sL W.sL t l1 l2 ei)
    | _ => .bad
  else if k = k_tof_energy_transfer_indirect_from_tof then
    match args with
    | [.s t, .s l1, .s l2, .s ef] => ofOpt (Inelastic.indirectFromUnits (W.mn / 2) W.sEn W.sT W.sL W.sL t l1 l2 ef)
    | _ => .bad
  else if k = k_tof_Q_elements_from_wavelength then
    match args with
    | [.s w, .v bi, .v bf] =>
        if out = nQx then .s (QVec.qElements w bi bf).x
        else if out = nQy then .s (QVec.qElements w bi bf).y
        else if out = nQz then .s (QVec.qElements w bi bf).z
        else .bad
    | _ => .bad
  else if k = k_tof_Q_vec_from_Q_elements then
    match args with | [.s x, .s y, .s z] => .v ⟨x, y, z⟩ | _ => .bad
  else if k = k_tof_ub_matrix_from_u_and_b then
    match args with | [.m u, .m b] => .m (QVec.ubFromUAndB u b) | _ => .bad
  else if k = k_tof_hkl_vec_from_Q_vec then
    match args with | [.v q, .m ub, .m r] => .v (QVec.hklVecFromQVec q ub r) | _ => .bad
  else if k = k_tof_hkl_elements_from_hkl_vec then
    match args with
    | [.v hv] =>
        if out = nH then .s (QVec.hklElements hv).1
        else if out = nK then .s (QVec.hklElements hv).2.1
        else if out = nL then .s (QVec.hklElements hv).2.2
        else .bad
    | _ => .bad
  else .bad

/-! ## the value of each kernel on the truth -/

section kernels
variable (W : World) (hv : W.Valid) (sc : Bool)
include hv

theorem L1_pos : 0 < W.L1 := V3R.norm_pos hv.ib
theorem L2_pos : 0 < W.L2 := V3R.norm_pos hv.sb

theorem Ltot_pos : 0 < W.Ltot sc := by
  unfold World.Ltot
  cases sc
  · simpa using V3R.norm_pos hv.direct
  · simpa using add_pos (L1_pos W hv) (L2_pos W hv)

theorem lam_pos : 0 < W.lam sc := by
  have := hv.h; have := hv.mn; have := hv.sT; have := hv.sL; have := hv.t; have := Ltot_pos W hv sc
  unfold World.lam; positivity

theorem energy_pos : 0 < W.energy sc := by
  have := hv.mn; have := hv.sT; have := hv.sL; have := hv.t; have := Ltot_pos W hv sc
  unfold World.energy; positivity

theorem wavelength_from_tof_value :
    Tof.wavelengthFromTof (Tof.cWavelengthFromTof W.h W.mn W.sA W.sL W.sT) W.t (W.Ltot sc) = W.lam sc / W.sA := by
  have h := TofPhys.wavelength_from_tof_phys W.h W.mn W.sA W.sL W.sT W.t (W.Ltot sc)
    hv.h hv.mn hv.sA hv.sL hv.sT hv.t (Ltot_pos W hv sc)
  rw [eq_div_iff hv.sA.ne', h]; rfl

theorem dspacing_from_tof_value :
    Tof.dspacingFromTof (Tof.cDspacingFromTof W.h W.mn W.sA W.sL W.sT) 1 W.t (W.Ltot sc) W.θ
      = W.lam sc / (2 * Real.sin (W.θ / 2)) / W.sA := by
  have hs : 0 < Real.sin (W.θ * 1 / 2) := by simpa using hv.s
  have h := TofPhys.dspacing_from_tof_phys W.h W.mn W.sA W.sL W.sT 1 W.t (W.Ltot sc) W.θ
    hv.h hv.mn hv.sA hv.sL hv.sT hv.t (Ltot_pos W hv sc) hs
  rw [eq_div_iff hv.sA.ne', h, mul_one]; rfl

theorem energy_from_tof_value :
    Tof.energyFromTof (Tof.cEnergy W.mn W.sE W.sL W.sT) W.t (W.Ltot sc) = W.energy sc / W.sE := by
  have h := TofPhys.energy_from_tof_phys W.mn W.sE W.sL W.sT W.t (W.Ltot sc)
    hv.mn hv.sE hv.sL hv.sT hv.t (Ltot_pos W hv sc)
  rw [eq_div_iff hv.sE.ne', h]; rfl

theorem energy_from_wavelength_value :
    Tof.energyFromWavelength (Tof.cEnergyFromWavelength W.h W.mn W.sE W.sA (W.lam sc / W.sA)) (W.lam sc / W.sA)
      = W.energy sc / W.sE := by
  have hl := lam_pos W hv sc
  have h := TofPhys.energy_from_wavelength_phys W.h W.mn W.sE W.sA (W.lam sc / W.sA)
    hv.h hv.mn hv.sE hv.sA (div_pos hl hv.sA)
  rw [eq_div_iff hv.sE.ne', h, div_mul_cancel₀ _ hv.sA.ne']
  have hT : 0 < W.t * W.sT := mul_pos hv.t hv.sT
  have hL : 0 < W.Ltot sc * W.sL := mul_pos (Ltot_pos W hv sc) hv.sL
  unfold World.energy World.lam
  exact (TofPhys.energy_formulas_agree W.h W.mn _ _ hv.h hv.mn hT hL).symm

theorem sqrt_energy (c : ℝ) (hc : 0 < c) :
    Real.sqrt (c * W.mn * W.energy sc) = Real.sqrt (c / 2) * (W.mn * (W.Ltot sc * W.sL) / (W.t * W.sT)) := by
  have hT : 0 < W.t * W.sT := mul_pos hv.t hv.sT
  have hL : 0 < W.Ltot sc * W.sL := mul_pos (Ltot_pos W hv sc) hv.sL
  have hmn := hv.mn
  have : c * W.mn * W.energy sc = (c / 2) * (W.mn * (W.Ltot sc * W.sL) / (W.t * W.sT)) ^ 2 := by
    unfold World.energy; field_simp
  rw [this, Real.sqrt_mul (by positivity), Real.sqrt_sq (by positivity)]

theorem wavelength_from_energy_value :
    Tof.wavelengthFromEnergy (Tof.cWavelengthFromEnergy W.h W.mn W.sA W.sE (W.energy sc / W.sE)) (W.energy sc / W.sE)
      = W.lam sc / W.sA := by
  have he := energy_pos W hv sc
  have h := TofPhys.wavelength_from_energy_phys W.h W.mn W.sA W.sE (W.energy sc / W.sE)
    hv.h hv.mn hv.sA hv.sE (div_pos he hv.sE)
  rw [eq_div_iff hv.sA.ne', h, div_mul_cancel₀ _ hv.sE.ne', sqrt_energy W hv sc 2 (by norm_num)]
  have hT : 0 < W.t * W.sT := mul_pos hv.t hv.sT
  have hL : 0 < W.Ltot sc * W.sL := mul_pos (Ltot_pos W hv sc) hv.sL
  have hmn := hv.mn
  simp only [div_self (two_ne_zero' ℝ), Real.sqrt_one, one_mul]
  unfold World.lam; field_simp

theorem Q_from_wavelength_value :
    Tof.qFromWavelength 1 (W.lam sc / W.sA) W.θ = 4 * Real.pi * Real.sin (W.θ / 2) / (W.lam sc / W.sA) := by
  have h := TofPhys.Q_from_wavelength_phys 1 1 (W.lam sc / W.sA) W.θ one_pos (div_pos (lam_pos W hv sc) hv.sA)
  simpa using h

theorem wavelength_from_Q_value :
    Tof.wavelengthFromQ 1 W.sA W.sA (4 * Real.pi * Real.sin (W.θ / 2) / (W.lam sc / W.sA)) W.θ = W.lam sc / W.sA := by
  have hl := lam_pos W hv sc
  have hs := hv.s
  have hq : 0 < 4 * Real.pi * Real.sin (W.θ / 2) / (W.lam sc / W.sA) :=
    div_pos (by have := Real.pi_pos; positivity) (div_pos hl hv.sA)
  have h := TofPhys.wavelength_from_Q_phys 1 W.sA W.sA _ W.θ hv.sA hv.sA hq
  rw [eq_div_iff hv.sA.ne', h]
  have hsA := hv.sA
  have hpi := Real.pi_pos
  simp only [mul_one]
  field_simp

theorem dspacing_from_wavelength_value :
    Tof.dspacingFromWavelength (Tof.cDspacingFromWavelength W.sA W.sA (W.lam sc / W.sA)) 1 (W.lam sc / W.sA) W.θ
      = W.lam sc / (2 * Real.sin (W.θ / 2)) / W.sA := by
  have hs : 0 < Real.sin (W.θ * 1 / 2) := by simpa using hv.s
  have h := TofPhys.dspacing_from_wavelength_phys W.sA W.sA 1 (W.lam sc / W.sA) W.θ hv.sA hv.sA hs
  rw [eq_div_iff hv.sA.ne', h, div_mul_cancel₀ _ hv.sA.ne', mul_one]

theorem dspacing_from_energy_value :
    Tof.dspacingFromEnergy (Tof.cDspacingFromEnergy W.h W.mn W.sA W.sE (W.energy sc / W.sE)) 1 (W.energy sc / W.sE) W.θ
      = W.lam sc / (2 * Real.sin (W.θ / 2)) / W.sA := by
  have he := energy_pos W hv sc
  have hs : 0 < Real.sin (W.θ * 1 / 2) := by simpa using hv.s
  have h := TofPhys.dspacing_from_energy_phys W.h W.mn W.sA W.sE 1 (W.energy sc / W.sE) W.θ
    hv.h hv.mn hv.sA hv.sE (div_pos he hv.sE) hs
  rw [eq_div_iff hv.sA.ne', h, div_mul_cancel₀ _ hv.sE.ne', sqrt_energy W hv sc 8 (by norm_num), mul_one]
  have hT : 0 < W.t * W.sT := mul_pos hv.t hv.sT
  have hL : 0 < W.Ltot sc * W.sL := mul_pos (Ltot_pos W hv sc) hv.sL
  have hmn := hv.mn
  have h4 : Real.sqrt (8 / 2) = 2 := by
    rw [show (8 / 2 : ℝ) = 2 ^ 2 by norm_num]; exact Real.sqrt_sq (by norm_num)
  rw [h4]
  have hss := hv.s
  generalize Real.sin (W.θ / 2) = s at hss
  unfold World.lam; field_simp

theorem time_at_sample_value :
    Tof.timeAtSampleFromTof (Tof.cWavelengthFromTof W.h W.mn W.sA W.sL W.sT) W.pulse W.t W.L2 (W.lam sc / W.sA)
      = W.pulse + W.t - W.L2 * W.sL * W.mn * W.lam sc / (W.h * W.sT) := by
  have := hv.h; have := hv.mn; have := hv.sA; have := hv.sL; have := hv.sT
  simp only [Tof.timeAtSampleFromTof, Tof.cWavelengthFromTof, Tof.toUnitC, Tof.asCommon4_real]
  field_simp

theorem two_theta_value : Beamline.twoTheta W.ib W.sb = W.θ :=
  Props.C03.two_theta_eq_angle W.ib W.sb hv.ib hv.sb

theorem direct_value (hf : W.Flight) :
    Inelastic.directFromUnits (W.mn / 2) W.sEn W.sT W.sL W.sL W.t W.L1 W.L2 W.Ei = some (W.Ei - W.Ef) :=
  Props.C05.direct_conserves_energy W.mn W.sEn W.sT W.sL W.sL W.t W.L1 W.L2 W.Ei W.Ef
    hv.mn hv.sEn hv.sT hv.sL hv.sL (L2_pos W hv) hv.Ei hv.Ef hf

theorem indirect_value (hf : W.Flight) :
    Inelastic.indirectFromUnits (W.mn / 2) W.sEn W.sT W.sL W.sL W.t W.L1 W.L2 W.Ef = some (W.Ei - W.Ef) :=
  Props.C05.indirect_conserves_energy W.mn W.sEn W.sT W.sL W.sL W.t W.L1 W.L2 W.Ei W.Ef
    hv.mn hv.sEn hv.sT hv.sL hv.sL (L1_pos W hv) hv.Ei hv.Ef hf

end kernels

/-! ## every rule of the generated tables is sound -/

/-- a rule maps the truth of its inputs to the truth of each of its outputs -/
def Sound (W : World) (sc : Bool) (r : Rule) : Prop :=
  ∀ o ∈ r.outs, sem W r.kernel o (r.ins.map (truth W sc)) = truth W sc o

-- all name / kernel constants, for evaluation of `truth` and `sem` on concrete codes
macro "evalsem" : tactic => `(tactic| simp [sem, truth, nPosition, nSourcePosition, nSamplePosition, nIncidentBeam, nScatteredBeam, nL1, nL2, nLtotal,
  nTwoTheta, nIncidentEnergy, nFinalEnergy, nTof, nWavelength, nEnergy, nQ, nDspacing, nEnergyTransfer, nQvec, nQx, nQy, nQz,
  nHklVec, nH, nK, nL, nUbMatrix, nTimeAtSample, n_b_matrix, n_pulse_time, n_sample_rotation, n_u_matrix,
  k_beamline_L1, k_beamline_L2, k_beamline_straight_incident_beam, k_beamline_straight_scattered_beam,
  k_beamline_total_beam_length, k_beamline_total_straight_beam_length_no_scatter, k_beamline_two_theta,
  k_tof_Q_elements_from_wavelength, k_tof_Q_from_wavelength, k_tof_Q_vec_from_Q_elements, k_tof_dspacing_from_energy,
  k_tof_dspacing_from_tof, k_tof_dspacing_from_wavelength, k_tof_energy_from_tof, k_tof_energy_from_wavelength,
  k_tof_energy_transfer_direct_from_tof, k_tof_energy_transfer_indirect_from_tof, k_tof_hkl_elements_from_hkl_vec,
  k_tof_hkl_vec_from_Q_vec, k_tof_time_at_sample_from_tof, k_tof_ub_matrix_from_u_and_b, k_tof_wavelength_from_Q,
  k_tof_wavelength_from_energy, k_tof_wavelength_from_tof])

macro "finish" W:term "," hv:term "," sc:term : tactic => `(tactic| first
  | rfl
  | exact two_theta_value $W $hv
  | exact wavelength_from_tof_value $W $hv $sc
  | exact dspacing_from_tof_value $W $hv $sc
  | exact energy_from_tof_value $W $hv $sc
  | exact energy_from_wavelength_value $W $hv $sc
  | exact wavelength_from_energy_value $W $hv $sc
  | exact Q_from_wavelength_value $W $hv $sc
  | exact wavelength_from_Q_value $W $hv $sc
  | exact dspacing_from_wavelength_value $W $hv $sc
  | exact dspacing_from_energy_value $W $hv $sc
  | exact time_at_sample_value $W $hv $sc
  | simp [World.Ltot, Beamline.totalBeamLength, Beamline.totalStraightNoScatter])

theorem scatter_rules_sound (W : World) (hv : W.Valid) : ∀ r ∈ scatterBeamline, Sound W true r := by
  intro r hr
  simp only [scatterBeamline, List.mem_cons, List.not_mem_nil, or_false] at hr
  rcases hr with rfl | rfl | rfl | rfl | rfl | rfl <;> intro o ho <;>
    simp only [List.mem_cons, List.not_mem_nil, or_false] at ho <;> subst ho <;>
    evalsem <;> finish W, hv, true

set_option linter.unusedVariables false in
theorem no_scatter_rules_sound (W : World) (hv : W.Valid) : ∀ r ∈ noScatterBeamline, Sound W false r := by
  intro r hr
  simp only [noScatterBeamline, List.mem_cons, List.not_mem_nil, or_false] at hr
  subst hr
  intro o ho
  simp only [List.mem_cons, List.not_mem_nil, or_false] at ho
  subst ho
  evalsem
  finish W, hv, false

theorem dynamics_rules_sound (W : World) (hv : W.Valid) (sc : Bool) :
    ∀ r ∈ dynamics.flatMap (·.2), Sound W sc r := by
  intro r hr
  simp only [dynamics, List.flatMap_cons, List.flatMap_nil, List.append_nil, List.mem_append, List.mem_cons,
    List.not_mem_nil, or_false] at hr
  rcases hr with (rfl | rfl) | (rfl | rfl | rfl | rfl | rfl | rfl | rfl | rfl | rfl | rfl) | rfl |
      (rfl | rfl | rfl | rfl | rfl | rfl | rfl | rfl) <;> intro o ho <;>
    simp only [List.mem_cons, List.not_mem_nil, or_false] at ho <;>
    (try rcases ho with rfl | rfl | rfl) <;>
    evalsem <;> finish W, hv, sc

theorem inelastic_rules_sound (W : World) (hv : W.Valid) (hf : W.Flight) (sc : Bool) :
    ∀ r ∈ Gen.Graphs.directInelastic.flatMap (·.2) ++ Gen.Graphs.indirectInelastic.flatMap (·.2), Sound W sc r := by
  intro r hr
  simp only [Gen.Graphs.directInelastic, Gen.Graphs.indirectInelastic, f_tof_direct_inelastic__tof, f_tof_indirect_inelastic__tof,
    List.flatMap_cons, List.flatMap_nil, List.append_nil, List.mem_append, List.mem_cons,
    List.not_mem_nil, or_false] at hr
  rcases hr with rfl | rfl <;> intro o ho <;>
    simp only [List.mem_cons, List.not_mem_nil, or_false] at ho <;> subst ho <;> evalsem
  · rw [direct_value W hv hf]; rfl
  · rw [indirect_value W hv hf]; rfl


end ScnVerif.ConvertValue
