import Mathlib.Data.Real.Basic
import Mathlib.Tactic.FieldSimp
import Mathlib.Tactic.Ring
import Mathlib.Tactic.Linarith
import Mathlib.Tactic.Positivity
import Mathlib.Tactic.NormNum
import Mathlib.Algebra.Order.Field.Power
/-!
# Spacing of binary floating-point numbers

`IsFloat p x`: `x = m·2^e` with an integer significand `|m| < 2^p` (precision `p`; the exponent is
unbounded, so every finite IEEE number of that precision, subnormals included, qualifies).
Two distinct positive floats `x < y` are at least `x·2^-p` apart, and any rounding function
(monotone, fixing the floats) keeps a computed difference at least that large.
Used by C05 (`never_infinite`).
-/
namespace ScnVerif.FloatGap

def IsFloat (p : ℕ) (x : ℝ) : Prop := ∃ (m e : ℤ), |m| < 2 ^ p ∧ x = m * (2 : ℝ) ^ e

theorem int_gap {a b : ℤ} {s : ℝ} (hs : 0 < s) (h : (a : ℝ) * s < b * s) : s ≤ (b - a) * s := by
  have h1 : (a : ℝ) < b := lt_of_mul_lt_mul_right h hs.le
  have h2 : a < b := by exact_mod_cast h1
  have h3 : (1 : ℝ) ≤ (b - a : ℤ) := by exact_mod_cast (by omega : (1 : ℤ) ≤ b - a)
  push_cast at h3
  nlinarith

theorem float_gap {p : ℕ} {x y : ℝ} (hx : IsFloat p x) (hy : IsFloat p y) (h0 : 0 < x) (hxy : x < y) :
    x * (2 : ℝ) ^ (-(p : ℤ)) < y - x := by
  obtain ⟨m0, e0, hm0, rfl⟩ := hx
  obtain ⟨m1, e1, hm1, rfl⟩ := hy
  have h2 : ∀ e : ℤ, (0 : ℝ) < (2 : ℝ) ^ e := fun e => zpow_pos (by norm_num) e
  have hm0lt : (m0 : ℝ) < 2 ^ p := by have := (abs_lt.mp hm0).2; exact_mod_cast this
  have hm1lt : (m1 : ℝ) < 2 ^ p := by have := (abs_lt.mp hm1).2; exact_mod_cast this
  have hpp : (0 : ℝ) < 2 ^ p := by positivity
  have hp : (2 : ℝ) ^ (-(p : ℤ)) = 1 / 2 ^ p := by rw [zpow_neg, zpow_natCast, one_div]
  rw [hp]
  rcases le_total e0 e1 with h | h
  · obtain ⟨d, rfl⟩ := Int.le.dest h
    rw [zpow_add₀ (by norm_num : (2 : ℝ) ≠ 0), zpow_natCast] at hxy ⊢
    have key := int_gap (a := m0) (b := m1 * 2 ^ d) (h2 e0) (by push_cast; linarith)
    push_cast at key
    have : (m0 : ℝ) * 2 ^ e0 * (1 / 2 ^ p) < 2 ^ e0 := by
      rw [mul_one_div, div_lt_iff₀ hpp]; nlinarith [h2 e0]
    linarith
  · obtain ⟨d, rfl⟩ := Int.le.dest h
    rw [zpow_add₀ (by norm_num : (2 : ℝ) ≠ 0), zpow_natCast] at hxy h0 ⊢
    have key := int_gap (a := m0 * 2 ^ d) (b := m1) (h2 e1) (by push_cast; linarith)
    push_cast at key
    have h3 : (m1 : ℝ) * 2 ^ e1 * (1 / 2 ^ p) < 2 ^ e1 := by
      rw [mul_one_div, div_lt_iff₀ hpp]; nlinarith [h2 e1]
    have h4 : (m0 : ℝ) * (2 ^ e1 * 2 ^ d) * (1 / 2 ^ p) < m1 * 2 ^ e1 * (1 / 2 ^ p) :=
      mul_lt_mul_of_pos_right hxy (by positivity)
    linarith

/-- a float scaled by a power of two is a float -/
theorem IsFloat.mul_zpow {p : ℕ} {x : ℝ} (hx : IsFloat p x) (k : ℤ) : IsFloat p (x * (2 : ℝ) ^ k) := by
  obtain ⟨m, e, hm, rfl⟩ := hx
  exact ⟨m, e + k, hm, by rw [zpow_add₀ (by norm_num : (2 : ℝ) ≠ 0)]; ring⟩

/-- rounding (any monotone map that fixes the floats) keeps the gap -/
theorem rounded_gap {p : ℕ} (fl : ℝ → ℝ) (hmono : Monotone fl) (hfix : ∀ z, IsFloat p z → fl z = z)
    {x y : ℝ} (hx : IsFloat p x) (hy : IsFloat p y) (h0 : 0 < x) (hxy : x < y) :
    x * (2 : ℝ) ^ (-(p : ℤ)) ≤ fl (y - x) := by
  rw [← hfix _ (hx.mul_zpow _)]
  exact hmono (float_gap hx hy h0 hxy).le

theorem div_sq_le_of_gap (scale t0 δ u : ℝ) (hs : 0 ≤ scale) (ht0 : 0 < t0) (hu : 0 < u)
    (hδ : t0 * u ≤ δ) : scale / (δ * δ) ≤ scale / (t0 * t0) / (u * u) := by
  have h1 : 0 < t0 * u := mul_pos ht0 hu
  have h2 : (t0 * u) * (t0 * u) ≤ δ * δ := mul_le_mul hδ hδ h1.le (h1.le.trans hδ)
  rw [div_div, show t0 * t0 * (u * u) = (t0 * u) * (t0 * u) by ring]
  exact div_le_div_of_nonneg_left hs (mul_pos h1 h1) h2

end ScnVerif.FloatGap
