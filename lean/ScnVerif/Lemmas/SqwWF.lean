import ScnVerif.Model.Sqw.Build
import ScnVerif.Lemmas.SqwIR
/-! Well-formedness of the IR objects the builder produces, and the fuel bound for decoding. -/
namespace ScnVerif.Sqw

theorem shapeBytes_length (o : Order) (shape : List Nat) :
    (shapeBytes o shape).length = 1 + 4 * shape.length := by
  simp only [shapeBytes, List.length_append, u8_length]
  rw [length_flatMap_const _ _ 4 (fun d => u32_length o d)]
  omega

mutual
theorem depth_le (o : Order) (x : Obj) (hw : WF x) : depth x + 2 ≤ 2 * (writeObj o x).length := by
  cases x with
  | chars shape strs => simp [depth, writeObj, shapeBytes_length]; omega
  | f64s shape vals => simp [depth, writeObj, shapeBytes_length]; omega
  | logicals shape vals => simp [depth, writeObj, shapeBytes_length]; omega
  | cell shape items =>
    obtain ⟨_, _, hi⟩ := hw
    have := depths_le o items hi
    simp [depth, writeObj, shapeBytes_length]; omega
  | structs shape n names fields =>
    obtain ⟨_, _, _, _, _, _, hzero, hfs⟩ := hw
    have := depths_le o fields hfs
    by_cases h0 : n = 0
    · obtain ⟨rfl, rfl⟩ := hzero h0
      simp [depth, depths, writeObj, structPayload, h0, shapeBytes_length]; omega
    · simp [depth, writeObj, structPayload, h0, shapeBytes_length]; omega
theorem depths_le (o : Order) (xs : List Obj) (hw : WFs xs) : depths xs ≤ 2 * (writeObjs o xs).length := by
  cases xs with
  | nil => simp [depths]
  | cons x xs =>
    obtain ⟨hx, hxs⟩ := hw
    have h1 := depth_le o x hx
    have h2 := depths_le o xs hxs
    simp [depths, writeObjs]; omega
end

/-- a regular block decodes to the object written and uses up exactly the bytes written -/
theorem decObj_block (o : Order) (x : Obj) (hw : WF x) :
    decObj o (2 * (writeObj o x).length) (writeObj o x) = some (x, []) := by
  have h := decObj_writeObj o x (2 * (writeObj o x).length) [] hw (by have := depth_le o x hw; omega)
  simpa using h

/-! ## integers as doubles -/

theorem natToF64_lt (n : Nat) (h : n < 2 ^ 53) : natToF64 n < 2 ^ 64 := by
  unfold natToF64
  by_cases h0 : n = 0
  · simp [h0]
  · simp only [h0, if_false]
    have he : n.log2 < 53 := (Nat.log2_lt h0).mpr h
    have hlo : 2 ^ n.log2 ≤ n := Nat.log2_self_le h0
    have hhi : n < 2 ^ (n.log2 + 1) := Nat.lt_log2_self
    have hm : (n - 2 ^ n.log2) * 2 ^ (52 - n.log2) < 2 ^ 52 := by
      have : n - 2 ^ n.log2 < 2 ^ n.log2 := by rw [Nat.pow_succ] at hhi; omega
      calc (n - 2 ^ n.log2) * 2 ^ (52 - n.log2) < 2 ^ n.log2 * 2 ^ (52 - n.log2) :=
            Nat.mul_lt_mul_of_pos_right this (Nat.two_pow_pos _)
        _ = 2 ^ 52 := by rw [← Nat.pow_add]; congr 1; omega
    have : (1023 + n.log2) * 2 ^ 52 ≤ 1075 * 2 ^ 52 := Nat.mul_le_mul_right _ (by omega)
    omega

/-- `float(n)` determines `n` (below 2^53): the stored double denotes exactly that integer -/
theorem f64ToNat_natToF64 (n : Nat) (h : n < 2 ^ 53) : f64ToNat? (natToF64 n) = some n := by
  unfold natToF64
  by_cases h0 : n = 0
  · simp [h0, f64ToNat?]
  · simp only [h0, if_false]
    have he : n.log2 < 53 := (Nat.log2_lt h0).mpr h
    have hlo : 2 ^ n.log2 ≤ n := Nat.log2_self_le h0
    have hhi : n < 2 ^ (n.log2 + 1) := Nat.lt_log2_self
    have hlt : n - 2 ^ n.log2 < 2 ^ n.log2 := by rw [Nat.pow_succ] at hhi; omega
    have hm : (n - 2 ^ n.log2) * 2 ^ (52 - n.log2) < 2 ^ 52 := by
      calc (n - 2 ^ n.log2) * 2 ^ (52 - n.log2) < 2 ^ n.log2 * 2 ^ (52 - n.log2) :=
            Nat.mul_lt_mul_of_pos_right hlt (Nat.two_pow_pos _)
        _ = 2 ^ 52 := by rw [← Nat.pow_add]; congr 1; omega
    generalize hM : (n - 2 ^ n.log2) * 2 ^ (52 - n.log2) = M at hm
    have hdiv : ((1023 + n.log2) * 2 ^ 52 + M) / 2 ^ 52 = 1023 + n.log2 := by
      rw [Nat.add_comm, Nat.add_mul_div_right _ _ (Nat.two_pow_pos 52), Nat.div_eq_of_lt hm]; omega
    have hmod : ((1023 + n.log2) * 2 ^ 52 + M) % 2 ^ 52 = M := by
      rw [Nat.add_comm, Nat.add_mul_mod_self_right, Nat.mod_eq_of_lt hm]
    have hne : (1023 + n.log2) * 2 ^ 52 + M ≠ 0 := by
      have : 0 < (1023 + n.log2) * 2 ^ 52 := Nat.mul_pos (by omega) (Nat.two_pow_pos 52)
      omega
    unfold f64ToNat?
    simp only [hne, if_false, hdiv, hmod]
    have hsub : 1023 + n.log2 - 1023 = n.log2 := by omega
    rw [hsub]
    have hMmod : M % 2 ^ (52 - n.log2) = 0 := by rw [← hM]; exact Nat.mul_mod_left _ _
    have hMdiv : M / 2 ^ (52 - n.log2) = n - 2 ^ n.log2 := by
      rw [← hM]; exact Nat.mul_div_cancel _ (Nat.two_pow_pos _)
    have hcond : 1023 ≤ 1023 + n.log2 ∧ 1023 + n.log2 ≤ 1075 ∧ M % 2 ^ (52 - n.log2) = 0 :=
      ⟨by omega, by omega, hMmod⟩
    simp only [hcond, and_self, if_true, hMdiv]
    rw [Nat.add_sub_of_le hlo]

/-! ## well-formedness of the field constructors -/

/-- strings that fit the format: short enough for a u32 length (any bytes) -/
def StrOk (s : Str) : Prop := s.length < 2 ^ 32

instance (s : Str) : Decidable (StrOk s) := by unfold StrOk; exact inferInstance

def BitsOk (l : List Nat) : Prop := (∀ v ∈ l, v < 2 ^ 64) ∧ l.length < 2 ^ 32

theorem shapeOk_one (d : Nat) (h : d < 2 ^ 32) : ShapeOk [d] := by
  constructor
  · simp
  · intro x hx; simp at hx; omega

theorem shapeOk_two (a b : Nat) (ha : a < 2 ^ 32) (hb : b < 2 ^ 32) : ShapeOk [a, b] := by
  constructor
  · simp
  · intro x hx; simp at hx; omega

theorem shapeOk_nil : ShapeOk [] := by constructor <;> simp

theorem wf_strField (s : Str) (h : StrOk s) : WF (strField s) := by
  unfold strField
  by_cases he : s = []
  · subst he; exact ⟨shapeOk_nil, [], rfl, rfl⟩
  · have : s.isEmpty = false := by cases s <;> simp_all
    simp only [this]
    exact ⟨shapeOk_one _ h, s, rfl, by simp [volume, encLen]⟩

theorem wf_labelChars (s : Str) (h : StrOk s) : WF (.chars [encLen s] [s]) :=
  ⟨shapeOk_one _ h, s, rfl, by simp [volume, encLen]⟩

theorem wf_f64Field (v : Nat) (h : v < 2 ^ 64) : WF (f64Field v) :=
  ⟨shapeOk_one 1 (by omega), by simp [volume], by intro x hx; simp at hx; omega⟩

theorem wf_boolField (b : Bool) : WF (boolField b) :=
  ⟨shapeOk_one 1 (by omega), by simp [volume]⟩

theorem wf_arr1 (vals : List Nat) (h : BitsOk vals) : WF (arr1 vals) :=
  ⟨shapeOk_one _ h.2, by simp [volume], h.1⟩

theorem wf_natF64 (n : Nat) (h : n < 2 ^ 53) : WF (f64Field (natToF64 n)) :=
  wf_f64Field _ (natToF64_lt n h)

theorem WFs_append (xs ys : List Obj) : WFs (xs ++ ys) ↔ WFs xs ∧ WFs ys := by
  induction xs with
  | nil => simp [WFs]
  | cons x xs ih => simp [WFs, ih, and_assoc]

theorem WFs_of_forall (xs : List Obj) (h : ∀ x ∈ xs, WF x) : WFs xs := by
  induction xs with
  | nil => trivial
  | cons x xs ih => exact ⟨h x (by simp), ih (fun y hy => h y (by simp [hy]))⟩

theorem WFs_forall (xs : List Obj) (h : WFs xs) : ∀ x ∈ xs, WF x := by
  induction xs with
  | nil => intro x hx; simp at hx
  | cons y ys ih =>
    intro x hx
    rcases List.mem_cons.mp hx with rfl | hx'
    · exact h.1
    · exact ih h.2 x hx'

/-- a struct object: field names short, at least one field, values well-formed -/
theorem wf_structObj (fields : List (Str × Obj)) (hn : ∀ f ∈ fields, f.1.length < 2 ^ 32)
    (hl : fields.length < 2 ^ 32) (hw : WFs (fields.map (·.2))) : WF (structObj fields) := by
  unfold structObj
  refine ⟨shapeOk_one 1 (by omega), by simp [volume], by simp, by simpa using hl, ?_, by decide,
    by intro h; simp at h, hw⟩
  intro s hs
  simp only [List.mem_map] at hs
  obtain ⟨f, hf, rfl⟩ := hs
  exact hn f hf

theorem wf_strArray (ss : List Str) (h : ∀ s ∈ ss, StrOk s) (hl : ss.length < 2 ^ 32) :
    WF (strArray ss) := by
  unfold strArray
  refine ⟨shapeOk_one _ hl, by simp [volume], WFs_of_forall _ ?_⟩
  intro x hx
  simp only [List.mem_map] at hx
  obtain ⟨s, hs, rfl⟩ := hx
  exact wf_labelChars s (h s hs)

end ScnVerif.Sqw
