import ScnVerif.Model.Heap
import ScnVerif.Model.Factories
import Mathlib.Tactic.SplitIfs
import Mathlib.Tactic.Linarith
/-! helper lemmas for `Props/C09.lean`: the invariant behind `analysis_sound`, configuration
independence beyond the consulted bits, and the invariant of the factory state machine -/
namespace ScnVerif.Lemmas.Heap
open ScnVerif ScnVerif.Heap

variable {β : Type}

theorem lookup_bind (s : State β) (v b v') :
    (s.bind v b).lookup v' = if v = v' then some b else s.lookup v' := by
  simp only [State.lookup, State.bind, List.find?_cons]
  by_cases h : v = v'
  · simp [h]
  · have : (v == v') = false := by simpa using h
    simp [this, h]

theorem lookup_alloc (s : State β) (x v v') :
    (s.alloc x v).lookup v' = if v = v' then some s.heap.length else s.lookup v' := by
  simp only [State.lookup, State.alloc, List.find?_cons]
  by_cases h : v = v'
  · simp [h]
  · have : (v == v') = false := by simpa using h
    simp [this, h]

theorem absLookup_cons (a : Abs) (v l v') :
    absLookup ((v, l) :: a) v' = if v = v' then l else absLookup a v' := by
  simp only [absLookup, List.find?_cons]
  by_cases h : v = v'
  · simp [h]
  · have : (v == v') = false := by simpa using h
    simp [this, h]

structure Inv (n : Nat) (vals : List β) (s : State β) (a : Abs) (w : List Nat) : Prop where
  len : n ≤ s.heap.length
  aliases : ∀ v b, s.lookup v = some b → b < n → b ∈ absLookup a v
  unchanged : ∀ j, j < n → j ∉ w → s.heap[j]? = vals[j]?

theorem inv_alloc {n : Nat} {vals : List β} {s : State β} {a : Abs} {w : List Nat} (h : Inv n vals s a w)
    (x : β) (v : Var) (l : List Nat) : Inv n vals (s.alloc x v) ((v, l) :: a) w := by
  refine ⟨?_, ?_, ?_⟩
  · simp [State.alloc]; have := h.len; omega
  · intro v' b hb hlt
    rw [lookup_alloc] at hb
    rw [absLookup_cons]
    by_cases hv : v = v'
    · simp only [hv, if_true] at hb ⊢
      injection hb with hb
      have := h.len; omega
    · simp only [hv, if_false] at hb ⊢
      exact h.aliases v' b hb hlt
  · intro j hj hw
    have := h.unchanged j hj hw
    have hl := h.len
    simp only [State.alloc]
    rw [List.getElem?_append_left (by omega)]
    exact this

theorem inv_bind {n : Nat} {vals : List β} {s : State β} {a : Abs} {w : List Nat} (h : Inv n vals s a w)
    (v : Var) (b : Nat) (l : List Nat) (hb : b < n → b ∈ l) : Inv n vals (s.bind v b) ((v, l) :: a) w := by
  refine ⟨h.len, ?_, h.unchanged⟩
  intro v' b' hb' hlt
  rw [lookup_bind] at hb'
  rw [absLookup_cons]
  by_cases hv : v = v'
  · simp only [hv, if_true] at hb' ⊢
    injection hb' with hb'
    subst hb'
    exact hb hlt
  · simp only [hv, if_false] at hb' ⊢
    exact h.aliases v' b' hb' hlt

theorem step_inv (S : Sem β) (c : Nat) {n : Nat} {vals : List β} {s : State β} {a : Abs} {w : List Nat}
    (h : Inv n vals s a w) (i : Instr) :
    Inv n vals (step S c s i) (absStep c (a, w) i).1 (absStep c (a, w) i).2 := by
  cases i with
  | fresh v => exact inv_alloc h _ _ _
  | view v ws =>
    simp only [step, absStep]
    split
    · next b hb =>
      refine inv_bind h v b _ ?_
      intro hlt
      have hmem : b ∈ ws.filterMap s.lookup := List.mem_of_getElem? hb
      obtain ⟨w', hw', hl⟩ := List.mem_filterMap.mp hmem
      exact List.mem_flatMap.mpr ⟨w', hw', h.aliases w' b hl hlt⟩
    · exact inv_alloc h _ _ _
  | conv v x bit =>
    simp only [step, absStep]
    by_cases hc : c.testBit bit = true
    · simp only [hc, if_true]
      split
      · next b hb => exact inv_bind h v b _ (fun hlt => h.aliases x b hb hlt)
      · exact inv_alloc h _ _ _
    · simp only [hc, Bool.false_eq_true, if_false]
      exact inv_alloc h _ _ _
  | write v =>
    simp only [step, absStep]
    split
    · next b hb =>
      refine ⟨by simpa [State.write] using h.len, fun v' b' hb' hlt => h.aliases v' b' hb' hlt, ?_⟩
      intro j hj hw
      simp only [List.mem_append, not_or] at hw
      have hne : b ≠ j := by
        intro e; subst e
        exact hw.1 (h.aliases v b hb hj)
      simp only [State.write, List.getElem?_modify, hne, if_false]
      simpa using h.unchanged j hj hw.2
    · refine ⟨h.len, h.aliases, ?_⟩
      intro j hj hw
      simp only [List.mem_append, not_or] at hw
      exact h.unchanged j hj hw.2

theorem run_inv (S : Sem β) (c : Nat) {n : Nat} {vals : List β} :
    ∀ (p : Program) (s : State β) (a : Abs) (w : List Nat), Inv n vals s a w →
      Inv n vals (run S c p s) (p.foldl (absStep c) (a, w)).1 (p.foldl (absStep c) (a, w)).2 := by
  intro p
  induction p with
  | nil => intro s a w h; exact h
  | cons i p ih =>
    intro s a w h
    simp only [run, List.foldl_cons]
    exact ih _ _ _ (step_inv S c h i)

theorem absLookup_initAbs (l : List Nat) (j : Nat) (h : j ∈ l) :
    absLookup (l.map (fun j => (j, [j]))) j = [j] := by
  induction l with
  | nil => simp at h
  | cons x xs ih =>
    simp only [List.map_cons, absLookup_cons]
    by_cases hx : x = j
    · simp [hx]
    · simp only [hx, if_false]
      rcases List.mem_cons.mp h with e | e
      · exact absurd e.symm hx
      · exact ih e

theorem lookup_init (l : List Nat) (heap : List β) (v b : Nat)
    (h : (State.mk (l.map (fun j => (j, j))) heap).lookup v = some b) : b = v ∧ v ∈ l := by
  induction l with
  | nil => simp [State.lookup] at h
  | cons x xs ih =>
    simp only [State.lookup, List.map_cons, List.find?_cons] at h
    by_cases hx : x = v
    · simp [hx] at h; exact ⟨h.symm, by simp [hx]⟩
    · have hx' : (x == v) = false := by simpa using hx
      simp only [hx'] at h
      obtain ⟨h1, h2⟩ := ih h
      exact ⟨h1, by simp [h2]⟩

theorem init_inv (vals : List β) : Inv vals.length vals (initState vals) (initAbs vals.length) [] := by
  refine ⟨le_refl _, ?_, fun j _ _ => rfl⟩
  intro v b hb _
  obtain ⟨rfl, hv⟩ := lookup_init _ _ v b hb
  rw [initAbs, absLookup_initAbs _ _ hv]
  simp


theorem foldl_absStep_congr (c c' : Nat) : ∀ (p : Program) (st : Abs × List Nat),
    (∀ bit, bit < maxBit p → c.testBit bit = c'.testBit bit) →
    p.foldl (absStep c) st = p.foldl (absStep c') st := by
  intro p
  induction p with
  | nil => intro st _; rfl
  | cons i p ih =>
    intro st h
    simp only [List.foldl_cons]
    have hstep : absStep c st i = absStep c' st i := by
      cases i with
      | conv v w bit =>
        have := h bit (by simp only [maxBit]; omega)
        simp only [absStep, this]
      | _ => rfl
    rw [hstep]
    apply ih
    intro bit hb
    apply h
    cases i <;> simp only [maxBit] <;> omega

theorem writtenArgs_mod (n : Nat) (p : Program) (c k : Nat) (hk : maxBit p ≤ k) :
    writtenArgs n p c = writtenArgs n p (c % 2 ^ k) := by
  unfold writtenArgs
  rw [foldl_absStep_congr c (c % 2 ^ k) p _ ?_]
  intro bit hb
  rw [Nat.testBit_mod_two_pow]
  have : bit < k := by omega
  simp [this]

/-- the decidable check implies the statement for every configuration -/
theorem check_sound (k : Kernel) (h : k.check = true) :
    ∀ c j, j ∈ writtenArgs k.nargs k.ir c → j ∈ k.allowed := by
  simp only [Kernel.check, Bool.and_eq_true, decide_eq_true_eq, List.all_eq_true, List.mem_range,
    List.contains_iff_mem] at h
  obtain ⟨⟨hb, _⟩, hall⟩ := h
  intro c j hj
  rw [writtenArgs_mod _ _ c k.bits hb] at hj
  exact (hall (c % 2 ^ k.bits) (Nat.mod_lt _ (by positivity))).1 j hj

theorem returnAliases_mod (n : Nat) (p : Program) (c k : Nat) (r : Var) (hk : maxBit p ≤ k) :
    returnAliases n p c r = returnAliases n p (c % 2 ^ k) r := by
  unfold returnAliases
  rw [foldl_absStep_congr c (c % 2 ^ k) p _ ?_]
  intro bit hb
  rw [Nat.testBit_mod_two_pow]
  have : bit < k := by omega
  simp [this]

theorem check_sound_ret (k : Kernel) (h : k.check = true) (r : Var) (allowedR : List Nat) (hr : (r, allowedR) ∈ k.rets) :
    ∀ c j, j ∈ returnAliases k.nargs k.ir c r → j ∈ allowedR := by
  simp only [Kernel.check, Bool.and_eq_true, decide_eq_true_eq, List.all_eq_true, List.mem_range,
    List.contains_iff_mem] at h
  obtain ⟨⟨hb, _⟩, hall⟩ := h
  intro c j hj
  rw [returnAliases_mod _ _ c k.bits r hb] at hj
  exact (hall (c % 2 ^ k.bits) (Nat.mod_lt _ (by positivity))).2 (r, allowedR) hr j hj

theorem check_public (k : Kernel) (h : k.check = true) (hp : k.isPublic = true) : k.allowed = [] := by
  simp only [Kernel.check, Bool.and_eq_true, decide_eq_true_eq, Bool.or_eq_true, Bool.not_eq_true'] at h
  rcases h.1.2.1.1 with h' | h'
  · simp [hp] at h'
  · simpa using h'

/-- no kernel that passes the check may write a pseudo-argument (module-level mutable state) -/
theorem check_globals (k : Kernel) (h : k.check = true) : ∀ j ∈ k.allowed, j < k.nreal := by
  simp only [Kernel.check, Bool.and_eq_true, decide_eq_true_eq, List.all_eq_true] at h
  exact h.1.2.1.2

/-- a public kernel that does not return a container of its own may only return aliases of real arguments -/
theorem check_ret_globals (k : Kernel) (h : k.check = true) (hp : k.isPublic = true) (hc : k.retContainer = false) :
    ∀ r ∈ k.rets, ∀ j ∈ r.2, j < k.nreal := by
  simp only [Kernel.check, Bool.and_eq_true, decide_eq_true_eq, List.all_eq_true, Bool.or_eq_true, Bool.not_eq_true'] at h
  rcases h.1.2.2 with (h' | h') | h'
  · simp [hp] at h'
  · simp [hc] at h'
  · exact h'

end ScnVerif.Lemmas.Heap

namespace ScnVerif.Lemmas.Factories
open ScnVerif ScnVerif.Factories
variable {β : Type}

theorem find_mem {l : List (Nat × Nat)} {k r : Nat} (h : find l k = some r) : (k, r) ∈ l := by
  simp only [find, Option.map_eq_some_iff] at h
  obtain ⟨p, hp, hr⟩ := h
  have h1 := List.mem_of_find?_eq_some hp
  have h2 := List.find?_some hp
  simp only [beq_iff_eq] at h2
  obtain ⟨a, b⟩ := p
  simp only at h2 hr
  subst h2; subst hr
  exact h1

structure FInv (S : Sem β) (s : State β) : Prop where
  cacheOk : ∀ k r, (k, r) ∈ s.cache → s.store[r]? = some (S.pristine k)
  tablesOk : ∀ k r, (k, r) ∈ s.tables → s.store[r]? = some (S.pristine k)
  handlesOk : ∀ h ∈ s.handles, h < s.store.length ∧ (∀ k r, (k, r) ∈ s.cache → r ≠ h) ∧
    (∀ k r, (k, r) ∈ s.tables → r ≠ h)

theorem lt_of_getElem? {l : List β} {r : Nat} {x : β} (h : l[r]? = some x) : r < l.length :=
  (List.getElem?_eq_some_iff.mp h).1

theorem handOut_inv (S : Sem β) {s : State β} (h : FInv S s) (r : Nat) : FInv S (handOut false s r) := by
  simp only [handOut, Bool.false_eq_true, if_false]
  split
  · next x hx =>
    refine ⟨?_, ?_, ?_⟩
    · intro k r' hm
      have := h.cacheOk k r' hm
      simp only
      rw [List.getElem?_append_left (lt_of_getElem? this)]; exact this
    · intro k r' hm
      have := h.tablesOk k r' hm
      simp only
      rw [List.getElem?_append_left (lt_of_getElem? this)]; exact this
    · intro hd hm
      simp only [List.mem_append, List.mem_singleton] at hm
      rcases hm with hm | hm
      · obtain ⟨h1, h2, h3⟩ := h.handlesOk hd hm
        exact ⟨by simp; omega, h2, h3⟩
      · subst hm
        refine ⟨by simp, ?_, ?_⟩
        · intro k r' hm'; have := lt_of_getElem? (h.cacheOk k r' hm'); omega
        · intro k r' hm'; have := lt_of_getElem? (h.tablesOk k r' hm'); omega
  · exact h

theorem step_inv (S : Sem β) {s : State β} (h : FInv S s) (op : Op) : FInv S (step S false s op) := by
  cases op with
  | lookup k =>
    simp only [step]
    split
    · exact handOut_inv S h _
    · apply handOut_inv
      refine ⟨?_, ?_, ?_⟩
      · intro k' r hm
        simp only [List.mem_cons, Prod.mk.injEq] at hm
        rcases hm with ⟨rfl, rfl⟩ | hm
        · simp
        · have := h.cacheOk k' r hm
          simp only; rw [List.getElem?_append_left (lt_of_getElem? this)]; exact this
      · intro k' r hm
        have := h.tablesOk k' r hm
        simp only; rw [List.getElem?_append_left (lt_of_getElem? this)]; exact this
      · intro hd hm
        obtain ⟨h1, h2, h3⟩ := h.handlesOk hd hm
        refine ⟨by simp; omega, ?_, h3⟩
        intro k' r hm'
        simp only [List.mem_cons, Prod.mk.injEq] at hm'
        rcases hm' with ⟨_, rfl⟩ | hm'
        · omega
        · exact h2 k' r hm'
  | factory k =>
    simp only [step]
    split
    · exact handOut_inv S h _
    · apply handOut_inv
      refine ⟨?_, ?_, ?_⟩
      · intro k' r hm
        have := h.cacheOk k' r hm
        simp only; rw [List.getElem?_append_left (lt_of_getElem? this)]; exact this
      · intro k' r hm
        simp only [List.mem_cons, Prod.mk.injEq] at hm
        rcases hm with ⟨rfl, rfl⟩ | hm
        · simp
        · have := h.tablesOk k' r hm
          simp only; rw [List.getElem?_append_left (lt_of_getElem? this)]; exact this
      · intro hd hm
        obtain ⟨h1, h2, h3⟩ := h.handlesOk hd hm
        refine ⟨by simp; omega, h2, ?_⟩
        intro k' r hm'
        simp only [List.mem_cons, Prod.mk.injEq] at hm'
        rcases hm' with ⟨_, rfl⟩ | hm'
        · omega
        · exact h3 k' r hm'
  | derive i =>
    simp only [step]
    split
    · exact handOut_inv S h _
    · exact h
  | mutate i =>
    simp only [step]
    split
    · next r hr =>
      have hm : r ∈ s.handles := List.mem_of_getElem? hr
      obtain ⟨h1, h2, h3⟩ := h.handlesOk r hm
      refine ⟨?_, ?_, ?_⟩
      · intro k r' hm'
        have hne := h2 k r' hm'
        simp only [List.getElem?_modify, Ne.symm hne, if_false]
        simpa using h.cacheOk k r' hm'
      · intro k r' hm'
        have hne := h3 k r' hm'
        simp only [List.getElem?_modify, Ne.symm hne, if_false]
        simpa using h.tablesOk k r' hm'
      · intro hd hm'
        obtain ⟨g1, g2, g3⟩ := h.handlesOk hd hm'
        exact ⟨by simpa using g1, g2, g3⟩
    · exact h

theorem run_inv (S : Sem β) : ∀ (ops : List Op) (s : State β), FInv S s → FInv S (run S false ops s) := by
  intro ops
  induction ops with
  | nil => intro s h; exact h
  | cons op ops ih => intro s h; exact ih _ (step_inv S h op)

theorem empty_inv (S : Sem β) : FInv S (empty : State β) :=
  ⟨by simp [empty], by simp [empty], by simp [empty]⟩

end ScnVerif.Lemmas.Factories
