import ScnVerif.Model.Sqw.Reader
import ScnVerif.Lemmas.SqwWF
/-! The package's reader (`rdObj`) inverts `writeObj` on the objects the builder writes. -/
namespace ScnVerif.Sqw

mutual
/-- shapes for which the reader's conventions (`_volume(()) = 1`, one string per char array, 1-d
struct arrays) agree with the writer's -/
def Simple : Obj → Prop
  | .chars shape _ => shape.length ≤ 1
  | .f64s _ _ => True
  | .logicals shape _ => shape ≠ []
  | .cell shape items => shape ≠ [] ∧ Simples items
  | .structs shape n _ fields => (shape = [] ∨ (shape = [n] ∧ n ≠ 0)) ∧ Simples fields
def Simples : List Obj → Prop
  | [] => True
  | x :: xs => Simple x ∧ Simples xs
end

mutual
/-- recursion depth the reader needs (its struct reader calls `read_object_array` for the nested cell) -/
def depthR : Obj → Nat
  | .chars _ _ => 1
  | .f64s _ _ => 1
  | .logicals _ _ => 1
  | .cell _ items => 1 + depthsR items
  | .structs _ _ _ fields => 3 + depthsR fields
def depthsR : List Obj → Nat
  | [] => 0
  | x :: xs => max (depthR x) (depthsR xs) + 1
end

theorem foldl_mul (ds : List Nat) (d : Nat) : ds.foldl (· * ·) d = d * rVolume ds := by
  induction ds generalizing d with
  | nil => simp [rVolume]
  | cons a ds ih => simp [List.foldl_cons, ih, rVolume, Nat.mul_assoc]

theorem volume_eq_rVolume (shape : List Nat) (h : shape ≠ []) : volume shape = rVolume shape := by
  cases shape with
  | nil => exact absurd rfl h
  | cons d ds => simp [volume, foldl_mul, rVolume]

theorem rdBools_map (vals : List Bool) (r : Bytes) :
    rdBools vals.length (vals.map (fun b => if b then 1 else 0) ++ r) = some (vals, r) := by
  induction vals with
  | nil => simp [rdBools]
  | cons b bs ih => cases b <;> simp [rdBools, ih]

mutual
theorem rdObj_writeObj (o : Order) (x : Obj) (f : Nat) (rest : Bytes)
    (hw : WF x) (hs : Simple x) (hf : depthR x ≤ f) : rdObj o f (writeObj o x ++ rest) = some (x, rest) := by
  cases x with
  | chars shape strs =>
    cases f with
    | zero => simp [depthR] at hf
    | succ f =>
      obtain ⟨hsh, s, rfl, hl⟩ := hw
      have hlen : shape.length ≤ 1 := hs
      match shape, hlen, hsh, hl with
      | [], _, hsh, hl =>
        have : s = [] := List.length_eq_zero_iff.mp (by simpa [volume] using hl)
        subst this
        simp [writeObj, rdObj, rdShape_shapeBytes o [] _ hsh]
      | [n], _, hsh, hl =>
        have hl' : s.length = n := by simpa [volume] using hl
        simp [writeObj, rdObj, List.append_assoc, rdShape_shapeBytes o [n] _ hsh, rVolume, rdStrings,
          takeN_append' n s rest hl']
  | f64s shape vals =>
    cases f with
    | zero => simp [depthR] at hf
    | succ f =>
      obtain ⟨hsh, hl, hv⟩ := hw
      cases shape with
      | nil =>
        have : vals = [] := List.length_eq_zero_iff.mp (by simpa [volume] using hl)
        subst this
        simp [writeObj, rdObj, rdShape_shapeBytes o [] _ hsh]
      | cons d ds =>
        have hvol : vals.length = rVolume (d :: ds) := by rw [hl, volume_eq_rVolume _ (by simp)]
        simp [writeObj, rdObj, List.append_assoc, rdShape_shapeBytes o (d :: ds) _ hsh, ← hvol,
          rdF64s_flatMap o vals rest hv]
  | logicals shape vals =>
    cases f with
    | zero => simp [depthR] at hf
    | succ f =>
      obtain ⟨hsh, hl⟩ := hw
      have hne : shape ≠ [] := hs
      have hvol : vals.length = rVolume shape := by rw [hl, volume_eq_rVolume _ hne]
      simp [writeObj, rdObj, List.append_assoc, rdShape_shapeBytes o shape _ hsh, ← hvol, rdBools_map]
  | cell shape items =>
    cases f with
    | zero => simp [depthR] at hf
    | succ f =>
      obtain ⟨hsh, hl, hi⟩ := hw
      obtain ⟨hne, hsi⟩ := hs
      have hd : depthsR items ≤ f := by simp [depthR] at hf; omega
      have hvol : items.length = rVolume shape := by rw [hl, volume_eq_rVolume _ hne]
      simp [writeObj, rdObj, List.append_assoc, rdShape_shapeBytes o shape _ hsh, ← hvol,
        rdObjs_writeObjs o items f rest hi hsi hd]
  | structs shape n names fields =>
    obtain ⟨hsh, hn, hfl, hnl, hnames, hn32, hzero, hfs⟩ := hw
    obtain ⟨hshape, hsf⟩ := hs
    have hd : 3 + depthsR fields ≤ f := by simpa [depthR] using hf
    have core : ∀ g, depthsR fields ≤ g →
        rdObj o (g + 2) (24 :: (shapeBytes o shape ++
          (structPayload o n names (writeObjs o fields) ++ rest)))
        = some (.structs shape n names fields, rest) := by
      intro g hg
      rcases hshape with rfl | ⟨rfl, hn0⟩
      · have h0 : n = 0 := by simpa [volume] using hn
        obtain ⟨rfl, rfl⟩ := hzero h0
        subst h0
        simp [rdObj, structPayload, rdShape_shapeBytes o [] _ hsh]
      · have hcs : ShapeOk (structCellShape names.length n) := by
          unfold structCellShape ShapeOk
          split <;> (constructor <;> simp <;> omega)
        have hlen : (names.map List.length).length = names.length := by simp
        have hdims := rdDims_flatMap o (names.map List.length)
          (names.flatten ++ 23 :: (shapeBytes o (structCellShape names.length n) ++ (writeObjs o fields ++ rest)))
          (by intro d hd; simp at hd; obtain ⟨s, hs', rfl⟩ := hd; exact hnames s hs')
        rw [hlen] at hdims
        have hcellwf : fields.length = rVolume (structCellShape names.length n) := by
          rw [hfl]; unfold structCellShape; split
          · subst_vars; simp [rVolume]
          · simp [rVolume]
        have hcell : rdObj o (g + 1) (23 :: (shapeBytes o (structCellShape names.length n) ++
            (writeObjs o fields ++ rest))) = some (.cell (structCellShape names.length n) fields, rest) := by
          simp [rdObj, rdShape_shapeBytes o _ _ hcs, ← hcellwf, rdObjs_writeObjs o fields g rest hfs hsf hg]
        have hexp : (if [n] = [1] then [names.length, 1] else names.length :: 1 :: [n]) =
            structCellShape names.length n := by
          unfold structCellShape
          by_cases h1 : n = 1
          · simp [h1]
          · simp [h1]
        unfold rdObj
        simp [structPayload, hn0, List.append_assoc, rdShape_shapeBytes o [n] _ hsh,
          rdU32_u32 o names.length _ hnl, flatMap_len_eq, hdims, rdPieces_flatten, hcell, rVolume]
        rfl
    obtain ⟨g, rfl⟩ : ∃ g, f = g + 3 := ⟨f - 3, by omega⟩
    have hg : depthsR fields ≤ g := by omega
    by_cases htag : needsSerializableTag n names fields = true
    · have e : writeObj o (.structs shape n names fields) ++ rest =
          32 :: 24 :: (shapeBytes o shape ++ (structPayload o n names (writeObjs o fields) ++ rest)) := by
        simp [writeObj, htag]
      rw [e, rdObj]
      simp only [if_true]
      exact core g hg
    · have e : writeObj o (.structs shape n names fields) ++ rest =
          24 :: (shapeBytes o shape ++ (structPayload o n names (writeObjs o fields) ++ rest)) := by
        simp [writeObj, htag]
      rw [e]
      exact core (g + 1) (by omega)
theorem rdObjs_writeObjs (o : Order) (xs : List Obj) (f : Nat) (rest : Bytes)
    (hw : WFs xs) (hs : Simples xs) (hf : depthsR xs ≤ f) :
    rdObjs o f xs.length (writeObjs o xs ++ rest) = some (xs, rest) := by
  cases xs with
  | nil => cases f <;> simp [writeObjs, rdObjs]
  | cons x xs =>
    cases f with
    | zero => simp [depthsR] at hf
    | succ f =>
      obtain ⟨hx, hxs⟩ := hw
      obtain ⟨hsx, hsxs⟩ := hs
      have h1 : depthR x ≤ f := by simp [depthsR] at hf; omega
      have h2 : depthsR xs ≤ f := by simp [depthsR] at hf; omega
      simp [writeObjs, rdObjs, List.append_assoc, rdObj_writeObj o x f _ hx hsx h1,
        rdObjs_writeObjs o xs f rest hxs hsxs h2]
end

end ScnVerif.Sqw
