import ScnVerif.Model.Proto
import ScnVerif.Model.Cif.Parser
import ScnVerif.Model.Cif.Builder
/-!
Driver ops for C14.  Strings travel as 6 hexadecimal digits per code point (`-` = empty string).

* `c14.fmt <q> <str>`                 → `_format_value` text (`q` = 1: repaired quoting, 0: as coded)
* `c14.tok <text>`                    → tokens of the independent CIF 1.1 tokenizer
* `c14.parse <text>`                  → `none` or the parsed blocks
* `c14.save <q><h> <mode> <core> <comment> <nblocks> <block>…`  → text of `save_cif` (`mode` = `H`)
                                         or of `Block.write` of the single block (`mode` = `B`)
* `c14.prog <q><h> <core> <pd> <version> <nops> <op>…`          → outputs of a builder program
* `c14.ids <nextId> <n> <corr role?>…` → author id columns and role ids
-/
namespace ScnVerif.Driver.C14
open ScnVerif ScnVerif.Cif ScnVerif.Proto

/-- 6 hex digits per code point -/
def decStr (w : String) : Option Str :=
  if w = "-" then some [] else
  let rec go : List Char → Str → Option Str
    | [], acc => some acc.reverse
    | a :: b :: c :: d :: e :: f :: rest, acc => do
        let x ← [a, b, c, d, e, f].foldlM (fun acc ch => (hexDigit ch).map (fun v => acc * 16 + v)) 0
        go rest (x :: acc)
    | _, _ => none
  go w.toList []

def encStr (s : Str) : String :=
  if s.isEmpty then "-" else
  String.ofList (s.foldr (fun c acc =>
    hexNib (c / 1048576 % 16) :: hexNib (c / 65536 % 16) :: hexNib (c / 4096 % 16)
      :: hexNib (c / 256 % 16) :: hexNib (c / 16 % 16) :: hexNib (c % 16) :: acc) [])

/-! word-stream reader -/
abbrev P := StateT (List String) Option

def word : P String := fun ws => match ws with | [] => none | w :: rest => some (w, rest)
def str : P Str := do let w ← word; (decStr w : Option Str)
def nat : P Nat := do let w ← word; (w.toNat? : Option Nat)
def flag : P Bool := do let w ← word; if w = "1" then pure true else if w = "0" then pure false else failure
def many {α} (p : P α) : Nat → P (List α)
  | 0 => pure []
  | n + 1 => do let x ← p; let xs ← many p n; pure (x :: xs)
def counted {α} (p : P α) : P (List α) := do let n ← nat; many p n
def optional' {α} (p : P α) : P (Option α) := do if (← flag) then some <$> p else pure none

def variant : P Variant := do
  let w ← word
  match w.toList with
  | [q, h] => pure ⟨q = '1', h = '1'⟩
  | _ => failure

def schema : P Schema := do let n ← str; let v ← str; let l ← str; pure ⟨n, v, l⟩
def schemaArg : P SchemaArg := do
  let w ← word
  if w = "N" then pure none else if w = "S" then some <$> counted schema else failure

def item : P Item := do
  let w ← word
  if w = "C" then do
    let comment ← str; let sa ← schemaArg
    let pairs ← counted (do let k ← str; let v ← str; pure (k, v))
    pure (.chunk ⟨comment, pairs, sa⟩)
  else if w = "L" then do
    let comment ← str; let sa ← schemaArg
    let ncols ← nat; let nrows ← nat
    let cols ← many (do let k ← str; let vs ← many str nrows; pure (k, vs)) ncols
    pure (.loop ⟨comment, cols, sa⟩)
  else failure

def block : P (Block × List Nat × Nat) := do
  let name ← str; let comment ← str; let sa ← schemaArg
  let ncopies ← nat
  let perm ← counted nat
  let items ← counted item
  pure (⟨name, comment, items, sa⟩, perm, ncopies)

def iter {α} (f : α → α) : Nat → α → α
  | 0, x => x
  | n + 1, x => iter f n (f x)

def runSave : P String := do
  let var ← variant
  let mode ← word
  let core ← schema
  let comment ← str
  let blocks ← counted block
  let blocks := blocks.map (fun (b, perm, nc) => (iter (Block.copy core) nc b, perm))
  if blocks.any (fun bp => !bp.1.nameOk) then pure "err:value" else
  if mode = "B" then
    match blocks with
    | [(b, perm)] => match b.write var core perm with
        | some t => pure (encStr t)
        | none => pure "err:perm"
    | _ => failure
  else match saveCif var core comment blocks with
    | some t => pure (encStr t)
    | none => pure "err:perm"

/-! builder programs -/

def person : P Person := do
  let name ← str; let email ← str; let address ← str; let orcid ← str; let role ← str; let corr ← flag
  pure ⟨name, email, address, orcid, role, corr⟩

def sourceType : P (Option SourceType) := do
  let w ← word
  if w = "-" then pure none else if w = "s" then pure (some .spallation)
  else if w = "r" then pure (some .reactor) else if w = "x" then pure (some .synchrotron) else failure

def errStr : BuildErr → String
  | .value => "err:value" | .coord => "err:coord" | .unit => "err:unit" | .dimension => "err:dimension"

structure PS where
  pool : Array Builder := #[]
  outs : Array String := #[]

def nameOk (n : Str) : Bool :=
  let n := encodeNonAscii n
  !(n.contains 32 || n.contains 9 || n.contains 10)

def op (var : Variant) (k : Consts) (s : PS) : P PS := do
  let w ← word
  if w = "new" then do
    let name ← str; let comment ← str
    if nameOk name then pure { s with pool := s.pool.push (Builder.new name comment) }
    else pure { s with outs := s.outs.push "err:value" }
  else do
    let i ← nat
    let b ← (s.pool[i]? : Option Builder)
    -- the name setter stores the name before validating it: a builder whose name was rejected keeps the
    -- bad name, and every later call on it (they all construct a `Block` with that name) raises
    let push (nb : Builder) : PS :=
      if nameOk b.name then { s with pool := s.pool.push nb } else { s with outs := s.outs.push "err:value" }
    if w = "copy" then pure (push b.copy)
    else if w = "authors" then do pure (push (b.withAuthors (← counted person)))
    else if w = "reducers" then do pure (push (b.withReducers (← counted str)))
    else if w = "beamline" then do
      let name ← str; let fac ← optional' str; let src ← sourceType; let comment ← str
      pure (push (b.withBeamline k name fac src comment))
    else if w = "powder" then do
      let comment ← str; let dim ← str; let cu ← str; let name ← str; let du ← str; let one ← flag
      let n ← nat
      let ids ← many str n; let coord ← many str n; let csu ← optional' (many str n)
      let vals ← many str n; let vsu ← optional' (many str n)
      if !nameOk b.name then pure { s with outs := s.outs.push "err:value" } else
      match b.withReducedPowderData k ⟨dim, cu, name, du, one, ids, coord, csu, vals, vsu⟩ comment with
      | .ok nb => pure (push nb)
      | .error e => pure { s with outs := s.outs.push (errStr e) }
    else if w = "calib" then do
      let comment ← str; let n ← nat
      let powers ← many str n; let coeffs ← many str n; let su ← optional' (many str n)
      pure (push (b.withPowderCalibration k powers coeffs su comment))
    else if w = "setname" then do
      let name ← str
      let s' := { s with pool := s.pool.set! i { b with name := name } }
      if nameOk name then pure s' else pure { s' with outs := s'.outs.push "err:value" }
    else if w = "setcomment" then do
      let c ← str
      pure { s with pool := s.pool.set! i { b with comment := c } }
    else if w = "save" then do
      let date ← str; let perm ← counted nat
      if !nameOk b.name then pure { s with outs := s.outs.push "err:value" } else
      let (t, nb) := b.save var k date perm
      pure { pool := s.pool.set! i nb, outs := s.outs.push (match t with | some t => encStr t | none => "err:perm") }
    else if w = "savec" then do
      -- save_cif(f, cif, comment=c): a shallow copy (sharing the id generator) with the comment replaced
      let c ← str; let date ← str; let perm ← counted nat
      if !nameOk b.name then pure { s with outs := s.outs.push "err:value" } else
      let (t, nb) := ({ b with comment := if c.isEmpty then b.comment else c } : Builder).save var k date perm
      pure { pool := s.pool.set! i { b with nextId := nb.nextId },
             outs := s.outs.push (match t with | some t => encStr t | none => "err:perm") }
    else failure

def ops (var : Variant) (k : Consts) : Nat → PS → P PS
  | 0, s => pure s
  | n + 1, s => do let s ← op var k s; ops var k n s

def runProg : P String := do
  let var ← variant
  let core ← schema; let pd ← schema; let version ← str
  let n ← nat
  let s ← ops var ⟨core, pd, version⟩ n {}
  pure (" ".intercalate s.outs.toList)

def tokStr : Tok → String
  | .data n => "D:" ++ encStr n
  | .loop => "L"
  | .tag n => "T:" ++ encStr n
  | .value v => "V:" ++ encStr v
  | .bad k => s!"B:{k}"

def pitemStr : PItem → String
  | .pair k v => "P " ++ encStr k ++ " " ++ encStr v
  | .loop tags vals => s!"L {tags.length} {vals.length} " ++ " ".intercalate ((tags ++ vals).map encStr)

def pblockStr (b : PBlock) : String :=
  " ".intercalate (s!"B {encStr b.name} {b.items.length}" :: b.items.map pitemStr)

def finishP (r : Option (String × List String)) : Option String :=
  match r with
  | some (out, []) => some out
  | some (_, _ :: _) => some "err:trailing"
  | none => some "err:protocol"

def handle : List String → Option String
  | ["c14.fmt", q, s] => do
      let s ← decStr s
      some (encStr (formatValue ⟨q = "1", true⟩ s))
  | ["c14.tok", t] => do
      let t ← decStr t
      let toks := tokenize t
      some (if toks.isEmpty then "-" else " ".intercalate (toks.map tokStr))
  | ["c14.parse", t] => do
      let t ← decStr t
      match parseCif t with
      | none => some "none"
      | some bs => some (s!"ok {bs.length}" ++ (if bs.isEmpty then "" else " ") ++ " ".intercalate (bs.map pblockStr))
  | "c14.save" :: rest => finishP (runSave.run rest)
  | "c14.prog" :: rest => finishP (runProg.run rest)
  | "c14.ids" :: n :: cnt :: rest => do
      let n ← n.toNat?; let cnt ← cnt.toNat?
      let ps ← (many (do let c ← flag; let r ← flag; pure (⟨[], [], [], [], if r then [120] else [], c⟩ : Person)) cnt).run rest
      let x := assignIds ps.1 n
      let f (l : List Nat) := ",".intercalate (l.map toString)
      some s!"{f (idColumn x.contact)};{f (idColumn x.regular)};{f x.roleIds}"
  | _ => none

end ScnVerif.Driver.C14
