import ScnVerif.Model.Proto
import ScnVerif.Model.Gravity
/-! driver ops for C04 (`<dt>` is `f64` or `f32`, the wavelength dtype; vectors are always f64;
numbers of dtype `<dt>` travel as 16 resp. 8 hex digits):
* `c04.frame <g 3> <n> {<b1 3>}×n` → `ok {ex(3) ey(3) ez(3)}×n` | `err:value`
* `c04.drop <dt> <c> <lamScale> <distance> <lambda:dt> <g 3>` → drop (`dt`)
* `c04.angles <dt> <c> <lamScale> <g 3> <npix> {<b1 3> <b2 3> <nλ> <λ:dt>×nλ}×npix`
     → `generic|orthogonal {two_theta phi}…` | `err:value`
* `c04.generic` / `c04.orth` : same arguments, forces the path (no dispatch), → `{two_theta phi}…` | `err:value`
* `c04.yz` : same arguments → `ok γ…` | `err:value`
* `c04.needs <g 3> <b1 3>` → `1|0` (dispatch predicate of one element)
-/
namespace ScnVerif.Driver.C04
open ScnVerif ScnVerif.Proto ScnVerif.Gravity

def v3Hex (v : V3 Float) : String := s!"{f64Hex v.x} {f64Hex v.y} {f64Hex v.z}"

/-- parse `k` f64 words -/
def takeF64 : Nat → List String → Option (List Float × List String)
  | 0, ws => some ([], ws)
  | k+1, w :: ws => do
      let x ← f64? w
      let (xs, rest) ← takeF64 k ws
      some (x :: xs, rest)
  | _+1, [] => none

def takeV3 (ws : List String) : Option (V3 Float × List String) := do
  match ← takeF64 3 ws with
  | ([a, b, c], rest) => some (⟨a, b, c⟩, rest)
  | _ => none

def takeMany {γ : Type} (p : String → Option γ) : Nat → List String → Option (List γ × List String)
  | 0, ws => some ([], ws)
  | k+1, w :: ws => do
      let x ← p w
      let (xs, rest) ← takeMany p k ws
      some (x :: xs, rest)
  | _+1, [] => none

def takePixels {β : Type} (p : String → Option β) :
    Nat → List String → Option (List (Pixel Float β) × List String)
  | 0, ws => some ([], ws)
  | k+1, ws => do
      let (b1, ws) ← takeV3 ws
      let (b2, ws) ← takeV3 ws
      match ws with
      | n :: ws =>
        let n ← n.toNat?
        let (ls, ws) ← takeMany p n ws
        let (ps, ws) ← takePixels p k ws
        some (⟨b1, b2, ls⟩ :: ps, ws)
      | [] => none

def errStr : Err → String
  | .value => "err:value"

def pathStr : Path → String
  | .generic => "generic"
  | .orthogonal => "orthogonal"

structure Args (β : Type) where
  c : Float
  lamScale : Float
  g : V3 Float
  pixels : List (Pixel Float β)

def parseArgs {β : Type} (p : String → Option β) : List String → Option (Args β)
  | c :: s :: ws => do
      let c ← f64? c
      let s ← f64? s
      let (g, ws) ← takeV3 ws
      match ws with
      | n :: ws =>
        let n ← n.toNat?
        let (ps, rest) ← takePixels p n ws
        if rest.isEmpty then some ⟨c, s, g, ps⟩ else none
      | [] => none
  | _ => none

def anglesStr {β : Type} (h : β → String) (rows : List (List (Angles β))) : String :=
  " ".intercalate (rows.flatten.map (fun a => h a.twoTheta ++ " " ++ h a.phi))

/-- forced-path evaluation: what `_scattering_angles_with_gravity_{generic,orthogonal_coords}` return -/
def forced {β : Type} [Add β] [Sub β] [Mul β] [Div β] [Neg β] [Trans β] [HasAbs β]
    (cv : Conv Float β) (a : Args β) (path : Path) : Except Err (List (List (Angles β))) :=
  if a.pixels.any (fun p => zNormTooSmall p.b1 a.g) then .error .value
  else .ok (a.pixels.map (fun p =>
    let fr := frame p.b1 a.g
    p.wavelengths.map (fun w =>
      match path with
      | .generic => anglesGeneric cv a.c a.lamScale fr p.b1 p.b2 w a.g
      | .orthogonal => anglesOrthogonal cv a.c a.lamScale fr p.b2 w a.g)))

def run {β : Type} [Add β] [Sub β] [Mul β] [Div β] [Neg β] [Trans β] [HasAbs β]
    (cv : Conv Float β) (p : String → Option β) (h : β → String) (op : String) (ws : List String) :
    Option String := do
  let a ← parseArgs p ws
  match op with
  | "c04.angles" =>
    match scatteringAnglesWithGravity cv a.c a.lamScale a.g a.pixels with
    | .error e => some (errStr e)
    | .ok (path, rows) => some (pathStr path ++ " " ++ anglesStr h rows)
  | "c04.generic" =>
    match forced cv a .generic with
    | .error e => some (errStr e)
    | .ok rows => some ("ok " ++ anglesStr h rows)
  | "c04.orth" =>
    match forced cv a .orthogonal with
    | .error e => some (errStr e)
    | .ok rows => some ("ok " ++ anglesStr h rows)
  | "c04.yz" =>
    match scatteringAngleInYZPlane cv a.c a.lamScale a.g a.pixels with
    | .error e => some (errStr e)
    | .ok rows => some ("ok " ++ " ".intercalate (rows.flatten.map h))
  | _ => none

def handle : List String → Option String
  | "c04.frame" :: ws => do
      let (g, ws) ← takeV3 ws
      match ws with
      | n :: ws =>
        let n ← n.toNat?
        let (xs, rest) ← takeF64 (3 * n) ws
        if !rest.isEmpty then none else
        let rec vecs : List Float → List (V3 Float)
          | a :: b :: c :: r => ⟨a, b, c⟩ :: vecs r
          | _ => []
        match beamAlignedUnitVectors (vecs xs) g with
        | .error e => some (errStr e)
        | .ok frs => some ("ok " ++ " ".intercalate (frs.map (fun f => s!"{v3Hex f.ex} {v3Hex f.ey} {v3Hex f.ez}")))
      | [] => none
  | ["c04.drop", "f64", c, s, d, l, gx, gy, gz] => do
      let c ← f64? c; let s ← f64? s; let d ← f64? d; let l ← f64? l
      let gx ← f64? gx; let gy ← f64? gy; let gz ← f64? gz
      some (f64Hex (dropDueToGravity (Conv.id Float) c s d l ⟨gx, gy, gz⟩))
  | ["c04.drop", "f32", c, s, d, l, gx, gy, gz] => do
      let c ← f64? c; let s ← f64? s; let d ← f64? d; let l ← f32? l
      let gx ← f64? gx; let gy ← f64? gy; let gz ← f64? gz
      some (f32Hex (dropDueToGravity Conv.f32 c s d l ⟨gx, gy, gz⟩))
  | ["c04.needs", gx, gy, gz, bx, by_, bz] => do
      let gx ← f64? gx; let gy ← f64? gy; let gz ← f64? gz
      let bx ← f64? bx; let by_ ← f64? by_; let bz ← f64? bz
      some (if needsGeneric (⟨gx, gy, gz⟩ : V3 Float) ⟨bx, by_, bz⟩ then "1" else "0")
  | op :: "f64" :: ws => run (Conv.id Float) f64? f64Hex op ws
  | op :: "f32" :: ws => run Conv.f32 f32? f32Hex op ws
  | _ => none

end ScnVerif.Driver.C04
