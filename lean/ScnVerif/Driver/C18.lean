import ScnVerif.Model.Proto
import ScnVerif.Model.Cylinder
import ScnVerif.Gen.Quadratures
/-! driver ops for C18 (all numbers are f64 bit patterns in hex unless noted):
* `c18.table <disk12|disk55|disk256_cheb>` → `den n x0 y0 w0 x1 …` (decimal integers, generated table)
* `c18.beam a(3) base(3) r h start(3) n(3)` → length (or `inf`); `c18.beamold`: the same with the pre-fix formula
* `c18.center a(3) base(3) h` → centre (3 numbers); `c18.volume r h` → volume
* `c18.selectk mult cap lo h r` → decimal k
* `c18.cheb x1 w1 x2 w2 …` → re-weighted rule `x1 w1' …`
* `c18.quad <kind> a(3) base(3) r h sr x1 w1 …` → `p.x p.y p.z w …` for every point
* `c18.trans <kind> a(3) base(3) r h sr beam(3) det(3) mu x1 w1 …` → transmission
  (`kind` = cheap | medium | expensive selects the disk table and whether the line rule is re-weighted;
  `x w` pairs are the raw numpy Gauss nodes/weights) -/
namespace ScnVerif.Driver.C18
open ScnVerif ScnVerif.Cylinder ScnVerif.Proto

def tableOf : String → Option (Nat × List (Int × Int × Int))
  | "disk12" => some (Gen.Quadratures.disk12Den, Gen.Quadratures.disk12)
  | "disk55" => some (Gen.Quadratures.disk55Den, Gen.Quadratures.disk55)
  | "disk256_cheb" => some (Gen.Quadratures.disk256_chebDen, Gen.Quadratures.disk256_cheb)
  | _ => none

def toFloatTable (den : Nat) (rows : List (Int × Int × Int)) : List (Float × Float × Float) :=
  let d := Float.ofNat den
  rows.map fun (x, y, w) => (Float.ofInt x / d, Float.ofInt y / d, Float.ofInt w / d)

/-- kind → (disk table, re-weight the line rule?) -/
def kindOf : String → Option (List (Float × Float × Float) × Bool)
  | "cheap" => some (toFloatTable Gen.Quadratures.disk12Den Gen.Quadratures.disk12, false)
  | "medium" => some (toFloatTable Gen.Quadratures.disk55Den Gen.Quadratures.disk55, true)
  | "expensive" => some (toFloatTable Gen.Quadratures.disk256_chebDen Gen.Quadratures.disk256_cheb, true)
  | _ => none

def floats? (ws : List String) : Option (List Float) := ws.mapM f64?

def pairs : List Float → List (Float × Float)
  | x :: w :: rest => (x, w) :: pairs rest
  | _ => []

def v3 (x y z : Float) : V3 Float := ⟨x, y, z⟩

def outLen : Option Float → String
  | none => "inf"
  | some x => f64Hex x

def eps : Float := 1e-10

def lineRule (rew : Bool) (xs : List Float) : List (Float × Float) :=
  if rew then chebReweight (pairs xs) else pairs xs

def handle : List String → Option String
  | ["c18.table", name] => do
      let (den, rows) ← tableOf name
      some (s!"{den} {rows.length} " ++ " ".intercalate (rows.map fun (x, y, w) => s!"{x} {y} {w}"))
  | "c18.beam" :: args => do
      match ← floats? args with
      | [ax, ay, az, bx, b_y, bz, r, h, sx, sy, sz, nx, ny, nz] =>
          some (outLen (beamIntersection (v3 ax ay az) (v3 bx b_y bz) r h (v3 sx sy sz) (v3 nx ny nz)))
      | _ => none
  | "c18.beamold" :: args => do
      match ← floats? args with
      | [ax, ay, az, bx, b_y, bz, r, h, sx, sy, sz, nx, ny, nz] =>
          some (outLen (beamIntersectionOld (v3 ax ay az) (v3 bx b_y bz) r h (v3 sx sy sz) (v3 nx ny nz)))
      | _ => none
  | "c18.center" :: args => do
      match ← floats? args with
      | [ax, ay, az, bx, b_y, bz, h] =>
          let c := center (v3 ax ay az) (v3 bx b_y bz) h
          some (f64Hex c.x ++ " " ++ f64Hex c.y ++ " " ++ f64Hex c.z)
      | _ => none
  | "c18.volume" :: args => do
      match ← floats? args with
      | [r, h] => some (f64Hex (volume r h))
      | _ => none
  | "c18.selectk" :: args => do
      match ← floats? args with
      | [mult, cap, lo, h, r] => some (toString (selectK mult cap lo h r))
      | _ => none
  | "c18.cheb" :: args => do
      let xs ← floats? args
      some (" ".intercalate ((chebReweight (pairs xs)).map fun (x, w) => f64Hex x ++ " " ++ f64Hex w))
  | "c18.quad" :: kind :: args => do
      let (disk, rew) ← kindOf kind
      match ← floats? args with
      | ax :: ay :: az :: bx :: b_y :: bz :: r :: h :: sr :: line =>
          let q := quadrature eps disk (lineRule rew line) (v3 ax ay az) (v3 bx b_y bz) r h sr
          some (" ".intercalate (q.map fun (p, w) =>
            f64Hex p.x ++ " " ++ f64Hex p.y ++ " " ++ f64Hex p.z ++ " " ++ f64Hex w))
      | _ => none
  | "c18.trans" :: kind :: args => do
      let (disk, rew) ← kindOf kind
      match ← floats? args with
      | ax :: ay :: az :: bx :: b_y :: bz :: r :: h :: sr :: mx :: my :: mz :: dx :: dy :: dz :: mu :: line =>
          let a := v3 ax ay az
          let base := v3 bx b_y bz
          let q := quadrature eps disk (lineRule rew line) a base r h sr
          some (outLen (transmission q a base r h (v3 mx my mz) (v3 dx dy dz) mu))
      | _ => none
  | _ => none

end ScnVerif.Driver.C18
