import ScnVerif.Model.Proto
import ScnVerif.Model.DiskChopper
/-! driver ops for C10 (rationals as `p/q`, floats as hex bit patterns)

* `c10.times <freq> <pulseFreq> <beam> <phase> <b₁> <e₁> …` (all `Q`, angles in turns) →
  `ok n=<n> open=<q,…> close=<q,…> dur=<q,…>` or `err:value`
* `c10.cascade <freq> <pulseFreq> <beam> <phase> <npulses> <b₁> <e₁> …` → `ok open=<…> close=<…>`
* `c10.cascade2 …` the same for the repaired variant (repeat by rotation)
* `c10.edges <wrap 0|1> <turn> <nb> <ne> <b…> <e…>` → `ok`, `err:value`, `err:dimension`
* `c10.phase <freq f64> <pulseFreq f64> <rtol f64>` (at `Float`, bit-exact) → `ok <n>` / `err:value`
-/
namespace ScnVerif.Driver.C10
open ScnVerif ScnVerif.DiskChopper ScnVerif.Proto ScnVerif.ChopperRat

def qs? (ws : List String) : Option (List Q) := ws.mapM Q.parse?

def pairs : List Q → List (Q × Q)
  | b :: e :: rest => (b, e) :: pairs rest
  | _ => []

def qlist (l : List Q) : String := if l.isEmpty then "-" else ",".intercalate (l.map Q.toString)

def errStr : Err → String
  | .value => "err:value"
  | .dimension => "err:dimension"

def rtolQ : Q := Q.normalize 1 100000000

def handle : List String → Option String
  | "c10.times" :: f :: pf :: beam :: phase :: rest => do
      let f ← Q.parse? f; let pf ← Q.parse? pf; let beam ← Q.parse? beam; let phase ← Q.parse? phase
      let es ← qs? rest
      let d : Disk Q := ⟨f, beam, phase, pairs es⟩
      match sourcePhaseFactor f pf rtolQ with
      | .error e => some (errStr e)
      | .ok n =>
        let n := n.toNat
        some s!"ok n={n} open={qlist (timeOffsetOpen d n)} close={qlist (timeOffsetClose d n)} dur={qlist (openDuration d n)}"
  | "c10.cascade" :: f :: pf :: beam :: phase :: np :: rest => do
      let f ← Q.parse? f; let pf ← Q.parse? pf; let beam ← Q.parse? beam; let phase ← Q.parse? phase
      let np ← np.toNat?
      let es ← qs? rest
      let d : Disk Q := ⟨f, beam, phase, pairs es⟩
      match fromDiskChopper d pf rtolQ np with
      | .error e => some (errStr e)
      | .ok (o, c) => some s!"ok open={qlist o} close={qlist c}"
  | "c10.cascade2" :: f :: pf :: beam :: phase :: np :: rest => do
      let f ← Q.parse? f; let pf ← Q.parse? pf; let beam ← Q.parse? beam; let phase ← Q.parse? phase
      let np ← np.toNat?
      let es ← qs? rest
      let d : Disk Q := ⟨f, beam, phase, pairs es⟩
      match fromDiskChopperByRotation d pf rtolQ np with
      | .error e => some (errStr e)
      | .ok (o, c) => some s!"ok open={qlist o} close={qlist c}"
  | "c10.edges" :: wrap :: turn :: nb :: ne :: rest => do
      let turn ← Q.parse? turn
      let nb ← nb.toNat?; let ne ← ne.toNat?
      if rest.length ≠ nb + ne then none else
      let bs ← qs? (rest.take nb)
      let es ← qs? (rest.drop nb)
      match checkEdges (wrap = "1") turn bs es with
      | .error e => some (errStr e)
      | .ok () => some "ok"
  | ["c10.phase", f, pf, rtol] => do
      let f ← f64? f; let pf ← f64? pf; let rtol ← f64? rtol
      match sourcePhaseFactor f pf rtol with
      | .error e => some (errStr e)
      | .ok n => some s!"ok {n}"
  | _ => none

end ScnVerif.Driver.C10
