import ScnVerif.Model.Proto
import ScnVerif.Model.Convert
import ScnVerif.Gen.Graphs
/-! driver ops for C02

* `c02.names`                                      → `<base names>|<generated names>|<kernels>` (comma separated)
* `c02.graph <origin> <target> <0|1> <mode 0|1|2>` → `ok <graph>` | `err:key` …   (model of `conversion_graph`)
* `c02.factory <module.function> <arg>`            → model of a public graph factory (`arg`: name code, `true`/`false`, `-`)
* `c02.gen <index>`                                → generated result of factory number `index`: `<module.function> <arg> <graph>`
* `c02.convert <origin> <target> <0|1> <mask> <extras>` →
    `<deduce_conversion_graph>|<convert>|<missing>|<convertLiteral>|<subgraph>`; `mask` = presence bits of the names 0..10,
    `extras` = comma separated codes of further present names or `-`.

A graph is `outs=kernel:ins;…` with comma separated codes; a derivation is `f<n>` or `(<k>.<out> args…)`.
-/
namespace ScnVerif.Driver.C02
open ScnVerif ScnVerif.Convert ScnVerif.Proto

def T : Tables := Gen.Graphs.tables

def errStr : Err → String
  | .runtime => "err:runtime"
  | .key => "err:key"
  | .value => "err:value"

def natList (l : List Nat) : String := ",".intercalate (l.map toString)

def ruleStr (r : Rule) : String := s!"{natList r.outs}={r.kernel}:{natList r.ins}"

def graphStr (g : Graph) : String := if g.isEmpty then "-" else ";".intercalate (g.map ruleStr)

def exGraph : Except Err Graph → String
  | .ok g => "ok " ++ graphStr g
  | .error e => errStr e

def mode? : String → Option Mode
  | "0" => some .elastic | "1" => some .direct | "2" => some .indirect | _ => none

def bool? : String → Option Bool
  | "0" => some false | "1" => some true | "false" => some false | "true" => some true | _ => none

def natListOf? (s : String) : Option (List Nat) :=
  if s = "-" then some [] else (s.splitOn ",").mapM String.toNat?

def present (mask : Nat) (extras : List Nat) (n : Name) : Bool :=
  (n < 11 && mask.testBit n) || extras.contains n

def factory (name arg : String) : Option (Except Err Graph) :=
  match name with
  | "beamline.beamline" => (bool? arg).map (fun b => .ok (beamline T b))
  | "beamline.two_theta" => some (fTwoTheta T)
  | "beamline.Ltotal" => (bool? arg).map (fLtotal T)
  | "tof.elastic" => arg.toNat?.map (elastic T)
  | "tof.kinematic" => arg.toNat?.map (kinematic T)
  | "tof.elastic_dspacing" => arg.toNat?.map (elasticDspacing T)
  | "tof.elastic_energy" => arg.toNat?.map (elasticEnergy T)
  | "tof.elastic_Q" => arg.toNat?.map (elasticQ T)
  | "tof.elastic_Q_vec" => arg.toNat?.map (elasticQVec T)
  | "tof.elastic_hkl" => arg.toNat?.map (elasticHkl T)
  | "tof.elastic_wavelength" => arg.toNat?.map (elasticWavelength T)
  | "tof.direct_inelastic" => arg.toNat?.map (directInelastic T)
  | "tof.indirect_inelastic" => arg.toNat?.map (indirectInelastic T)
  | _ => none

def handle : List String → Option String
  | ["c02.names"] =>
      some (",".intercalate baseNames ++ "|" ++ ",".intercalate Gen.Graphs.nameStrs ++ "|"
        ++ ",".intercalate Gen.Graphs.kernelStrs)
  | ["c02.graph", o, t, s, m] => do
      let o ← o.toNat?; let t ← t.toNat?; let s ← bool? s; let m ← mode? m
      some (exGraph (conversionGraph T o t s m))
  | ["c02.factory", name, arg] => do
      let r ← factory name arg
      some (exGraph r)
  | ["c02.gen", i] => do
      let i ← i.toNat?
      match Gen.Graphs.factories[i]? with
      | none => some "end"
      | some (name, arg, g) => some s!"{name} {if arg.isEmpty then "-" else arg} {graphStr g}"
  | ["c02.convert", o, t, s, mask, extras] => do
      let o ← o.toNat?; let t ← t.toNat?; let s ← bool? s; let mask ← mask.toNat?
      let extras ← natListOf? extras
      let P := present mask extras
      let dg := deduceConversionGraph T P o t s
      let d := match dg with
        | .ok g => "ok " ++ (if g.isEmpty then "-" else ";".intercalate (g.map (fun r => natList r.outs)))
        | .error e => errStr e
      let c := match convert T P o t s with
        | .ok term => "ok " ++ term.show
        | .error e => errStr e
      let miss := match dg with
        | .ok g => (match resolve g P (fuelFor g) t with
                    | .error (.missing n) => toString n
                    | .error .fuel => "fuel"
                    | .ok _ => "-")
        | .error _ => "-"
      let lit := match convertLiteral T P o t s with
        | .ok (sub, term) => "ok " ++ term.show ++ "|" ++ ",".intercalate (sub.map (fun e =>
            match e.2 with
            | .fetch => s!"{e.1}:F"
            | .rule r => s!"{e.1}:{r.kernel}"))
        | .error e => errStr e ++ "|-"
      some (d ++ "|" ++ c ++ "|" ++ miss ++ "|" ++ lit)
  | _ => none

end ScnVerif.Driver.C02
