import ScnVerif.Model.Proto
import ScnVerif.Model.Heap
import ScnVerif.Model.Factories
import ScnVerif.Gen.Kernels
/-!
driver ops for C09:

`c09.kernels`                      → `<n translated> <n untranslated> <all checks pass 0|1>`
`c09.kernel <hex name>`            → `nargs=<n> bits=<k> allowed=<…> written=<cfg>:<args>;…` (analysis per configuration)
`c09.run <hex name> <cfg>`         → concrete run (buffers are counters, every write adds 1, `view` picks the first
                                     candidate): `<final value of argument buffers …>`
`c09.hist <share 0|1> <ops…>`      → ops `L<k>` lookup, `F<k>` factory, `D<i>` derive, `M<i>` mutate; output: for every
                                     `L`/`F` in order `1` if the value handed out equals the pristine value else `0`
-/
namespace ScnVerif.Driver.C09
open ScnVerif ScnVerif.Heap ScnVerif.Proto

def findKernel (name : List Nat) : Option Kernel := Gen.Kernels.all.find? (fun k => k.name == name)

def natList (l : List Nat) : String := ",".intercalate (l.map toString)

def histStep (share : Bool) (acc : Factories.State Nat × List String) (op : Factories.Op) :
    Factories.State Nat × List String :=
  let S : Factories.Sem Nat := ⟨fun k => 1000 * (k + 1), (· + 1)⟩
  let s' := Factories.step S share acc.1 op
  match op with
  | .lookup k | .factory k =>
    let v := (s'.handles.getLast?.bind (fun r => s'.store[r]?)).getD 0
    (s', acc.2 ++ [if v == S.pristine k then "1" else "0"])
  | _ => (s', acc.2)

def parseOp (t : String) : Option Factories.Op :=
  match t.toList with
  | 'L' :: r => (String.ofList r).toNat?.map .lookup
  | 'F' :: r => (String.ofList r).toNat?.map .factory
  | 'D' :: r => (String.ofList r).toNat?.map .derive
  | 'M' :: r => (String.ofList r).toNat?.map .mutate
  | _ => none

def handle : List String → Option String
  | ["c09.kernels"] =>
    some s!"{Gen.Kernels.all.length} {Gen.Kernels.untranslated.length} {if Gen.Kernels.all.all Kernel.check then 1 else 0}"
  | ["c09.kernel", h] => do
    let name ← hexBytes? h
    match findKernel name with
    | none => some "unknown"
    | some k =>
      let per := (List.range (2 ^ k.bits)).map (fun c => s!"{c}:{natList (writtenArgs k.nargs k.ir c)}")
      some s!"nargs={k.nargs} bits={k.bits} allowed={natList k.allowed} public={k.isPublic} written={";".intercalate per}"
  | ["c09.run", h, c] => do
    let name ← hexBytes? h
    let cfg ← c.toNat?
    match findKernel name with
    | none => some "unknown"
    | some k =>
      let s := run (β := Nat) ⟨0, (· + 1), fun _ => 0⟩ cfg k.ir (initState (List.replicate k.nargs 0))
      some (natList (s.heap.take k.nargs))
  | "c09.hist" :: share :: ops => do
    let ops ← ops.mapM parseOp
    let r := ops.foldl (histStep (share == "1")) (Factories.empty, [])
    some (" ".intercalate r.2 ++ (if r.2.isEmpty then "-" else ""))
  | _ => none

end ScnVerif.Driver.C09
