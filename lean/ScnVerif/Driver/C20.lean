import ScnVerif.Model.Proto
import ScnVerif.Model.Atoms
import ScnVerif.Gen.Atoms
/-! driver ops for C20: `c20.atom <hexname>`, `c20.scat <hexname>`, `c20.att <9 f64 hex>`, `c20.count` -/
namespace ScnVerif.Driver.C20
open ScnVerif ScnVerif.Atoms ScnVerif.Proto

def tables : Tables := ⟨Gen.Atoms.scattering, Gen.Atoms.weights, Gen.Atoms.masses⟩

def errStr : Err → String
  | .value => "err:value"
  | .type => "err:type"

def str (bs : Str) : String := String.ofList (bs.map Char.ofNat)

def unitStr : UnitId → String
  | .fm => "fm" | .barn => "barn" | .Da => "Da"

def scalarStr : Option Scalar → String
  | none => "-"
  | some s => str s.value ++ "|" ++ str (s.std.getD []) ++ "|" ++ unitStr s.unit

def name? (h : String) : Option Str := if h = "-" then some [] else hexBytes? h

def handle : List String → Option String
  | ["c20.atom", h] => do
      let n ← name? h
      match atomForIsotope tables n with
      | .error e => some (errStr e)
      | .ok a => some s!"ok z={str a.z} w={scalarStr a.weight} m={scalarStr a.mass}"
  | ["c20.scat", h] => do
      let n ← name? h
      match scatteringForIsotope tables n with
      | .error e => some (errStr e)
      | .ok p => some ("ok " ++ " ".intercalate
          ([p.cohRe, p.cohIm, p.incRe, p.incIm, p.cohXs, p.incXs, p.totXs, p.absXs].map scalarStr))
  | ["c20.att", a, b, c, d, e, f, g, h, i] => do
      let n ← f64? a; let sigS ← f64? b; let sigA ← f64? c; let lam ← f64? d; let lamRef ← f64? e
      let sS ← f64? f; let sA ← f64? g; let sLam ← f64? h; let sAng ← f64? i
      some (f64Hex (attenuation n sigS sigA lam lamRef sS sA sLam sAng))
  | ["c20.count"] =>
      some s!"{tables.scattering.length} {tables.weights.length} {tables.masses.length}"
  | _ => none

end ScnVerif.Driver.C20
