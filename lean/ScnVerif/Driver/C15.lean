import ScnVerif.Model.Proto
import ScnVerif.Model.Xye
import ScnVerif.Gen.Xye
/-!
driver ops for C15 (text travels hex-encoded, one code point < 256 per byte; `-` = empty)

* `c15.fmt <f64hex>…`                 → `<hextext>…`          (`'%.18e' % x`)
* `c15.parse <hextext>…`              → `<f64hex>|err …`      (`strtod`)
* `c15.genheader <hexcoord> <hexunit|none> <hexunit|none>` → `<hextext>`
* `c15.save d|f <hexheader> <f64hex x y variance>…` → `<hextext>`  (the file `save_xye` writes; `f` = float32
  data: square root in single precision; the numbers are the exact values of the int / float32 / float64 inputs)
* `c15.load p|s <hextext>`            → `ok <n> <x…> <y…> <variance…>` | `err:*`
* `c15.roundtrip p|s d|f <hexheader> <f64hex x y variance>…` → as `c15.load` on the saved text
* `c15.repls` → `ok|untranslated <hexold>><hexnew>…` (header rewriting statements found by the translator)
* `c15.check <hasVar 0|1> <ndim> <hasMasks 0|1> <hexdim> <hexcoordarg|none> (<hexname> <ndim> <edges 0|1> <numeric 0|1>)…`
                                       → `ok <hexname>` | `err:*`
-/
namespace ScnVerif.Driver.C15
open ScnVerif ScnVerif.Xye ScnVerif.Proto

def errStr : Err → String
  | .variances => "err:variances" | .dimension => "err:dimension" | .value => "err:value"
  | .coord => "err:coord" | .key => "err:key" | .index => "err:index" | .type => "err:type"

def text? (h : String) : Option (List Char) := if h = "-" then some [] else hexChars? h
def textHex (cs : List Char) : String := if cs.isEmpty then "-" else charsHex cs

def optText? (h : String) : Option (Option (List Char)) :=
  if h = "none" then some none else (text? h).map some

def bits? (s : String) : Option Nat := parseHex s
def bitsHex (b : Nat) : String := toHexPad 16 b

def fmtF (x : Float) : List Char := formatE18 x.toBits.toNat
def parseF (cs : List Char) : Option Float := (parseDecimal cs).map (fun b => Float.ofBits b.toUInt64)

def triples : List Float → Option (List (Float × Float × Float))
  | [] => some []
  | x :: y :: v :: rest => (triples rest).map ((x, y, v) :: ·)
  | _ => none

def loadOut : Except Err (List (Float × Float × Float)) → String
  | .error e => errStr e
  | .ok rows =>
    let f (g : Float × Float × Float → Float) := rows.map (fun r => f64Hex (g r))
    " ".intercalate (["ok", toString rows.length] ++ f (·.1) ++ f (·.2.1) ++ f (·.2.2))

def mode? : String → Option Bool
  | "p" => some true | "s" => some false | _ => none

def coords? : List String → Option (List (Coord (List Char)))
  | [] => some []
  | n :: d :: e :: num :: rest => do
      let n ← text? n; let d ← d.toNat?
      let tl ← coords? rest
      some (⟨n, d, e = "1", num = "1"⟩ :: tl)
  | _ => none

def handle : List String → Option String
  | "c15.fmt" :: xs => do
      let bs ← xs.mapM bits?
      some (" ".intercalate (bs.map (fun b => textHex (formatE18 b))))
  | "c15.parse" :: ts => do
      let ts ← ts.mapM text?
      some (" ".intercalate (ts.map (fun t => match parseDecimal t with
        | some b => bitsHex b | none => "err")))
  | ["c15.genheader", c, cu, du] => do
      let c ← text? c; let cu ← optText? cu; let du ← optText? du
      some (textHex (genHeader c cu du))
  | "c15.save" :: prec :: h :: xs => do
      let single ← (match prec with | "f" => some true | "d" => some false | _ => none)
      let h ← text? h; let fs ← xs.mapM f64?; let rows ← triples fs
      some (textHex (saveXye Gen.Xye.headerReplacements fmtF (sqrtData single) h rows))
  | ["c15.load", m, t] => do
      let m ← mode? m; let t ← text? t
      some (loadOut (loadText parseF (fun x => x * x) m t))
  | "c15.roundtrip" :: m :: prec :: h :: xs => do
      let single ← (match prec with | "f" => some true | "d" => some false | _ => none)
      let m ← mode? m; let h ← text? h; let fs ← xs.mapM f64?; let rows ← triples fs
      some (loadOut (loadText parseF (fun x => x * x) m
        (saveXye Gen.Xye.headerReplacements fmtF (sqrtData single) h rows)))
  | "c15.check" :: hv :: nd :: hm :: dim :: arg :: cs => do
      let nd ← nd.toNat?; let dim ← text? dim; let arg ← optText? arg; let cs ← coords? cs
      match saveCheck (⟨hv = "1", nd, hm = "1", dim, cs⟩ : Desc (List Char)) arg with
      | .ok n => some ("ok " ++ textHex n)
      | .error e => some (errStr e)
  | ["c15.repls"] =>
      some (" ".intercalate ((if Gen.Xye.untranslated then "untranslated" else "ok") ::
        Gen.Xye.headerReplacements.map (fun r => textHex r.1 ++ ">" ++ textHex r.2)))
  | _ => none

end ScnVerif.Driver.C15
