import ScnVerif.Model.Proto
import ScnVerif.Model.Sqw.Build
import ScnVerif.Model.Sqw.Decode
import ScnVerif.Gen.SqwTables
/-! driver ops for C12/C13 (SQW):
* `c12.decode <hex file>` → canonical dump of `decodeFile`, or `err:<kind>[:<i>]`
* `c12.create <order> <fullFilename> <filepath> <filename> <title> <stampMain> <stampDnd> <chunk> <op>…`
  → hex bytes of the file the model builder writes
* `c12.order` → the generated canonical block order table
-/
namespace ScnVerif.Driver.C12
open ScnVerif ScnVerif.Sqw ScnVerif.Proto

def hexOrDash (bs : Bytes) : String := if bs.isEmpty then "-" else bytesHex bs
def bytes? (h : String) : Option Bytes := if h = "-" then some [] else hexBytes? h

def shapeStr (s : List Nat) : String := "[" ++ "x".intercalate (s.map toString) ++ "]"

partial def dumpObj : Obj → String
  | .chars shape strs => "C" ++ shapeStr shape ++ "(" ++ ",".intercalate (strs.map hexOrDash) ++ ")"
  | .f64s shape vals => "F" ++ shapeStr shape ++ "(" ++ ",".intercalate (vals.map (toHexPad 16)) ++ ")"
  | .logicals shape vals => "L" ++ shapeStr shape ++ "(" ++ String.ofList (vals.map (fun b => if b then '1' else '0')) ++ ")"
  | .cell shape items => "K" ++ shapeStr shape ++ "{" ++ String.join (items.map dumpObj) ++ "}"
  | .structs shape n names fields =>
      "S" ++ shapeStr shape ++ "<" ++ toString n ++ ">(" ++ ",".intercalate (names.map hexOrDash) ++ "){"
        ++ String.join (fields.map dumpObj) ++ "}"

def dumpContent : Content → String
  | .regular o => "R:" ++ dumpObj o
  | .pix nr np vals => s!"P:{nr}:{np}:" ++ ",".intercalate (vals.map (toHexPad 8))
  | .dnd shape v e c => "D:" ++ shapeStr shape ++ ":" ++ ",".intercalate (v.map (toHexPad 16)) ++ ":" ++
      ",".intercalate (e.map (toHexPad 16)) ++ ":" ++ ",".intercalate (c.map (toHexPad 16))

def errStr : DecErr → String
  | .truncated => "err:truncated"
  | .header => "err:header"
  | .batSize => "err:bat-size"
  | .batEntry i => s!"err:bat-entry:{i}"
  | .extentGap i => s!"err:extent-gap:{i}"
  | .extentShort i => s!"err:extent-short:{i}"
  | .extentEnd => "err:extent-end"
  | .blockType i => s!"err:block-type:{i}"
  | .blockDecode i => s!"err:block-decode:{i}"
  | .blockTrailing i => s!"err:block-trailing:{i}"

def orderStr : Order → String | .little => "little" | .big => "big"

def dumpFile (f : File) : String :=
  s!"ok order={orderStr f.order} hdr={hexOrDash f.header.prog},{toHexPad 16 f.header.version},{f.header.sqwType},{f.header.nDims} bat={f.batSize} descs=" ++
    ";".intercalate (f.descs.map (fun d => s!"{hexOrDash d.ty}:{hexOrDash d.name0}:{hexOrDash d.name1}:{d.pos}:{d.size}:{d.locked}")) ++
    " blocks=" ++ ";".intercalate (f.blocks.map dumpContent)

/-! parsing of builder programs -/

def splitList (sep : String) (s : String) : List String := if s.isEmpty then [] else s.splitOn sep

def natList? (s : String) : Option (List Nat) := (splitList "," s).mapM String.toNat?
def bitsList? (s : String) : Option (List Nat) := (splitList "," s).mapM parseHex
def strList? (s : String) : Option (List Bytes) := (splitList "," s).mapM bytes?
def boolList (s : String) : List Bool := s.toList.map (· == '1')
def bool? (s : String) : Option Bool := if s = "1" then some true else if s = "0" then some false else none

def pairs : List Nat → List (Nat × Nat)
  | a :: b :: rest => (a, b) :: pairs rest
  | _ => []

def experiment? (s : String) : Option Experiment :=
  match s.splitOn ";" with
  | [fn, fp, rid, efix, emode, enRows, enCols, en, psi, u, v, omega, dpsi, gl, gs] => do
    some {
      filename := ← bytes? fn, filepath := ← bytes? fp, runId := ← rid.toNat?,
      efix := ← bitsList? efix, emode := ← emode.toNat?, enRows := ← enRows.toNat?,
      enCols := ← enCols.toNat?, en := ← bitsList? en, psi := ← parseHex psi,
      u := ← bitsList? u, v := ← bitsList? v, omega := ← parseHex omega, dpsi := ← parseHex dpsi,
      gl := ← parseHex gl, gs := ← parseHex gs }
  | _ => none

def pixRow? (s : String) : Option PixRow :=
  match s.splitOn "," with
  | lo :: hi :: vals => do some ⟨← parseHex lo, ← parseHex hi, ← vals.mapM parseHex⟩
  | _ => none

def op? (s : String) : Option Op :=
  match s.splitOn ":" with
  | ["D"] => some .addEmptyDetectorParams
  | ["I", name, sname, target, freq] => do
    some (.addDefaultInstrument ⟨← bytes? name, ⟨← bytes? sname, ← bytes? target, ← parseHex freq⟩⟩)
  | ["S", name, alatt, angdeg] => do
    some (.addDefaultSample ⟨← bytes? name, ← bitsList? alatt, ← bitsList? angdeg⟩)
  | ["N", axes, proj] =>
    match axes.splitOn ";", proj.splitOn ";" with
    | [title, label, scales, range, nbins, single, dax, offset, car],
      [alatt, angdeg, poffset, ptitle, plabel, u, v, w, nonorth] => do
      let a : LineAxes := {
        title := ← bytes? title, label := ← strList? label, imgScales := ← bitsList? scales,
        imgRange := pairs (← bitsList? range), nBins := ← natList? nbins, singleBin := boolList single,
        dax := ← natList? dax, offset := ← bitsList? offset, changesAspectRatio := ← bool? car }
      let p : LineProj := {
        alatt := ← bitsList? alatt, angdeg := ← bitsList? angdeg, offset := ← bitsList? poffset,
        title := ← bytes? ptitle, label := ← strList? plabel, u := ← bitsList? u, v := ← bitsList? v,
        w := ← bitsList? w, nonOrthogonal := ← bool? nonorth }
      some (.addEmptyDndData ⟨a, p⟩)
    | _, _ => none
  | ["P", nd, rows, exps] => do
    some (.addPixelData (← (splitList "/" rows).mapM pixRow?) (← (splitList "/" exps).mapM experiment?) (← nd.toNat?))
  | _ => none

def order? (s : String) : Option Order :=
  if s = "little" then some .little else if s = "big" then some .big else none

/-- IEEE `<` on bit patterns -/
def fltLt (a b : Nat) : Bool := Float.ofBits a.toUInt64 < Float.ofBits b.toUInt64
/-- f64 → f32, round to nearest even (numpy's `astype(float32)` / assignment into a float32 buffer) -/
def fltRound (a : Nat) : Nat := (Float.ofBits a.toUInt64).toFloat32.toBits.toNat

def blockOrder : List BlockName := Gen.SqwTables.blockOrder

def handle : List String → Option String
  | ["c12.decode", h] => do
      let bs ← hexBytes? h
      match decodeFile bs with
      | .error e => some (errStr e)
      | .ok f => some (dumpFile f)
  | "c12.create" :: o :: full :: fp :: fn :: title :: s1 :: s2 :: chunk :: ops => do
      let o ← order? o
      let b := Builder.init o (← bytes? full) (← bytes? fp) (← bytes? fn) (← bytes? title)
      let ops ← ops.mapM op?
      let b := run fltLt b ops
      some (bytesHex (create blockOrder b ⟨← bytes? s1, ← bytes? s2⟩ fltRound (← chunk.toNat?)))
  | ["c12.order"] =>
      some (";".intercalate (blockOrder.map (fun n => hexOrDash n.1 ++ ":" ++ hexOrDash n.2)))
  | _ => none

end ScnVerif.Driver.C12
