import ScnVerif.Model.Proto
import ScnVerif.Model.Beamline
/-! driver ops for C03:
* `c03.graph <source 3> <sample 3> <position 3>` (f64 hex) →
  `incident_beam(3) scattered_beam(3) L1 L2 two_theta Ltotal Ltotal_noscatter`
* `c03.tt <b1 3> <b2 3>` → `two_theta`
-/
namespace ScnVerif.Driver.C03
open ScnVerif ScnVerif.Proto ScnVerif.Beamline

def f64s (ws : List String) : Option (List Float) := ws.mapM f64?

def v3Hex (v : V3 Float) : String := s!"{f64Hex v.x} {f64Hex v.y} {f64Hex v.z}"

def handle : List String → Option String
  | "c03.graph" :: args => do
      match ← f64s args with
      | [a, b, c, d, e, f, g, h, i] =>
        let src : V3 Float := ⟨a, b, c⟩
        let smp : V3 Float := ⟨d, e, f⟩
        let pos : V3 Float := ⟨g, h, i⟩
        let r := scatterGraph src smp pos
        some s!"{v3Hex r.incidentBeam} {v3Hex r.scatteredBeam} {f64Hex r.L1} {f64Hex r.L2} {f64Hex r.twoTheta} {f64Hex r.Ltotal} {f64Hex (totalStraightNoScatter src pos)}"
      | _ => none
  | "c03.tt" :: args => do
      match ← f64s args with
      | [a, b, c, d, e, f] => some (f64Hex (twoTheta (⟨a, b, c⟩ : V3 Float) ⟨d, e, f⟩))
      | _ => none
  | _ => none

end ScnVerif.Driver.C03
