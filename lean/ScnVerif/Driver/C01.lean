import ScnVerif.Model.Proto
import ScnVerif.Model.TofKernels
import ScnVerif.Model.TofGraph
import ScnVerif.Gen.TofGraph
/-! driver ops for C01: `c01.k <kernel> <typed args…>` evaluates a kernel of `Model/TofKernels.lean` on
dynamically typed scalars (`f64:<hex>`, `f32:<hex>`, `i64:<int>`, `i32:<int>`); `c01.dt <kernel> <dtypes…>`
evaluates the same definition on dtypes only. -/
namespace ScnVerif.Driver.C01
open ScnVerif ScnVerif.Tof ScnVerif.Proto

def int? (s : String) : Option Int :=
  if s.startsWith "-" then (s.drop 1).toNat?.map (fun n => -(n : Int)) else s.toNat?.map (fun n => (n : Int))

def val? (s : String) : Option Val :=
  match s.splitOn ":" with
  | ["f64", h] => (f64? h).map Val.f64
  | ["f32", h] => (f32? h).map Val.f32
  | ["i64", n] => (int? n).map Val.i64
  | ["i32", n] => (int? n).map Val.i32
  | _ => none

def valStr : Val → String
  | .f64 x => "f64:" ++ f64Hex x
  | .f32 x => "f32:" ++ f32Hex x
  | .i64 n => s!"i64:{n}"
  | .i32 n => s!"i32:{n}"
  | .err => "err:dtype"

def dty? : String → Option DTy
  | "f64" => some .f64 | "f32" => some .f32 | "i64" => some .i64 | "i32" => some .i32 | _ => none

def dtyStr : DTy → String
  | .f64 => "f64" | .f32 => "f32" | .i64 => "i64" | .i32 => "i32" | .err => "err:dtype"

def str (bs : List Nat) : String := String.ofList (bs.map Char.ofNat)

def nodeName : TofGraph.Node → String
  | .tof => "tof" | .Ltotal => "Ltotal" | .two_theta => "two_theta" | .wavelength => "wavelength"
  | .energy => "energy" | .dspacing => "dspacing" | .Q => "Q" | .other n => str n

def kernelName : TofGraph.KernelId → String
  | .wavelength_from_tof => "wavelength_from_tof" | .dspacing_from_tof => "dspacing_from_tof"
  | .energy_from_tof => "energy_from_tof" | .energy_from_wavelength => "energy_from_wavelength"
  | .wavelength_from_energy => "wavelength_from_energy" | .Q_from_wavelength => "Q_from_wavelength"
  | .wavelength_from_Q => "wavelength_from_Q" | .dspacing_from_wavelength => "dspacing_from_wavelength"
  | .dspacing_from_energy => "dspacing_from_energy" | .other n => str n

def entryStr (e : TofGraph.Entry) : String :=
  nodeName e.origin ++ "|" ++ ",".intercalate (e.outputs.map nodeName) ++ "|" ++ kernelName e.kernel ++ "|" ++
    ",".intercalate (e.inputs.map nodeName)

def handle : List String → Option String
  | ["c01.graph"] => some (";".intercalate (Gen.TofGraph.table.map entryStr))
  | "c01.k" :: name :: args => do
      let vs ← args.mapM val?
      let r ← evalKernel name vs
      some (valStr r)
  | "c01.dt" :: name :: args => do
      let ds ← args.mapM dty?
      let r ← evalKernel name ds
      some (dtyStr r)
  | _ => none

end ScnVerif.Driver.C01
