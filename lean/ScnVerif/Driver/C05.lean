import ScnVerif.Model.Proto
import ScnVerif.Model.Inelastic
/-!
driver ops for C05 (all numbers are float64 bit patterns; float32 operands travel as their exact
float64 value and are narrowed — exactly — by the driver):

* `c05.const mHalf sE st sL`                       → `_energy_constant`
* `c05.dtype <eD> <tD>`                            → `_common_dtype`
* `c05.t0 <mode> c E L`                            → `_energy_transfer_t0`
* `c05.direct <mode> c1 c2 tof L1 L2 Ei`           → `none` | value
* `c05.indirect <mode> c1 c2 tof L1 L2 Ef`         → `none` | value

`mode` is `dd` (energy float64, result float64), `ss` (energy and tof float32, result float32)
or `sd` (energy float32, tof float64/int, result float64).  Results are printed as the float64
bit pattern of the (exactly widened) result, `nan` for a NaN value, `none` for the masked branch.
-/
namespace ScnVerif.Driver.C05
open ScnVerif ScnVerif.Inelastic ScnVerif.Proto

def kDD : Casts Float Float Float := Casts.id Float
def kSS : Casts Float Float32 Float32 := ⟨Float.toFloat32, Float.toFloat32, fun x => x⟩
def kSD : Casts Float Float32 Float := ⟨Float.toFloat32, fun x => x, Float32.toFloat⟩

def dtype? : String → Option DType
  | "f64" => some .f64 | "f32" => some .f32 | "i64" => some .i64 | "i32" => some .i32 | _ => none

def dtypeStr : DType → String
  | .f64 => "f64" | .f32 => "f32" | .i64 => "i64" | .i32 => "i32"

def out64 : Option Float → String
  | none => "none"
  | some x => f64Hex x

def out32 : Option Float32 → String
  | none => "none"
  | some x => f64Hex x.toFloat

def handle : List String → Option String
  | ["c05.const", a, b, c, d] => do
      let mHalf ← f64? a; let sE ← f64? b; let st ← f64? c; let sL ← f64? d
      some (f64Hex (energyConstant mHalf sE st sL))
  | ["c05.dtype", a, b] => do
      let x ← dtype? a; let y ← dtype? b
      some (dtypeStr (commonDType x y) ++ " " ++ dtypeStr (floatDType x))
  | ["c05.t0", mode, a, b, c] => do
      let cc ← f64? a; let e ← f64? b; let l ← f64? c
      match mode with
      | "dd" => some (f64Hex (energyTransferT0 kDD cc e l))
      | "ss" => some (f64Hex (energyTransferT0 kSS cc e.toFloat32 l).toFloat)
      | "sd" => some (f64Hex (energyTransferT0 kSD cc e.toFloat32 l))
      | _ => none
  | [op, mode, a, b, c, d, e, f] => do
      let c1 ← f64? a; let c2 ← f64? b; let tof ← f64? c; let l1 ← f64? d; let l2 ← f64? e
      let en ← f64? f
      match op, mode with
      | "c05.direct", "dd" => some (out64 (energyTransferDirect kDD c1 c2 tof l1 l2 en))
      | "c05.direct", "ss" => some (out32 (energyTransferDirect kSS c1 c2 tof.toFloat32 l1 l2 en.toFloat32))
      | "c05.direct", "sd" => some (out64 (energyTransferDirect kSD c1 c2 tof l1 l2 en.toFloat32))
      | "c05.indirect", "dd" => some (out64 (energyTransferIndirect kDD c1 c2 tof l1 l2 en))
      | "c05.indirect", "ss" => some (out32 (energyTransferIndirect kSS c1 c2 tof.toFloat32 l1 l2 en.toFloat32))
      | "c05.indirect", "sd" => some (out64 (energyTransferIndirect kSD c1 c2 tof l1 l2 en.toFloat32))
      | _, _ => none
  | _ => none

end ScnVerif.Driver.C05
