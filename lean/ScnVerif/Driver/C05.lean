import ScnVerif.Model.Proto
import ScnVerif.Model.Inelastic
/-!
driver ops for C05 (all numbers are float64 bit patterns; float32 operands travel as their exact
float64 value and are narrowed — exactly — by the driver):

* `c05.const mHalf sE st sL`                       → `_energy_constant`
* `c05.dtype <eD> <tD>`                            → `_common_dtype`
* `c05.dtype4 <eD> <tD> <l1D> <l2D>`               → result dtype of the kernels
* `c05.t0 <mode> <l> c E L`                        → `_energy_transfer_t0`
* `c05.direct <mode> <l1><l2> c1 c2 tof L1 L2 Ei`  → `none` | value
* `c05.indirect <mode> <l1><l2> c1 c2 tof L1 L2 Ef`→ `none` | value

`<l>`, `<l1><l2>` are the length dtypes: `d` (float64) or `s` (float32), e.g. `ds`.

`mode` is `dd` (energy float64, result float64), `ss` (energy and tof float32, result float32)
or `sd` (energy float32, tof float64/int, result float64).  Results are printed as the float64
bit pattern of the (exactly widened) result, `nan` for a NaN value, `none` for the masked branch.
-/
namespace ScnVerif.Driver.C05
open ScnVerif ScnVerif.Inelastic ScnVerif.Proto

def kDD : Casts Float Float Float := Casts.id Float
def kSS : Casts Float Float32 Float32 := ⟨Float.toFloat32, Float.toFloat32, fun x => x⟩
def kSD : Casts Float Float32 Float := ⟨Float.toFloat32, fun x => x, Float32.toFloat⟩

def dtype? : String → Option DType
  | "f64" => some .f64 | "f32" => some .f32 | "i64" => some .i64 | "i32" => some .i32 | _ => none

def dtypeStr : DType → String
  | .f64 => "f64" | .f32 => "f32" | .i64 => "i64" | .i32 => "i32"

def out64 : Option Float → String
  | none => "none"
  | some x => f64Hex x

def out32 : Option Float32 → String
  | none => "none"
  | some x => f64Hex x.toFloat

/-- length conversions: float64 / float32 length into a float64 / float32 result -/
def lcDD : LenCast Float Float Float := ⟨fun x => x, fun x => x⟩
def lcDS : LenCast Float Float Float32 := ⟨Float.toFloat32, fun x => x⟩
def lcSD : LenCast Float32 Float Float := ⟨Float32.toFloat, Float32.toFloat⟩
def lcSS : LenCast Float32 Float Float32 := ⟨fun x => x, Float32.toFloat⟩

section run
variable {β α : Type} [Add α] [Neg α] [Sub α] [Mul α] [Div α] [LE α] [OfNat α 0] [∀ a b : α, Decidable (a ≤ b)]
  [Div β] [Trans β]

def runT0 (k : Casts Float β α) (lcD : LenCast Float Float α) (lcS : LenCast Float32 Float α)
    (l : String) (c : Float) (e : β) (len : Float) : Option α :=
  match l with
  | "d" => some (energyTransferT0 k lcD c e len)
  | "s" => some (energyTransferT0 k lcS c e len.toFloat32)
  | _ => none

def runKernel (direct : Bool) (k : Casts Float β α) (lcD : LenCast Float Float α) (lcS : LenCast Float32 Float α)
    (ls : String) (c1 c2 : Float) (tof : α) (l1 l2 : Float) (e : β) : Option (Option α) :=
  match direct, ls with
  | true, "dd" => some (energyTransferDirect k lcD lcD c1 c2 tof l1 l2 e)
  | true, "ds" => some (energyTransferDirect k lcD lcS c1 c2 tof l1 l2.toFloat32 e)
  | true, "sd" => some (energyTransferDirect k lcS lcD c1 c2 tof l1.toFloat32 l2 e)
  | true, "ss" => some (energyTransferDirect k lcS lcS c1 c2 tof l1.toFloat32 l2.toFloat32 e)
  | false, "dd" => some (energyTransferIndirect k lcD lcD c1 c2 tof l1 l2 e)
  | false, "ds" => some (energyTransferIndirect k lcD lcS c1 c2 tof l1 l2.toFloat32 e)
  | false, "sd" => some (energyTransferIndirect k lcS lcD c1 c2 tof l1.toFloat32 l2 e)
  | false, "ss" => some (energyTransferIndirect k lcS lcS c1 c2 tof l1.toFloat32 l2.toFloat32 e)
  | _, _ => none

end run

def handle : List String → Option String
  | ["c05.const", a, b, c, d] => do
      let mHalf ← f64? a; let sE ← f64? b; let st ← f64? c; let sL ← f64? d
      some (f64Hex (energyConstant mHalf sE st sL))
  | ["c05.dtype", a, b] => do
      let x ← dtype? a; let y ← dtype? b
      some (dtypeStr (commonDType x y) ++ " " ++ dtypeStr (floatDType x))
  | ["c05.dtype4", a, b, c, d] => do
      let e ← dtype? a; let t ← dtype? b; let l1 ← dtype? c; let l2 ← dtype? d
      some (dtypeStr (energyTransferDType e t l1 l2))
  | ["c05.t0", mode, l, a, b, c] => do
      let cc ← f64? a; let e ← f64? b; let len ← f64? c
      match mode with
      | "dd" => (runT0 kDD lcDD lcSD l cc e len).map f64Hex
      | "ss" => (runT0 kSS lcDS lcSS l cc e.toFloat32 len).map (fun x => f64Hex x.toFloat)
      | "sd" => (runT0 kSD lcDD lcSD l cc e.toFloat32 len).map f64Hex
      | _ => none
  | [op, mode, ls, a, b, c, d, e, f] => do
      let c1 ← f64? a; let c2 ← f64? b; let tof ← f64? c; let l1 ← f64? d; let l2 ← f64? e
      let en ← f64? f
      let direct ← match op with
        | "c05.direct" => some true | "c05.indirect" => some false | _ => none
      match mode with
      | "dd" => (runKernel direct kDD lcDD lcSD ls c1 c2 tof l1 l2 en).map out64
      | "ss" => (runKernel direct kSS lcDS lcSS ls c1 c2 tof.toFloat32 l1 l2 en.toFloat32).map out32
      | "sd" => (runKernel direct kSD lcDD lcSD ls c1 c2 tof l1 l2 en.toFloat32).map out64
      | _ => none
  | _ => none

end ScnVerif.Driver.C05
