import ScnVerif.Model.Proto
import ScnVerif.Model.QVec
/-!
driver ops for C08 (numbers are float64 bit patterns):

* `c08.qel λ ix iy iz fx fy fz`            → `Qx Qy Qz` (float64 wavelength)
* `c08.qel32 λ ix iy iz fx fy fz`          → `Qx Qy Qz` narrowed to float32 (float32 wavelength), printed widened
* `c08.qdtype <f64|f32|i64|i32>`            → dtype of Qx, Qy, Qz for that wavelength dtype
* `c08.ub <9 u> <9 b>`                      → 9 entries of `U·B` (row major)
* `c08.hkl qx qy qz <9 ub> <9 r>`           → `h k l`
* `c08.qvec <sizes x> <data x> <sizes y> <data y> <sizes z> <data z>`
                                             → `err:dimension` | `<sizes> <xs> <ys> <zs>`
* `c08.hklel <sizes> <xs> <ys> <zs>`        → `<sizes> <hs> <ks> <ls>`

`sizes` is `-` (scalar) or `d:n,d:n,…` (dimension labels as naturals); data lists are `-` (empty)
or comma-separated, row major in the variable's own dimension order.
-/
namespace ScnVerif.Driver.C08
open ScnVerif ScnVerif.QVec ScnVerif.Proto

def floats? (ws : List String) : Option (List Float) := ws.mapM f64?

def m3? : List Float → Option (M3 Float)
  | [a, b, c, d, e, f, g, h, i] => some ⟨a, b, c, d, e, f, g, h, i⟩
  | _ => none

def m3Str (m : M3 Float) : String :=
  " ".intercalate ([m.a11, m.a12, m.a13, m.a21, m.a22, m.a23, m.a31, m.a32, m.a33].map f64Hex)

def v3Str (v : V3 Float) : String := " ".intercalate ([v.x, v.y, v.z].map f64Hex)

def sizes? (s : String) : Option Sizes :=
  if s = "-" then some [] else
  (s.splitOn ",").mapM (fun p => match p.splitOn ":" with
    | [d, n] => do let d ← d.toNat?; let n ← n.toNat?; some (d, n)
    | _ => none)

def sizesStr (s : Sizes) : String :=
  if s.isEmpty then "-" else ",".intercalate (s.map (fun p => s!"{p.1}:{p.2}"))

def data? (s : String) : Option (List Float) :=
  if s = "-" then some [] else (s.splitOn ",").mapM f64?

def dataStr (l : List Float) : String :=
  if l.isEmpty then "-" else ",".intercalate (l.map f64Hex)

def arr? (s d : String) : Option (LArr Float) := do
  let s ← sizes? s; let d ← data? d
  some (LArr.ofFlat 0 s d)

def handle : List String → Option String
  | "c08.qel" :: rest => do
      match ← floats? rest with
      | [l, ix, iy, iz, fx, fy, fz] => some (v3Str (qElements l ⟨ix, iy, iz⟩ ⟨fx, fy, fz⟩))
      | _ => none
  | "c08.qel32" :: rest => do
      match ← floats? rest with
      | [l, ix, iy, iz, fx, fy, fz] =>
        let q : V3 Float32 := qElementsCast Float.toFloat32 l ⟨ix, iy, iz⟩ ⟨fx, fy, fz⟩
        some (" ".intercalate ([q.x, q.y, q.z].map (fun x => f64Hex x.toFloat)))
      | _ => none
  | ["c08.qdtype", d] =>
      let dt? : Option Inelastic.DType := match d with
        | "f64" => some .f64 | "f32" => some .f32 | "i64" => some .i64 | "i32" => some .i32 | _ => none
      dt?.map (fun dt => match qResultDType dt with
        | .f64 => "f64" | .f32 => "f32" | .i64 => "i64" | .i32 => "i32")
  | "c08.ub" :: rest => do
      let fs ← floats? rest
      let u ← m3? (fs.take 9); let b ← m3? (fs.drop 9)
      some (m3Str (ubFromUAndB u b))
  | "c08.hkl" :: rest => do
      let fs ← floats? rest
      match fs.take 3 with
      | [qx, qy, qz] =>
        let ub ← m3? ((fs.drop 3).take 9); let r ← m3? (fs.drop 12)
        some (v3Str (hklVecFromQVec ⟨qx, qy, qz⟩ ub r))
      | _ => none
  | ["c08.qvec", sx, dx, sy, dy, sz, dz] => do
      let x ← arr? sx dx; let y ← arr? sy dy; let z ← arr? sz dz
      match qVecFromElements x y z with
      | .error .dimension => some "err:dimension"
      | .ok v =>
        let (a, b, c) := hklElementsArr v
        some s!"{sizesStr v.sizes} {dataStr a.toFlat} {dataStr b.toFlat} {dataStr c.toFlat}"
  | ["c08.hklel", s, dx, dy, dz] => do
      let s ← sizes? s; let xs ← data? dx; let ys ← data? dy; let zs ← data? dz
      let v : LArr (V3 Float) := ⟨s, fun i =>
        ⟨xs.getD (flatIndex s i) 0, ys.getD (flatIndex s i) 0, zs.getD (flatIndex s i) 0⟩⟩
      let (a, b, c) := hklElementsArr v
      some s!"{sizesStr a.sizes} {dataStr a.toFlat} {dataStr b.toFlat} {dataStr c.toFlat}"
  | _ => none

end ScnVerif.Driver.C08
