import ScnVerif.Driver.C01
/-! driver ops for C07: `c07.k <kernel> <typed args…>` (the executable model on dynamically typed scalars, as
`c01.k`) and `c07.dt <kernel> <dtypes…>` (the same kernel definition evaluated on element types only: the
decision logic of the dtype contract). -/
namespace ScnVerif.Driver.C07
open ScnVerif ScnVerif.Tof ScnVerif.Driver.C01

def handle : List String → Option String
  | "c07.k" :: name :: args => do
      let vs ← args.mapM val?
      let r ← evalKernel name vs
      some (valStr r)
  | "c07.dt" :: name :: args => do
      let ds ← args.mapM dty?
      let r ← evalKernel name ds
      some (dtyStr r)
  | _ => none

end ScnVerif.Driver.C07
