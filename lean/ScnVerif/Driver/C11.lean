import ScnVerif.Model.Proto
import ScnVerif.Model.Cascade
import ScnVerif.Model.CascadeTyped
/-!
driver ops for C11 (all numbers are binary64 bit patterns in hex, counts in decimal)

* `c11.chop <dir 0|1> <c> (<t> <w>)*`  → `none` | `(<t> <w>)*`            one `_chop` call
* `c11.prop <mn> <h> <s> <d> (<t> <w>)*` → `<t'>*`                         one `propagate_times` call
* `c11.frame <dist> <nsub> (<nv> (<t> <w>)^nv)^nsub` → frame (see below)    bounds / subbounds / is_regular of a hand-made frame
* `c11.run <mn> <h> <s> <zero> <tmin> <tmax> <wmin> <wmax> <op>*`           a whole program on a FrameSequence
    ops: `C <n> (<dist> <nwin> (<open> <close>)^nwin)^n`   seq = seq.chop([...])
         `T <d>`                                           seq = seq.propagate_to(d)
         `Q <d>`                                           record seq[d]
  → `ok|err:<kind>:<op index>` then `Q …` records, then every frame of the final sequence as `F …`
* `c11.tchop`, `c11.tprop`, `c11.trun`: the same on typed operands. A typed number is a dtype letter
  (`d` float64, `s` float32, `l` int64, `i` int32) followed by the binary64 bit pattern of its value;
  `c11.tchop` answers `err:dtype` when `sc.concat` would reject the output; in `c11.trun` every chopper
  carries a flag `1|0` (its times are / are not in seconds) after its distance.
    frame  := dist nsub (nv (t w)^nv)^nsub  (`B` t0 t1 w0 w1 | `BE`)  (`S` n (t0 t1 w0 w1)^n | `SE` kind)
-/
namespace ScnVerif.Driver.C11
open ScnVerif ScnVerif.Cascade ScnVerif.Proto

abbrev P := StateT (List String) Option

def tok : P String := fun s => match s with | [] => none | a :: r => some (a, r)
def num : P Float := do let t ← tok; match f64? t with | some x => pure x | none => failure
def nat : P Nat := do let t ← tok; match t.toNat? with | some n => pure n | none => failure
def rep {β : Type} (n : Nat) (p : P β) : P (List β) :=
  match n with
  | 0 => pure []
  | n + 1 => do let a ← p; let r ← rep n p; pure (a :: r)
def atEnd : P Bool := fun s => some (s.isEmpty, s)

partial def many {β : Type} (p : P β) : P (List β) := do
  if (← atEnd) then pure [] else do let a ← p; let r ← many p; pure (a :: r)

def vtx : P (Vtx Float) := do let t ← num; let w ← num; pure (t, w)

def errStr : Err → String
  | .value => "value" | .notimpl => "notimpl" | .empty => "value"
  | .attribute => "attribute" | .index => "index" | .dtype => "dtype" | .unit => "unit"

def polyStr (p : Poly Float) : String :=
  " ".intercalate (p.map (fun v => f64Hex v.1 ++ " " ++ f64Hex v.2))

def quadStr (b : Float × Float × Float × Float) : String :=
  s!"{f64Hex b.1} {f64Hex b.2.1} {f64Hex b.2.2.1} {f64Hex b.2.2.2}"

def frameStr (f : Frame Float) : String :=
  let subs := f.subframes.map (fun p => s!"{p.length} {polyStr p}")
  let b := match f.bounds with
    | .ok b => "B " ++ quadStr b
    | .error _ => "BE"
  let s := match f.subbounds with
    | .ok l => s!"S {l.length}" ++ String.join (l.map (fun q => " " ++ quadStr q))
    | .error e => "SE " ++ errStr e
  let head := s!"{f64Hex f.dist} {f.subframes.length}"
  " ".intercalate (([head] ++ subs ++ [b, s]).filter (· ≠ ""))

inductive Op where
  | chop (cs : List (Chopper Float))
  | prop (d : Float)
  | get (d : Float)

def chopper : P (Chopper Float) := do
  let d ← num; let n ← nat
  let ws ← rep n (do let o ← num; let c ← num; pure (o, c))
  pure ⟨d, ws⟩

def op : P Op := do
  let t ← tok
  if t = "C" then do let n ← nat; let cs ← rep n chopper; pure (.chop cs)
  else if t = "T" then do let d ← num; pure (.prop d)
  else if t = "Q" then do let d ← num; pure (.get d)
  else failure

structure St where
  frames : List (Frame Float)
  qs : List String := []
  status : String := "ok"

def runOps (k : Consts Float) : List Op → Nat → St → St
  | [], _, st => st
  | o :: os, i, st =>
    match o with
    | .chop cs =>
      match seqChop k st.frames cs with
      | .ok fr => runOps k os (i + 1) { st with frames := fr }
      | .error e => { st with status := s!"err:{errStr e}:{i}" }
    | .prop d =>
      match seqPropagateTo k st.frames d with
      | .ok fr => runOps k os (i + 1) { st with frames := fr }
      | .error e => { st with status := s!"err:{errStr e}:{i}" }
    | .get d =>
      let q := match seqGetItem k st.frames d with
        | .ok f => "Q " ++ frameStr f
        | .error e => "QE " ++ errStr e
      runOps k os (i + 1) { st with qs := st.qs ++ [q] }


/-! ### typed operands -/

def tnum : P TV := do
  let t ← tok
  let cs := t.toList
  match cs with
  | c :: rest =>
    let dt? : Option DT := if c = 'd' then some .f64 else if c = 's' then some .f32
      else if c = 'l' then some .i64 else if c = 'i' then some .i32 else none
    match dt?, f64? (String.ofList rest) with
    | some dt, some x => pure ⟨dt, x⟩
    | _, _ => failure
  | [] => failure

def tStr (x : TV) : String :=
  (match x.dt with | .f64 => "d" | .f32 => "s" | .i64 => "l" | .i32 => "i") ++ f64Hex x.v

def tvtx : P (Vtx TV) := do let t ← tnum; let w ← tnum; pure (t, w)

def tpolyStr (p : Poly TV) : String :=
  " ".intercalate (p.map (fun v => tStr v.1 ++ " " ++ tStr v.2))

def tquadStr (b : TV × TV × TV × TV) : String :=
  s!"{tStr b.1} {tStr b.2.1} {tStr b.2.2.1} {tStr b.2.2.2}"

def tframeStr (f : Frame TV) : String :=
  let subs := f.subframes.map (fun p => s!"{p.length} {tpolyStr p}")
  let b := match f.bounds with
    | .ok b => "B " ++ tquadStr b
    | .error _ => "BE"
  let s := match f.subbounds with
    | .ok l => s!"S {l.length}" ++ String.join (l.map (fun q => " " ++ tquadStr q))
    | .error e => "SE " ++ errStr e
  let head := s!"{tStr f.dist} {f.subframes.length}"
  " ".intercalate (([head] ++ subs ++ [b, s]).filter (· ≠ ""))

inductive TOp where
  | chop (cs : List (Chopper TV × Bool))
  | prop (d : TV)
  | get (d : TV)

def tchopper : P (Chopper TV × Bool) := do
  let d ← tnum; let u ← tok; let n ← nat
  let ws ← rep n (do let o ← tnum; let c ← tnum; pure (o, c))
  pure (⟨d, ws⟩, u = "1")

def top : P TOp := do
  let t ← tok
  if t = "C" then do let n ← nat; let cs ← rep n tchopper; pure (.chop cs)
  else if t = "T" then do let d ← tnum; pure (.prop d)
  else if t = "Q" then do let d ← tnum; pure (.get d)
  else failure

structure TSt where
  frames : List (Frame TV)
  qs : List String := []
  status : String := "ok"

/-- a chopper is identified by position in the list given to this `chop` call: the flag travels
with the chopper through the sort because it is looked up by (distance, windows) identity -/
def timesOkOf (cs : List (Chopper TV × Bool)) (c : Chopper TV) : Bool :=
  match cs.find? (fun e => e.1.dist.v == c.dist.v && e.1.dist.dt == c.dist.dt &&
      e.1.windows.length == c.windows.length &&
      (e.1.windows.zip c.windows).all (fun p => p.1.1.v == p.2.1.v && p.1.2.v == p.2.2.v)) with
  | some e => e.2
  | none => true

def trunOps (k : Consts TV) : List TOp → Nat → TSt → TSt
  | [], _, st => st
  | o :: os, i, st =>
    match o with
    | .chop cs =>
      match seqChopH (hooksTV (timesOkOf cs)) k st.frames (cs.map (·.1)) with
      | .ok fr => trunOps k os (i + 1) { st with frames := fr }
      | .error e => { st with status := s!"err:{errStr e}:{i}" }
    | .prop d =>
      match seqPropagateToH (hooksTV (fun _ => true)) k st.frames d with
      | .ok fr => trunOps k os (i + 1) { st with frames := fr }
      | .error e => { st with status := s!"err:{errStr e}:{i}" }
    | .get d =>
      let q := match seqGetItemH (hooksTV (fun _ => true)) k st.frames d with
        | .ok f => "Q " ++ tframeStr f
        | .error e => "QE " ++ errStr e
      trunOps k os (i + 1) { st with qs := st.qs ++ [q] }

def handleT : List String → Option String
  | "c11.tchop" :: dir :: rest =>
      (do let c ← tnum; let vs ← many tvtx
          pure (match chopStepH (hooksTV (fun _ => true)) c (dir = "1") vs with
            | .error e => "err:" ++ errStr e
            | .ok none => "none"
            | .ok (some p) => tpolyStr p) : P String).run' rest
  | "c11.tprop" :: rest =>
      (do let mn ← tnum; let h ← tnum; let s ← tnum; let d ← tnum; let vs ← many tvtx
          pure (" ".intercalate (vs.map (fun v =>
            tStr (propagateTimesH (hooksTV (fun _ => true)) ⟨mn, h, s⟩ v.1 v.2 d)))) : P String).run' rest
  | "c11.trun" :: rest =>
      (do let mn ← tnum; let h ← tnum; let s ← tnum
          let tmin ← tnum; let tmax ← tnum; let wmin ← tnum; let wmax ← tnum
          let ops ← many top
          let st := trunOps ⟨mn, h, s⟩ ops 0 { frames := [fromSourcePulse ⟨.i64, 0⟩ tmin tmax wmin wmax] }
          pure (" ".intercalate ([st.status] ++ st.qs ++ st.frames.map (fun f => "F " ++ tframeStr f))) : P String).run' rest
  | _ => none

def handle : List String → Option String
  | "c11.chop" :: dir :: rest =>
      (do let c ← num; let vs ← many vtx
          pure (match chopStep c (dir = "1") vs with
            | none => "none"
            | some p => polyStr p) : P String).run' rest
  | "c11.prop" :: rest =>
      (do let mn ← num; let h ← num; let s ← num; let d ← num; let vs ← many vtx
          pure (" ".intercalate (vs.map (fun v => f64Hex (propagateTimes ⟨mn, h, s⟩ v.1 v.2 d)))) : P String).run' rest
  | "c11.frame" :: rest =>
      (do let d ← num; let n ← nat
          let subs ← rep n (do let nv ← nat; rep nv vtx)
          pure (frameStr ⟨d, subs⟩) : P String).run' rest
  | "c11.run" :: rest =>
      (do let mn ← num; let h ← num; let s ← num; let zero ← num
          let tmin ← num; let tmax ← num; let wmin ← num; let wmax ← num
          let ops ← many op
          let st := runOps ⟨mn, h, s⟩ ops 0 { frames := [fromSourcePulse zero tmin tmax wmin wmax] }
          pure (" ".intercalate ([st.status] ++ st.qs ++ st.frames.map (fun f => "F " ++ frameStr f))) : P String).run' rest
  | ws => handleT ws

end ScnVerif.Driver.C11
