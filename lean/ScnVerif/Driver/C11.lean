import ScnVerif.Model.Proto
import ScnVerif.Model.Cascade
/-!
driver ops for C11 (all numbers are binary64 bit patterns in hex, counts in decimal)

* `c11.chop <dir 0|1> <c> (<t> <w>)*`  → `none` | `(<t> <w>)*`            one `_chop` call
* `c11.prop <mn> <h> <s> <d> (<t> <w>)*` → `<t'>*`                         one `propagate_times` call
* `c11.frame <dist> <nsub> (<nv> (<t> <w>)^nv)^nsub` → frame (see below)    bounds / subbounds / is_regular of a hand-made frame
* `c11.run <mn> <h> <s> <zero> <tmin> <tmax> <wmin> <wmax> <op>*`           a whole program on a FrameSequence
    ops: `C <n> (<dist> <nwin> (<open> <close>)^nwin)^n`   seq = seq.chop([...])
         `T <d>`                                           seq = seq.propagate_to(d)
         `Q <d>`                                           record seq[d]
  → `ok|err:<kind>:<op index>` then `Q …` records, then every frame of the final sequence as `F …`
    frame  := dist nsub (nv (t w)^nv)^nsub  (`B` t0 t1 w0 w1 | `BE`)  (`S` n (t0 t1 w0 w1)^n | `SE` kind)
-/
namespace ScnVerif.Driver.C11
open ScnVerif ScnVerif.Cascade ScnVerif.Proto

abbrev P := StateT (List String) Option

def tok : P String := fun s => match s with | [] => none | a :: r => some (a, r)
def num : P Float := do let t ← tok; match f64? t with | some x => pure x | none => failure
def nat : P Nat := do let t ← tok; match t.toNat? with | some n => pure n | none => failure
def rep {β : Type} (n : Nat) (p : P β) : P (List β) :=
  match n with
  | 0 => pure []
  | n + 1 => do let a ← p; let r ← rep n p; pure (a :: r)
def atEnd : P Bool := fun s => some (s.isEmpty, s)

partial def many {β : Type} (p : P β) : P (List β) := do
  if (← atEnd) then pure [] else do let a ← p; let r ← many p; pure (a :: r)

def vtx : P (Vtx Float) := do let t ← num; let w ← num; pure (t, w)

def errStr : Err → String
  | .value => "value" | .notimpl => "notimpl" | .empty => "value"
  | .attribute => "attribute" | .index => "index"

def polyStr (p : Poly Float) : String :=
  " ".intercalate (p.map (fun v => f64Hex v.1 ++ " " ++ f64Hex v.2))

def quadStr (b : Float × Float × Float × Float) : String :=
  s!"{f64Hex b.1} {f64Hex b.2.1} {f64Hex b.2.2.1} {f64Hex b.2.2.2}"

def frameStr (f : Frame Float) : String :=
  let subs := f.subframes.map (fun p => s!"{p.length} {polyStr p}")
  let b := match f.bounds with
    | .ok b => "B " ++ quadStr b
    | .error _ => "BE"
  let s := match f.subbounds with
    | .ok l => s!"S {l.length}" ++ String.join (l.map (fun q => " " ++ quadStr q))
    | .error e => "SE " ++ errStr e
  let head := s!"{f64Hex f.dist} {f.subframes.length}"
  " ".intercalate (([head] ++ subs ++ [b, s]).filter (· ≠ ""))

inductive Op where
  | chop (cs : List (Chopper Float))
  | prop (d : Float)
  | get (d : Float)

def chopper : P (Chopper Float) := do
  let d ← num; let n ← nat
  let ws ← rep n (do let o ← num; let c ← num; pure (o, c))
  pure ⟨d, ws⟩

def op : P Op := do
  let t ← tok
  if t = "C" then do let n ← nat; let cs ← rep n chopper; pure (.chop cs)
  else if t = "T" then do let d ← num; pure (.prop d)
  else if t = "Q" then do let d ← num; pure (.get d)
  else failure

structure St where
  frames : List (Frame Float)
  qs : List String := []
  status : String := "ok"

def runOps (k : Consts Float) : List Op → Nat → St → St
  | [], _, st => st
  | o :: os, i, st =>
    match o with
    | .chop cs =>
      match seqChop k st.frames cs with
      | .ok fr => runOps k os (i + 1) { st with frames := fr }
      | .error e => { st with status := s!"err:{errStr e}:{i}" }
    | .prop d =>
      match seqPropagateTo k st.frames d with
      | .ok fr => runOps k os (i + 1) { st with frames := fr }
      | .error e => { st with status := s!"err:{errStr e}:{i}" }
    | .get d =>
      let q := match seqGetItem k st.frames d with
        | .ok f => "Q " ++ frameStr f
        | .error e => "QE " ++ errStr e
      runOps k os (i + 1) { st with qs := st.qs ++ [q] }

def handle : List String → Option String
  | "c11.chop" :: dir :: rest =>
      (do let c ← num; let vs ← many vtx
          pure (match chopStep c (dir = "1") vs with
            | none => "none"
            | some p => polyStr p) : P String).run' rest
  | "c11.prop" :: rest =>
      (do let mn ← num; let h ← num; let s ← num; let d ← num; let vs ← many vtx
          pure (" ".intercalate (vs.map (fun v => f64Hex (propagateTimes ⟨mn, h, s⟩ v.1 v.2 d)))) : P String).run' rest
  | "c11.frame" :: rest =>
      (do let d ← num; let n ← nat
          let subs ← rep n (do let nv ← nat; rep nv vtx)
          pure (frameStr ⟨d, subs⟩) : P String).run' rest
  | "c11.run" :: rest =>
      (do let mn ← num; let h ← num; let s ← num; let zero ← num
          let tmin ← num; let tmax ← num; let wmin ← num; let wmax ← num
          let ops ← many op
          let st := runOps ⟨mn, h, s⟩ ops 0 { frames := [fromSourcePulse zero tmin tmax wmin wmax] }
          pure (" ".intercalate ([st.status] ++ st.qs ++ st.frames.map (fun f => "F " ++ frameStr f))) : P String).run' rest
  | _ => none

end ScnVerif.Driver.C11
