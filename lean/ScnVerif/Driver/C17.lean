import ScnVerif.Model.Proto
import ScnVerif.Model.Fit
import ScnVerif.Gen.FitCfg
/-!
driver ops for C17 (all numbers as f64 bit patterns, counts in decimal):

`c17.variant`                                  → `<clipFirst> <clampIdx>` as read by the translator
`c17.windows <dmin> <dmax> <width> <factor> <n> <c_1..c_n>` → `lo,hi;…` | `err:value`
`c17.slice <lo> <hi> <n> <x_1..x_n>`           → `<begin> <end>` | `err:index`
`c17.fit  <minP> <maxW> <minW>  <sqrt2pi> <pi> <sqrt2ln2> <gfwhm> <tiny>
          <n> <x..> <y..> <var..>
          <mode: W k lo hi … | A width factor k c…>
          <np> <peak codes 1..3> <nb> <degrees>
          <nt> trace entries: <peak code 0..3> <deg> <npts> <x0> <ok 0|1|2 (2: the guess was unusable)> [<cdf> <nb> <bg..> <amp> <loc> <scale> <frac>]`
      → one `;`-separated record per result | `err:…`
`c17.remove <copyFirst 0|1> <consts 5> <n> <x..> <y..> <k> results: <success 0|1> <peak code> <lo> <hi> <amp> <loc> <scale> <frac>`
      → `<caller y..>|<out y..>` | `err:index`
-/
namespace ScnVerif.Driver.C17
open ScnVerif ScnVerif.Fit ScnVerif.Proto

/-- `np.nextafter(x, +inf)` on binary64 -/
def nextUp (x : Float) : Float :=
  if x.isNaN then x
  else if x == 0.0 then Float.ofBits 1
  else
    let b := x.toBits
    if x > 0.0 then (if x.isInf then x else Float.ofBits (b + 1)) else Float.ofBits (b - 1)

structure Consts where
  sqrt2pi : Float
  pi : Float
  sqrt2ln2 : Float
  gfwhm : Float
  tiny : Float

/-- `max(scale.value, 1e-15)` (Python `max(a, b)` returns `a` unless `b > a`) -/
def floorScale (C : Consts) (s : Float) : Float := if C.tiny > s then C.tiny else s

/-- `_gaussian` -/
def gaussian (C : Consts) (amp loc scale x : Float) : Float :=
  let s := floorScale C scale
  let v := x - loc
  let v := v * v
  let v := v / (-2.0 * (s * s))
  let v := Float.exp v
  v * (amp / (C.sqrt2pi * s))

/-- `_lorentzian` -/
def lorentzian (C : Consts) (amp loc scale x : Float) : Float :=
  let s := floorScale C scale
  let v := x - loc
  let v := v * v
  let v := v + s * s
  let v := 1.0 / v
  v * (amp * s / C.pi)

def evalPeakF (C : Consts) (k : PeakKind) (p : Popt Float) (x : Float) : Float :=
  match k with
  | .gaussian => gaussian C p.amplitude p.loc p.scale x
  | .lorentzian => lorentzian C p.amplitude p.loc p.scale x
  | .pseudoVoigt =>
    let l := lorentzian C p.amplitude p.loc p.scale x
    let g := gaussian C p.amplitude p.loc (p.scale / C.sqrt2ln2) x
    p.fraction * l + (1.0 - p.fraction) * g

/-- `PolynomialModel._call`: Horner from the highest coefficient -/
def polyF (coef : List Float) (x : Float) : Float :=
  match coef.reverse with
  | [] => 0.0
  | a :: rest => rest.foldl (fun v c => v * x + c) a

def evalModelF (C : Consts) (m : ModelId) (p : Popt Float) (x : Float) : Float :=
  match m.peak with
  | none => polyF p.bg x
  | some k => polyF p.bg x + evalPeakF C k p x

def fwhmF (C : Consts) (k : PeakKind) (p : Popt Float) : Float :=
  match k with
  | .gaussian => C.gfwhm * p.scale
  | _ => 2.0 * p.scale

structure TraceEntry where
  model : ModelId
  npts : Nat
  x0 : Float
  popt : Option (Popt Float)
  cdf : Float
  chi : Float
  guessFail : Bool := false

def peakOfCode : Nat → Option (Option PeakKind)
  | 0 => some none
  | 1 => some (some .gaussian)
  | 2 => some (some .lorentzian)
  | 3 => some (some .pseudoVoigt)
  | _ => none

def codeOfPeak : PeakKind → Nat
  | .gaussian => 1 | .lorentzian => 2 | .pseudoVoigt => 3

def entryFor (t : TraceEntry) (m : ModelId) (pts : List (Pt Float)) : Bool :=
  t.model == m && t.npts == pts.length && (match pts with | [] => false | p :: _ => p.x.toBits == t.x0.toBits)

def relClose (a b : Float) : Bool := (a - b).abs ≤ 1e-6 * b.abs + 1e-300

def mkEnv (C : Consts) (trace : List TraceEntry) : Env Float :=
  { next := nextUp
    evalModel := evalModelF C
    evalPeak := evalPeakF C
    fwhm := fwhmF C
    chi2cdf := fun ndof chi =>
      match trace.find? (fun t => t.popt.isSome && t.npts - t.model.nParams == ndof && relClose chi t.chi) with
      | some t => t.cdf
      | none => 0.0 / 0.0
    log := Float.log
    ofNat := Nat.toFloat
    guessOk := fun _ deg pts =>
      !(trace.any (fun t => t.guessFail && t.model.degree == deg && t.npts == pts.length &&
          (match pts with | [] => false | p :: _ => p.x.toBits == t.x0.toBits)))
    fit := fun m pts => (trace.find? (fun t => entryFor t m pts)).bind (·.popt) }

/-! ### token parsing -/
abbrev P := StateT (List String) Option

def tok : P String := fun s => match s with | [] => none | a :: r => some (a, r)
def pF : P Float := do let t ← tok; match f64? t with | some x => pure x | none => failure
def pN : P Nat := do let t ← tok; match t.toNat? with | some x => pure x | none => failure
def pMany {β} (p : P β) : Nat → P (List β)
  | 0 => pure []
  | n + 1 => do let a ← p; let r ← pMany p n; pure (a :: r)

def pConsts : P Consts := do
  let a ← pF; let b ← pF; let c ← pF; let d ← pF; let e ← pF
  pure ⟨a, b, c, d, e⟩

def pPopt : P (Popt Float) := do
  let nb ← pN; let bg ← pMany pF nb
  let a ← pF; let l ← pF; let s ← pF; let f ← pF
  pure ⟨bg, a, l, s, f⟩

def pTrace : P TraceEntry := do
  let pc ← pN; let deg ← pN; let n ← pN; let x0 ← pF; let ok ← pN
  let pk ← (peakOfCode pc : Option _)
  if ok == 0 then pure ⟨⟨pk, deg⟩, n, x0, none, 0.0, 0.0, false⟩
  else if ok == 2 then pure ⟨⟨pk, deg⟩, n, x0, none, 0.0, 0.0, true⟩
  else do
    let cdf ← pF; let chi ← pF; let p ← pPopt
    pure ⟨⟨pk, deg⟩, n, x0, some p, cdf, chi, false⟩

def pPeak : P PeakKind := do
  let c ← pN
  match peakOfCode c with
  | some (some k) => pure k
  | _ => failure

def assessStr : Assessment → String
  | .success => "success" | .failed => "failed" | .backgroundIsBetter => "background_is_better"
  | .peakTooNarrow => "peak_too_narrow" | .peakTooWide => "peak_too_wide"
  | .peakNearEdge => "peak_near_edge" | .peakPointsDown => "peak_points_down"
  | .pTooSmall => "p_too_small" | .windowTooNarrow => "window_too_narrow"

def errStr : Err → String
  | .guess => "err:guess" | .index => "err:index" | .value => "err:value"

def modelStr (m : ModelId) : String :=
  s!"{match m.peak with | none => 0 | some k => codeOfPeak k}/{m.degree}"

def statsStr : Option (Stats Float) → String
  | none => "-"
  | some s => s!"{f64Hex s.redChisq},{f64Hex s.pValue},{f64Hex s.aic}"

def poptStr : Option (Popt Float) → String
  | none => "-"
  | some p => ",".intercalate ((p.bg ++ [p.amplitude, p.loc, p.scale, p.fraction]).map f64Hex)

def resultStr : Option (Result Float) → String
  | none => "none"
  | some r =>
    s!"{assessStr r.assessment} {codeOfPeak r.peak}/{r.degree} {f64Hex r.window.1},{f64Hex r.window.2} " ++
    s!"{statsStr r.stats} {poptStr r.popt} [{",".intercalate (r.calls.map modelStr)}]"

def winStr (ws : List (Float × Float)) : String :=
  ";".intercalate (ws.map (fun w => s!"{f64Hex w.1},{f64Hex w.2}"))

def pPair : P (Float × Float) := do let a ← pF; let b ← pF; pure (a, b)

def pFit : P String := do
  let minP ← pF; let maxW ← pF; let minW ← pF
  let C ← pConsts
  let n ← pN; let xs ← pMany pF n; let ys ← pMany pF n; let vs ← pMany pF n
  let pts := (xs.zip (ys.zip vs)).map (fun t => (⟨t.1, t.2.1, t.2.2⟩ : Pt Float))
  let mode ← tok
  let R : Req Float := ⟨minP, maxW, minW⟩
  let V := Gen.FitCfg.variant
  if mode == "W" then do
    let k ← pN; let ws ← pMany pPair k
    let np ← pN; let peaks ← pMany pPeak np
    let nb ← pN; let bgs ← pMany pN nb
    let nt ← pN; let trace ← pMany pTrace nt
    let E := mkEnv C trace
    match fitPeaks V E R pts peaks bgs ws with
    | .error e => pure (errStr e)
    | .ok rs => pure (";".intercalate (rs.map resultStr))
  else do
    let width ← pF; let f ← pF
    let k ← pN; let cs ← pMany pF k
    let np ← pN; let peaks ← pMany pPeak np
    let nb ← pN; let bgs ← pMany pN nb
    let nt ← pN; let trace ← pMany pTrace nt
    let E := mkEnv C trace
    match fitPeaksAuto V E R pts peaks bgs cs width f with
    | .error e => pure (errStr e)
    | .ok rs => pure (";".intercalate (rs.map resultStr))

structure RemRes where
  success : Bool
  peak : PeakKind
  window : Float × Float
  popt : Popt Float

def pRemRes : P RemRes := do
  let s ← pN; let k ← pPeak; let w ← pPair
  let a ← pF; let l ← pF; let sc ← pF; let f ← pF
  pure ⟨s == 1, k, w, ⟨[], a, l, sc, f⟩⟩

def pRemove : P String := do
  let copyFirst ← pN
  let C ← pConsts
  let n ← pN; let xs ← pMany pF n; let ys ← pMany pF n
  let k ← pN; let rs ← pMany pRemRes k
  let E := mkEnv C []
  let results : List (Result Float) := rs.map (fun r =>
    { assessment := if r.success then .success else .failed, peak := r.peak, degree := 1,
      window := r.window, popt := some r.popt, stats := none, calls := [] })
  match removePeaks (copyFirst == 1) E (xs.zip ys) results with
  | .error e => pure (errStr e)
  | .ok m =>
    pure (" ".intercalate (m.caller.map (fun p => f64Hex p.2)) ++ "|" ++
          " ".intercalate (m.work.map (fun p => f64Hex p.2)))

def run (p : P String) (args : List String) : Option String :=
  match p args with
  | some (out, []) => some out
  | some (_, _ :: _) => some "bad-args:trailing"
  | none => some "bad-args"

def handle : List String → Option String
  | ["c17.variant"] =>
    some s!"{if Gen.FitCfg.variant.clipFirst then 1 else 0} {if Gen.FitCfg.variant.clampIdx then 1 else 0}"
  | "c17.windows" :: args =>
    run (do
      let dmin ← pF; let dmax ← pF; let width ← pF; let f ← pF
      let n ← pN; let cs ← pMany pF n
      match fitWindows Gen.FitCfg.variant nextUp dmin dmax cs width f with
      | .error e => pure (errStr e)
      | .ok ws => pure (winStr ws)) args
  | "c17.slice" :: args =>
    run (do
      let lo ← pF; let hi ← pF; let n ← pN; let xs ← pMany pF n
      match sliceRange xs (lo, hi) with
      | .error e => pure (errStr e)
      | .ok (b, e) => pure s!"{b} {e}") args
  | "c17.fit" :: args => run pFit args
  | "c17.remove" :: args => run pRemove args
  | _ => none

end ScnVerif.Driver.C17
