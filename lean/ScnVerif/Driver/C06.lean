import ScnVerif.Model.Proto
import ScnVerif.Model.Binned
import ScnVerif.Model.Convert
import ScnVerif.Gen.Graphs
/-! driver ops for C06

* `c06.layout <sizes> <geom ids>` → `<begin-end,…>|<bins>`: the model's `convertBinned` with the symbolic kernel
  `k c g = (c, g)`; events are numbered 0,1,… in buffer order (coordinate token = payload token = number);
  bins are separated by `;`, events by `,`, an event is `c.g.p`.
* `c06.edges <number of edges> <pixel geom ids>` → rows separated by `;`, entries `c.g`.
* `c06.wl64|c06.wl32|c06.wli <c f64> <sizes> <L f64 per bin> <t per event>` → converted events (hex bit patterns):
  `wavelength_from_tof` executed by the model per event with the bin's `Ltotal`.
* `c06.etd|c06.eti <c f64> <sizes> <L1 per bin> <L2 per bin> <E per bin> <t per event (as f64)>` → energy transfer
  (direct / indirect) executed by the model per event.
* `c06.kinds <origin> <target> <0|1> <dense names> <event names>` → for the derivation `convert` builds when the
  listed names are present in `coords` / `bins.coords`: `D`, `E`, `DE` (parts of the target) or `err:…`.
Lists are comma separated, `-` is the empty list.
-/
namespace ScnVerif.Driver.C06
open ScnVerif ScnVerif.Binned ScnVerif.Proto

def list? {α : Type} (f : String → Option α) (s : String) : Option (List α) :=
  if s = "-" then some [] else (s.splitOn ",").mapM f

def int? (s : String) : Option Int :=
  if s.startsWith "-" then (s.drop 1).toNat?.map (fun n => - (n : Int)) else s.toNat?.map (fun n => (n : Int))

def join (l : List String) : String := if l.isEmpty then "-" else ",".intercalate l

/-- bins with events numbered consecutively -/
def mkBins : Nat → List Nat → List (List (Event Nat Nat))
  | _, [] => []
  | start, n :: ns => ((List.range n).map (fun i => ⟨start + i, start + i⟩)) :: mkBins (start + n) ns

/-- split a flat list into bins of the given sizes -/
def splitBins {α : Type} : List Nat → List α → List (List α)
  | [], _ => []
  | n :: ns, xs => xs.take n :: splitBins ns (xs.drop n)

def numeric {Cin Cout G : Type} (k : Cin → G → Cout) (hex : Cout → String)
    (sizes : List Nat) (ls : List G) (ts : List Cin) : String :=
  let bins := (splitBins sizes ts).map (fun es => es.map (fun t => (⟨t, ()⟩ : Event Cin Unit)))
  let b : Binned Cin Unit G Unit := ⟨bins, ls, ()⟩
  join ((buffer (convertBinned k b).bins).map (fun e => hex e.coord))

def zip3 : List Float → List Float → List Float → List InelGeom
  | a :: as, b :: bs, c :: cs => ⟨a, b, c⟩ :: zip3 as bs cs
  | _, _, _ => []

def handle : List String → Option String
  | ["c06.kinds", o, t, s, dense, event] => do
      let o ← o.toNat?; let t ← t.toNat?
      let s ← (if s = "1" then some true else if s = "0" then some false else none)
      let dense ← list? String.toNat? dense
      let event ← list? String.toNat? event
      let K : Convert.Name → Convert.CoordKind := fun n => ⟨dense.contains n, event.contains n⟩
      let P : Convert.Name → Bool := fun n => dense.contains n || event.contains n
      match Convert.convertLiteral Gen.Graphs.tables P o t s with
      | .error .runtime => some "err:runtime"
      | .error .key => some "err:key"
      | .error .value => some "err:value"
      | .ok (_, d) => some ((if d.hasDense K then "D" else "") ++ (if d.hasEvent K then "E" else ""))
  | ["c06.layout", sizes, geoms] => do
      let sizes ← list? String.toNat? sizes
      let geoms ← list? String.toNat? geoms
      let b : Binned Nat Nat Nat Unit := ⟨mkBins 0 sizes, geoms, ()⟩
      let r := convertBinned (fun c g => (c, g)) b
      let rs := (ranges 0 (Binned.sizes r.bins)).map (fun (x : Nat × Nat) => s!"{x.1}-{x.2}")
      let bs := r.bins.map (fun es => ",".intercalate (es.map (fun e => s!"{e.coord.1}.{e.coord.2}.{e.payload}")))
      some (join rs ++ "|" ++ ";".intercalate bs)
  | ["c06.edges", n, geoms] => do
      let n ← n.toNat?
      let geoms ← list? String.toNat? geoms
      let rows := convertEdges (fun (c g : Nat) => (c, g)) (List.range n) geoms
      some (";".intercalate (rows.map (fun row => ",".intercalate (row.map (fun x => s!"{x.1}.{x.2}")))))
  | ["c06.wl64", c, sizes, ls, ts] => do
      let c ← f64? c; let sizes ← list? String.toNat? sizes; let ls ← list? f64? ls; let ts ← list? f64? ts
      some (numeric (fun t L => wavelengthFromTof64 c t L) f64Hex sizes ls ts)
  | ["c06.wl32", c, sizes, ls, ts] => do
      let c ← f64? c; let sizes ← list? String.toNat? sizes; let ls ← list? f64? ls; let ts ← list? f32? ts
      some (numeric (fun t L => wavelengthFromTof32 c t L) f32Hex sizes ls ts)
  | ["c06.wli", c, sizes, ls, ts] => do
      let c ← f64? c; let sizes ← list? String.toNat? sizes; let ls ← list? f64? ls; let ts ← list? int? ts
      some (numeric (fun t L => wavelengthFromTofInt c t L) f64Hex sizes ls ts)
  | [op, c, sizes, l1s, l2s, es, ts] => do
      let k ← (if op = "c06.etd" then some energyTransferDirect
               else if op = "c06.eti" then some energyTransferIndirect else none)
      let c ← f64? c; let sizes ← list? String.toNat? sizes
      let l1s ← list? f64? l1s; let l2s ← list? f64? l2s; let es ← list? f64? es; let ts ← list? f64? ts
      some (numeric (fun t g => k c t g) f64Hex sizes (zip3 l1s l2s es) ts)
  | _ => none

end ScnVerif.Driver.C06
