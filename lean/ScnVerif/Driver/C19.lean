import ScnVerif.Model.Proto
import ScnVerif.Model.Filtering
/-! driver ops for C19

* `c19.plateaus <f|i> <minN> <atol> <n> <x₁ … xₙ> <y₁ … yₙ>` →
  `ok <start>:<len>:<mean>:<low>:<high> …` (one item per plateau, `ok` alone if none),
  `err:coord`, or `err:runtime <k,k,…>` (indices of the plateaus exceeding the total tolerance).
  Floats as hex bit patterns; integer coordinates (`i`) in decimal.
* `c19.contents <f|i> <minN> <atol> <n> <x…> <y…> <tok₁ … tokₙ>` → `ok tok,tok,… tok,…` : the bins with the opaque
  per-point records (further coordinates, variance, mask flags) they hold
* `c19.collapsem <f|i> <minN> <atol> <n> <x…> <y…> <var…> <masked 0|1 …>` → `ok mean:variance …` (masked points skipped)
* `c19.interval <f|i> <minN> <atol> <n> <x…> <y…> <f|i> <e₁ … eₙ>` → `ok low:high …` : `[min, next(max))` of ANOTHER
  per-point coordinate `e` over each plateau (`collapse_plateaus(coord=…)`)
* `c19.slopes <f|i> <n> <x…> <y…>` → slopes as hex bit patterns
* `c19.groupids <atol> <f|i> <n> <x…> <y…>` → group id per point
* `c19.inphase <ref> <rtol> <x₁ …>` → indices kept
* `c19.inphase32 <ref f32> <rtol f64> <x₁ … f32>` → indices kept when the quotient is single precision
* `c19.rint <x>` → round half even
-/
namespace ScnVerif.Driver.C19
open ScnVerif ScnVerif.Filtering ScnVerif.Proto ScnVerif.ChopperRat

def floats? (ws : List String) : Option (List Float) := ws.mapM f64?
def ints? (ws : List String) : Option (List Int) := ws.mapM String.toInt?

def coords? (kind : String) (ws : List String) : Option Coords :=
  if kind = "f" then (floats? ws).map Coords.f
  else if kind = "i" then (ints? ws).map Coords.i
  else if kind = "g" then (ws.mapM f32?).map Coords.g
  else none

def split? (kind : String) (n : Nat) (rest : List String) : Option (Coords × List Float) :=
  if rest.length ≠ 2 * n then none else do
    let c ← coords? kind (rest.take n)
    let ys ← floats? (rest.drop n)
    some (c, ys)

def natList (l : List Nat) : String := ",".intercalate (l.map toString)

def item (c : Coords) (ys : List Float) (r : Nat × Nat) : String :=
  let k := collapse c ys r
  match c with
  | .f _ => s!"{r.1}:{r.2}:{f64Hex k.value}:{f64Hex k.lowF}:{f64Hex k.highF}"
  | .g _ => s!"{r.1}:{r.2}:{f64Hex k.value}:{f64Hex k.lowF}:{f64Hex k.highF}"
  | .i _ => s!"{r.1}:{r.2}:{f64Hex k.value}:{k.lowI}:{k.highI}"

def handle : List String → Option String
  | "c19.plateaus" :: kind :: minN :: atol :: n :: rest => do
      let minN ← minN.toNat?
      let atol ← f64? atol
      let n ← n.toNat?
      let (c, ys) ← split? kind n rest
      match findPlateaus c ys atol minN with
      | .error (.coord, _) => some "err:coord"
      | .error (.runtime, bad) => some ("err:runtime " ++ natList bad)
      | .ok bins => some (" ".intercalate ("ok" :: bins.map (item c ys)))
  | "c19.contents" :: kind :: minN :: atol :: n :: rest => do
      let minN ← minN.toNat?
      let atol ← f64? atol
      let n ← n.toNat?
      if rest.length ≠ 3 * n then none else
      let (c, ys) ← split? kind n (rest.take (2 * n))
      let toks := rest.drop (2 * n)
      match findPlateaus c ys atol minN with
      | .error (.coord, _) => some "err:coord"
      | .error (.runtime, bad) => some ("err:runtime " ++ natList bad)
      | .ok bins => some (" ".intercalate ("ok" :: (binContents toks bins).map (fun b => ",".intercalate b)))
  | "c19.collapsem" :: kind :: minN :: atol :: n :: rest => do
      let minN ← minN.toNat?
      let atol ← f64? atol
      let n ← n.toNat?
      if rest.length ≠ 4 * n then none else
      let (c, ys) ← split? kind n (rest.take (2 * n))
      let vars ← floats? ((rest.drop (2 * n)).take n)
      let masked := (rest.drop (3 * n)).map (· == "1")
      match findPlateaus c ys atol minN with
      | .error (.coord, _) => some "err:coord"
      | .error (.runtime, bad) => some ("err:runtime " ++ natList bad)
      | .ok bins => some (" ".intercalate ("ok" :: bins.map (fun r =>
          let mv := collapseMasked ys vars masked r
          s!"{f64Hex mv.1}:{f64Hex mv.2}")))
  | "c19.interval" :: kind :: minN :: atol :: n :: rest => do
      let minN ← minN.toNat?
      let atol ← f64? atol
      let n ← n.toNat?
      if rest.length ≠ 3 * n + 1 then none else
      let (c, ys) ← split? kind n (rest.take (2 * n))
      let ekind ← (rest.drop (2 * n)).head?
      let e ← coords? ekind (rest.drop (2 * n + 1))
      match findPlateaus c ys atol minN with
      | .error (.coord, _) => some "err:coord"
      | .error (.runtime, bad) => some ("err:runtime " ++ natList bad)
      | .ok bins => some (" ".intercalate ("ok" :: bins.map (fun r =>
          let k := collapse e ys r
          match e with
          | .f _ => s!"{f64Hex k.lowF}:{f64Hex k.highF}"
          | .g _ => s!"{f64Hex k.lowF}:{f64Hex k.highF}"
          | .i _ => s!"{k.lowI}:{k.highI}")))
  | "c19.slopes" :: kind :: n :: rest => do
      let n ← n.toNat?
      let (c, ys) ← split? kind n rest
      some (" ".intercalate ("ok" :: (slopesFloat c ys).map f64Hex))
  | "c19.groupids" :: atol :: kind :: n :: rest => do
      let atol ← f64? atol
      let n ← n.toNat?
      let (c, ys) ← split? kind n rest
      some ("ok " ++ natList (groupIds (exceeds atol (slopesFloat c ys))))
  | "c19.inphase" :: ref :: rtol :: xs => do
      let ref ← f64? ref
      let rtol ← f64? rtol
      let xs ← floats? xs
      some ("ok " ++ natList (keptIndices xs ref rtol))
  | "c19.inphase32" :: ref :: rtol :: xs => do
      let ref ← f32? ref
      let rtol ← f64? rtol
      let xs ← xs.mapM f32?
      some ("ok " ++ natList (keptIndices32 xs ref rtol))
  | ["c19.rint", x] => do
      let x ← f64? x
      some (f64Hex (Rint.rint x))
  | _ => none

end ScnVerif.Driver.C19
