import ScnVerif.Model.Proto
import ScnVerif.Model.Sqw.Units
import ScnVerif.Model.Sqw.Build
import ScnVerif.Model.Sqw.Reader
import ScnVerif.Gen.SqwTables
/-! driver ops for C13:
* `c13.units writer|reader` → the generated unit tables (`cls:field:unit;…`, hex strings)
* `c13.rows` → generated pixel row names and units
* `c13.mismatch` → fields whose reader label has another dimension than the writer's unit
* `c13.natf64 <n>` → bit pattern of `float(n)`; `c13.round <f64 bits>` → f32 bits
* `c13.readblock <order> <hex>` → what the MODEL of the package reader (`rdObj` + `parse*`) returns for
  the bytes of one regular block
-/
namespace ScnVerif.Driver.C13
open ScnVerif ScnVerif.Sqw ScnVerif.Proto

def hx (bs : Bytes) : String := if bs.isEmpty then "-" else bytesHex bs
def optHx : Option Bytes → String | none => "none" | some u => hx u

def dumpTable (t : List UnitEntry) : String :=
  ";".intercalate (t.map (fun e => s!"{hx e.cls}:{hx e.field}:{optHx e.unit}"))

def bits (l : List Nat) : String := "+".intercalate (l.map (toHexPad 16))
def nats (l : List Nat) (sep : String) : String := sep.intercalate (l.map toString)
def b01 (b : Bool) : String := if b then "1" else "0"

def dumpExp (e : RExperiment) : String :=
  ",".intercalate [hx e.filename, hx e.filepath, toString e.runId, bits e.efix, b01 e.efixIsScalar,
    toString e.emode, nats e.enShape "x", bits e.en, toHexPad 16 e.psi, bits e.u, bits e.v,
    toHexPad 16 e.omega, toHexPad 16 e.dpsi, toHexPad 16 e.gl, toHexPad 16 e.gs, b01 e.anglesInDegrees]

/-- `_try_parse_block` for the objects stored in a container -/
def dumpStored : Obj → Option String
  | .structs [1] 1 n v =>
    match typeId n v with
    | some (ser, ver) =>
      if ser = [73,88,95,115,97,109,112,108,101] /-IX_sample-/ ∧ ver = fThree then
        (parseSample n v).map (fun s => s!"sample,{hx s.name},{bits s.alatt},{bits s.angdeg}")
      else if ser = [73,88,95,110,117,108,108,95,105,110,115,116] /-IX_null_inst-/ ∧ ver = fTwo then
        (parseInstrument n v).map (fun i =>
          s!"inst,{hx i.name},{hx i.sourceName},{hx i.targetName},{toHexPad 16 i.frequency}")
      else none
    | none => none
  | _ => none

def readBlock (o : Order) (bs : Bytes) : String :=
  match rdObj o (3 * bs.length + 3) bs with
  | some (.structs [1] 1 names vals, []) =>
    match typeId names vals with
    | none => "none"
    | some (ser, ver) =>
      if ser = [109,97,105,110,95,104,101,97,100,101,114,95,99,108] /-main_header_cl-/ ∧ ver = fTwo then
        match parseMainHeader names vals with
        | some h => s!"main|{hx h.fullFilename}|{hx h.title}|{h.nfiles}|{hx h.creationDate}"
        | none => "none"
      else if ser = [112,105,120,95,109,101,116,97,100,97,116,97] /-pix_metadata-/ ∧ ver = fOne then
        match parsePixMeta names vals with
        | some m => s!"pix|{hx m.fullFilename}|{m.npix}|{nats m.rangeShape "x"}|{bits m.range}"
        | none => "none"
      else if ser = [73,88,95,101,120,112,101,114,105,109,101,110,116] /-IX_experiment-/ ∧ ver = fThree then
        match parseExperiments names vals with
        | some es => "exps|" ++ ";".intercalate (es.map dumpExp)
        | none => "none"
      else if ser = [117,110,105,113,117,101,95,114,101,102,101,114,101,110,99,101,115,95,99,111,110,116,97,105,110,101,114] /-unique_references_container-/ ∧ ver = fOne then
        match parseContainer names vals with
        | some (objs, idx) =>
          -- the reader parses every stored object and returns, per index, the object it refers to
          match objs.mapM dumpStored with
          | some ds => s!"cont|{nats idx ","}|" ++ ";".intercalate (idx.map (fun i => ds.getD i "?"))
          | none => "none"
        | none => "none"
      else if ser = [100,110,100,95,109,101,116,97,100,97,116,97] /-dnd_metadata-/ ∧ ver = fOne then
        match parseDnd names vals with
        | some d =>
          let a := d.axes
          let p := d.proj
          let flat := a.imgRange.flatMap (fun q => [q.1, q.2])
          "dnd|" ++ ",".intercalate [hx a.title, "+".intercalate (a.label.map hx), bits a.imgScales, bits flat,
            nats a.nBins "x", String.ofList (a.singleBin.map (fun b => if b then '1' else '0')), nats a.dax "x",
            bits a.offset, b01 a.changesAspectRatio, hx a.filename, hx a.filepath] ++ "|" ++
          ",".intercalate [bits p.alatt, bits p.angdeg, bits p.offset, hx p.title, "+".intercalate (p.label.map hx),
            bits p.u, bits p.v, bits p.w, b01 p.nonOrthogonal] ++ "|" ++ hx d.creationDate
        | none => "none"
      else "unparsed|" ++ hx ser
  | _ => "none"

def order? (s : String) : Option Order :=
  if s = "little" then some .little else if s = "big" then some .big else none

def handle : List String → Option String
  | ["c13.units", "writer"] => some (dumpTable Gen.SqwTables.writerUnits)
  | ["c13.units", "reader"] => some (dumpTable Gen.SqwTables.readerUnits)
  | ["c13.rows"] => some (";".intercalate (Gen.SqwTables.pixRows.map (fun r => s!"{hx r.1}:{optHx r.2}")))
  | ["c13.parsers"] => some (";".intercalate (Gen.SqwTables.blockParsers.map hx))
  | ["c13.mismatch"] =>
      some (dumpTable (Gen.SqwTables.writerUnits.filter (fun w => !sameDimension Gen.SqwTables.readerUnits w)))
  | ["c13.natf64", n] => do some (toHexPad 16 (natToF64 (← n.toNat?)))
  | ["c13.round", b] => do
      some (toHexPad 8 ((Float.ofBits (← parseHex b).toUInt64).toFloat32.toBits.toNat))
  | ["c13.readblock", o, h] => do some (readBlock (← order? o) (← hexBytes? h))
  | _ => none

end ScnVerif.Driver.C13
