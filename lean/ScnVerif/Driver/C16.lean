import ScnVerif.Model.Proto
import ScnVerif.Model.PeakModels
/-!
driver ops for C16

model descriptor (prefix notation, `<pre>` = hex bytes or `-`):
  `G <pre>` | `L <pre>` | `V <pre>` | `P <degree:int> <pre>` | `C <pre> <model> <model>`
value = `<f64hex>` ; unit = `m,s,c,p10` (integers)

* `c16.call <model> | <unit> <x>… | (<hexname> <f64hex> <unit>)…`  →  `ok <unit> <f64hex>…` | `err:*`
* `c16.calldt <model> | <xdtype> | (<hexname> <dtype> <f64hex>)…` → `ok f64|f32|i64|i32` | `err:dtype` | `err:*`
* `c16.fwhm <model> | (<hexname> <f64hex> <unit>)…`               →  `ok <unit> <f64hex>` | `err:*`
* `c16.names <model>`   →  `ok <hexname>…` | `err:value` (construction refused)
* `c16.bounds <model>`  →  `ok <hexname>:zi|zo …`
* `c16.kernel g|l|v <A> <mu> <sigma> [<frac>] <x>…` → `<f64hex>…`
-/
namespace ScnVerif.Driver.C16
open ScnVerif ScnVerif.PeakModels ScnVerif.Proto

def errStr : Err → String
  | .value => "err:value" | .unit => "err:unit" | .key => "err:key" | .notimpl => "err:notimpl" | .dtype => "err:dtype"

def int? (s : String) : Option Int :=
  match s.toList with
  | '-' :: ds => (String.ofList ds).toNat?.map (fun n => - (n : Int))
  | _ => s.toNat?.map (fun n => (n : Int))

def unit? (s : String) : Option U :=
  match (s.splitOn ",").map int? with
  | [some a, some b, some c, some d] => some ⟨a, b, c, d⟩
  | _ => none

def unitStr (u : U) : String := s!"{u.m},{u.s},{u.c},{u.p10}"

def str? (h : String) : Option Str := if h = "-" then some [] else hexBytes? h
def strHex (s : Str) : String := if s.isEmpty then "-" else bytesHex s

/-- parse a model descriptor; `none` = malformed, `some (.error _)` = constructor refused -/
def model? : Nat → List String → Option (Except Err M × List String)
  | 0, _ => none
  | _ + 1, "G" :: p :: rest => do let p ← str? p; some (.ok (.gaussian p), rest)
  | _ + 1, "L" :: p :: rest => do let p ← str? p; some (.ok (.lorentzian p), rest)
  | _ + 1, "V" :: p :: rest => do let p ← str? p; some (.ok (.pseudoVoigt p), rest)
  | _ + 1, "P" :: d :: p :: rest => do
      let d ← int? d; let p ← str? p; some (mkPolynomial d p, rest)
  | fuel + 1, "C" :: p :: rest => do
      let p ← str? p
      let (l, rest) ← model? fuel rest
      let (r, rest) ← model? fuel rest
      some ((do let l ← l; let r ← r; mkComposite l r p), rest)
  | _, _ => none

def params? : List String → Option (List (Str × Value Float))
  | [] => some []
  | n :: v :: u :: rest => do
      let n ← str? n; let v ← f64? v; let u ← unit? u
      let tl ← params? rest
      some ((n, ⟨v, u⟩) :: tl)
  | _ => none

def dt? : String → Option DT
  | "f64" => some .f64 | "f32" => some .f32 | "i64" => some .i64 | "i32" => some .i32 | _ => none

def dtStr : DT → String
  | .f64 => "f64" | .f32 => "f32" | .i64 => "i64" | .i32 => "i32"

/-- `(<hexname> <dtype> <f64hex value>)…`; the value only decides the `max(scale, 1e-15)` branch -/
def pdts? : List String → Option (List (Str × PDT))
  | [] => some []
  | n :: d :: v :: rest => do
      let n ← str? n; let d ← dt? d; let v ← f64? v
      let tl ← pdts? rest
      some ((n, ⟨d, decide ((1e-15 : Float) > v), decide ((1e-15 : Float) > pvGaussScale v)⟩) :: tl)
  | _ => none

def floats? (ws : List String) : Option (List Float) := ws.mapM f64?

def splitBar (ws : List String) : List (List String) :=
  ws.foldr (fun w acc => if w = "|" then [] :: acc else
    match acc with | a :: as => (w :: a) :: as | [] => [[w]]) [[]]

def outVals (vs : List Float) : String := " ".intercalate (vs.map f64Hex)

def handle : List String → Option String
  | "c16.call" :: rest => do
      match splitBar rest with
      | [mtoks, xtoks, ptoks] =>
        let (m, extra) ← model? 64 mtoks
        if !extra.isEmpty then none else
        match xtoks with
        | [] => none
        | u :: xs =>
          let u ← unit? u; let xs ← floats? xs; let ps ← params? ptoks
          match m with
          | .error e => some (errStr e)
          | .ok m =>
            match xs.mapM (fun x => call m (⟨x, u⟩ : Value Float) ps) with
            | .error e => some (errStr e)
            | .ok [] => some "ok -"
            | .ok (v :: vs) => some s!"ok {unitStr v.unit} {outVals ((v :: vs).map (·.val))}"
      | _ => none
  | "c16.calldt" :: rest => do
      match splitBar rest with
      | [mtoks, [xdt], ptoks] =>
        let (m, extra) ← model? 64 mtoks
        if !extra.isEmpty then none else
        let xdt ← dt? xdt
        let ps ← pdts? ptoks
        match m with
        | .error e => some (errStr e)
        | .ok m =>
          match callDT m xdt ps with
          | .error e => some (errStr e)
          | .ok d => some ("ok " ++ dtStr d)
      | _ => none
  | "c16.fwhm" :: rest => do
      match splitBar rest with
      | [mtoks, ptoks] =>
        let (m, extra) ← model? 64 mtoks
        if !extra.isEmpty then none else
        let ps ← params? ptoks
        match m with
        | .error e => some (errStr e)
        | .ok m =>
          match fwhm m ps with
          | .error e => some (errStr e)
          | .ok v => some s!"ok {unitStr v.unit} {f64Hex v.val}"
      | _ => none
  | "c16.names" :: rest => do
      let (m, extra) ← model? 64 rest
      if !extra.isEmpty then none else
      match m with
      | .error e => some (errStr e)
      | .ok m => some (" ".intercalate ("ok" :: m.paramNames.map strHex))
  | "c16.bounds" :: rest => do
      let (m, extra) ← model? 64 rest
      if !extra.isEmpty then none else
      match m with
      | .error e => some (errStr e)
      | .ok m => some (" ".intercalate ("ok" :: (paramBounds m).map (fun kb =>
          strHex kb.1 ++ ":" ++ (match kb.2 with | .zeroInf => "zi" | .zeroOne => "zo"))))
  | "c16.kernel" :: "g" :: a :: mu :: s :: xs => do
      let a ← f64? a; let mu ← f64? mu; let s ← f64? s; let xs ← floats? xs
      some (outVals (xs.map (gaussian a mu s)))
  | "c16.kernel" :: "l" :: a :: mu :: s :: xs => do
      let a ← f64? a; let mu ← f64? mu; let s ← f64? s; let xs ← floats? xs
      some (outVals (xs.map (lorentzian a mu s)))
  | "c16.kernel" :: "v" :: a :: mu :: s :: f :: xs => do
      let a ← f64? a; let mu ← f64? mu; let s ← f64? s; let f ← f64? f; let xs ← floats? xs
      some (outVals (xs.map (pseudoVoigt a mu s f)))
  | _ => none

end ScnVerif.Driver.C16
