/-!
# Factories, caches and combinators as a state machine (C09 b)

Objects live in a store; a *reference* is an index into it. The module owns some objects — the module-level
tables (graph dictionaries, CSV-backed data) and whatever an `lru_cache` keeps — and hands references
to callers. Callers can do anything to what they were handed (`mutate`).

* `lookup k`  — table / cache lookup (`Atom.for_isotope`, `ScatteringParams.for_isotope`): the cached object for
                key `k` is created on first use; the caller receives a copy (`share = false`) or the cached
                object itself (`share = true`).
* `factory k` — graph factory (`conversion.graph.*`, `conversion_graph`): the caller receives a copy of module
                table `k` (`share = false`) or the table itself.
* `derive i`  — combinator on a handle (`Model.with_prefix`, `left + right`, `CIF.copy`/`with_*`): a new object
                built from handle `i`: deep copy (`share = false`) or the same object.
* `mutate i`  — the caller modifies the object behind handle `i` (item assignment/deletion, in-place arithmetic,
                list append).

`share = false` is the code as written ("factories return copies"); `share = true` is what a missing
copy looks like — the model can express the defect (see the counterexample in `Props/C09.lean`).
-/
namespace ScnVerif.Factories

inductive Op
  | lookup (k : Nat)
  | factory (k : Nat)
  | derive (i : Nat)
  | mutate (i : Nat)
  deriving Repr, DecidableEq

structure State (β : Type) where
  store : List β                 -- all objects
  tables : List (Nat × Nat)      -- module table key ↦ reference
  cache : List (Nat × Nat)       -- cache key ↦ reference
  handles : List Nat             -- references handed out, in order

/-- the environment: pristine value of table / cached entry `k`, and what a caller's mutation does -/
structure Sem (β : Type) where
  pristine : Nat → β
  mutation : β → β

def find (l : List (Nat × Nat)) (k : Nat) : Option Nat := (l.find? (fun p => p.1 == k)).map (·.2)

/-- hand out object `r`: a copy of it, or itself -/
def handOut {β} (share : Bool) (s : State β) (r : Nat) : State β :=
  if share then { s with handles := s.handles ++ [r] }
  else
    match s.store[r]? with
    | some x => { s with store := s.store ++ [x], handles := s.handles ++ [s.store.length] }
    | none => s

def step {β} (S : Sem β) (share : Bool) (s : State β) : Op → State β
  | .lookup k =>
    match find s.cache k with
    | some r => handOut share s r
    | none =>
      let r := s.store.length
      handOut share { s with store := s.store ++ [S.pristine k], cache := (k, r) :: s.cache } r
  | .factory k =>
    match find s.tables k with
    | some r => handOut share s r
    | none =>
      let r := s.store.length
      handOut share { s with store := s.store ++ [S.pristine k], tables := (k, r) :: s.tables } r
  | .derive i =>
    match s.handles[i]? with
    | some r => handOut share s r
    | none => s
  | .mutate i =>
    match s.handles[i]? with
    | some r => { s with store := s.store.modify r S.mutation }
    | none => s

def run {β} (S : Sem β) (share : Bool) (ops : List Op) (s : State β) : State β := ops.foldl (step S share) s

def empty {β} : State β := ⟨[], [], [], []⟩

/-- what a fresh `lookup k` / `factory k` would return now (its value) -/
def lookupValue {β} (S : Sem β) (s : State β) (k : Nat) : β :=
  match find s.cache k with
  | some r => s.store.getD r (S.pristine k)
  | none => S.pristine k

def factoryValue {β} (S : Sem β) (s : State β) (k : Nat) : β :=
  match find s.tables k with
  | some r => s.store.getD r (S.pristine k)
  | none => S.pristine k

end ScnVerif.Factories
