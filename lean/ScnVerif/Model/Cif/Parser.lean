import ScnVerif.Model.Cif.Basic
/-!
# An independent CIF 1.1 tokenizer and parser

Written from the CIF 1.1 syntax specification (IUCr, "CIF version 1.1 working specification",
section "Syntax", BNF paragraphs 1–62), NOT from `scippneutron/io/cif.py`:

* white space is SP, HT and end-of-line (LF or CR); a comment runs from a `#` *that begins a token*
  to the end of the line;
* `data_<name>` opens a data block, `loop_` a loop, `_<name>` is a tag (data name); the reserved
  words are recognised case-insensitively; `save_…`, `global_`, `stop_`, tokens beginning with `$`,
  `[` or `]` are reserved and may not occur in a data file (reported as `Tok.bad`);
* an unquoted string is a maximal run of non-blank characters that does not begin with
  `" # $ ' _ [ ]`, and does not begin with `;` *as the first character of a line*;
* a quote-delimited string begins with `'` or `"` and is closed only by the same quote character
  *followed by white space*; it may not contain an end-of-line;
* a semicolon text field is opened by `;` as the first character of a line and closed by the next
  `;` that is the first character of a line (which must be followed by white space); its value is
  everything between the opening `;` and the end-of-line preceding the closing `;`.

The tokenizer is a character state machine `(mode, output)` folded over the input
(`run st cs = cs.foldl step st`), which makes `run st (a ++ b) = run (run st a) b` a one-liner and
every writer piece provable in isolation.  Characters are code points (`Nat`).
-/
namespace ScnVerif.Cif

inductive Tok
  | data (name : Str)
  | loop
  | tag (name : Str)
  | value (s : Str)
  | bad (why : Nat)
  deriving Repr, DecidableEq

inductive Mode
  /-- between tokens; `ls` = the next character is the first of a line -/
  | ws (ls : Bool)
  /-- inside an unquoted token; buffer reversed -/
  | bare (buf : Str)
  /-- inside a quote-delimited string; `pend` = the previous character was the quote character,
      which closes the string iff white space follows -/
  | quote (q : Nat) (buf : Str) (pend : Bool)
  /-- inside a semicolon text field; `ls` = the next character is the first of a line -/
  | text (buf : Str) (ls : Bool)
  /-- just after the `;` closing a text field: white space must follow -/
  | textEnd
  | comment
  deriving Repr, DecidableEq

def isEol (c : Nat) : Bool := c == 10 || c == 13
def isBlank (c : Nat) : Bool := c == 32 || c == 9
def isWs (c : Nat) : Bool := isEol c || isBlank c

def lowerChar (c : Nat) : Nat := if 65 ≤ c ∧ c ≤ 90 then c + 32 else c
def lower (s : Str) : Str := s.map lowerChar

def kwData : Str := [100, 97, 116, 97, 95]          -- data_
def kwSave : Str := [115, 97, 118, 101, 95]         -- save_
def kwLoop : Str := [108, 111, 111, 112, 95]        -- loop_
def kwStop : Str := [115, 116, 111, 112, 95]        -- stop_
def kwGlobal : Str := [103, 108, 111, 98, 97, 108, 95]  -- global_

/-- what a complete unquoted token is -/
def classify (s : Str) : Tok :=
  match s with
  | [] => .bad 0
  | 95 :: rest => if rest.isEmpty then .bad 1 else .tag rest     -- `_name`
  | 36 :: _ => .bad 2                                             -- `$frame`
  | 91 :: _ => .bad 3                                             -- `[`
  | 93 :: _ => .bad 3                                             -- `]`
  | _ =>
    let l := lower s
    if kwData.isPrefixOf l then (if s.length = 5 then .bad 4 else .data (s.drop 5))
    else if kwSave.isPrefixOf l then .bad 5
    else if l = kwLoop then .loop
    else if l = kwStop then .bad 6
    else if l = kwGlobal then .bad 6
    else .value s

abbrev St := Mode × List Tok

def step : St → Nat → St
  | (.ws ls, out), c =>
      if isEol c then (.ws true, out)
      else if isBlank c then (.ws false, out)
      else if c = 35 then (.comment, out)
      else if c = 39 ∨ c = 34 then (.quote c [] false, out)
      else if c = 59 ∧ ls = true then (.text [] false, out)
      else (.bare [c], out)
  | (.bare buf, out), c =>
      if isWs c then (.ws (isEol c), out ++ [classify buf.reverse])
      else (.bare (c :: buf), out)
  | (.quote q buf pend, out), c =>
      if pend then
        if isWs c then (.ws (isEol c), out ++ [.value buf.reverse])
        else if c = q then (.quote q (q :: buf) true, out)
        else (.quote q (c :: q :: buf) false, out)
      else if isEol c then (.ws true, out ++ [.bad 7])           -- end of line inside quotes
      else if c = q then (.quote q buf true, out)
      else (.quote q (c :: buf) false, out)
  | (.text buf ls, out), c =>
      if c = 59 ∧ ls = true then (.textEnd, out ++ [.value (buf.drop 1).reverse])
      else (.text (c :: buf) (isEol c), out)
  | (.textEnd, out), c =>
      if isWs c then (.ws (isEol c), out) else (.bare [c], out ++ [.bad 9])
  | (.comment, out), c =>
      if isEol c then (.ws true, out) else (.comment, out)

def run (st : St) (cs : Str) : St := cs.foldl step st

/-- end of input -/
def finish : St → List Tok
  | (.ws _, out) => out
  | (.comment, out) => out
  | (.textEnd, out) => out
  | (.bare buf, out) => out ++ [classify buf.reverse]
  | (.quote _ buf true, out) => out ++ [.value buf.reverse]
  | (.quote _ _ false, out) => out ++ [.bad 7]
  | (.text _ _, out) => out ++ [.bad 8]

def tokenize (cs : Str) : List Tok := finish (run (.ws true, []) cs)

/-- only printable ASCII, HT, LF, CR may occur in a CIF 1.1 file -/
def validChar (c : Nat) : Bool := (32 ≤ c && c ≤ 126) || c == 9 || c == 10 || c == 13

/-! ## Parser: token list → data blocks

`<DataBlock> ::= data_name { tag value | loop_ tag+ value+ }*`, the number of loop values being a
positive multiple of the number of loop tags.  Also a left fold, over tokens. -/

inductive PItem
  | pair (tag val : Str)
  | loop (tags : List Str) (vals : List Str)
  deriving Repr, DecidableEq

structure PBlock where
  name : Str
  items : List PItem
  deriving Repr, DecidableEq

inductive PMode
  | idle
  | haveTag (k : Str)
  | loopTags (tags : List Str)                    -- reversed
  | loopVals (tags : List Str) (vals : List Str)  -- tags in order, values reversed
  deriving Repr, DecidableEq

structure PState where
  done : List PBlock            -- reversed
  cur : Option (Str × List PItem) -- name, items reversed
  mode : PMode
  ok : Bool
  deriving Repr, DecidableEq

def PState.init : PState := ⟨[], none, .idle, true⟩

def PState.fail (s : PState) : PState := { s with ok := false }

def PState.addItem (s : PState) (it : PItem) : PState :=
  match s.cur with
  | none => s.fail                         -- data item outside a data block
  | some (n, its) => { s with cur := some (n, it :: its), mode := .idle }

/-- close a pending loop (if any); a dangling tag or a loop header without values is an error -/
def PState.flush (s : PState) : PState :=
  match s.mode with
  | .idle => s
  | .haveTag _ => s.fail
  | .loopTags _ => s.fail
  | .loopVals tags vals =>
      if vals.length % tags.length = 0 then s.addItem (.loop tags vals.reverse) else s.fail

def pstep (s : PState) (t : Tok) : PState :=
  match t with
  | .bad _ => s.fail
  | .data n =>
      let s := s.flush
      match s.cur with
      | none => { s with cur := some (n, []), mode := .idle }
      | some (m, its) => { s with done := ⟨m, its.reverse⟩ :: s.done, cur := some (n, []), mode := .idle }
  | .loop =>
      let s := s.flush
      match s.cur with
      | none => s.fail
      | some _ => { s with mode := .loopTags [] }
  | .tag k =>
      match s.mode with
      | .loopTags tags => { s with mode := .loopTags (k :: tags) }
      | .haveTag _ => s.fail
      | _ => let s := s.flush
             match s.cur with
             | none => s.fail
             | some _ => { s with mode := .haveTag k }
  | .value v =>
      match s.mode with
      | .haveTag k => s.addItem (.pair k v)
      | .loopTags tags => if tags.isEmpty then s.fail else { s with mode := .loopVals tags.reverse [v] }
      | .loopVals tags vals => { s with mode := .loopVals tags (v :: vals) }
      | .idle => s.fail

def prun (s : PState) (ts : List Tok) : PState := ts.foldl pstep s

def pfinish (s : PState) : Option (List PBlock) :=
  let s := s.flush
  if s.ok then
    match s.cur with
    | none => some s.done.reverse
    | some (m, its) => some (⟨m, its.reverse⟩ :: s.done).reverse
  else none

def parseToks (ts : List Tok) : Option (List PBlock) := pfinish (prun PState.init ts)

/-- the whole reader: character validity, tokenizer, parser -/
def parseCif (cs : Str) : Option (List PBlock) :=
  if cs.all validChar then parseToks (tokenize cs) else none

/-- `str.strip()` restricted to the white space of CIF (SP, HT, LF, CR) -/
def strip (s : Str) : Str := ((s.dropWhile isWs).reverse.dropWhile isWs).reverse

end ScnVerif.Cif
