import ScnVerif.Model.Cif.Writer
/-!
# Model of the high-level CIF builder (`class CIF` in `src/scippneutron/io/cif.py`)

`CIF.save`, `CIF.copy`, `with_beamline`, `with_reduced_powder_data`, `with_powder_calibration`,
`with_authors`, `with_reducers`, `_assemble_authors`, `_serialize_authors`, `_serialize_roles`,
`_add_audit`, `_get_beamline_device`, `_get_beamline_probe`, `_make_reduced_powder_loop`,
`_make_powder_calibration_loop`, and `save_cif(fname, CIF, comment=…)`.

The id generator `(str(i) for i in range(1, 10**9))` is a counter `nextId` that belongs to a builder
*object*: every `with_*`/`copy` call creates a new object with a fresh generator, `save` advances the
generator of the object it is called on (so saving twice numbers the authors differently).
-/
namespace ScnVerif.Cif

/-- decimal digits, most significant first (`fuel` ≥ number of digits) -/
def natDigits : Nat → Nat → Str
  | 0, _ => []
  | fuel + 1, n => if n < 10 then [48 + n] else natDigits fuel (n / 10) ++ [48 + n % 10]

/-- `str(i)` for a natural number -/
def natStr (n : Nat) : Str := natDigits (n + 1) n

/-- `metadata.Person` as far as the writer reads it; a field that is `None` or `''` is `[]`
(`getattr(a, key) or ''`, `if val`) -/
structure Person where
  name : Str
  email : Str
  address : Str
  orcid : Str         -- `str(ORCIDiD)`, i.e. the URL form
  role : Str
  corresponding : Bool
  deriving Repr, DecidableEq

structure Consts where
  core : Schema
  pd : Schema
  /-- `str(scippneutron.__version__)` -/
  version : Str
  deriving Repr

structure Builder where
  name : Str
  /-- kept raw; `_encode_non_ascii` is idempotent, the setter's encoding is applied at `save` -/
  comment : Str
  content : List Item
  authors : List Person
  reducers : List Str
  nextId : Nat
  deriving Repr

def Builder.new (name comment : Str) : Builder := ⟨name, comment, [], [], [], 1⟩

/-- `CIF.copy`: same contents, fresh id generator -/
def Builder.copy (b : Builder) : Builder := { b with nextId := 1 }

/-! ### authors and roles -/

/-- `{next(id_generator): a.role for a in authors}` -/
def numberFrom : Nat → List Person → List (Nat × Person)
  | _, [] => []
  | n, a :: as => (n, a) :: numberFrom (n + 1) as

def hasRole (a : Person) : Bool := !a.role.isEmpty

/-- the `<category>.id` column: present (with every id of the category) iff some author of the
category has a role -/
def idColumn (ids : List (Nat × Person)) : List Nat :=
  if ids.any (fun p => hasRole p.2) then ids.map (·.1) else []

/-- `roles = {key: val for key, val in roles.items() if val}` -/
def rolesOf (ids : List (Nat × Person)) : List (Nat × Str) :=
  (ids.filter (fun p => hasRole p.2)).map (fun p => (p.1, p.2.role))

def catKey (category key : String) : Str := ofString (category ++ "." ++ key)

/-- `_serialize_authors` -/
def serializeAuthors (core : Schema) (category : String) (ids : List (Nat × Person)) : Item :=
  let authors := ids.map (·.2)
  let cols : List (Str × List Str) :=
    [(catKey category "name", authors.map (·.name)),
     (catKey category "email", authors.map (·.email)),
     (catKey category "address", authors.map (·.address)),
     (catKey category "id_orcid", authors.map (·.orcid))].filter (fun c => c.2.any (!·.isEmpty))
  let cols := cols ++ (match idColumn ids with
    | [] => []
    | col => [(catKey category "id", col.map natStr)])
  if authors.length = 1 then
    .chunk ⟨[], cols.map (fun c => (c.1, c.2.headD [])), some [core]⟩
  else .loop ⟨[], cols, some [core]⟩

/-- `_serialize_roles` -/
def serializeRoles (core : Schema) (roles : List (Nat × Str)) : Item :=
  .loop ⟨[], [(ofString "audit_author_role.id", roles.map (fun r => natStr r.1)),
              (ofString "audit_author_role.role", roles.map (·.2))], some [core]⟩

structure AuthorIds where
  contact : List (Nat × Person)
  regular : List (Nat × Person)
  deriving Repr

/-- the numbering done by `_assemble_authors`: contact authors first, then regular ones -/
def assignIds (authors : List Person) (n : Nat) : AuthorIds :=
  let contact := authors.filter (·.corresponding)
  let regular := authors.filter (fun a => !a.corresponding)
  ⟨numberFrom n contact, numberFrom (n + contact.length) regular⟩

/-- all ids written into `audit_author_role.id` -/
def AuthorIds.roleIds (x : AuthorIds) : List Nat := (rolesOf x.contact ++ rolesOf x.regular).map (·.1)
/-- all ids written into `audit_contact_author.id` and `audit_author.id` -/
def AuthorIds.authorIds (x : AuthorIds) : List Nat := idColumn x.contact ++ idColumn x.regular

/-- `_assemble_authors` -/
def assembleAuthors (core : Schema) (authors : List Person) (n : Nat) : List Item :=
  let x := assignIds authors n
  (if x.contact.isEmpty then [] else [serializeAuthors core "audit_contact_author" x.contact])
  ++ (if x.regular.isEmpty then [] else [serializeAuthors core "audit_author" x.regular])
  ++ (match rolesOf x.contact ++ rolesOf x.regular with
      | [] => []
      | roles => [serializeRoles core roles])

/-! ### audit -/

/-- `_add_audit`; `date` is the text of `datetime.now(timezone.utc).replace(microsecond=0).isoformat()` -/
def auditItems (k : Consts) (date : Str) (reducers : List Str) : List Item :=
  let pairs := [(ofString "audit.creation_date", date),
                (ofString "audit.creation_method", ofString "Written by scippneutron " ++ k.version)]
  match reducers with
  | [] => [.chunk ⟨[], pairs, some [k.core]⟩]
  | [r] => [.chunk ⟨[], pairs ++ [(ofString "computing.diffrn_reduction", r)], some [k.core]⟩]
  | rs => [.chunk ⟨[], pairs, some [k.core]⟩,
           .loop ⟨[], [(ofString "computing.diffrn_reduction", rs)], some [k.core]⟩]

/-- the block assembled by `CIF.save` -/
def Builder.block (k : Consts) (date : Str) (b : Builder) : Block :=
  ⟨b.name, [], auditItems k date b.reducers ++ assembleAuthors k.core b.authors b.nextId ++ b.content,
   some []⟩

/-- `CIF.save`: the text and the builder afterwards (generator advanced by one id per author) -/
def Builder.save (var : Variant) (k : Consts) (date : Str) (perm : List Nat) (b : Builder) :
    Option Str × Builder :=
  (saveCif var k.core (encodeNonAscii b.comment) [(b.block k date, perm)],
   { b with nextId := b.nextId + b.authors.length })

/-! ### beamline -/

inductive SourceType | spallation | reactor | synchrotron
  deriving Repr, DecidableEq

def knownSpallationSources : List Str :=
  ["csns", "ess", "isis", "j-parc", "lanscesinq", "sns"].map ofString

/-- `(beamline.facility or '').lower() in _KNOWN_SPALLATION_SOURCES` (no non-ASCII character
lower-cases to a letter of these names) -/
def isKnownSpallation (facility : Option Str) : Bool :=
  knownSpallationSources.contains ((facility.getD []).map asciiLower)

def beamlineDevice (facility : Option Str) : Option SourceType → Option Str
  | none => if isKnownSpallation facility then some (ofString "spallation") else none
  | some .spallation => some (ofString "spallation")
  | some .reactor => some (ofString "nuclear")
  | some .synchrotron => some (ofString "synch")

def beamlineProbe (facility : Option Str) : Option SourceType → Option Str
  | none => if isKnownSpallation facility then some (ofString "neutron") else none
  | some .spallation => some (ofString "neutron")
  | some .reactor => some (ofString "neutron")
  | some .synchrotron => some (ofString "x-ray")

/-- `with_beamline` -/
def Builder.withBeamline (k : Consts) (b : Builder) (name : Str) (facility : Option Str)
    (source : Option SourceType) (comment : Str) : Builder :=
  let fields : List (Str × Option Str) :=
    [(ofString "diffrn_radiation.probe", beamlineProbe facility source),
     (ofString "diffrn_source.beamline", some name),
     (ofString "diffrn_source.facility", facility),
     (ofString "diffrn_source.device", beamlineDevice facility source)]
  let pairs := fields.filterMap (fun f => f.2.map (fun v => (f.1, v)))
  { b.copy with content := b.content ++ [.chunk ⟨comment, pairs, some [k.core]⟩] }

def Builder.withAuthors (b : Builder) (authors : List Person) : Builder :=
  { b.copy with authors := b.authors ++ authors }

def Builder.withReducers (b : Builder) (reducers : List Str) : Builder :=
  { b.copy with reducers := b.reducers ++ reducers }

/-! ### reduced powder data -/

inductive BuildErr | value | coord | unit | dimension
  deriving Repr, DecidableEq

/-- the text of the numbers is produced by Python (`str(float)`); the model gets the columns as
text: point ids, coordinate values, their standard uncertainties (if the coordinate has
variances), intensities, their standard uncertainties (if the data have variances) -/
structure PowderData where
  dim : Str
  coordUnit : Str            -- `str(coord.unit)`
  name : Str                 -- `data.name` ('' if unset)
  dataUnit : Str             -- `str(data.unit)`
  dataUnitIsOne : Bool       -- `data.unit == 'one'`
  pointIds : List Str
  coord : List Str
  coordSu : Option (List Str)
  values : List Str
  valuesSu : Option (List Str)
  deriving Repr

def suffixSu (k : Str) : Str := k ++ ofString "_su"

/-- `_reduced_powder_coord` (name and unit check of the coordinate) and
`_normalize_reduced_powder_name`: the tag of the coordinate column and of the intensity column -/
def powderNames (d : PowderData) : Except BuildErr (Str × Str) := do
  let (coordName, unit) ←
    if d.dim = ofString "tof" then pure (ofString "pd_meas.time_of_flight", ofString "µs")
    else if d.dim = ofString "dspacing" then pure (ofString "pd_proc.d_spacing", ofString "Å")
    else throw BuildErr.coord
  if d.coordUnit ≠ unit then throw BuildErr.unit
  let name := if d.name.isEmpty then ofString "intensity_norm" else d.name
  if !(name = ofString "intensity_net" || name = ofString "intensity_norm"
        || name = ofString "intensity_total") then throw BuildErr.value
  pure (coordName, ofString "pd_proc." ++ name)

/-- the columns of the reduced-powder loop, in order: point ids, the coordinate, its standard
uncertainties `sc.stddevs(coord)` (iff the coordinate has variances) under the coordinate's tag +
`_su`, the intensities, their standard uncertainties `sc.stddevs(data.data)` (iff the data have
variances) under the intensity tag + `_su` -/
def powderColumns (coordName dataName : Str) (d : PowderData) : List (Str × List Str) :=
  [(ofString "pd_data.point_id", d.pointIds), (coordName, d.coord)]
    ++ (match d.coordSu with | some su => [(suffixSu coordName, su)] | none => [])
    ++ [(dataName, d.values)]
    ++ (match d.valuesSu with | some su => [(suffixSu dataName, su)] | none => [])

/-- `res.comment = f'{pre}Unit of intensity: [{data.unit}]'` unless the unit is `one` -/
def powderComment (d : PowderData) (comment : Str) : Str :=
  if d.dataUnitIsOne then comment
  else (if (encodeNonAscii comment).isEmpty then [] else comment ++ [10])
        ++ ofString "Unit of intensity: [" ++ d.dataUnit ++ ofString "]"

/-- `_make_reduced_powder_loop` -/
def reducedPowderLoop (k : Consts) (d : PowderData) (comment : Str) : Except BuildErr Loop := do
  let (coordName, dataName) ← powderNames d
  pure ⟨powderComment d comment, powderColumns coordName dataName d, some [k.pd]⟩

def Builder.withReducedPowderData (k : Consts) (b : Builder) (d : PowderData) (comment : Str) :
    Except BuildErr Builder := do
  let l ← reducedPowderLoop k d comment
  pure { b.copy with content := b.content ++ [.loop l] }

/-! ### powder calibration -/

/-- `id_by_power.get(power, f'c{power}'.replace('-', '_').replace('.', '_'))` on the text of the
power (`str` of an int64 or float64): 0 → ZERO, 1 → DIFC, 2 → DIFA, −1 → DIFB -/
def calibId (power : Str) : Str :=
  if power = ofString "0" || power = ofString "0.0" || power = ofString "-0.0" then ofString "ZERO"
  else if power = ofString "1" || power = ofString "1.0" then ofString "DIFC"
  else if power = ofString "2" || power = ofString "2.0" then ofString "DIFA"
  else if power = ofString "-1" || power = ofString "-1.0" then ofString "DIFB"
  else [99] ++ power.map (fun c => if c = 45 ∨ c = 46 then 95 else c)

/-- `_make_powder_calibration_loop` -/
def calibrationLoop (k : Consts) (powers coeffs : List Str) (su : Option (List Str)) (comment : Str) :
    Loop :=
  ⟨comment,
   [(ofString "pd_calib_d_to_tof.id", powers.map calibId),
    (ofString "pd_calib_d_to_tof.power", powers),
    (ofString "pd_calib_d_to_tof.coeff", coeffs)]
   ++ (match su with | some s => [(ofString "pd_calib_d_to_tof.coeff_su", s)] | none => []),
   some [k.pd]⟩

def Builder.withPowderCalibration (k : Consts) (b : Builder) (powers coeffs : List Str)
    (su : Option (List Str)) (comment : Str) : Builder :=
  { b.copy with content := b.content ++ [.loop (calibrationLoop k powers coeffs su comment)] }

/-! ### sequences of builder calls

Every builder object is reached from `CIF(name, comment=…)` by a chain of calls; `with_*` and `copy`
return a new object (fresh id generator), the setters and `save` act on the object itself.  A call that
raises (`with_reduced_powder_data` on unsuitable data) leaves the object as it was. -/

inductive Call
  | withAuthors (authors : List Person)
  | withReducers (reducers : List Str)
  | withBeamline (name : Str) (facility : Option Str) (source : Option SourceType) (comment : Str)
  | withReducedPowderData (d : PowderData) (comment : Str)
  | withPowderCalibration (powers coeffs : List Str) (su : Option (List Str)) (comment : Str)
  | copy
  | setName (name : Str)
  | setComment (comment : Str)
  | save (date : Str) (perm : List Nat)
  deriving Repr

def Builder.apply (k : Consts) (b : Builder) : Call → Builder
  | .withAuthors ps => b.withAuthors ps
  | .withReducers rs => b.withReducers rs
  | .withBeamline n f s c => b.withBeamline k n f s c
  | .withReducedPowderData d c => match b.withReducedPowderData k d c with
      | .ok nb => nb
      | .error _ => b
  | .withPowderCalibration p c su cm => b.withPowderCalibration k p c su cm
  | .copy => b.copy
  | .setName n => { b with name := n }
  | .setComment c => { b with comment := c }
  | .save date perm => (b.save Variant.current k date perm).2

end ScnVerif.Cif
