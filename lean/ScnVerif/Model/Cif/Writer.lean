import ScnVerif.Model.Cif.Basic
/-!
# Model of the CIF writer, `src/scippneutron/io/cif.py`

Transcribed function by function: `_encode_non_ascii` (`encodeNonAscii`),
`_quotes_for_string_value` (`quotesFor`), `_format_value` (`formatValue`; the `str()` of numbers,
datetimes, ORCID iDs is taken by the harness, the model starts at the text), `_write_comment`
(`writeComment`, with Python's `str.splitlines`), `Chunk.write`, `Loop.write` (table vs flat
layout), `_preprocess_schema`, `Block.schema`, `_make_schema_loop`, `Block.write`, `_write_multi`,
`_write_file_heading`, `save_cif`.  The high-level builder is in `Model/Cif/Builder.lean`.

Two places of the code were defective until commits 667eecd and 0de43de (see `Props/C14.lean`).
The model keeps a `Variant` *only* so that the behaviour before those commits stays expressible for
the regression counterexamples (`Variant.beforeFix`): `quoteFix` — `_quotes_for_string_value` also
quotes values with a leading `_ # $ [ ] ;`, with a tab, and reserved words; `headingFix` —
`save_cif` escapes non-ASCII text of the file comment.  The code as it stands is `Variant.current`;
all theorems are about it and the harness compares the implementation with it, unconditionally.
-/
namespace ScnVerif.Cif

structure Variant where
  quoteFix : Bool
  headingFix : Bool
  deriving Repr, DecidableEq

def Variant.current : Variant := ⟨true, true⟩
def Variant.beforeFix : Variant := ⟨false, false⟩

/-! ## `_encode_non_ascii`: `s.encode('ascii', 'backslashreplace').decode('ascii')` -/

def hexNib (n : Nat) : Nat := if n < 10 then 48 + n else 87 + n

/-- `width` lower-case hexadecimal digits of `n` -/
def hexFixed : Nat → Nat → Str
  | 0, _ => []
  | w + 1, n => hexFixed w (n / 16) ++ [hexNib (n % 16)]

def encodeChar (c : Nat) : Str :=
  if c < 128 then [c]
  else if c < 256 then [92, 120] ++ hexFixed 2 c          -- \xhh
  else if c < 65536 then [92, 117] ++ hexFixed 4 c        -- \uhhhh
  else [92, 85] ++ hexFixed 8 c                           -- \Uhhhhhhhh

def encodeNonAscii (s : Str) : Str := s.flatMap encodeChar

/-! ## `_quotes_for_string_value` -/

inductive Quote | bare | single | double | text
  deriving Repr, DecidableEq

def asciiLower (c : Nat) : Nat := if 65 ≤ c ∧ c ≤ 90 then c + 32 else c

/-- `value[0] in '_#$[];'` -/
def reservedLead (c : Nat) : Bool := c == 95 || c == 35 || c == 36 || c == 91 || c == 93 || c == 59

/-- `lower.startswith(('data_', 'save_')) or lower in ('loop_', 'stop_', 'global_')` -/
def reservedWord (v : Str) : Bool :=
  let l := v.map asciiLower
  [100, 97, 116, 97, 95].isPrefixOf l || [115, 97, 118, 101, 95].isPrefixOf l
    || l == [108, 111, 111, 112, 95] || l == [115, 116, 111, 112, 95]
    || l == [103, 108, 111, 98, 97, 108, 95]

def quotesFor (fix : Bool) (v : Str) : Quote :=
  if v.contains 10 then .text
  else if v.contains 39 then (if v.contains 34 then .text else .double)
  else if v.contains 34 then .single
  else if v.contains 32 then .single
  else if fix && v.contains 9 then .single
  else match v with
    | [] => .single                      -- so that empty strings are shown as ''
    | c :: _ => if fix && (reservedLead c || reservedWord v) then .single else .bare

def wrap (q : Quote) (s : Str) : Str :=
  match q with
  | .text => [59, 32] ++ s ++ [10, 59]       -- f'; {s}\n;'
  | .single => [39] ++ s ++ [39]
  | .double => [34] ++ s ++ [34]
  | .bare => s

/-- `_format_value` from the point where `s = str(value)` has been taken -/
def formatValue (var : Variant) (raw : Str) : Str :=
  let s := encodeNonAscii raw
  wrap (quotesFor var.quoteFix s) s

/-! ## `_write_comment` -/

/-- line boundaries of `str.splitlines` -/
def isLineBreak (c : Nat) : Bool :=
  c == 10 || c == 13 || c == 11 || c == 12 || c == 28 || c == 29 || c == 30
    || c == 133 || c == 8232 || c == 8233

/-- `str.splitlines()`; `cur` is the current line, reversed -/
def splitLinesAux : Str → Str → List Str
  | [], cur => if cur.isEmpty then [] else [cur.reverse]
  | [c], cur => if isLineBreak c then [cur.reverse] else [(c :: cur).reverse]
  | c :: d :: rest, cur =>
      if c = 13 ∧ d = 10 then cur.reverse :: splitLinesAux rest []
      else if isLineBreak c then cur.reverse :: splitLinesAux (d :: rest) []
      else splitLinesAux (d :: rest) (c :: cur)

def splitLines (s : Str) : List Str := splitLinesAux s []

def joinWith (sep : Str) : List Str → Str
  | [] => []
  | [x] => x
  | x :: y :: rest => x ++ sep ++ joinWith sep (y :: rest)

def writeComment (c : Str) : Str :=
  if c.isEmpty then [] else [35, 32] ++ joinWith [10, 35, 32] (splitLines c) ++ [10]

/-! ## Chunks, loops, blocks -/

structure Schema where
  name : Str
  version : Str
  location : Str
  deriving Repr, DecidableEq

/-- `schema=` argument: `None`, one schema or an iterable of schemas -/
abbrev SchemaArg := Option (List Schema)

structure Chunk where
  comment : Str
  pairs : List (Str × Str)
  schema : SchemaArg
  deriving Repr

structure Loop where
  comment : Str
  columns : List (Str × List Str)
  schema : SchemaArg
  deriving Repr

inductive Item
  | chunk (c : Chunk)
  | loop (l : Loop)
  deriving Repr

structure Block where
  name : Str
  comment : Str
  content : List Item
  schema : SchemaArg
  deriving Repr

def writePair (var : Variant) (kv : Str × Str) : Str :=
  let v := formatValue var kv.2
  if v.head? = some 59 then [95] ++ kv.1 ++ [10] ++ v ++ [10]
  else [95] ++ kv.1 ++ [32] ++ v ++ [10]

def Chunk.write (var : Variant) (c : Chunk) : Str :=
  writeComment (encodeNonAscii c.comment) ++ c.pairs.flatMap (writePair var)

/-- `zip(*columns)`: the rows of a list of equally long columns -/
def rowsOf {α : Type} : Nat → List (List α) → List (List α)
  | 0, _ => []
  | n + 1, cols => cols.filterMap List.head? :: rowsOf n (cols.map List.tail)

def Loop.nrows (l : Loop) : Nat := match l.columns with | [] => 0 | c :: _ => c.2.length

def Loop.formattedRows (var : Variant) (l : Loop) : List (List Str) :=
  (rowsOf l.nrows (l.columns.map (·.2))).map (·.map (formatValue var))

def writeTag (k : Str) : Str := [95] ++ k ++ [10]

def Loop.write (var : Variant) (l : Loop) : Str :=
  let rows := l.formattedRows var
  let sep : Str := if rows.any (·.any (·.contains 59)) then [10] else [32]
  writeComment (encodeNonAscii l.comment) ++ [108, 111, 111, 112, 95, 10]
    ++ l.columns.flatMap (fun c => writeTag c.1)
    ++ rows.flatMap (fun row => joinWith sep row ++ [10])

def Item.write (var : Variant) : Item → Str
  | .chunk c => c.write var
  | .loop l => l.write var

/-- `_write_multi`: items separated by one empty line -/
def writeMulti (texts : List Str) : Str := joinWith [10] texts

/-- `_preprocess_schema` (sets are duplicate-free lists; the iteration order of a Python set is
unspecified, so the order in which the schema loop lists them is an input: `perm`) -/
def preprocessSchema (core : Schema) : SchemaArg → List Schema
  | none => []
  | some l => (l ++ [core]).eraseDups

def Item.schema (core : Schema) : Item → List Schema
  | .chunk c => preprocessSchema core c.schema
  | .loop l => preprocessSchema core l.schema

/-- `Block.schema` -/
def Block.schemaSet (core : Schema) (b : Block) : List Schema :=
  (preprocessSchema core b.schema ++ b.content.flatMap (Item.schema core)).eraseDups

def isPermOfRange (perm : List Nat) (n : Nat) : Bool :=
  perm.length == n && (List.range n).all (fun i => perm.contains i)

/-- `_make_schema_loop` -/
def schemaLoop (ordered : List Schema) : Option Loop :=
  if ordered.isEmpty then none else
  some ⟨[], [(ofString "audit_conform.dict_name", ordered.map (·.name)),
             (ofString "audit_conform.dict_version", ordered.map (·.version)),
             (ofString "audit_conform.dict_location", ordered.map (·.location))], none⟩

/-- the name check of the `Block.name` setter -/
def Block.nameOk (b : Block) : Bool :=
  let n := encodeNonAscii b.name
  !(n.contains 32 || n.contains 9 || n.contains 10)

def Block.writeWith (var : Variant) (ordered : List Schema) (b : Block) : Str :=
  writeComment (encodeNonAscii b.comment)
    ++ [100, 97, 116, 97, 95] ++ encodeNonAscii b.name ++ [10, 10]
    ++ (match schemaLoop ordered with
        | some l => l.write var ++ [10]
        | none => [])
    ++ writeMulti (b.content.map (Item.write var))

/-- `Block.write`; `perm` gives the iteration order of the schema set -/
def Block.write (var : Variant) (core : Schema) (perm : List Nat) (b : Block) : Option Str :=
  let set := b.schemaSet core
  if isPermOfRange perm set.length then
    some (b.writeWith var (perm.filterMap (set[·]?)))
  else none

/-- `Block.copy`: `Block(name, list(content), comment=comment, schema=self.schema)` — note that the
constructor passes the merged set through `_preprocess_schema`, which adds the core schema -/
def Block.copy (core : Schema) (b : Block) : Block :=
  { b with schema := some (b.schemaSet core) }

/-- `_write_file_heading` -/
def fileHeading (var : Variant) (comment : Str) : Str :=
  [35, 92, 35, 67, 73, 70, 95, 49, 46, 49, 10]           -- #\#CIF_1.1
    ++ writeComment (if var.headingFix then encodeNonAscii comment else comment)

/-- `save_cif(fname, blocks, comment=…)` -/
def saveCif (var : Variant) (core : Schema) (comment : Str) (blocks : List (Block × List Nat)) :
    Option Str := do
  let texts ← blocks.mapM (fun bp => bp.1.write var core bp.2)
  pure (fileHeading var comment ++ writeMulti texts)

end ScnVerif.Cif
