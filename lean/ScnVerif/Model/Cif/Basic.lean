/-! Base types shared by the CIF writer model and the independent CIF parser. -/
namespace ScnVerif.Cif

/-- strings are lists of code points -/
abbrev Str := List Nat

def ofString (s : String) : Str := s.toList.map Char.toNat

end ScnVerif.Cif
