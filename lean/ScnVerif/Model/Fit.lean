/-!
# Model of `scippneutron.peaks` bookkeeping: `fit_peaks`, `remove_peaks`

Transcribed from `src/scippneutron/peaks/_fit_peaks.py`
(`fit_peaks`, `_fit_peak`, `_fit_peak_single_model`, `_fit_background`, `_perform_fit`,
`_goodness_of_fit_statistics`, `_chi_square`, `_akaike_information_criterion`, `_assess_fit`,
`_peak_is_near_edge`, `_curve_points_down`, `_peak_is_too_wide`, `_peak_is_too_narrow`,
`_fit_windows`, `_clip_to_data_range`, `_separate_from_neighbors_in_place`) and
`_remove_peaks.py` (`remove_peaks`).

What is NOT modelled but a *parameter* (`Env`): the optimiser (`fit`), the parameter guesses
(`guessOk`: a partial operation that may raise), the χ² cdf (`chi2cdf`), `log`, the model
functions (`evalModel`, `evalPeak`, `fwhm`) and `np.nextafter(·, +inf)` (`next`).
Every theorem in `Props/C17.lean` holds for every `Env`.

The carrier `α` is abstract: the same definitions run at `Float` (driver) and are reasoned about
over any linearly ordered field.

`Variant` records two shapes of the source that the translator (`harness/translate/fitcfg.py`)
reads off the working tree into `Gen/FitCfg.lean`:
* `clipFirst`  — `_fit_windows` clips to the data range *before* separating from neighbours;
* `clampIdx`   — `_peak_is_too_narrow` clamps the neighbour indices to the window
                 (otherwise raw Python indexing: `coord[-1]` wraps, `coord[n]` raises).
-/
namespace ScnVerif.Fit

inductive PeakKind | gaussian | lorentzian | pseudoVoigt
  deriving Repr, DecidableEq

def PeakKind.nParams : PeakKind → Nat
  | .pseudoVoigt => 4
  | _ => 3

/-- a model handed to the optimiser: background polynomial of `degree` (`degree+1` parameters),
alone (`peak = none`, the separate background fit) or plus a peak -/
structure ModelId where
  peak : Option PeakKind
  degree : Nat
  deriving Repr, DecidableEq

def ModelId.nParams (m : ModelId) : Nat :=
  (m.degree + 1) + (match m.peak with | none => 0 | some k => k.nParams)

inductive Assessment
  | success | failed | backgroundIsBetter | peakTooNarrow | peakTooWide | peakNearEdge
  | peakPointsDown | pTooSmall | windowTooNarrow
  deriving Repr, DecidableEq

/-- exceptions that escape `fit_peaks` / `remove_peaks` -/
inductive Err
  | guess   -- a parameter guess raised (e.g. `argmax of an empty sequence`)
  | index   -- `IndexError` (label slice with `end < begin`, `coord[n]`)
  | value   -- `ValueError` (unsorted estimates, empty model specification)
  deriving Repr, DecidableEq

structure Variant where
  clipFirst : Bool
  clampIdx : Bool
  deriving Repr, DecidableEq

structure Pt (α : Type) where
  x : α
  y : α
  var : α
  deriving Repr

structure Popt (α : Type) where
  bg : List α
  amplitude : α
  loc : α
  scale : α
  fraction : α
  deriving Repr

structure Stats (α : Type) where
  redChisq : α
  pValue : α
  aic : α
  deriving Repr

structure Req (α : Type) where
  minP : α
  maxWidthFactor : α
  minWidthFactor : α

/-- the uninterpreted parts -/
structure Env (α : Type) where
  next : α → α
  evalModel : ModelId → Popt α → α → α
  evalPeak : PeakKind → Popt α → α → α
  fwhm : PeakKind → Popt α → α
  chi2cdf : Nat → α → α
  log : α → α
  ofNat : Nat → α
  guessOk : PeakKind → Nat → List (Pt α) → Bool
  fit : ModelId → List (Pt α) → Option (Popt α)

structure Result (α : Type) where
  assessment : Assessment
  peak : PeakKind
  degree : Nat
  window : α × α
  popt : Option (Popt α)       -- `none`: the NaN parameters of `FitResult.for_failure`
  stats : Option (Stats α)     -- `none`: NaN, NaN, -inf
  calls : List ModelId         -- optimiser calls made for this result's peak, in order

def Result.success {α : Type} (r : Result α) : Bool := r.assessment == .success

/-! ## Fit windows -/
section Windows
variable {α : Type} [Add α] [Sub α] [Mul α] [Div α] [LT α] [DecidableLT α] [OfNat α 2]

/-- `_clip_to_data_range` on one edge: `where(w < lo, lo, w)` then `where(w > hi, hi, w)` -/
def clip1 (lo hi w : α) : α :=
  let w1 := if w < lo then lo else w
  if hi < w1 then hi else w1

/-- `center - width/2`, `nextafter(center + width/2, inf)` -/
def rawWindows (next : α → α) (centers : List α) (width : α) : List (α × α) :=
  centers.map (fun c => (c - width / 2, next (c + width / 2)))

def clipAll (dmin dmax : α) (ws : List (α × α)) : List (α × α) :=
  ws.map (fun w => (clip1 dmin dmax w.1, clip1 dmin dmax w.2))

/-- left edge against the left neighbour estimate `l`: `where(edge < lo, lo, edge)`,
`lo = l + (c - l) * factor` -/
def sepLo (f : α) (prev : Option α) (c lo : α) : α :=
  match prev with
  | none => lo
  | some l => let b := l + (c - l) * f; if lo < b then b else lo

/-- right edge against the right neighbour estimate `r`: `where(edge > hi, hi, edge)`,
`hi = r - (r - c) * factor` -/
def sepHi (f : α) (nxt : Option α) (c hi : α) : α :=
  match nxt with
  | none => hi
  | some r => let b := r - (r - c) * f; if b < hi then b else hi

/-- `_separate_from_neighbors_in_place` -/
def separate (f : α) : Option α → List α → List (α × α) → List (α × α)
  | _, [], _ => []
  | _, _, [] => []
  | prev, c :: cs, w :: ws =>
    (sepLo f prev c w.1, sepHi f cs.head? c w.2) :: separate f (some c) cs ws

/-- `sc.issorted(center, dim)` (ascending, ties allowed) -/
def isSorted : List α → Bool
  | [] => true
  | [_] => true
  | a :: b :: rest => !(decide (b < a)) && isSorted (b :: rest)

/-- `_fit_windows` -/
def fitWindows (V : Variant) (next : α → α) (dmin dmax : α) (centers : List α) (width f : α) :
    Except Err (List (α × α)) :=
  let raw := rawWindows next centers width
  if V.clipFirst then
    let c := clipAll dmin dmax raw
    if isSorted centers then .ok (separate f none centers c) else .error .value
  else
    if isSorted centers then .ok (clipAll dmin dmax (separate f none centers raw)) else .error .value

end Windows

/-! ## Label-based slicing `data[dim, lo:hi]` on a sorted point coordinate -/
section Slice
variable {α : Type} [LT α] [DecidableLT α]

/-- first index whose coordinate is `≥ v` -/
def lowerIdx (v : α) : List α → Nat
  | [] => 0
  | x :: xs => if x < v then lowerIdx v xs + 1 else 0

/-- index range `[begin, end)` of the label slice; scipp raises `IndexError` when `end < begin` -/
def sliceRange (xs : List α) (w : α × α) : Except Err (Nat × Nat) :=
  let b := lowerIdx w.1 xs
  let e := lowerIdx w.2 xs
  if e < b then .error .index else .ok (b, e)

def sliceList {β : Type} (l : List β) (r : Nat × Nat) : List β := (l.drop r.1).take (r.2 - r.1)

end Slice

/-! ## Goodness of fit and assessment -/
section Assess
variable {α : Type} [Add α] [Sub α] [Mul α] [Div α] [LT α] [DecidableLT α]
  [OfNat α 0] [OfNat α 1] [OfNat α 2]

/-- `_chi_square`: `sum((values(data) - best_fit)**2 / variances(data))` -/
def chiSquare (f : α → α) (pts : List (Pt α)) : α :=
  pts.foldl (fun acc p => acc + (p.y - f p.x) * (p.y - f p.x) / p.var) 0

/-- `_goodness_of_fit_statistics` for model `m` with parameters `popt` on the window data -/
def goodness (E : Env α) (m : ModelId) (pts : List (Pt α)) (popt : Popt α) : Stats α :=
  let n := pts.length
  let k := m.nParams
  let ndof := n - k
  let chi := chiSquare (E.evalModel m popt) pts
  { redChisq := chi / E.ofNat ndof
    pValue := 1 - E.chi2cdf ndof chi
    aic := E.ofNat n * E.log (chi / E.ofNat n) + E.ofNat (2 * k) }

/-- `coord[1:] - coord[:-1]` -/
def diffs : List α → List α
  | a :: b :: rest => (b - a) :: diffs (b :: rest)
  | _ => []

/-- `sc.min` (of a non-empty list; windows that reach this point have at least five points) -/
def minList : List α → α
  | [] => 0
  | d :: ds => ds.foldl (fun m d => if d < m then d else m) d

/-- `sc.min(coord[1:] - coord[:-1])` -/
def minStep (xs : List α) : α := minList (diffs xs)

/-- `_peak_is_near_edge` -/
def nearEdge (xs : List α) (loc : α) : Bool :=
  let step := minStep xs
  let x0 := xs.headD 0
  let xN := xs.getLastD 0
  decide (loc - x0 < 2 * step) || decide (xN - loc < 2 * step)

def absSub (a b : α) : α := if a - b < 0 then b - a else a - b

/-- `np.argmin(abs(coord.values - loc))`: first index of the minimum -/
def argminAbs (loc : α) : List α → Nat
  | [] => 0
  | x :: xs =>
    let rec go (best : α) (bi : Nat) (i : Nat) : List α → Nat
      | [] => bi
      | y :: ys => if absSub y loc < best then go (absSub y loc) i (i + 1) ys else go best bi (i + 1) ys
    go (absSub x loc) 0 1 xs

/-- `_peak_is_too_narrow`: `fwhm < min_peak_width_factor * bin_width` -/
def tooNarrow (V : Variant) (R : Req α) (xs : List α) (fwhm loc : α) : Except Err Bool :=
  let n := xs.length
  let ci := argminAbs loc xs
  if V.clampIdx then
    let lo := ci - 1                                   -- max(ci - 1, 0)
    let hi := if ci + 1 < n then ci + 1 else n - 1     -- min(ci + 1, n - 1)
    let bw := (xs.getD hi 0 - xs.getD lo 0) / (if hi - lo = 2 then 2 else 1)
    .ok (decide (fwhm < R.minWidthFactor * bw))
  else
    if n ≤ ci + 1 then .error .index                   -- `coord[center_idx + 1]` out of range
    else
      let lo := if ci = 0 then n - 1 else ci - 1       -- `coord[-1]` is the last element
      let bw := (xs.getD (ci + 1) 0 - xs.getD lo 0) / 2
      .ok (decide (fwhm < R.minWidthFactor * bw))

/-- `_peak_is_too_wide`: `fwhm > max_peak_width_factor * (coord[-1] - coord[0])` -/
def tooWide (R : Req α) (xs : List α) (fwhm : α) : Bool :=
  decide (R.maxWidthFactor * (xs.getLastD 0 - xs.headD 0) < fwhm)

/-- `_assess_fit`, the cascade in source order -/
def assessFit (V : Variant) (E : Env α) (R : Req α) (xs : List α) (pk : PeakKind) (popt : Popt α)
    (st : Stats α) (bkg : Option (Stats α)) : Except Err Assessment :=
  if (match bkg with | some b => decide (b.aic < st.aic) | none => false) then .ok .backgroundIsBetter
  else if st.pValue < R.minP then .ok .pTooSmall
  else if nearEdge xs popt.loc then .ok .peakNearEdge
  else if popt.amplitude < 0 then .ok .peakPointsDown
  else if tooWide R xs (E.fwhm pk popt) then .ok .peakTooWide
  else
    match tooNarrow V R xs (E.fwhm pk popt) popt.loc with
    | .error e => .error e
    | .ok true => .ok .peakTooNarrow
    | .ok false => .ok .success

/-- `FitResult.for_failure` -/
def failure (a : Assessment) (pk : PeakKind) (deg : Nat) (w : α × α) (calls : List ModelId) : Result α :=
  { assessment := a, peak := pk, degree := deg, window := w, popt := none, stats := none, calls := calls }

/-- `_fit_peak_single_model` -/
def fitPeakSingle (V : Variant) (E : Env α) (R : Req α) (pts : List (Pt α)) (w : α × α)
    (pk : PeakKind) (deg : Nat) : Except Err (Result α) :=
  let m : ModelId := ⟨some pk, deg⟩
  let b : ModelId := ⟨none, deg⟩
  if pts.length < m.nParams then .ok (failure .windowTooNarrow pk deg w [])
  else if !E.guessOk pk deg pts then .error .guess
  else
    let bkg := (E.fit b pts).map (goodness E b pts)
    match E.fit m pts with
    | none => .ok (failure .failed pk deg w [b, m])
    | some popt =>
      let st := goodness E m pts popt
      match assessFit V E R (pts.map (·.x)) pk popt st bkg with
      | .error e => .error e
      | .ok a => .ok { assessment := a, peak := pk, degree := deg, window := w,
                       popt := some popt, stats := some st, calls := [b, m] }

/-- the loop of `_fit_peak` over the remaining candidates; `cand` is the first failed result kept
as a fallback; `calls` accumulates the optimiser calls -/
def fitPeakLoop (V : Variant) (E : Env α) (R : Req α) (pts : List (Pt α)) (w : α × α) :
    Option (Result α) → List ModelId → List (PeakKind × Nat) → Except Err (Option (Result α))
  | cand, calls, [] => .ok (cand.map (fun r => { r with calls := calls }))
  | cand, calls, (pk, deg) :: rest =>
    match fitPeakSingle V E R pts w pk deg with
    | .error e => .error e
    | .ok r =>
      if r.success then .ok (some { r with calls := calls ++ r.calls })
      else fitPeakLoop V E R pts w (cand.orElse (fun _ => some r)) (calls ++ r.calls) rest

/-- `itertools.product(peaks, backgrounds)` -/
def candidates (peaks : List PeakKind) (bgs : List Nat) : List (PeakKind × Nat) :=
  peaks.flatMap (fun p => bgs.map (fun b => (p, b)))

/-- `_fit_peak` (`none` is Python's `None`, returned when there is no candidate at all) -/
def fitPeak (V : Variant) (E : Env α) (R : Req α) (pts : List (Pt α)) (w : α × α)
    (cands : List (PeakKind × Nat)) : Except Err (Option (Result α)) :=
  fitPeakLoop V E R pts w none [] cands

/-- one window of the loop in `fit_peaks`: slice, then `_fit_peak` -/
def fitWindow (V : Variant) (E : Env α) (R : Req α) (pts : List (Pt α))
    (cands : List (PeakKind × Nat)) (w : α × α) : Except Err (Option (Result α)) :=
  match sliceRange (pts.map (·.x)) w with
  | .error e => .error e
  | .ok r => fitPeak V E R (sliceList pts r) w cands

/-- the loop of `fit_peaks`: the first exception aborts everything -/
def fitAll (V : Variant) (E : Env α) (R : Req α) (pts : List (Pt α)) (cands : List (PeakKind × Nat)) :
    List (α × α) → Except Err (List (Option (Result α)))
  | [] => .ok []
  | w :: ws =>
    match fitWindow V E R pts cands w with
    | .error e => .error e
    | .ok r =>
      match fitAll V E R pts cands ws with
      | .error e => .error e
      | .ok rs => .ok (r :: rs)

/-- `fit_peaks` with explicit windows (`_parse_model_spec` rejects an empty specification) -/
def fitPeaks (V : Variant) (E : Env α) (R : Req α) (pts : List (Pt α)) (peaks : List PeakKind)
    (bgs : List Nat) (windows : List (α × α)) : Except Err (List (Option (Result α))) :=
  if bgs.isEmpty || peaks.isEmpty then .error .value
  else fitAll V E R pts (candidates peaks bgs) windows

/-- `fit_peaks` with a scalar window width -/
def fitPeaksAuto (V : Variant) (E : Env α) (R : Req α) (pts : List (Pt α)) (peaks : List PeakKind)
    (bgs : List Nat) (centers : List α) (width f : α) : Except Err (List (Option (Result α))) :=
  if bgs.isEmpty || peaks.isEmpty then .error .value
  else
    let xs := pts.map (·.x)
    match fitWindows V E.next (xs.headD 0) (xs.getLastD 0) centers width f with
    | .error e => .error e
    | .ok ws => fitAll V E R pts (candidates peaks bgs) ws

end Assess

/-! ## `remove_peaks`

The data values live in a two-cell memory: cell `caller` is the buffer of the argument, cell
`work` the buffer that `data` refers to inside the function. `copyFirst = true` is the code as
written (`data.data = data.data.copy()`); without the copy both names denote the caller's buffer. -/
section Remove
variable {α : Type} [Sub α] [LT α] [DecidableLT α]

/-- subtract `g x` from the values with index in `[b, e)` -/
def subRange (g : α → α) (b e : Nat) : Nat → List (α × α) → List (α × α)
  | _, [] => []
  | i, (x, y) :: rest =>
    (x, if b ≤ i ∧ i < e then y - g x else y) :: subRange g b e (i + 1) rest

/-- one iteration of the loop of `remove_peaks` -/
def removeOne (E : Env α) (data : List (α × α)) (r : Result α) : Except Err (List (α × α)) :=
  if !r.success then .ok data
  else
    match r.popt with
    | none => .ok data     -- cannot happen for a successful result; `eval_peak` of NaN parameters
    | some popt =>
      match sliceRange (data.map (·.1)) r.window with
      | .error e => .error e
      | .ok (b, e) => .ok (subRange (E.evalPeak r.peak popt) b e 0 data)

def removeLoop (E : Env α) : List (α × α) → List (Result α) → Except Err (List (α × α))
  | data, [] => .ok data
  | data, r :: rs =>
    match removeOne E data r with
    | .error e => .error e
    | .ok d => removeLoop E d rs

structure Mem (α : Type) where
  caller : List (α × α)
  work : List (α × α)

/-- `remove_peaks`: returns the caller's buffer afterwards and the returned data -/
def removePeaks (copyFirst : Bool) (E : Env α) (data : List (α × α)) (rs : List (Result α)) :
    Except Err (Mem α) :=
  match removeLoop E data rs with
  | .error e => .error e
  | .ok out => .ok (if copyFirst then ⟨data, out⟩ else ⟨out, out⟩)

end Remove

end ScnVerif.Fit
