/-!
# Model of `scippneutron.atoms` (lookup of bundled nuclear data) and of
`Material.attenuation_coefficient`.

Transcribed from `src/scippneutron/atoms/__init__.py`:
`_find_line_with_isotope`, `_parse_isotope_name`, `_load_atomic_weight`, `_load_atomic_mass`,
`ScatteringParams._parse_line`, `_assemble_scalar`, `Atom.for_isotope`,
`ScatteringParams.for_isotope`.  Numbers stay *strings*: `float(str)` is Python's and is
checked by the correspondence (`float(model string) == implementation value`, bitwise).
-/
namespace ScnVerif.Atoms

/-- Strings are lists of byte codes (UTF-8; the tables are ASCII). Python `str` equality is
code-point equality, which coincides with equality of the UTF-8 bytes. Byte lists (rather than
`String`) keep the table facts cheap for the Lean kernel (`decide +kernel`). -/
abbrev Str := List Nat

def ofString (s : String) : Str := s.toUTF8.toList.map (·.toNat)

/-- one physical line of a CSV file, already split at the first comma by the translator;
`rest = none` when the line has no comma (Python would raise `ValueError` on unpacking). -/
structure Line where
  name : Str
  rest : Option Str
  deriving Repr, DecidableEq

inductive Err | value | type
  deriving Repr, DecidableEq

/-- `_find_line_with_isotope`: first line whose first field equals `name`. -/
def findLine (name : Str) : List Line → Except Err (Option Str)
  | [] => .ok none
  | l :: ls =>
    match l.rest with
    | none => .error .value            -- `name, rest = line.split(',', 1)` fails to unpack
    | some r => if l.name = name then .ok (some r) else findLine name ls

/-- Python `str.rstrip()` for the ASCII whitespace that can occur (space, \t, \n, \r, \v, \f). -/
def isSpace (c : Nat) : Bool :=
  c = 32 || c = 9 || c = 10 || c = 13 || c = 11 || c = 12 || c = 28 || c = 29 || c = 30 || c = 31

def rstrip (cs : Str) : Str := (cs.reverse.dropWhile isSpace).reverse

/-- `str.split(',')` -/
def splitCommas : Str → List Str
  | [] => [[]]
  | c :: cs =>
    match splitCommas cs with
    | [] => [[]]   -- unreachable
    | f :: fs => if c = 44 then [] :: f :: fs else (c :: f) :: fs

def fields (rest : Str) : List Str := splitCommas (rstrip rest)

/-- `_assemble_scalar(value, std, unit)`: `None` iff the value field is blank; the variance is
present iff the std field is non-blank. Numbers kept as strings. -/
inductive UnitId | fm | barn | Da
  deriving Repr, DecidableEq

structure Scalar where
  value : Str
  std : Option Str
  unit : UnitId
  deriving Repr, DecidableEq

def assembleScalar (value std : Str) (unit : UnitId) : Option Scalar :=
  if value.isEmpty then none
  else some ⟨value, if std.isEmpty then none else some std, unit⟩

def isDigit (c : Nat) : Bool := 48 ≤ c && c ≤ 57
def isAlpha (c : Nat) : Bool := (97 ≤ c && c ≤ 122) || (65 ≤ c && c ≤ 90)

/-- `re.match(r'(?:\d+)?([a-zA-Z]+)', name)[1]` for ASCII input: skip leading digits, take the
maximal run of letters; no letters ⇒ `None[1]` ⇒ `TypeError`. -/
def parseIsotopeName (name : Str) : Except Err Str :=
  let afterDigits := name.dropWhile isDigit
  let letters := afterDigits.takeWhile isAlpha
  if letters.isEmpty then .error .type else .ok letters

/-- tables: raw lines of the three files (headers included) -/
structure Tables where
  scattering : List Line
  weights : List Line
  masses : List Line

/-- `_load_atomic_weight`: skip 2 lines, find, split into exactly 3 fields. -/
def loadAtomicWeight (t : Tables) (element : Str) : Except Err (Str × Option Scalar) := do
  match ← findLine element (t.weights.drop 2) with
  | none => .error .value
  | some rest =>
    if rest.isEmpty then .error .value else    -- `if line_remainder := …` is falsy for ''
    match fields rest with
    | [z, w, e] => .ok (z, assembleScalar w e .Da)
    | _ => .error .value                       -- unpacking `z, weight, error = …`

/-- `_load_atomic_mass` -/
def loadAtomicMass (t : Tables) (isotope : Str) : Except Err (Option Scalar) := do
  match ← findLine isotope (t.masses.drop 2) with
  | none => .error .value
  | some rest =>
    if rest.isEmpty then .error .value else
    match fields rest with
    | [w, e] => .ok (assembleScalar w e .Da)
    | _ => .error .value

structure Atom where
  isotope : Str
  z : Str          -- decimal text of the Z column (`int(z)` is Python's)
  weight : Option Scalar
  mass : Option Scalar
  deriving Repr, DecidableEq

/-- `Atom.for_isotope` -/
def atomForIsotope (t : Tables) (isotope : Str) : Except Err Atom := do
  let element ← parseIsotopeName isotope
  let (z, weight) ← loadAtomicWeight t element
  let mass ← if element = isotope then pure none else loadAtomicMass t isotope
  pure ⟨isotope, z, weight, mass⟩

structure ScatteringParams where
  isotope : Str
  cohRe : Option Scalar
  cohIm : Option Scalar
  incRe : Option Scalar
  incIm : Option Scalar
  cohXs : Option Scalar
  incXs : Option Scalar
  totXs : Option Scalar
  absXs : Option Scalar
  deriving Repr, DecidableEq

/-- `ScatteringParams._parse_line`: needs at least 16 fields (`line[15]`), extra ones ignored. -/
def parseScatteringLine (isotope rest : Str) : Except Err ScatteringParams :=
  match fields rest with
  | f0 :: f1 :: f2 :: f3 :: f4 :: f5 :: f6 :: f7 :: f8 :: f9 :: f10 :: f11 :: f12 :: f13 :: f14 :: f15 :: _ =>
    .ok ⟨isotope,
      assembleScalar f0 f1 .fm, assembleScalar f2 f3 .fm,
      assembleScalar f4 f5 .fm, assembleScalar f6 f7 .fm,
      assembleScalar f8 f9 .barn, assembleScalar f10 f11 .barn,
      assembleScalar f12 f13 .barn, assembleScalar f14 f15 .barn⟩
  | _ => .error .value     -- IndexError in Python; mapped to the same enum by the harness

/-- `ScatteringParams.for_isotope` -/
def scatteringForIsotope (t : Tables) (isotope : Str) : Except Err ScatteringParams := do
  match ← findLine isotope t.scattering with
  | none => .error .value
  | some rest => if rest.isEmpty then .error .value else parseScatteringLine isotope rest

/-! ## Attenuation coefficient (`absorption/material.py`)

`n * (σ_s + (σ_a * (λ / λ_ref.to(unit=λ.unit))).to(unit=σ_s.unit))`.
A quantity is a value together with the scale of its unit (SI units per unit);
`toUnit v sFrom sTo = v * (sFrom / sTo)`. -/

section Attenuation
variable {α : Type} [Mul α] [Div α] [Add α]

def toUnit (v sFrom sTo : α) : α := v * (sFrom / sTo)

/-- value of the attenuation coefficient, expressed in unit `sN * sS` (number-density unit times
cross-section unit). `lamRef` is the numeric value 1.7982 and `sAng` the scale of ångström. -/
def attenuation (n sigS sigA lam lamRef : α) (sS sA sLam sAng : α) : α :=
  n * (sigS + toUnit (sigA * (lam / toUnit lamRef sAng sLam)) sA sS)

end Attenuation

/-- `int(z)` for a plain ASCII decimal field -/
def parseNat (s : Str) : Option Nat :=
  if s.isEmpty then none else
  s.foldl (fun acc c => acc.bind (fun a => if isDigit c then some (a * 10 + (c - 48)) else none)) (some 0)

end ScnVerif.Atoms
