import ScnVerif.Model.Arith
/-!
# Model of `scippneutron.peaks.model`

Transcribed from `src/scippneutron/peaks/model.py`:

* numeric kernels `_gaussian`, `_lorentzian`, `PseudoVoigtModel._call`, `PolynomialModel._call`
  (written once over an abstract carrier: executed at `Float`, reasoned about at `ℝ`), in the
  operation order of the code (`val = x - loc; val *= val; val /= -2*scale**2; exp; val *= A/(√(2π)·scale)`),
  including the guard `scale = max(scale.value, 1e-15)`;
* `fwhm` of the three peaked models;
* unit propagation of every scipp operation used (a unit is an exponent vector; `+`/`-` demand equal
  units, `exp` demands dimensionless, `*`, `/` add / subtract exponents);
* the parameter-name logic of `Model.__init__`, `Model.__call__` (exact key-set check, prefix strip
  by length), `CompositeModel.__init__` (overlap check), `CompositeModel._call`, `with_prefix`,
  `param_bounds`, `fwhm` key lookup.

Strings are lists of UTF-8 byte codes.
-/
namespace ScnVerif.PeakModels

abbrev Str := List Nat

/-- `math.log(2)`, the one constant of the code that `Trans` does not provide -/
class Consts (α : Type) where
  ln2 : α

instance : Consts Float := ⟨0.6931471805599453⟩

/-! ## numeric kernels -/
section kernels
variable {α : Type} [Add α] [Sub α] [Mul α] [Div α] [Neg α] [Max α] [OfScientific α] [Trans α]
  [Consts α]

/-- `max(scale.value, 1e-15)` ("avoid division by 0") -/
def guardScale (scale : α) : α := max scale 1e-15

/-- `_gaussian(x, amplitude, loc, scale)` in the code's operation order -/
def gaussian (amplitude loc scale x : α) : α :=
  let s := guardScale scale
  let v := x - loc
  let v := v * v
  let v := v / (-2.0 * (s * s))
  let v := Trans.exp v
  v * (amplitude / (Trans.sqrt (2.0 * Trans.pi) * s))

/-- `_lorentzian(x, amplitude, loc, scale)` in the code's operation order -/
def lorentzian (amplitude loc scale x : α) : α :=
  let s := guardScale scale
  let v := x - loc
  let v := v * v
  let v := v + s * s
  let v := 1.0 / v
  v * (amplitude * s / Trans.pi)

/-- `scale / math.sqrt(2 * math.log(2))`: Gaussian scale giving the same FWHM as the Lorentzian -/
def pvGaussScale (scale : α) : α := scale / Trans.sqrt (2.0 * Consts.ln2)

/-- `PseudoVoigtModel._call` -/
def pseudoVoigt (amplitude loc scale fraction x : α) : α :=
  fraction * lorentzian amplitude loc scale x
    + (1.0 - fraction) * gaussian amplitude loc (pvGaussScale scale) x

/-- `GaussianModel.fwhm`: `2 * math.sqrt(2 * math.log(2)) * scale` -/
def gaussianFwhm (scale : α) : α := 2.0 * Trans.sqrt (2.0 * Consts.ln2) * scale
/-- `LorentzianModel.fwhm`, `PseudoVoigtModel.fwhm`: `2 * scale` -/
def lorentzianFwhm (scale : α) : α := 2.0 * scale
def pseudoVoigtFwhm (scale : α) : α := 2.0 * scale

/-- `PolynomialModel._call`: `val = a_n; for i = n-1 … 0: val *= x; val += a_i`.
`hi` is the leading coefficient, `lower` the remaining ones from `a_{n-1}` down to `a_0`. -/
def hornerDesc (x : α) (hi : α) (lower : List α) : α :=
  lower.foldl (fun v a => v * x + a) hi

/-- polynomial with coefficients `a_0 :: a_1 :: …` (ascending, as the parameters are named) -/
def polynomial (a0 : α) (as : List α) (x : α) : α :=
  match (a0 :: as).reverse with
  | [] => a0   -- unreachable
  | hi :: lower => hornerDesc x hi lower

end kernels

/-! ## units -/

/-- a unit: exponents of metre, second, counts and of ten (multiplier); `mm = ⟨1,0,0,-3⟩` -/
structure U where
  m : Int
  s : Int
  c : Int
  p10 : Int
  deriving DecidableEq, Repr

namespace U
def one : U := ⟨0, 0, 0, 0⟩
def mul (a b : U) : U := ⟨a.m + b.m, a.s + b.s, a.c + b.c, a.p10 + b.p10⟩
def div (a b : U) : U := ⟨a.m - b.m, a.s - b.s, a.c - b.c, a.p10 - b.p10⟩
end U

structure Value (α : Type) where
  val : α
  unit : U

inductive Err | value | unit | key | notimpl | dtype
  deriving DecidableEq, Repr

section valued
variable {α : Type} [Add α] [Sub α] [Mul α] [Div α] [Neg α] [Max α] [OfScientific α] [Trans α]
  [Consts α]

/-- scipp `a + b` / `a - b` / `a += b`: units must be equal -/
def sameUnit (a b : U) : Except Err Unit := if a = b then .ok () else .error .unit

/-- `_gaussian` on scipp variables: value by `gaussian`, unit and unit errors as scipp raises them -/
def gaussianV (amplitude loc scale x : Value α) : Except Err (Value α) := do
  sameUnit x.unit loc.unit                                   -- x - loc
  let u := U.div (U.mul x.unit x.unit) (U.mul scale.unit scale.unit)   -- val*val / (-2*scale**2)
  sameUnit u U.one                                           -- sc.exp demands dimensionless
  pure ⟨gaussian amplitude.val loc.val scale.val x.val,
        U.mul u (U.div amplitude.unit scale.unit)⟩

/-- `_lorentzian` on scipp variables -/
def lorentzianV (amplitude loc scale x : Value α) : Except Err (Value α) := do
  sameUnit x.unit loc.unit
  let u := U.mul x.unit x.unit
  sameUnit u (U.mul scale.unit scale.unit)                   -- val += scale**2
  pure ⟨lorentzian amplitude.val loc.val scale.val x.val,
        U.mul (U.div U.one u) (U.mul amplitude.unit scale.unit)⟩

/-- `PseudoVoigtModel._call` on scipp variables -/
def pseudoVoigtV (amplitude loc scale fraction x : Value α) : Except Err (Value α) := do
  let l ← lorentzianV amplitude loc scale x
  let g ← gaussianV amplitude loc ⟨pvGaussScale scale.val, scale.unit⟩ x
  sameUnit U.one fraction.unit                                -- 1 - fraction
  sameUnit (U.mul fraction.unit l.unit) (U.mul fraction.unit g.unit)  -- … + …
  pure ⟨pseudoVoigt amplitude.val loc.val scale.val fraction.val x.val, U.mul fraction.unit l.unit⟩

/-- unit bookkeeping of the Horner loop: `val *= x; val += a_i` -/
def hornerUnits (xu : U) (hi : U) : List U → Except Err U
  | [] => .ok hi
  | a :: rest => do
      sameUnit (U.mul hi xu) a
      hornerUnits xu a rest

/-- `PolynomialModel._call` on scipp variables; coefficients ascending -/
def polynomialV (a0 : Value α) (as : List (Value α)) (x : Value α) : Except Err (Value α) :=
  match ((a0 :: as).map (·.unit)).reverse with
  | [] => .error .key
  | hi :: lower => do
      let u ← hornerUnits x.unit hi lower
      pure ⟨polynomial a0.val (as.map (·.val)) x.val, u⟩

end valued

/-! ## parameter names -/

/-- decimal rendering of a natural number (`f'a{i}'`) -/
def natDigitsAux : Nat → Nat → List Nat → List Nat
  | 0, _, acc => acc
  | fuel + 1, n, acc =>
    if n < 10 then (48 + n) :: acc else natDigitsAux fuel (n / 10) ((48 + n % 10) :: acc)
def natDigits (n : Nat) : Str := natDigitsAux (n + 1) n []

def sAmplitude : Str := [97, 109, 112, 108, 105, 116, 117, 100, 101]
def sLoc : Str := [108, 111, 99]
def sScale : Str := [115, 99, 97, 108, 101]
def sFraction : Str := [102, 114, 97, 99, 116, 105, 111, 110]
/-- `f'a{i}'` -/
def sCoef (i : Nat) : Str := 97 :: natDigits i

/-- the model classes with their constructor arguments -/
inductive M where
  | gaussian (pre : Str)
  | lorentzian (pre : Str)
  | pseudoVoigt (pre : Str)
  | polynomial (degree : Nat) (pre : Str)
  | composite (l r : M) (pre : Str)
  deriving Repr

namespace M

def pre : M → Str
  | gaussian p | lorentzian p | pseudoVoigt p | polynomial _ p | composite _ _ p => p

/-- `model._param_names` (without this model's prefix; a composite's own names are the
prefixed names of its parts) and `model.param_names` (with it) -/
def names : M → List Str × List Str
  | gaussian p => let own := [sAmplitude, sLoc, sScale]; (own, own.map (p ++ ·))
  | lorentzian p => let own := [sAmplitude, sLoc, sScale]; (own, own.map (p ++ ·))
  | pseudoVoigt p => let own := [sAmplitude, sLoc, sScale, sFraction]; (own, own.map (p ++ ·))
  | polynomial d p => let own := (List.range (d + 1)).map sCoef; (own, own.map (p ++ ·))
  | composite l r p => let own := (names l).2 ++ (names r).2; (own, own.map (p ++ ·))

def ownNames (m : M) : List Str := (names m).1
def paramNames (m : M) : List Str := (names m).2

/-- `with_prefix` -/
def withPrefix (q : Str) : M → M
  | gaussian _ => gaussian q
  | lorentzian _ => lorentzian q
  | pseudoVoigt _ => pseudoVoigt q
  | polynomial d _ => polynomial d q
  | composite l r _ => composite l r q

end M

/-- `PolynomialModel.__init__`: `degree <= 0` is refused -/
def mkPolynomial (degree : Int) (pre : Str) : Except Err M :=
  if degree ≤ 0 then .error .value else .ok (.polynomial degree.toNat pre)

/-- `CompositeModel.__init__`: overlapping parameter names are refused -/
def mkComposite (l r : M) (pre : Str) : Except Err M :=
  if l.paramNames.any (fun n => r.paramNames.contains n) then .error .value
  else .ok (.composite l r pre)

/-- set equality of two key collections (`params.keys() != self.param_names`) -/
def sameKeys (a b : List Str) : Bool := a.all (b.contains ·) && b.all (a.contains ·)

/-- `{name[len(prefix):]: val for name, val in params.items()}` -/
def stripKeys {β : Type} (p : Str) (params : List (Str × β)) : List (Str × β) :=
  params.map (fun kv => (kv.1.drop p.length, kv.2))

/-- `{name: params[name] for name in sub.param_names}` (`none` = KeyError) -/
def selectKeys {β : Type} (ns : List Str) (params : List (Str × β)) : Option (List (Str × β)) :=
  ns.mapM (fun n => (params.lookup n).map (fun v => (n, v)))

section call
variable {α : Type} [Add α] [Sub α] [Mul α] [Div α] [Neg α] [Max α] [OfScientific α] [Trans α]
  [Consts α]

def get (ps : List (Str × Value α)) (n : Str) : Except Err (Value α) :=
  match ps.lookup n with
  | some v => .ok v
  | none => .error .key

/-- the leaf `_call`s on stripped parameter dictionaries -/
def callLeaf (m : M) (x : Value α) (ps : List (Str × Value α)) : Except Err (Value α) :=
  match m with
  | .gaussian _ => do
      gaussianV (← get ps sAmplitude) (← get ps sLoc) (← get ps sScale) x
  | .lorentzian _ => do
      lorentzianV (← get ps sAmplitude) (← get ps sLoc) (← get ps sScale) x
  | .pseudoVoigt _ => do
      pseudoVoigtV (← get ps sAmplitude) (← get ps sLoc) (← get ps sScale) (← get ps sFraction) x
  | .polynomial d _ => do
      let a0 ← get ps (sCoef 0)
      let as ← ((List.range d).map (· + 1)).mapM (fun i => get ps (sCoef i))
      polynomialV a0 as x
  | .composite .. => .error .notimpl

/-- `Model.__call__` of a leaf model: refuse unless the keys are exactly the prefixed parameter
names, strip the prefix, evaluate. -/
def callChecked (m : M) (x : Value α) (params : List (Str × Value α)) : Except Err (Value α) :=
  if !sameKeys (params.map (·.1)) m.paramNames then .error .value else
  callLeaf m x (stripKeys m.pre params)

/-- `Model.__call__`; a composite (after the same key check and prefix strip) evaluates its parts
through *their* `__call__` on the selected sub-dictionaries and adds the results. -/
def call : M → Value α → List (Str × Value α) → Except Err (Value α)
  | .composite l r p, x, params =>
    if !sameKeys (params.map (·.1)) (M.paramNames (.composite l r p)) then .error .value else
    let ps := stripKeys p params
    match selectKeys l.paramNames ps, selectKeys r.paramNames ps with
    | some pl, some pr => do
        let a ← call l x pl
        let b ← call r x pr
        sameUnit a.unit b.unit
        pure ⟨a.val + b.val, a.unit⟩
    | _, _ => .error .key
  | .gaussian p, x, params => callChecked (.gaussian p) x params
  | .lorentzian p, x, params => callChecked (.lorentzian p) x params
  | .pseudoVoigt p, x, params => callChecked (.pseudoVoigt p) x params
  | .polynomial d p, x, params => callChecked (.polynomial d p) x params

/-- `model.fwhm(params)`: looks the scale up under its *prefixed* name -/
def fwhm (m : M) (params : List (Str × Value α)) : Except Err (Value α) :=
  match m with
  | .gaussian p => do let s ← get params (p ++ sScale); pure ⟨gaussianFwhm s.val, s.unit⟩
  | .lorentzian p => do let s ← get params (p ++ sScale); pure ⟨lorentzianFwhm s.val, s.unit⟩
  | .pseudoVoigt p => do let s ← get params (p ++ sScale); pure ⟨pseudoVoigtFwhm s.val, s.unit⟩
  | _ => .error .notimpl

end call

/-- bounds as the code spells them: `(0, inf)` for scales, `(0, 1)` for the fraction -/
inductive Bound | zeroInf | zeroOne
  deriving DecidableEq, Repr

/-- `model.param_bounds` (keys with prefix). Python's dict union keeps the right value for a
repeated key; the parts of a composite have disjoint names, so the union is a concatenation. -/
def paramBounds : M → List (Str × Bound)
  | .gaussian p => [(p ++ sScale, .zeroInf)]
  | .lorentzian p => [(p ++ sScale, .zeroInf)]
  | .pseudoVoigt p => [(p ++ sScale, .zeroInf), (p ++ sFraction, .zeroOne)]
  | .polynomial _ _ => []
  | .composite l r p => (paramBounds l ++ paramBounds r).map (fun kb => (p ++ kb.1, kb.2))

/-! ## element types

scipp's dtype rules for the operations the kernels use, read off the library (probed over all
pairs of float64 / float32 / int64 / int32): binary `+ - *` promote (any float64 → float64, else any
float32 → float32, else any int64 → int64); `/` of two integers is float64; in-place operations keep
the dtype of the left operand and are refused (`DTypeError`) for an integer left operand with a
floating right operand, and for integer `/=`; `pow(·, 2)` is refused for int32, `exp` and
`reciprocal` for integers; `python_float * v` and `v / python_float` are float64;
`python_int * v` and `1 - v` keep floats and make integers int64. The functions below follow the
kernels statement by statement and return the dtype of the result or the refusal. -/

inductive DT | f64 | f32 | i64 | i32
  deriving DecidableEq, Repr

namespace DT
def isFloat : DT → Bool | f64 | f32 => true | _ => false
/-- `a + b`, `a - b`, `a * b` -/
def promote : DT → DT → DT
  | f64, _ | _, f64 => f64
  | f32, _ | _, f32 => f32
  | i64, _ | _, i64 => i64
  | i32, i32 => i32
/-- `a / b` -/
def divide (a b : DT) : DT := if a.isFloat || b.isFloat then promote a b else f64
/-- `a += b`, `a *= b` -/
def inplace (a b : DT) : Except Err DT :=
  if !a.isFloat && b.isFloat then .error .dtype else .ok a
/-- `a /= b` -/
def inplaceDiv (a : DT) : Except Err DT := if a.isFloat then .ok a else .error .dtype
/-- `a ** 2` -/
def pow2 : DT → Except Err DT | i32 => .error .dtype | a => .ok a
/-- `sc.exp`, `sc.reciprocal` -/
def floatOnly (a : DT) : Except Err DT := if a.isFloat then .ok a else .error .dtype
/-- `python_int * a`, `1 - a` -/
def withPyInt : DT → DT | i32 => i64 | a => a
end DT

/-- dtype of `sc.scalar(max(scale.value, 1e-15), …)`: Python's `max` hands back the float `1e-15`
(→ float64) when it is larger, else the scale's own value -/
def guardDT (scale : DT) (below : Bool) : DT := if below then .f64 else scale

/-- `_gaussian` -/
def gaussianDT (amplitude loc scale x : DT) (below : Bool) : Except Err DT := do
  let _ := amplitude                      -- `amplitude / (float * scale)` is float64 whatever it is
  let s := guardDT scale below
  let v := DT.promote x loc               -- val = x - loc
  let v ← DT.inplace v v                  -- val *= val
  let t := DT.withPyInt (← DT.pow2 s)     -- -2 * scale**2
  let _ := t
  let v ← DT.inplaceDiv v                 -- val /= …
  let v ← DT.floatOnly v                  -- exp
  DT.inplace v .f64                       -- val *= amplitude / (sqrt(2π) * scale)

/-- `_lorentzian` -/
def lorentzianDT (amplitude loc scale x : DT) (below : Bool) : Except Err DT := do
  let _ := amplitude
  let s := guardDT scale below
  let v := DT.promote x loc
  let v ← DT.inplace v v
  let v ← DT.inplace v (← DT.pow2 s)      -- val += scale**2
  let v ← DT.floatOnly v                  -- reciprocal
  DT.inplace v .f64                       -- val *= amplitude * scale / pi

/-- `PseudoVoigtModel._call` -/
def pseudoVoigtDT (amplitude loc scale fraction x : DT) (below belowG : Bool) : Except Err DT := do
  let l ← lorentzianDT amplitude loc scale x below
  let g ← gaussianDT amplitude loc .f64 x belowG     -- scale / sqrt(2 ln 2) is float64
  pure (DT.promote (DT.promote fraction l) (DT.promote (DT.withPyInt fraction) g))

/-- `PolynomialModel._call`: the accumulator has the dtype of the leading coefficient;
`lower` = dtypes of `a_{n-1} … a_0` -/
def polynomialDT (x hi : DT) : List DT → Except Err DT
  | [] => .ok hi
  | a :: rest => do
      let v ← DT.inplace hi x             -- val *= x
      let v ← DT.inplace v a              -- val += a_i
      polynomialDT x v rest

/-- a parameter as the dtype layer sees it: dtype, and whether `1e-15 > value` (two flags: for the
value itself and for `value / sqrt(2 ln 2)`) -/
structure PDT where
  dt : DT
  below : Bool
  belowG : Bool

def getDT (ps : List (Str × PDT)) (n : Str) : Except Err PDT :=
  match ps.lookup n with
  | some v => .ok v
  | none => .error .key

def callLeafDT (m : M) (x : DT) (ps : List (Str × PDT)) : Except Err DT :=
  match m with
  | .gaussian _ => do
      let s ← getDT ps sScale
      gaussianDT (← getDT ps sAmplitude).dt (← getDT ps sLoc).dt s.dt x s.below
  | .lorentzian _ => do
      let s ← getDT ps sScale
      lorentzianDT (← getDT ps sAmplitude).dt (← getDT ps sLoc).dt s.dt x s.below
  | .pseudoVoigt _ => do
      let s ← getDT ps sScale
      pseudoVoigtDT (← getDT ps sAmplitude).dt (← getDT ps sLoc).dt s.dt (← getDT ps sFraction).dt x s.below s.belowG
  | .polynomial d _ => do
      let as ← ((List.range (d + 1)).reverse).mapM (fun i => getDT ps (sCoef i))
      match as with
      | [] => .error .key
      | hi :: lower => polynomialDT x hi.dt (lower.map (·.dt))
  | .composite .. => .error .notimpl

/-- the dtype of `model(x, **params)` (or the refusal), through the same key logic as `call` -/
def callDT : M → DT → List (Str × PDT) → Except Err DT
  | .composite l r p, x, params =>
    if !sameKeys (params.map (·.1)) (M.paramNames (.composite l r p)) then .error .value else
    let ps := stripKeys p params
    match selectKeys l.paramNames ps, selectKeys r.paramNames ps with
    | some pl, some pr => do
        let a ← callDT l x pl
        let b ← callDT r x pr
        pure (DT.promote a b)
    | _, _ => .error .key
  | .gaussian p, x, params =>
    if !sameKeys (params.map (·.1)) (M.paramNames (.gaussian p)) then .error .value
    else callLeafDT (.gaussian p) x (stripKeys p params)
  | .lorentzian p, x, params =>
    if !sameKeys (params.map (·.1)) (M.paramNames (.lorentzian p)) then .error .value
    else callLeafDT (.lorentzian p) x (stripKeys p params)
  | .pseudoVoigt p, x, params =>
    if !sameKeys (params.map (·.1)) (M.paramNames (.pseudoVoigt p)) then .error .value
    else callLeafDT (.pseudoVoigt p) x (stripKeys p params)
  | .polynomial d p, x, params =>
    if !sameKeys (params.map (·.1)) (M.paramNames (.polynomial d p)) then .error .value
    else callLeafDT (.polynomial d p) x (stripKeys p params)

end ScnVerif.PeakModels
