/-!
# Exact rationals and round-half-to-even (import-free)

`Q` is a small normalised rational type used to *execute* the disk-chopper model exactly
(angles in turns, so π cancels). `Rint` is the "round half to even" operation of `sc.round`
/ `numpy.rint` / Python `round`, with instances for `Float` (bit-exact with IEEE `rint` for
finite arguments) and `Q`; the `ℝ` instance lives next to the theorems.
-/
namespace ScnVerif.ChopperRat

structure Q where
  num : Int
  den : Nat          -- invariant of values produced here: den > 0, gcd num den = 1
  deriving Repr, DecidableEq

namespace Q

def normalize (n : Int) (d : Nat) : Q :=
  if d = 0 then ⟨0, 1⟩ else
  let g := Nat.gcd n.natAbs d
  if g = 0 then ⟨0, 1⟩ else ⟨n / (g : Int), d / g⟩

def ofInt (n : Int) : Q := ⟨n, 1⟩

instance : IntCast Q := ⟨ofInt⟩
instance : NatCast Q := ⟨fun n => ofInt n⟩
instance : OfNat Q n := ⟨ofInt n⟩

def add (a b : Q) : Q := normalize (a.num * b.den + b.num * a.den) (a.den * b.den)
def neg (a : Q) : Q := ⟨-a.num, a.den⟩
def sub (a b : Q) : Q := normalize (a.num * b.den - b.num * a.den) (a.den * b.den)
def mul (a b : Q) : Q := normalize (a.num * b.num) (a.den * b.den)
/-- `a / 0 = 0` (Lean convention; the harness never divides by zero) -/
def div (a b : Q) : Q :=
  if b.num = 0 then ⟨0, 1⟩
  else if b.num > 0 then normalize (a.num * b.den) (a.den * b.num.natAbs)
  else normalize (-(a.num * b.den)) (a.den * b.num.natAbs)

instance : Add Q := ⟨add⟩
instance : Sub Q := ⟨sub⟩
instance : Mul Q := ⟨mul⟩
instance : Div Q := ⟨div⟩
instance : Neg Q := ⟨neg⟩
instance : LT Q := ⟨fun a b => a.num * b.den < b.num * a.den⟩
instance : LE Q := ⟨fun a b => a.num * b.den ≤ b.num * a.den⟩
instance : DecidableLT Q := fun a b => inferInstanceAs (Decidable (a.num * b.den < b.num * a.den))
instance : DecidableLE Q := fun a b => inferInstanceAs (Decidable (a.num * b.den ≤ b.num * a.den))

/-- `⌊a⌋` -/
def floor (a : Q) : Int := a.num / (a.den : Int)     -- `Int./` is floor division for positive divisors

/-- round half to even -/
def rintInt (a : Q) : Int :=
  let f := a.floor
  let r := a - ofInt f          -- fractional part in [0,1)
  let half : Q := ⟨1, 2⟩
  if r < half then f
  else if half < r then f + 1
  else if f % 2 = 0 then f else f + 1

def toString (a : Q) : String := s!"{a.num}/{a.den}"

/-- `p/q` or `p` in decimal -/
def parse? (s : String) : Option Q :=
  match s.splitOn "/" with
  | [p] => p.toInt?.map ofInt
  | [p, q] => do
      let n ← p.toInt?
      let d ← q.toNat?
      if d = 0 then none else some (normalize n d)
  | _ => none

end Q

/-- round half to even: as a value of the carrier and as an integer -/
class Rint (α : Type) where
  rint : α → α
  rintInt : α → Int

instance : Rint Q where
  rint a := Q.ofInt a.rintInt
  rintInt := Q.rintInt

namespace FloatRint

/-- IEEE `rint` (round half to even) for binary64, from `floor` and exact subtractions.
For `|x| ≥ 2^52`, infinities and NaN the argument is returned. -/
def rintAbs (a : Float) : Float :=      -- a ≥ 0
  if a ≥ 4503599627370496.0 then a else
  let f := a.floor
  let d := a - f                        -- exact
  if d < 0.5 then f
  else if d > 0.5 then f + 1.0
  else if (f / 2.0).floor * 2.0 == f then f else f + 1.0

def rint (x : Float) : Float :=
  if x.isNaN then x
  else if x < 0.0 then -(rintAbs (-x))
  else if x == 0.0 then x               -- keeps the sign of zero
  else rintAbs x

end FloatRint

instance : Rint Float where
  rint := FloatRint.rint
  rintInt x := (FloatRint.rint x).toInt64.toInt

instance instIntCastFloat : IntCast Float := ⟨Float.ofInt⟩

end ScnVerif.ChopperRat
