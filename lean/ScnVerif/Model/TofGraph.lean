import ScnVerif.Model.TofKernels
/-!
# The elastic conversion graph (`conversion/graph/tof.py:_GRAPH_DYNAMICS_BY_ORIGIN`) as data

`Gen/TofGraph.lean` (written by `harness/translate/tofgraph.py` from the running module) lists one `Entry`
per `(origin, target)` pair of the dictionary: the target name(s), the `__name__` of the kernel wired to it
and the parameter names of that kernel (`inspect.signature`).  Names the scalar elastic model knows become
constructors; everything else is kept verbatim as byte codes under `.other`.

`kernelSem` gives every modelled kernel its meaning on an environment of coordinate values (the same generic
kernels of `Model/TofKernels.lean`, with the constant computed from the units of the inputs exactly as the
code does).
-/
namespace ScnVerif.TofGraph
open ScnVerif ScnVerif.Tof

abbrev Str := List Nat

inductive Node
  | tof | Ltotal | two_theta | wavelength | energy | dspacing | Q
  | other (name : Str)
  deriving DecidableEq, Repr

inductive KernelId
  | wavelength_from_tof | dspacing_from_tof | energy_from_tof | energy_from_wavelength | wavelength_from_energy
  | Q_from_wavelength | wavelength_from_Q | dspacing_from_wavelength | dspacing_from_energy
  | other (name : Str)
  deriving DecidableEq, Repr

structure Entry where
  origin : Node
  outputs : List Node
  kernel : KernelId
  inputs : List Node
  deriving DecidableEq, Repr

/-- parameter names of the modelled kernels (keyword-only arguments of the Python functions) -/
def KernelId.inputs : KernelId → List Node
  | .wavelength_from_tof => [.tof, .Ltotal]
  | .dspacing_from_tof => [.tof, .Ltotal, .two_theta]
  | .energy_from_tof => [.tof, .Ltotal]
  | .energy_from_wavelength => [.wavelength]
  | .wavelength_from_energy => [.energy]
  | .Q_from_wavelength => [.wavelength, .two_theta]
  | .wavelength_from_Q => [.Q, .two_theta]
  | .dspacing_from_wavelength => [.wavelength, .two_theta]
  | .dspacing_from_energy => [.energy, .two_theta]
  | .other _ => []

/-- the quantity each modelled kernel computes -/
def KernelId.output : KernelId → Node
  | .wavelength_from_tof => .wavelength
  | .dspacing_from_tof => .dspacing
  | .energy_from_tof => .energy
  | .energy_from_wavelength => .energy
  | .wavelength_from_energy => .wavelength
  | .Q_from_wavelength => .Q
  | .wavelength_from_Q => .wavelength
  | .dspacing_from_wavelength => .dspacing
  | .dspacing_from_energy => .dspacing
  | .other n => .other n

def Node.isOther : Node → Bool
  | .other _ => true
  | _ => false

/-- an entry of the table is wired the way the model of its kernel expects: the kernel's parameters are exactly
the kernel's inputs, and the dictionary key is the quantity the kernel computes; a kernel outside the scalar
elastic model may only produce quantities outside the model (so every modelled quantity is produced by a
modelled kernel) -/
def wellWired (e : Entry) : Bool :=
  match e.kernel with
  | .other _ => e.outputs.all Node.isOther
  | k => e.inputs == k.inputs && e.outputs == [k.output]

/-- constants and output units: `h`, `m_n`, metres per ångström, joule per meV -/
structure Consts (α : Type) where
  h : α
  mn : α
  sA : α
  sE : α

section sem
variable {α : Type} [Add α] [Sub α] [Mul α] [Div α] [Trans α] [Scipp α]

/-- the value a kernel returns on coordinates `env` whose units have SI scales `s` (for `Q`: 1/m per unit) -/
def kernelSem (k : KernelId) (c : Consts α) (s env : Node → α) : Option α :=
  match k with
  | .wavelength_from_tof =>
      some (wavelengthFromTof (cWavelengthFromTof c.h c.mn c.sA (s .Ltotal) (s .tof)) (env .tof) (env .Ltotal))
  | .dspacing_from_tof =>
      some (dspacingFromTof (cDspacingFromTof c.h c.mn c.sA (s .Ltotal) (s .tof)) (s .two_theta)
        (env .tof) (env .Ltotal) (env .two_theta))
  | .energy_from_tof => some (energyFromTof (cEnergy c.mn c.sE (s .Ltotal) (s .tof)) (env .tof) (env .Ltotal))
  | .energy_from_wavelength =>
      some (energyFromWavelength (cEnergyFromWavelength c.h c.mn c.sE (s .wavelength) (env .wavelength)) (env .wavelength))
  | .wavelength_from_energy =>
      some (wavelengthFromEnergy (cWavelengthFromEnergy c.h c.mn c.sA (s .energy) (env .energy)) (env .energy))
  | .Q_from_wavelength => some (qFromWavelength (s .two_theta) (env .wavelength) (env .two_theta))
  | .wavelength_from_Q =>
      some (wavelengthFromQ (s .two_theta) (i64 1 / s .Q) c.sA (env .Q) (env .two_theta))
  | .dspacing_from_wavelength =>
      some (dspacingFromWavelength (cDspacingFromWavelength c.sA (s .wavelength) (env .wavelength)) (s .two_theta)
        (env .wavelength) (env .two_theta))
  | .dspacing_from_energy =>
      some (dspacingFromEnergy (cDspacingFromEnergy c.h c.mn c.sA (s .energy) (env .energy)) (s .two_theta)
        (env .energy) (env .two_theta))
  | .other _ => none

/-- SI scale of the documented unit of a kernel's result (ångström, meV, one over the wavelength unit) -/
def outScale (k : KernelId) (c : Consts α) (s : Node → α) : α :=
  match k with
  | .energy_from_tof | .energy_from_wavelength => c.sE
  | .Q_from_wavelength => i64 1 / s .wavelength
  | _ => c.sA

end sem

end ScnVerif.TofGraph
