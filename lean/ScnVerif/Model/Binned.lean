/-!
# Model of event-mode (binned) coordinate conversion

`scippneutron.convert` on binned data ends in `scipp.transform_coords`, whose `ComputeRule`
calls the kernel once with the *event* coordinate (a binned variable) and the dense geometry of
the bins (`_compute_with_events`), and once more with the dense (bin-edge) coordinate if there is
one (`_compute_pure_dense`). The kernels (`conversion/tof.py`) consist of broadcasting
operations only, so scipp applies the scalar operation to every event of a bin together with
that bin's geometry. `_store_results` makes a shallow copy of the input, stores the new event
coordinate in a rebuilt `bins(begin, end, data)` and leaves every other buffer shared.

Model: binned data = list of bins (row-major over the bin grid), a bin = list of events, an event
= coordinate value + payload (weight, variance, other event coordinates, event masks); one
geometry value per bin; everything else (dense masks, unrelated coordinates, dims) is `carried`.
scipp's storage (`begin`/`end` indices into one event buffer) is `layout`.
-/
namespace ScnVerif.Binned

structure Event (C D : Type) where
  coord : C
  payload : D
  deriving Repr, DecidableEq

structure Binned (C D G M : Type) where
  bins : List (List (Event C D))
  /-- geometry (everything the kernel needs besides the event coordinate) of each bin -/
  geom : List G
  /-- dense masks, unrelated dense coordinates, dims, sizes of the bin grid … -/
  carried : M
  deriving Repr

/-- the kernel applied to the events of one bin, with that bin's geometry -/
def convertBin {C C' D G : Type} (k : C → G → C') (g : G) (es : List (Event C D)) : List (Event C' D) :=
  es.map (fun e => ⟨k e.coord g, e.payload⟩)

def convertBins {C C' D G : Type} (k : C → G → C') :
    List (List (Event C D)) → List G → List (List (Event C' D))
  | es :: rest, g :: gs => convertBin k g es :: convertBins k rest gs
  | _, _ => []

/-- event-mode conversion: every bin with its own geometry; geometry and the dense rest carried over -/
def convertBinned {C C' D G M : Type} (k : C → G → C') (b : Binned C D G M) : Binned C' D G M :=
  ⟨convertBins k b.bins b.geom, b.geom, b.carried⟩

/-- conversion of the accompanying dense bin-edge coordinate of a (pixel × edge) grid: the same
function, every edge with every pixel's geometry (result: one row per pixel) -/
def convertEdges {C C' G : Type} (k : C → G → C') (edges : List C) (pixelGeom : List G) : List (List C') :=
  pixelGeom.map (fun g => edges.map (fun c => k c g))

/-! ## scipp's storage: one event buffer + begin/end per bin -/

def sizes {α : Type} (bins : List (List α)) : List Nat := bins.map List.length

/-- the event buffer: all events in bin order -/
def buffer {α : Type} (bins : List (List α)) : List α := bins.flatten

/-- `(begin, end)` of every bin in a contiguous buffer starting at `start` -/
def ranges : Nat → List Nat → List (Nat × Nat)
  | _, [] => []
  | start, n :: ns => (start, start + n) :: ranges (start + n) ns

/-- geometry broadcast to the events: the geometry of a bin repeated for each of its events -/
def broadcastGeom {α G : Type} : List (List α) → List G → List G
  | es :: rest, g :: gs => List.replicate es.length g ++ broadcastGeom rest gs
  | _, _ => []

/-- the dense (element-wise) conversion of flat arrays -/
def denseConvert {C C' G : Type} (k : C → G → C') : List C → List G → List C'
  | c :: cs, g :: gs => k c g :: denseConvert k cs gs
  | _, _ => []

/-- a binned object whose geometry covers its bins -/
def WellFormed {C D G M : Type} (b : Binned C D G M) : Prop := b.geom.length = b.bins.length

/-! ## A tiny heap: which buffers the conversion touches

Buffers live in a heap and are referred to by index. For a contiguous input the conversion
allocates ONE new buffer (the converted event coordinate) and the result shares the payload buffer
and the index arrays with the input (shallow copy, `convertHeap`); for an input whose events are not
stored contiguously in bin order scipp compacts, i.e. the result gets fresh copies of payload and
indices as well (`convertHeapCopy`). In neither case is an existing buffer written. -/

structure Heap (B : Type) where
  cells : List B

structure BinnedRef where
  /-- buffer holding the event coordinate -/
  coordBuf : Nat
  /-- buffer holding weights/variances/other event coordinates -/
  payloadBuf : Nat
  /-- begin/end indices -/
  indexBuf : Nat
  deriving Repr, DecidableEq

def Heap.alloc {B : Type} (h : Heap B) (b : B) : Heap B × Nat := (⟨h.cells ++ [b]⟩, h.cells.length)

/-- `convert` on the heap: `f` computes the content of the new coordinate buffer from the old heap -/
def convertHeap {B : Type} (f : Heap B → BinnedRef → B) (h : Heap B) (x : BinnedRef) : Heap B × BinnedRef :=
  let (h', id) := h.alloc (f h x)
  (h', { x with coordBuf := id })

/-- the compacting variant: `fp`, `fi` compute the copied payload / rebuilt index buffers -/
def convertHeapCopy {B : Type} (f fp fi : Heap B → BinnedRef → B) (h : Heap B) (x : BinnedRef) :
    Heap B × BinnedRef :=
  let (h1, idp) := h.alloc (fp h x)
  let (h2, idi) := h1.alloc (fi h x)
  let (h3, idc) := h2.alloc (f h x)
  (h3, ⟨idc, idp, idi⟩)

/-! ## Numeric instance used by the correspondence: `wavelength_from_tof`

`as_float_type(c / Ltotal, tof) * tof` with `c` the pre-converted constant (double). -/

/-- double-precision events -/
def wavelengthFromTof64 (c : Float) (t : Float) (L : Float) : Float := c / L * t
/-- single-precision events: the factor is computed in double and cast to single -/
def wavelengthFromTof32 (c : Float) (t : Float32) (L : Float) : Float32 := (c / L).toFloat32 * t
/-- integer events: converted to double by the multiplication -/
def wavelengthFromTofInt (c : Float) (t : Int) (L : Float) : Float := c / L * Float.ofInt t

/-! ## Numeric instance: `energy_transfer_direct_from_tof` / `energy_transfer_indirect_from_tof`

```python
t0 = L1.astype(dtype) * sqrt(c / Ei)            # _energy_transfer_t0, c = m_n/2 in Ei.unit*(tof.unit/L.unit)^2
scale = (c * L2**2).astype(dtype)
delta_tof = tof - t0
where(delta_tof <= 0, nan, Ei - scale / delta_tof**2)
```
in double precision (the energies of the generated cases are double, so `_common_dtype` is double; a
single-precision or integer `tof` is converted exactly by the subtraction). Only `+ − × ÷ √`. -/

/-- geometry of a bin for the inelastic kernels: (L1, L2, fixed energy) -/
structure InelGeom where
  l1 : Float
  l2 : Float
  e : Float

def nanF : Float := 0.0 / 0.0

def energyTransferDirect (c : Float) (t : Float) (g : InelGeom) : Float :=
  let t0 := g.l1 * Float.sqrt (c / g.e)
  let scale := c * (g.l2 * g.l2)
  let d := t - t0
  if d <= 0.0 then nanF else g.e - scale / (d * d)

def energyTransferIndirect (c : Float) (t : Float) (g : InelGeom) : Float :=
  let t0 := g.l2 * Float.sqrt (c / g.e)
  let scale := c * (g.l1 * g.l1)
  let d := -t0 + t
  if d <= 0.0 then nanF else scale / (d * d) - g.e

end ScnVerif.Binned
