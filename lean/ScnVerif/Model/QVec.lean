import ScnVerif.Model.Arith
import ScnVerif.Model.Inelastic
/-!
# Model of the Q-vector and hkl kernels

Transcribed from `src/scippneutron/conversion/tof.py`:
`Q_elements_from_wavelength`, `Q_vec_from_Q_elements`, `ub_matrix_from_u_and_b`,
`hkl_vec_from_Q_vec`, `hkl_elements_from_hkl_vec`.

Vectors and matrices are scipp's `vector3` / `linear_transform3` (always float64, hence one
carrier `α` for the computation; a float32 wavelength is promoted by scipp when `2π / wavelength`
is formed with the Python float `2*np.pi`, and the components of Q are narrowed back at the end).  `sc.spatial.inv` of a 3×3 matrix is the closed-form cofactor inverse.
-/
namespace ScnVerif.QVec
open ScnVerif

/-- 3×3 matrix, row major -/
structure M3 (α : Type) where
  a11 : α
  a12 : α
  a13 : α
  a21 : α
  a22 : α
  a23 : α
  a31 : α
  a32 : α
  a33 : α
  deriving Repr, DecidableEq

namespace M3
variable {α : Type} [Add α] [Sub α] [Mul α] [Div α]

def mulVec (m : M3 α) (v : V3 α) : V3 α :=
  ⟨m.a11 * v.x + m.a12 * v.y + m.a13 * v.z,
   m.a21 * v.x + m.a22 * v.y + m.a23 * v.z,
   m.a31 * v.x + m.a32 * v.y + m.a33 * v.z⟩

def mul (a b : M3 α) : M3 α :=
  ⟨a.a11 * b.a11 + a.a12 * b.a21 + a.a13 * b.a31,
   a.a11 * b.a12 + a.a12 * b.a22 + a.a13 * b.a32,
   a.a11 * b.a13 + a.a12 * b.a23 + a.a13 * b.a33,
   a.a21 * b.a11 + a.a22 * b.a21 + a.a23 * b.a31,
   a.a21 * b.a12 + a.a22 * b.a22 + a.a23 * b.a32,
   a.a21 * b.a13 + a.a22 * b.a23 + a.a23 * b.a33,
   a.a31 * b.a11 + a.a32 * b.a21 + a.a33 * b.a31,
   a.a31 * b.a12 + a.a32 * b.a22 + a.a33 * b.a32,
   a.a31 * b.a13 + a.a32 * b.a23 + a.a33 * b.a33⟩

def transpose (m : M3 α) : M3 α :=
  ⟨m.a11, m.a21, m.a31, m.a12, m.a22, m.a32, m.a13, m.a23, m.a33⟩

/-- cofactors of the first column -/
def c00 (m : M3 α) : α := m.a22 * m.a33 - m.a23 * m.a32
def c10 (m : M3 α) : α := m.a23 * m.a31 - m.a21 * m.a33
def c20 (m : M3 α) : α := m.a21 * m.a32 - m.a22 * m.a31

def det (m : M3 α) : α := m.a11 * c00 m + m.a12 * c10 m + m.a13 * c20 m

/-- closed-form inverse: adjugate times `1/det` (a singular matrix yields `x * (1/0)`, i.e.
non-finite entries at `Float`) -/
def inv [OfNat α 1] (m : M3 α) : M3 α :=
  let d : α := 1 / det m
  ⟨c00 m * d, (m.a13 * m.a32 - m.a12 * m.a33) * d, (m.a12 * m.a23 - m.a13 * m.a22) * d,
   c10 m * d, (m.a11 * m.a33 - m.a13 * m.a31) * d, (m.a13 * m.a21 - m.a11 * m.a23) * d,
   c20 m * d, (m.a12 * m.a31 - m.a11 * m.a32) * d, (m.a11 * m.a22 - m.a12 * m.a21) * d⟩

end M3

section kernels
variable {α : Type} [Add α] [Sub α] [Mul α] [Div α] [Neg α] [Trans α] [OfNat α 1] [OfNat α 2]

/-- the Python float `2 * np.pi` -/
def twoPi : α := 2 * Trans.pi

/-- `Q_elements_from_wavelength`: returns `(Qx, Qy, Qz)`.  Everything is computed in float64
(`vector3` is float64 and `2*np.pi / wavelength` promotes a float32 wavelength); each component is
finally narrowed by `as_float_type(·, wavelength)`, modelled by `down : α → ρ` (`ρ` =
`float_dtype(wavelength)`: `Float.toFloat32` for a float32 wavelength, the identity otherwise). -/
def qElementsCast {ρ : Type} (down : α → ρ) (wavelength : α) (incidentBeam scatteredBeam : V3 α) : V3 ρ :=
  let ei := V3.sdiv incidentBeam (V3.norm incidentBeam)
  let ef := V3.sdiv scatteredBeam (V3.norm scatteredBeam)
  let e := V3.sub ei ef
  let k := twoPi / wavelength
  ⟨down (k * e.x), down (k * e.y), down (k * e.z)⟩

/-- dtype of `Qx, Qy, Qz`: `float_dtype(wavelength)` — float32 for a float32 wavelength, float64 for every
other dtype (float64 and the integer dtypes) -/
def qResultDType (wavelength : Inelastic.DType) : Inelastic.DType := Inelastic.floatDType wavelength

/-- the kernel where the result type is the working type (float64 wavelength; `ℝ`): the cast is the identity -/
def qElements (wavelength : α) (incidentBeam scatteredBeam : V3 α) : V3 α :=
  qElementsCast (fun x => x) wavelength incidentBeam scatteredBeam

/-- `ub_matrix_from_u_and_b` -/
def ubFromUAndB (u b : M3 α) : M3 α := M3.mul u b

/-- `hkl_vec_from_Q_vec`: `(inv(R * UB) * Q) / (2π)` — one inversion of the product -/
def hklVecFromQVec (qVec : V3 α) (ub r : M3 α) : V3 α :=
  V3.sdiv (M3.mulVec (M3.inv (M3.mul r ub)) qVec) twoPi

/-- `hkl_elements_from_hkl_vec` (one element) -/
def hklElements (v : V3 α) : α × α × α := (v.x, v.y, v.z)

end kernels

/-! ## arrays with labelled dimensions: `Q_vec_from_Q_elements`, `hkl_elements_from_hkl_vec` -/

/-- `Variable.sizes`: (dimension label, length) in the variable's own dimension order -/
abbrev Sizes := List (Nat × Nat)

/-- equality of Python dicts with distinct keys: same key/value pairs, order irrelevant -/
def sizesEq (a b : Sizes) : Bool :=
  a.length == b.length && a.all (fun p => b.contains p)

/-- an array addressed by labelled indices (`idx d` = position along dimension `d`) -/
structure LArr (α : Type) where
  sizes : Sizes
  get : (Nat → Nat) → α

inductive Err where
  | dimension
  deriving DecidableEq, Repr

/-- `Q_vec_from_Q_elements`: the guard `Qx.sizes != Qy.sizes or Qx.sizes != Qz.sizes`, then
`sc.spatial.as_vectors` (element-wise by dimension label, output in the order of `Qx`) -/
def qVecFromElements {α : Type} (qx qy qz : LArr α) : Except Err (LArr (V3 α)) :=
  if !(sizesEq qx.sizes qy.sizes) || !(sizesEq qx.sizes qz.sizes) then .error .dimension
  else .ok ⟨qx.sizes, fun i => ⟨qx.get i, qy.get i, qz.get i⟩⟩

/-- `hkl_elements_from_hkl_vec` on an array: `.fields.x/.y/.z` -/
def hklElementsArr {α : Type} (v : LArr (V3 α)) : LArr α × LArr α × LArr α :=
  (⟨v.sizes, fun i => (v.get i).x⟩, ⟨v.sizes, fun i => (v.get i).y⟩, ⟨v.sizes, fun i => (v.get i).z⟩)

/-! row-major storage (used by the driver to read and print arrays) -/

/-- all multi-indices of `s` in row-major order, as association lists label ↦ position -/
def allIdx : Sizes → List (List (Nat × Nat))
  | [] => [[]]
  | (d, n) :: rest => (List.range n).flatMap (fun i => (allIdx rest).map (fun t => (d, i) :: t))

def lookupIdx (idx : List (Nat × Nat)) (d : Nat) : Nat :=
  match idx.find? (fun p => p.1 == d) with
  | some p => p.2
  | none => 0

def flatIndex (s : Sizes) (idx : Nat → Nat) : Nat :=
  s.foldl (fun acc p => acc * p.2 + idx p.1) 0

def LArr.ofFlat {α : Type} (dflt : α) (s : Sizes) (data : List α) : LArr α :=
  ⟨s, fun idx => data.getD (flatIndex s idx) dflt⟩

def LArr.toFlat {α : Type} (a : LArr α) : List α :=
  (allIdx a.sizes).map (fun t => a.get (lookupIdx t))

end ScnVerif.QVec
