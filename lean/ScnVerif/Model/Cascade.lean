/-!
# Executable model of `scippneutron/tof/chopper_cascade.py`

Transcribed from the source, generic over the carrier `α`:

* at `Float` the driver replays the real code's calls (`_chop` bit for bit: the model uses the same
  IEEE operations in the same order; `propagate_times` as `t + d * (w * m_n / h * s)`, which is the
  order in which scipp evaluates `time + (distance * (wavelength * m_n / h).to('s/m'))`; the
  result is cast to float32 only if time, wavelength and distance are all float32; float64, the only
  dtype modelled, is untouched),
* at a linearly ordered field the theorems of `Props/C11.lean` are proved about the same definitions.

A vertex is `(time, wavelength)`; a subframe (`Subframe`) is the list of its vertices in the order
of the `time` / `wavelength` arrays; a frame is a distance and a list of subframes.
-/
namespace ScnVerif.Cascade

abbrev Vtx (α : Type) := α × α
abbrev Poly (α : Type) := List (Vtx α)

/-- the physical constants and the unit scale used by `wavelength_to_inverse_velocity`:
`(wavelength * m_n / h).to(unit='s/m')` multiplies the value by `s` (= 1e-10 for angstrom) -/
structure Consts (α : Type) where
  mn : α
  h : α
  s : α

/-- consecutive pairs of a list: `[(l[0],l[1]), (l[1],l[2]), …]` -/
def pathPairs {β : Type} : List β → List (β × β)
  | a :: b :: l => (a, b) :: pathPairs (b :: l)
  | _ => []

/-- `(l[i], l[(i+1) % len l])` for `i = 0 … len l - 1` (the `j` "wraps around to 0" of `_chop`) -/
def cycPairs {β : Type} (l : List β) : List (β × β) := pathPairs (l ++ l.take 1)

inductive Err where
  | value      -- ValueError (chopper closer than the frame)
  | notimpl    -- NotImplementedError (subbounds of an irregular subframe)
  | empty      -- reduction / concat over an empty list of subframes
  | attribute  -- `None.propagate_to` in `__getitem__` (distance before the first frame)
  | index      -- `frames[-1]` of an empty sequence
  | dtype      -- scipp DTypeError (`sc.concat` of vertices of different dtypes in `_chop`)
  | unit       -- scipp UnitError (chopper times not in the unit of the frame times)
  deriving Repr, DecidableEq

structure Chopper (α : Type) where
  dist : α
  /-- `zip(time_open, time_close)` -/
  windows : List (α × α)

structure Frame (α : Type) where
  dist : α
  subframes : List (Poly α)

section Kernel
variable {α : Type} [Add α] [Sub α] [Mul α] [Div α] [OfNat α 1] [LE α] [DecidableLE α]
  [LT α] [DecidableLT α]

/-- `propagate_times`: `time + (distance * (wavelength * m_n / h).to('s/m')).to(time.unit)` -/
def propagateTimes (k : Consts α) (t w d : α) : α := t + d * (w * k.mn / k.h * k.s)

/-- `inside = frame.time >= time if close_to_open else frame.time <= time` -/
def inside (c : α) (closeToOpen : Bool) (t : α) : Bool :=
  if closeToOpen then decide (c ≤ t) else decide (t ≤ c)

/-- the intersection vertex of `_chop`:
`t = (time - t_i) / (t_j - t_i)`, `v = w_i if w_i == w_j else (1 - t) * w_i + t * w_j`,
vertex `(time, v)`. (`==` of two floats is `a ≤ b ∧ b ≤ a`; the branch was added by the repair of
`C11:subbounds-raises:interpolation-rounding`: an edge of constant wavelength is cut at exactly that
wavelength.) -/
def interp (c : α) (p q : Vtx α) : Vtx α :=
  let t := (c - p.1) / (q.1 - p.1)
  (c, if decide (p.2 ≤ q.2) && decide (q.2 ≤ p.2) then p.2 else (1 - t) * p.2 + t * q.2)

/-- what one iteration `i` of the loop of `_chop` appends -/
def emit (c : α) (dir : Bool) (p q : Vtx α) : List (Vtx α) :=
  (if inside c dir p.1 then [p] else []) ++
  (if (inside c dir p.1 != inside c dir q.1) then [interp c p q] else [])

/-- the loop of `_chop` over a vertex path (no wrap-around) -/
def clipPath (c : α) (dir : Bool) : List (Vtx α) → List (Vtx α)
  | p :: q :: l => emit c dir p q ++ clipPath c dir (q :: l)
  | _ => []

/-- `_chop(frame, time, close_to_open)`; `none` is Python's `None` (empty output) -/
def chopStep (c : α) (dir : Bool) (poly : Poly α) : Option (Poly α) :=
  let out := clipPath c dir (poly ++ poly.take 1)
  if out.isEmpty then none else some out

/-- `Subframe.propagate_by(delta)` -/
def shearPoly (k : Consts α) (d : α) (p : Poly α) : Poly α :=
  p.map (fun v => (propagateTimes k v.1 v.2 d, v.2))

/-- `Frame.propagate_to(distance)` -/
def Frame.propagateTo (k : Consts α) (f : Frame α) (d : α) : Frame α :=
  ⟨d, f.subframes.map (shearPoly k (d - f.dist))⟩

/-- the two nested `_chop` calls of `Frame.chop` for one subframe and one window -/
def chopWindow (w : α × α) (sub : Poly α) : Option (Poly α) :=
  (chopStep w.1 true sub).bind (chopStep w.2 false)

/-- `Frame.chop(chopper)` -/
def Frame.chop (k : Consts α) (f : Frame α) (c : Chopper α) : Except Err (Frame α) :=
  if c.dist < f.dist then .error .value
  else
    let fr := f.propagateTo k c.dist
    .ok ⟨fr.dist, fr.subframes.flatMap (fun sub => c.windows.filterMap (fun w => chopWindow w sub))⟩

/-- `FrameSequence.from_source_pulse`: one rectangular subframe at distance `zero` -/
def fromSourcePulse (zero tmin tmax wmin wmax : α) : Frame α :=
  ⟨zero, [[(tmin, wmin), (tmax, wmin), (tmax, wmax), (tmin, wmax)]]⟩

/-- stable insertion by distance (what `sorted(choppers, key=lambda x: x.distance)` computes) -/
def insertByDist (c : Chopper α) : List (Chopper α) → List (Chopper α)
  | [] => [c]
  | b :: l => if b.dist < c.dist then b :: insertByDist c l else c :: b :: l

def sortByDist : List (Chopper α) → List (Chopper α)
  | [] => []
  | c :: l => insertByDist c (sortByDist l)

/-- the loop of `FrameSequence.chop` after sorting: `frames.append(frames[-1].chop(chopper))` -/
def seqChopSorted (k : Consts α) : List (Frame α) → List (Chopper α) → Except Err (List (Frame α))
  | frames, [] => .ok frames
  | frames, c :: cs =>
    match frames.getLast? with
    | none => .error .index
    | some last =>
      match last.chop k c with
      | .error e => .error e
      | .ok f => seqChopSorted k (frames ++ [f]) cs

/-- `FrameSequence.chop(choppers)` -/
def seqChop (k : Consts α) (frames : List (Frame α)) (cs : List (Chopper α)) :
    Except Err (List (Frame α)) :=
  seqChopSorted k frames (sortByDist cs)

/-- `FrameSequence.propagate_to(distance)` -/
def seqPropagateTo (k : Consts α) (frames : List (Frame α)) (d : α) : Except Err (List (Frame α)) :=
  match frames.getLast? with
  | none => .error .index
  | some last => .ok (frames ++ [last.propagateTo k d])

/-- the loop of `FrameSequence.__getitem__(distance)` -/
def frameBefore (d : α) : List (Frame α) → Option (Frame α) → Option (Frame α)
  | [], acc => acc
  | f :: l, acc => if d < f.dist then acc else frameBefore d l (some f)

/-- `FrameSequence.__getitem__(distance)` -/
def seqGetItem (k : Consts α) (frames : List (Frame α)) (d : α) : Except Err (Frame α) :=
  match frameBefore d frames none with
  | none => .error .attribute
  | some f => .ok (f.propagateTo k d)

/-- `min` / `max` of a non-empty array -/
def minOf (a : α) (l : List α) : α := l.foldl (fun m x => if x ≤ m then x else m) a
def maxOf (a : α) (l : List α) : α := l.foldl (fun m x => if m ≤ x then x else m) a

def eqv (a b : α) : Bool := decide (a ≤ b) && decide (b ≤ a)

/-- `Subframe.is_regular` -/
def isRegular : Poly α → Bool
  | [] => false
  | v :: l =>
    let ts := l.map (·.1)
    let ws := l.map (·.2)
    let tmin := minOf v.1 ts
    let tmax := maxOf v.1 ts
    let wmin := minOf v.2 ws
    let wmax := maxOf v.2 ws
    (v :: l).any (fun u => eqv u.1 tmin && eqv u.2 wmin) &&
    (v :: l).any (fun u => eqv u.1 tmax && eqv u.2 wmax)

/-- `(start_time, end_time, start_wavelength, end_wavelength)` of one subframe -/
def polyBounds : Poly α → Option (α × α × α × α)
  | [] => none
  | v :: l =>
    let ts := l.map (·.1)
    let ws := l.map (·.2)
    some (minOf v.1 ts, maxOf v.1 ts, minOf v.2 ws, maxOf v.2 ws)

/-- `Frame.bounds()` -/
def Frame.bounds (f : Frame α) : Except Err (α × α × α × α) :=
  match f.subframes.filterMap polyBounds with
  | [] => .error .empty
  | b :: bs =>
    .ok (minOf b.1 (bs.map (·.1)), maxOf b.2.1 (bs.map (·.2.1)),
         minOf b.2.2.1 (bs.map (·.2.2.1)), maxOf b.2.2.2 (bs.map (·.2.2.2)))

/-- `Frame.subbounds()` -/
def Frame.subbounds (f : Frame α) : Except Err (List (α × α × α × α)) :=
  if f.subframes.isEmpty then .error .empty
  else if f.subframes.all isRegular then .ok (f.subframes.filterMap polyBounds)
  else .error .notimpl

end Kernel

/-! ## dtype-dependent behaviour

The arithmetic of the code depends on the dtypes of its operands in two places: `propagate_times`
casts its (double precision) result to single precision iff time, wavelength and distance are all
single precision, and `_chop` builds its output with `sc.concat`, which raises `DTypeError` when the
kept vertices and the new vertices do not have one dtype. Both are parameters (`Hooks`) of the
`…H` versions below; with the trivial hooks they are the plain functions above (proved in
`Lemmas/CascadeTypedGlue.lean`). The carrier that tracks dtypes is `Model/CascadeTyped.lean`. -/

structure Hooks (α : Type) where
  /-- `sc.concat` accepts this vertex list (one dtype for the times, one for the wavelengths) -/
  ok : Poly α → Bool
  /-- `fin t w d r`: the value `propagate_times` returns when its uncast result is `r` -/
  fin : α → α → α → α → α
  /-- the chopper's window times are in the unit of the frame times (else `UnitError` in `_chop`) -/
  timesOk : Chopper α → Bool

def Hooks.trivial {α : Type} : Hooks α := ⟨fun _ => true, fun _ _ _ r => r, fun _ => true⟩

section KernelH
variable {α : Type} [Add α] [Sub α] [Mul α] [Div α] [OfNat α 1] [LE α] [DecidableLE α]
  [LT α] [DecidableLT α]

def propagateTimesH (H : Hooks α) (k : Consts α) (t w d : α) : α := H.fin t w d (propagateTimes k t w d)

def shearPolyH (H : Hooks α) (k : Consts α) (d : α) (p : Poly α) : Poly α :=
  p.map (fun v => (propagateTimesH H k v.1 v.2 d, v.2))

def Frame.propagateToH (H : Hooks α) (k : Consts α) (f : Frame α) (d : α) : Frame α :=
  ⟨d, f.subframes.map (shearPolyH H k (d - f.dist))⟩

/-- `_chop` including the `sc.concat` of its output -/
def chopStepH (H : Hooks α) (c : α) (dir : Bool) (poly : Poly α) : Except Err (Option (Poly α)) :=
  match chopStep c dir poly with
  | none => .ok none
  | some out => if H.ok out then .ok (some out) else .error .dtype

def chopWindowH (H : Hooks α) (w : α × α) (sub : Poly α) : Except Err (Option (Poly α)) :=
  match chopStepH H w.1 true sub with
  | .error e => .error e
  | .ok none => .ok none
  | .ok (some o) => chopStepH H w.2 false o

/-- the inner loop of `Frame.chop` over the windows of the chopper, for one subframe -/
def chopWindowsH (H : Hooks α) (sub : Poly α) : List (α × α) → Except Err (List (Poly α))
  | [] => .ok []
  | w :: ws =>
    match chopWindowH H w sub with
    | .error e => .error e
    | .ok r =>
      match chopWindowsH H sub ws with
      | .error e => .error e
      | .ok rest => .ok (r.toList ++ rest)

/-- the outer loop of `Frame.chop` over the subframes -/
def chopSubsH (H : Hooks α) (wins : List (α × α)) : List (Poly α) → Except Err (List (Poly α))
  | [] => .ok []
  | sub :: subs =>
    match chopWindowsH H sub wins with
    | .error e => .error e
    | .ok r =>
      match chopSubsH H wins subs with
      | .error e => .error e
      | .ok rest => .ok (r ++ rest)

def Frame.chopH (H : Hooks α) (k : Consts α) (f : Frame α) (c : Chopper α) : Except Err (Frame α) :=
  if c.dist < f.dist then .error .value
  else
    let fr := f.propagateToH H k c.dist
    if !H.timesOk c && !fr.subframes.isEmpty && !c.windows.isEmpty then .error .unit
    else
      match chopSubsH H c.windows fr.subframes with
      | .error e => .error e
      | .ok subs => .ok ⟨fr.dist, subs⟩

def seqChopSortedH (H : Hooks α) (k : Consts α) : List (Frame α) → List (Chopper α) → Except Err (List (Frame α))
  | frames, [] => .ok frames
  | frames, c :: cs =>
    match frames.getLast? with
    | none => .error .index
    | some last =>
      match last.chopH H k c with
      | .error e => .error e
      | .ok f => seqChopSortedH H k (frames ++ [f]) cs

def seqChopH (H : Hooks α) (k : Consts α) (frames : List (Frame α)) (cs : List (Chopper α)) :
    Except Err (List (Frame α)) :=
  seqChopSortedH H k frames (sortByDist cs)

def seqPropagateToH (H : Hooks α) (k : Consts α) (frames : List (Frame α)) (d : α) : Except Err (List (Frame α)) :=
  match frames.getLast? with
  | none => .error .index
  | some last => .ok (frames ++ [last.propagateToH H k d])

def seqGetItemH (H : Hooks α) (k : Consts α) (frames : List (Frame α)) (d : α) : Except Err (Frame α) :=
  match frameBefore d frames none with
  | none => .error .attribute
  | some f => .ok (f.propagateToH H k d)

end KernelH

end ScnVerif.Cascade
