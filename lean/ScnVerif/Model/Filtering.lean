import ScnVerif.Model.ChopperRat
/-!
# Model of `scippneutron.chopper.filtering`

Transcribed from `src/scippneutron/chopper/filtering.py`:
`_derive`, the group-id computation and grouping of `find_plateaus`, the size filter and
re-indexing, `_check_total_tolerance`, `_next_highest`, `collapse_plateaus`,
`_is_approximate_multiple`, `filter_in_phase`.

A series is a list of points; bins are *index ranges* `(start, length)` into the input, so
"each bin holds its points and coordinates unchanged" is `extract`.
Numeric kernels are written once over a carrier `α` (executed at `Float`, bit-exact with the
code: one subtraction pair and one correctly rounded division per slope; reasoned about at `ℝ`/`ℤ`).
scipp facts mirrored (validated by the correspondence): `sc.mean`/`bins.mean` is the
left-to-right sum starting from `0` times `1/n`; `sc.group` on a non-decreasing integer
label makes one bin per run of equal labels; `sc.issorted(…, 'ascending')` is non-strict.
-/
namespace ScnVerif.Filtering
open ScnVerif.ChopperRat

section Kernels
variable {α : Type} [Add α] [Sub α] [Mul α] [Div α] [Neg α] [LT α] [DecidableLT α] [IntCast α]

/-- `|x|` from the order (for `Float`: NaN stays NaN, which compares false like `fabs`) -/
def absv (x : α) : α := if x < ((0 : Int) : α) then -x else x

/-- `_derive`: `(y[1:] - y[:-1]) / (x[1:] - x[:-1])` for points `(x, y)` -/
def derive : List (α × α) → List α
  | [] => []
  | [_] => []
  | p :: q :: rest => (q.2 - p.2) / (q.1 - p.1) :: derive (q :: rest)

/-- `abs(derivative) > atol` -/
def exceeds (atol : α) (slopes : List α) : List Bool := slopes.map (fun s => decide (atol < absv s))

/-- left-to-right sum starting from zero (`sc.sum`) -/
def seqSum (l : List α) : α := l.foldl (· + ·) ((0 : Int) : α)

/-- `sc.mean` / `bins.mean`: `sum * (1/n)`; NaN for an empty list at `Float` -/
def mean (l : List α) : α := seqSum l * (((1 : Int) : α) / ((l.length : Int) : α))

def maxL (a : α) (l : List α) : α := l.foldl (fun m v => if m < v then v else m) a
def minL (a : α) (l : List α) : α := l.foldl (fun m v => if v < m then v else m) a

/-- successive differences `c[1:] - c[:-1]` -/
def diffs : List α → List α
  | [] => []
  | [_] => []
  | a :: b :: rest => (b - a) :: diffs (b :: rest)

end Kernels

/-! ## Grouping (carrier independent: only the list of "slope exceeds" flags matters) -/

/-- `cumsum(flags)` continued from `g` -/
def cumsumFrom (g : Nat) : List Bool → List Nat
  | [] => []
  | e :: es => (if e then g + 1 else g) :: cumsumFrom (if e then g + 1 else g) es

/-- group id per point: `concat([0, cumsum(exceeds)])` -/
def groupIds (ex : List Bool) : List Nat := 0 :: cumsumFrom 0 ex

/-- `DataArray.group` on a non-decreasing integer label: one bin `(start, length)` per run of
equal labels. `s l g` = start and length of the open bin and its label. -/
def chunk (s l g : Nat) : List Nat → List (Nat × Nat)
  | [] => [(s, l)]
  | h :: t => if h = g then chunk s (l + 1) g t else (s, l) :: chunk (s + l) 1 h t

def groups (ex : List Bool) : List (Nat × Nat) :=
  match groupIds ex with
  | [] => []
  | g :: t => chunk 0 1 g t

/-- `groups[groups.bins.size() >= min_n_points]` (bins are re-indexed `0..` by position) -/
def findPlateausIdx (ex : List Bool) (minN : Nat) : List (Nat × Nat) :=
  (groups ex).filter (fun r => decide (minN ≤ r.2))

/-- contents of a bin -/
def extract {β : Type} (pts : List β) (r : Nat × Nat) : List β := (pts.drop r.1).take r.2

/-- all bins with their contents: whatever a point carries (dimension coordinate, value, variance, any number
of further per-point coordinates, mask flags) travels with it -/
def binContents {β : Type} (pts : List β) (bins : List (Nat × Nat)) : List (List β) := bins.map (extract pts)

inductive Err | coord | runtime
  deriving Repr, DecidableEq

section Plateaus
variable {α : Type} [Add α] [Sub α] [Mul α] [Div α] [Neg α] [LT α] [DecidableLT α] [IntCast α]

/-- `sc.issorted(coord, dim, order='ascending')` (non-strict) -/
def isSorted : List α → Bool
  | [] => true
  | [_] => true
  | a :: b :: rest => !(decide (b < a)) && isSorted (b :: rest)

/-- one plateau of `_check_total_tolerance`: `(max - min) / mean(diff coord) > 2 atol`.
`cdiffs` are the coordinate differences already converted to the carrier of the data
(for integer / datetime coordinates scipp's mean converts the integer sum). -/
def plateauExceeds (atol : α) (ys : List α) (meanStep : α) : Bool :=
  match ys with
  | [] => false
  | y :: rest =>
    let maxDiff := maxL y rest - minL y rest
    let slope := maxDiff / meanStep
    decide ((((2 : Int) : α) * atol) < slope)

end Plateaus

/-! ## In-phase filtering -/
section InPhase
variable {α : Type} [Add α] [Sub α] [Mul α] [Div α] [Neg α] [LT α] [DecidableLT α] [IntCast α] [Rint α]

/-- `abs(round(q) - q) < rtol`  or the same for `1/q` (`_is_int_or_inverse_int`, and
`_is_approximate_multiple` with `q = x / ref`) -/
def isIntOrInverseInt (q rtol : α) : Bool :=
  let a := decide (absv (Rint.rint q - q) < rtol)
  let r := ((1 : Int) : α) / q
  let b := decide (absv (Rint.rint r - r) < rtol)
  a || b

/-- `_is_approximate_multiple` -/
def isApproximateMultiple (x ref rtol : α) : Bool := isIntOrInverseInt (x / ref) rtol

/-- `filter_in_phase`: `frequency[in_phase]` -/
def filterInPhase (xs : List α) (ref rtol : α) : List α :=
  xs.filter (fun x => isApproximateMultiple x ref rtol)

/-- indices kept (what the harness compares) -/
def keptIndices (xs : List α) (ref rtol : α) : List Nat :=
  (List.range xs.length).filter (fun i => match xs[i]? with
    | some x => isApproximateMultiple x ref rtol
    | none => false)

end InPhase

/-! ## Float instance of the whole of `find_plateaus` + `collapse_plateaus` -/

/-- coordinates are either floats or integers (int64 / datetime64 ticks) -/
inductive Coords
  | f (xs : List Float)
  | i (xs : List Int)
  /-- single-precision coordinate: differences, min / max and the successor are taken in binary32 -/
  | g (xs : List Float32)

def Coords.length : Coords → Nat
  | .f xs => xs.length
  | .i xs => xs.length
  | .g xs => xs.length

def isSortedInt : List Int → Bool
  | [] => true
  | [_] => true
  | a :: b :: rest => !(decide (b < a)) && isSortedInt (b :: rest)

def diffsInt : List Int → List Int
  | [] => []
  | [_] => []
  | a :: b :: rest => (b - a) :: diffsInt (b :: rest)

/-- slopes at `Float`: for integer coordinates the integer difference is converted -/
def slopesFloat (c : Coords) (ys : List Float) : List Float :=
  match c with
  | .f xs => derive (xs.zip ys)
  | .i xs => (diffs ys).zipWith (fun dy dx => dy / Float.ofInt dx) (diffsInt xs)
  | .g xs => (diffs ys).zipWith (fun dy (dx : Float32) => dy / dx.toFloat) (diffs xs)

/-- `sc.mean(coord[1:] - coord[:-1])` of one bin -/
def meanStepFloat (c : Coords) (r : Nat × Nat) : Float :=
  match c with
  | .f xs => mean (diffs (extract xs r))
  | .i xs =>
    let d := diffsInt (extract xs r)
    Float.ofInt (d.foldl (· + ·) 0) * (1.0 / Float.ofInt (d.length : Int))
  | .g xs =>
    -- binary32 differences; their mean is taken here in binary64 (scipp's single-precision mean agrees to ~1e-7;
    -- the harness does not compare guard decisions closer than that to the threshold)
    mean ((diffs (extract xs r)).map Float32.toFloat)

/-- `np.nextafter(x, inf)` in binary32 -/
def nextUp32 (x : Float32) : Float32 :=
  if x.isNaN then x
  else if x == 0.0 then Float32.ofBits 1
  else if x > 0.0 then (if x.isInf then x else Float32.ofBits (x.toBits + 1))
  else Float32.ofBits (x.toBits - 1)

structure Collapsed where
  value : Float
  /-- `[min, next(max))`: floats as floats, integers as integers -/
  lowF : Float
  highF : Float
  lowI : Int
  highI : Int

/-- `np.nextafter(x, inf)` for finite non-negative or negative `x` -/
def nextUp (x : Float) : Float :=
  if x.isNaN then x
  else if x == 0.0 then Float.ofBits 1
  else if x > 0.0 then (if x.isInf then x else Float.ofBits (x.toBits + 1))
  else Float.ofBits (x.toBits - 1)

def sortedOk (c : Coords) : Bool :=
  match c with
  | .f xs => isSorted xs
  | .i xs => isSortedInt xs
  | .g xs => isSorted xs

/-- `find_plateaus`: bins as index ranges, or the error raised -/
def findPlateaus (c : Coords) (ys : List Float) (atol : Float) (minN : Nat) :
    Except (Err × List Nat) (List (Nat × Nat)) :=
  if !sortedOk c then .error (.coord, []) else
  let ex := exceeds atol (slopesFloat c ys)
  let bins := findPlateausIdx ex minN
  let bad := (List.range bins.length).filter (fun k =>
    match bins[k]? with
    | some r => plateauExceeds atol (extract ys r) (meanStepFloat c r)
    | none => false)
  if bad.isEmpty then .ok bins else .error (.runtime, bad)

/-- `collapse_plateaus` of one bin -/
def collapse (c : Coords) (ys : List Float) (r : Nat × Nat) : Collapsed :=
  let v := mean (extract ys r)
  match c with
  | .f xs =>
    match extract xs r with
    | [] => ⟨v, 0, 0, 0, 0⟩
    | x :: rest => ⟨v, minL x rest, nextUp (maxL x rest), 0, 0⟩
  | .i xs =>
    match extract xs r with
    | [] => ⟨v, 0, 0, 0, 0⟩
    | x :: rest => ⟨v, 0, 0, rest.foldl (fun m w => if w < m then w else m) x,
                    rest.foldl (fun m w => if m < w then w else m) x + 1⟩
  | .g xs =>
    match extract xs r with
    | [] => ⟨v, 0, 0, 0, 0⟩
    | x :: rest => ⟨v, (minL x rest).toFloat, (nextUp32 (maxL x rest)).toFloat, 0, 0⟩

/-- `bins.mean()` of one bin for data with variances and masks: masked points (any mask) are skipped;
value `sum * (1/k)`, variance `sum(var) * (1/k) * (1/k)` over the `k` unmasked points (NaN when `k = 0`) -/
def collapseMasked (ys vars : List Float) (masked : List Bool) (r : Nat × Nat) : Float × Float :=
  let keep := (extract (ys.zip (vars.zip masked)) r).filter (fun p => !p.2.2)
  let inv : Float := ((1 : Int) : Float) / ((keep.length : Int) : Float)
  (mean (keep.map (·.1)), seqSum (keep.map (·.2.1)) * inv * inv)

/-! ### in-phase test when the quotient is single precision (float32 data, or integer data with a float32 reference) -/

def rint32 (x : Float32) : Float32 := (FloatRint.rint x.toFloat).toFloat32

/-- `_is_approximate_multiple` in binary32; the comparison with `rtol` (binary64) promotes to binary64 -/
def isApproximateMultiple32 (x ref : Float32) (rtol : Float) : Bool :=
  let q := x / ref
  let a := decide ((rint32 q - q).toFloat.abs < rtol)
  let r := (1.0 : Float32) / q
  let b := decide ((rint32 r - r).toFloat.abs < rtol)
  a || b

def keptIndices32 (xs : List Float32) (ref : Float32) (rtol : Float) : List Nat :=
  (List.range xs.length).filter (fun i => match xs[i]? with
    | some x => isApproximateMultiple32 x ref rtol
    | none => false)

end ScnVerif.Filtering
