import ScnVerif.Model.Cascade
/-!
# A carrier that tracks scipp dtypes

`TV` is a value together with its dtype. The value is kept as a binary64 number that holds it exactly
(every float32 and every integer below 2^53 is a binary64 number). Binary operations follow scipp:
the result dtype is the promotion of the operand dtypes (`float64` > `float32` > `int64` > `int32`;
true division of integers gives `float64`), and a `float32` result is the correctly rounded single
precision result (computing `+ - * /` of two single precision numbers in double precision and
rounding once to single precision is the single precision operation). Comparisons compare values.

The generic model of `Model/Cascade.lean`, instantiated at `TV`, therefore computes what the code
computes on typed operands, including the dtypes of all results; `hooksTV` supplies the two places
where the code's behaviour depends on dtypes beyond promotion.
-/
namespace ScnVerif.Cascade

inductive DT where
  | f64 | f32 | i64 | i32
  deriving DecidableEq, Repr

def DT.isFloat : DT → Bool
  | .f64 | .f32 => true
  | _ => false

def promote : DT → DT → DT
  | .f64, _ | _, .f64 => .f64
  | .f32, _ | _, .f32 => .f32
  | .i64, _ | _, .i64 => .i64
  | .i32, .i32 => .i32

def rnd : DT → Float → Float
  | .f32, x => x.toFloat32.toFloat
  | _, x => x

structure TV where
  dt : DT
  v : Float

namespace TV
def bin (op : Float → Float → Float) (a b : TV) : TV :=
  let p := promote a.dt b.dt
  ⟨p, rnd p (op a.v b.v)⟩
instance : Add TV := ⟨bin (· + ·)⟩
instance : Sub TV := ⟨bin (· - ·)⟩
instance : Mul TV := ⟨bin (· * ·)⟩
instance : Div TV := ⟨fun a b =>
  let p := promote a.dt b.dt
  let p := if p.isFloat then p else .f64
  ⟨p, rnd p (a.v / b.v)⟩⟩
/-- the Python literal `1` in `1 - t` -/
instance : OfNat TV 1 := ⟨⟨.i64, 1⟩⟩
instance : LE TV := ⟨fun a b => a.v ≤ b.v⟩
instance : LT TV := ⟨fun a b => a.v < b.v⟩
instance : DecidableLE TV := fun a b => inferInstanceAs (Decidable (a.v ≤ b.v))
instance : DecidableLT TV := fun a b => inferInstanceAs (Decidable (a.v < b.v))
end TV

/-- all times have one dtype and all wavelengths have one dtype -/
def homogeneous : Poly TV → Bool
  | [] => true
  | v :: l => l.all (fun u => u.1.dt == v.1.dt && u.2.dt == v.2.dt)

/-- `timesOk` is supplied per run by the driver (a chopper whose times are not in seconds) -/
def hooksTV (timesOk : Chopper TV → Bool) : Hooks TV where
  ok := homogeneous
  fin := fun t w d r =>
    if t.dt == .f32 && w.dt == .f32 && d.dt == .f32 then ⟨.f32, r.v.toFloat32.toFloat⟩ else r
  timesOk := timesOk

end ScnVerif.Cascade
