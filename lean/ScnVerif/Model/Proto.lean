/-!
# Line-protocol helpers (import-free)

Numbers travel as hexadecimal IEEE bit patterns (`3ff0000000000000`), naturals in decimal,
strings and byte strings hex-encoded.  Nothing here is proved about; it is the plumbing
between the Python harness and the executable model.
-/
namespace ScnVerif.Proto

def hexDigit (c : Char) : Option Nat :=
  if '0' ≤ c ∧ c ≤ '9' then some (c.toNat - '0'.toNat)
  else if 'a' ≤ c ∧ c ≤ 'f' then some (c.toNat - 'a'.toNat + 10)
  else if 'A' ≤ c ∧ c ≤ 'F' then some (c.toNat - 'A'.toNat + 10)
  else none

def parseHex (s : String) : Option Nat :=
  if s.isEmpty then none else
  s.toList.foldlM (fun acc c => (hexDigit c).map (fun d => acc * 16 + d)) 0

def f64? (s : String) : Option Float := (parseHex s).map (fun n => Float.ofBits n.toUInt64)
def f32? (s : String) : Option Float32 := (parseHex s).map (fun n => Float32.ofBits n.toUInt32)

def hexNib (n : Nat) : Char := if n < 10 then Char.ofNat (n + 48) else Char.ofNat (n - 10 + 97)

def toHexPad (width : Nat) (n : Nat) : String :=
  let rec go : Nat → Nat → List Char → List Char
    | 0, _, acc => acc
    | w+1, n, acc => go w (n / 16) (hexNib (n % 16) :: acc)
  String.ofList (go width n [])

def f64Hex (x : Float) : String := if x.isNaN then "nan" else toHexPad 16 x.toBits.toNat
def f32Hex (x : Float32) : String := if x.isNaN then "nan" else toHexPad 8 x.toBits.toNat

/-- decode a hex string into bytes (as naturals < 256) -/
def hexBytes? (s : String) : Option (List Nat) :=
  let rec go : List Char → List Nat → Option (List Nat)
    | [], acc => some acc.reverse
    | [_], _ => none
    | a :: b :: rest, acc => do
        let x ← hexDigit a; let y ← hexDigit b
        go rest ((x * 16 + y) :: acc)
  go s.toList []

def bytesHex (bs : List Nat) : String :=
  String.ofList (bs.foldr (fun b acc => hexNib (b / 16 % 16) :: hexNib (b % 16) :: acc) [])

/-- hex-encoded UTF-8/ASCII string → list of chars (one char per byte; the harness only sends
    code points < 256 this way) -/
def hexChars? (s : String) : Option (List Char) := (hexBytes? s).map (·.map Char.ofNat)
def charsHex (cs : List Char) : String := bytesHex (cs.map Char.toNat)

def words (line : String) : List String := (line.splitOn " ").filter (· ≠ "")

end ScnVerif.Proto
