import ScnVerif.Model.Sqw.IR
/-!
# Independent SQW file decoder (import-free)

Written from the format description (Horace `05_file_formats.md` as summarised in the SQW property
statements): length-prefixed program name, f64 version, u32 file type, u32 dimensionality; block
allocation table = u32 byte size, u32 count, descriptors (type string, two name strings, u64
position, u32 size, u32 lock); then the blocks. NOT a transcription of `_sqw.py`.

The decoder is strict: the header must be `horace` 4.0 type 1, the table's size field must equal
the bytes its body occupies, block `i` must start exactly where block `i-1` ended (the first one
right after the table), every block must decode and use up its extent exactly, and the last block
must end at end-of-file.
-/
namespace ScnVerif.Sqw

inductive DecErr where
  | truncated            -- header or table cut short
  | header               -- not `horace` 4.0 / SQW
  | batSize              -- size field of the table ≠ bytes of its body
  | batEntry (i : Nat)   -- descriptor i cut short
  | extentGap (i : Nat)  -- block i does not start where the previous one ended
  | extentShort (i : Nat)  -- block i reaches beyond end of file
  | extentEnd            -- bytes left after the last block
  | blockType (i : Nat)  -- unknown block type
  | blockDecode (i : Nat)  -- payload of block i does not decode
  | blockTrailing (i : Nat)  -- block i decodes but does not fill its extent
  deriving Repr, DecidableEq

structure Header where
  prog : Bytes
  version : Nat
  sqwType : Nat
  nDims : Nat
  deriving Repr, DecidableEq

structure DDesc where
  ty : Bytes
  name0 : Bytes
  name1 : Bytes
  pos : Nat
  size : Nat
  locked : Nat
  deriving Repr, DecidableEq

inductive Content where
  | regular (o : Obj)
  | pix (nRows nPix : Nat) (vals : List Nat)
  | dnd (shape : List Nat) (values errors counts : List Nat)
  deriving Repr

structure File where
  order : Order
  header : Header
  batSize : Nat
  descs : List DDesc
  blocks : List Content
  deriving Repr

def rdUInts (o : Order) (w : Nat) : Nat → Bytes → Option (List Nat × Bytes)
  | 0, bs => some ([], bs)
  | k+1, bs =>
    match rdUInt o w bs with
    | none => none
    | some (v, r) =>
      match rdUInts o w k r with
      | none => none
      | some (vs, r') => some (v :: vs, r')

def rdHeader (o : Order) (bs : Bytes) : Option (Header × Bytes) :=
  match rdCharArray o bs with
  | none => none
  | some (prog, r1) =>
    match rdU64 o r1 with
    | none => none
    | some (ver, r2) =>
      match rdU32 o r2 with
      | none => none
      | some (ty, r3) =>
        match rdU32 o r3 with
        | none => none
        | some (nd, r4) => some (⟨prog, ver, ty, nd⟩, r4)

def rdDesc (o : Order) (bs : Bytes) : Option (DDesc × Bytes) :=
  match rdCharArray o bs with
  | none => none
  | some (ty, r1) =>
    match rdCharArray o r1 with
    | none => none
    | some (n0, r2) =>
      match rdCharArray o r2 with
      | none => none
      | some (n1, r3) =>
        match rdU64 o r3 with
        | none => none
        | some (pos, r4) =>
          match rdU32 o r4 with
          | none => none
          | some (size, r5) =>
            match rdU32 o r5 with
            | none => none
            | some (locked, r6) => some (⟨ty, n0, n1, pos, size, locked⟩, r6)

/-- `k` descriptors starting with index `i` -/
def rdDescs (o : Order) : Nat → Nat → Bytes → Except DecErr (List DDesc × Bytes)
  | 0, _, bs => .ok ([], bs)
  | k+1, i, bs =>
    match rdDesc o bs with
    | none => .error (.batEntry i)
    | some (d, r) =>
      match rdDescs o k (i + 1) r with
      | .error e => .error e
      | .ok (ds, r') => .ok (d :: ds, r')

def prodDims : List Nat → Nat
  | [] => 1
  | d :: ds => d * prodDims ds

def dTyRegular : Bytes := [100,97,116,97,95,98,108,111,99,107] /-data_block-/
def dTyPix : Bytes := [112,105,120,95,100,97,116,97,95,98,108,111,99,107] /-pix_data_block-/
def dTyDnd : Bytes := [100,110,100,95,100,97,116,97,95,98,108,111,99,107] /-dnd_data_block-/
def dHorace : Bytes := [104,111,114,97,99,101] /-horace-/
/-- bit pattern of 4.0 -/
def dFour : Nat := 0x4010000000000000

/-- decode the payload of one block; it must fill `bs` exactly -/
def decodeBlock (o : Order) (i : Nat) (ty : Bytes) (bs : Bytes) : Except DecErr Content :=
  if ty = dTyRegular then
    match decObj o (2 * bs.length) bs with
    | none => .error (.blockDecode i)
    | some (x, []) => .ok (.regular x)
    | some (_, _ :: _) => .error (.blockTrailing i)
  else if ty = dTyPix then
    match rdU32 o bs with
    | none => .error (.blockDecode i)
    | some (nRows, r1) =>
      match rdU64 o r1 with
      | none => .error (.blockDecode i)
      | some (nPix, r2) =>
        match rdUInts o 4 (nRows * nPix) r2 with
        | none => .error (.blockDecode i)
        | some (vals, []) => .ok (.pix nRows nPix vals)
        | some (_, _ :: _) => .error (.blockTrailing i)
  else if ty = dTyDnd then
    match rdU32 o bs with
    | none => .error (.blockDecode i)
    | some (nd, r1) =>
      match rdDims o nd r1 with
      | none => .error (.blockDecode i)
      | some (shape, r2) =>
        let n := prodDims shape
        match rdUInts o 8 n r2 with
        | none => .error (.blockDecode i)
        | some (vals, r3) =>
          match rdUInts o 8 n r3 with
          | none => .error (.blockDecode i)
          | some (errs, r4) =>
            match rdUInts o 8 n r4 with
            | none => .error (.blockDecode i)
            | some (counts, []) => .ok (.dnd shape vals errs counts)
            | some (_, _ :: _) => .error (.blockTrailing i)
  else .error (.blockType i)

/-- walk the extents: block `i` must start at the running offset `p` -/
def decodeBlocks (o : Order) : Nat → Nat → List DDesc → Bytes → Except DecErr (List Content)
  | _, _, [], [] => .ok []
  | _, _, [], _ :: _ => .error .extentEnd
  | i, p, d :: ds, bs =>
    if d.pos ≠ p then .error (.extentGap i) else
    match takeN d.size bs with
    | none => .error (.extentShort i)
    | some (payload, rest) =>
      match decodeBlock o i d.ty payload with
      | .error e => .error e
      | .ok c =>
        match decodeBlocks o (i + 1) (p + d.size) ds rest with
        | .error e => .error e
        | .ok cs => .ok (c :: cs)

def decodeFile (bs : Bytes) : Except DecErr File :=
  let o := deduceOrder bs
  match rdHeader o bs with
  | none => .error .truncated
  | some (h, r1) =>
    if h.prog ≠ dHorace ∨ h.version ≠ dFour ∨ h.sqwType ≠ 1 then .error .header else
    match rdU32 o r1 with
    | none => .error .truncated
    | some (batSize, r2) =>
      match rdU32 o r2 with
      | none => .error .truncated
      | some (n, r3) =>
        match rdDescs o n 0 r3 with
        | .error e => .error e
        | .ok (descs, r4) =>
          if batSize ≠ r2.length - r4.length then .error .batSize else
          match decodeBlocks o 0 (bs.length - r4.length) descs r4 with
          | .error e => .error e
          | .ok blocks => .ok ⟨o, h, batSize, descs, blocks⟩

end ScnVerif.Sqw
