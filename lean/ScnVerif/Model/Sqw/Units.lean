import ScnVerif.Model.Sqw.Bytes
/-!
# Physical dimension of the unit strings used by the SQW writer and reader (import-free)
-/
namespace ScnVerif.Sqw

/-- one row of the generated writer / reader unit tables -/
structure UnitEntry where
  cls : Bytes
  field : Bytes
  unit : Option Bytes
  deriving Repr, DecidableEq

/-- exponents of (length, energy, angle, count) -/
structure Dim where
  length : Int
  energy : Int
  angle : Int
  count : Int
  deriving Repr, DecidableEq

/-- dimension of every unit string that occurs in the SQW source; an unknown string has none, which
makes the table theorems fail and so forces this list to be extended deliberately -/
def unitDim (u : Bytes) : Option Dim :=
  if u = [49,47,97,110,103,115,116,114,111,109] /-1/angstrom-/ then some ⟨-1, 0, 0, 0⟩
  else if u = [97,110,103,115,116,114,111,109] /-angstrom-/ then some ⟨1, 0, 0, 0⟩
  else if u = [109,101,86] /-meV-/ then some ⟨0, 1, 0, 0⟩
  else if u = [114,97,100] /-rad-/ then some ⟨0, 0, 1, 0⟩
  else if u = [100,101,103] /-deg-/ then some ⟨0, 0, 1, 0⟩
  else if u = [99,111,117,110,116] /-count-/ then some ⟨0, 0, 0, 1⟩
  else if u = [99,111,117,110,116,42,42,50] /-count**2-/ then some ⟨0, 0, 0, 2⟩
  else if u = [100,105,109,101,110,115,105,111,110,108,101,115,115] /-dimensionless-/ then some ⟨0, 0, 0, 0⟩
  else none

def lookupUnit (cls field : Bytes) : List UnitEntry → Option (Option Bytes)
  | [] => none
  | e :: es => if e.cls = cls ∧ e.field = field then some e.unit else lookupUnit cls field es

/-- the reader's label for a field the writer converts to `wu` is of the same dimension
(fields the reader does not return, or returns without a label, are not constrained) -/
def sameDimension (reader : List UnitEntry) (w : UnitEntry) : Bool :=
  match w.unit with
  | none => true
  | some wu =>
    match lookupUnit w.cls w.field reader with
    | none => true
    | some none => true
    | some (some ru) =>
      match unitDim wu, unitDim ru with
      | some a, some b => a == b
      | _, _ => false

def sAlatt : Bytes := [97,108,97,116,116] /-alatt-/

end ScnVerif.Sqw
