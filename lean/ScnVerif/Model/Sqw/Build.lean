import ScnVerif.Model.Sqw.IR
/-!
# SQW builder: models → IR → bytes (import-free)

Transcribed from `src/scippneutron/io/sqw/_models.py` (`*._serialize_to_dict`,
`prepare_for_serialization`), `_ir.py` (`Serializable.serialize_to_ir`, `_serialize_field`,
`Struct.to_object_array`) and `_build.py` (`SqwBuilder.*`, `_write_file_header`,
`_write_data_block_descriptor`, `_broadcast_unique_ref`, `_to_canonical_block_order`,
`_DndPlaceholder`, `_PixWrap`).

Numbers are f64 bit patterns already converted to the unit the writer declares (the conversion is
scipp's `to_unit`, outside the model: it is checked by the direct oracle in exact rational
arithmetic). Integers that the code turns into floats (`float(nfiles)`, `run_id + 1`, `dax + 1`,
`idx + 1.0`, `float(npix)`, `emode.value`) are computed here with `natToF64`.
Strings are UTF-8 byte lists. Time stamps (`datetime.now()`) are inputs of `create`.
-/
namespace ScnVerif.Sqw

abbrev Str := Bytes
abbrev BlockName := Str × Str

/-- `len(value.encode("utf-8"))`: the extent of a char array is the number of BYTES written
(since commit bd4be20; before, `len(value)` — the number of characters — was declared) -/
def encLen (s : Str) : Nat := s.length

/-- `_serialize_field(String(v))`: shape `(len(v.encode("utf-8")),)`, or `()` for the empty string -/
def strField (s : Str) : Obj := .chars (if s.isEmpty then [] else [encLen s]) [s]
/-- `_serialize_field(F64(v))` -/
def f64Field (bits : Nat) : Obj := .f64s [1] [bits]
/-- `_serialize_field(Logical(v))` -/
def boolField (b : Bool) : Obj := .logicals [1] [b]
/-- `_serialize_field(Array(a, f64))` for a 1-d array -/
def arr1 (vals : List Nat) : Obj := .f64s [vals.length] vals
/-- `Struct.to_object_array()` / `_serialize_field(Struct)` -/
def structObj (fields : List (Str × Obj)) : Obj :=
  .structs [1] 1 (fields.map (·.1)) (fields.map (·.2))
/-- `_serialize_str_array` -/
def strArray (ss : List Str) : Obj :=
  .cell [ss.length] (ss.map (fun s => .chars [encLen s] [s]))

def fOne : Nat := natToF64 1
def fTwo : Nat := natToF64 2
def fThree : Nat := natToF64 3
def fFour : Nat := natToF64 4
def fSeven : Nat := natToF64 7

/-! ## Models -/

structure MainHeader where
  fullFilename : Str
  title : Str
  nfiles : Nat
  deriving Repr

def MainHeader.fields (h : MainHeader) (stamp : Str) : List (Str × Obj) := [
  ([115,101,114,105,97,108,95,110,97,109,101] /-serial_name-/, strField [109,97,105,110,95,104,101,97,100,101,114,95,99,108] /-main_header_cl-/),
  ([118,101,114,115,105,111,110] /-version-/, f64Field fTwo),
  ([102,117,108,108,95,102,105,108,101,110,97,109,101] /-full_filename-/, strField h.fullFilename),
  ([116,105,116,108,101] /-title-/, strField h.title),
  ([110,102,105,108,101,115] /-nfiles-/, f64Field (natToF64 h.nfiles)),
  ([99,114,101,97,116,105,111,110,95,100,97,116,101] /-creation_date-/, strField stamp),
  ([99,114,101,97,116,105,111,110,95,100,97,116,101,95,100,101,102,105,110,101,100,95,112,114,105,118,97,116,101,108,121] /-creation_date_defined_privately-/, boolField false)]

/-- `SqwIXExperiment` with numbers in meV / rad. `efix`: the values after the scalar broadcast
(one value, or one per detector). `en`: `enRows` detector rows (1 after the 1-d broadcast) of
`enCols` values each, row-major (`[detector, energy_transfer]`). -/
structure Experiment where
  filename : Str
  filepath : Str
  runId : Nat
  efix : List Nat
  emode : Nat
  enRows : Nat
  enCols : Nat
  en : List Nat
  psi : Nat
  u : List Nat
  v : List Nat
  omega : Nat
  dpsi : Nat
  gl : Nat
  gs : Nat
  deriving Repr

def Experiment.fields (e : Experiment) : List (Str × Obj) := [
  ([102,105,108,101,110,97,109,101] /-filename-/, strField e.filename),
  ([102,105,108,101,112,97,116,104] /-filepath-/, strField e.filepath),
  ([114,117,110,95,105,100] /-run_id-/, f64Field (natToF64 (e.runId + 1))),
  ([101,102,105,120] /-efix-/, arr1 e.efix),
  ([101,109,111,100,101] /-emode-/, f64Field (natToF64 e.emode)),
  ([101,110] /-en-/, .f64s [e.enCols, e.enRows] e.en),
  ([112,115,105] /-psi-/, f64Field e.psi),
  ([117] /-u-/, arr1 e.u),
  ([118] /-v-/, arr1 e.v),
  ([111,109,101,103,97] /-omega-/, f64Field e.omega),
  ([100,112,115,105] /-dpsi-/, f64Field e.dpsi),
  ([103,108] /-gl-/, f64Field e.gl),
  ([103,115] /-gs-/, f64Field e.gs),
  ([97,110,103,117,108,97,114,95,105,115,95,100,101,103,114,101,101] /-angular_is_degree-/, boolField false)]

def experimentFieldNames : List Str :=
  [[102,105,108,101,110,97,109,101] /-filename-/, [102,105,108,101,112,97,116,104] /-filepath-/, [114,117,110,95,105,100] /-run_id-/, [101,102,105,120] /-efix-/, [101,109,111,100,101] /-emode-/, [101,110] /-en-/, [112,115,105] /-psi-/, [117] /-u-/, [118] /-v-/, [111,109,101,103,97] /-omega-/, [100,112,115,105] /-dpsi-/,
   [103,108] /-gl-/, [103,115] /-gs-/, [97,110,103,117,108,97,114,95,105,115,95,100,101,103,114,101,101] /-angular_is_degree-/]

/-- `SqwMultiIXExperiment._serialize_to_dict` -/
def multiExperimentFields (es : List Experiment) : List (Str × Obj) := [
  ([115,101,114,105,97,108,95,110,97,109,101] /-serial_name-/, strField [73,88,95,101,120,112,101,114,105,109,101,110,116] /-IX_experiment-/),
  ([118,101,114,115,105,111,110] /-version-/, f64Field fThree),
  ([97,114,114,97,121,95,100,97,116] /-array_dat-/, .structs [es.length] es.length
      (match es with | [] => [] | e :: _ => e.fields.map (·.1))
      (es.flatMap (fun e => e.fields.map (·.2))))]

structure PixMeta where
  fullFilename : Str
  npix : Nat
  /-- `(min, max)` per row -/
  dataRange : List (Nat × Nat)
  deriving Repr

def PixMeta.fields (m : PixMeta) : List (Str × Obj) := [
  ([115,101,114,105,97,108,95,110,97,109,101] /-serial_name-/, strField [112,105,120,95,109,101,116,97,100,97,116,97] /-pix_metadata-/),
  ([118,101,114,115,105,111,110] /-version-/, f64Field fOne),
  ([102,117,108,108,95,102,105,108,101,110,97,109,101] /-full_filename-/, strField m.fullFilename),
  ([110,112,105,120] /-npix-/, f64Field (natToF64 m.npix)),
  ([100,97,116,97,95,114,97,110,103,101] /-data_range-/, .f64s [2, m.dataRange.length] (m.dataRange.flatMap (fun p => [p.1, p.2])))]

structure Source where
  name : Str
  targetName : Str
  frequency : Nat
  deriving Repr

def Source.fields (s : Source) : List (Str × Obj) := [
  ([115,101,114,105,97,108,95,110,97,109,101] /-serial_name-/, strField [73,88,95,115,111,117,114,99,101] /-IX_source-/),
  ([118,101,114,115,105,111,110] /-version-/, f64Field fTwo),
  ([110,97,109,101] /-name-/, strField s.name),
  ([116,97,114,103,101,116,95,110,97,109,101] /-target_name-/, strField s.targetName),
  ([102,114,101,113,117,101,110,99,121] /-frequency-/, f64Field s.frequency)]

structure Instrument where
  name : Str
  source : Source
  deriving Repr

def Instrument.fields (i : Instrument) : List (Str × Obj) := [
  ([115,101,114,105,97,108,95,110,97,109,101] /-serial_name-/, strField [73,88,95,110,117,108,108,95,105,110,115,116] /-IX_null_inst-/),
  ([118,101,114,115,105,111,110] /-version-/, f64Field fTwo),
  ([115,111,117,114,99,101] /-source-/, structObj i.source.fields),
  ([110,97,109,101] /-name-/, strField i.name)]

structure Sample where
  name : Str
  alatt : List Nat
  angdeg : List Nat
  deriving Repr

def Sample.fields (s : Sample) : List (Str × Obj) := [
  ([115,101,114,105,97,108,95,110,97,109,101] /-serial_name-/, strField [73,88,95,115,97,109,112,108,101] /-IX_sample-/),
  ([118,101,114,115,105,111,110] /-version-/, f64Field fThree),
  ([97,108,97,116,116] /-alatt-/, arr1 s.alatt),
  ([97,110,103,100,101,103] /-angdeg-/, arr1 s.angdeg),
  ([110,97,109,101] /-name-/, strField s.name)]

/-- `UniqueObjContainer._serialize_to_dict`: `objects` already as struct object arrays, `nIdx` indices
(all `0`, written `+ 1.0`) -/
def uniqueObjFields (baseclass : Str) (objects : List Obj) (nIdx : Nat) : List (Str × Obj) := [
  ([115,101,114,105,97,108,95,110,97,109,101] /-serial_name-/, strField [117,110,105,113,117,101,95,111,98,106,101,99,116,115,95,99,111,110,116,97,105,110,101,114] /-unique_objects_container-/),
  ([118,101,114,115,105,111,110] /-version-/, f64Field fOne),
  ([98,97,115,101,99,108,97,115,115] /-baseclass-/, strField baseclass),
  ([117,110,105,113,117,101,95,111,98,106,101,99,116,115] /-unique_objects-/, .cell [objects.length] objects),
  ([105,100,120] /-idx-/, .f64s [nIdx] (List.replicate nIdx fOne))]

/-- `UniqueRefContainer._serialize_to_dict` -/
def uniqueRefFields (globalName baseclass : Str) (objects : List Obj) (nIdx : Nat) : List (Str × Obj) := [
  ([115,101,114,105,97,108,95,110,97,109,101] /-serial_name-/, strField [117,110,105,113,117,101,95,114,101,102,101,114,101,110,99,101,115,95,99,111,110,116,97,105,110,101,114] /-unique_references_container-/),
  ([118,101,114,115,105,111,110] /-version-/, f64Field fOne),
  ([115,116,111,114,101,100,95,98,97,115,101,99,108,97,115,115] /-stored_baseclass-/, strField baseclass),
  ([103,108,111,98,97,108,95,110,97,109,101] /-global_name-/, strField globalName),
  ([117,110,105,113,117,101,95,111,98,106,101,99,116,115] /-unique_objects-/, structObj (uniqueObjFields baseclass objects nIdx))]

structure LineAxes where
  title : Str
  label : List Str
  imgScales : List Nat
  /-- `(lo, hi)` per axis -/
  imgRange : List (Nat × Nat)
  /-- numbers of bins as naturals (`astype(float64)`) -/
  nBins : List Nat
  singleBin : List Bool
  /-- zero-based display axes (`+ 1` on write) -/
  dax : List Nat
  offset : List Nat
  changesAspectRatio : Bool
  deriving Repr

def LineAxes.fields (a : LineAxes) (filename filepath : Str) : List (Str × Obj) := [
  ([115,101,114,105,97,108,95,110,97,109,101] /-serial_name-/, strField [108,105,110,101,95,97,120,101,115] /-line_axes-/),
  ([118,101,114,115,105,111,110] /-version-/, f64Field fSeven),
  ([102,105,108,101,110,97,109,101] /-filename-/, strField filename),
  ([102,105,108,101,112,97,116,104] /-filepath-/, strField filepath),
  ([116,105,116,108,101] /-title-/, strField a.title),
  ([108,97,98,101,108] /-label-/, strArray a.label),
  ([105,109,103,95,115,99,97,108,101,115] /-img_scales-/, arr1 a.imgScales),
  ([105,109,103,95,114,97,110,103,101] /-img_range-/, .f64s [2, a.imgRange.length] (a.imgRange.flatMap (fun p => [p.1, p.2]))),
  ([110,98,105,110,115,95,97,108,108,95,100,105,109,115] /-nbins_all_dims-/, arr1 (a.nBins.map natToF64)),
  ([115,105,110,103,108,101,95,98,105,110,95,100,101,102,105,110,101,115,95,105,97,120] /-single_bin_defines_iax-/, .logicals [a.nBins.length] a.singleBin),
  ([100,97,120] /-dax-/, arr1 (a.dax.map (fun d => natToF64 (d + 1)))),
  ([111,102,102,115,101,116] /-offset-/, arr1 a.offset),
  ([99,104,97,110,103,101,115,95,97,115,112,101,99,116,95,114,97,116,105,111] /-changes_aspect_ratio-/, boolField a.changesAspectRatio)]

structure LineProj where
  alatt : List Nat
  angdeg : List Nat
  offset : List Nat
  title : Str
  label : List Str
  u : List Nat
  v : List Nat
  /-- `[]` for `w = None` -/
  w : List Nat
  nonOrthogonal : Bool
  deriving Repr

def LineProj.fields (p : LineProj) : List (Str × Obj) := [
  ([115,101,114,105,97,108,95,110,97,109,101] /-serial_name-/, strField [108,105,110,101,95,112,114,111,106] /-line_proj-/),
  ([118,101,114,115,105,111,110] /-version-/, f64Field fSeven),
  ([97,108,97,116,116] /-alatt-/, arr1 p.alatt),
  ([97,110,103,100,101,103] /-angdeg-/, arr1 p.angdeg),
  ([111,102,102,115,101,116] /-offset-/, arr1 p.offset),
  ([116,105,116,108,101] /-title-/, strField p.title),
  ([108,97,98,101,108] /-label-/, strArray p.label),
  ([117] /-u-/, arr1 p.u),
  ([118] /-v-/, arr1 p.v),
  ([119] /-w-/, arr1 p.w),
  ([110,111,110,111,114,116,104,111,103,111,110,97,108] /-nonorthogonal-/, boolField p.nonOrthogonal),
  ([116,121,112,101] /-type-/, strField [97,97,97] /-aaa-/)]

structure DndMeta where
  axes : LineAxes
  proj : LineProj
  deriving Repr

def DndMeta.fields (d : DndMeta) (filename filepath stamp : Str) : List (Str × Obj) := [
  ([115,101,114,105,97,108,95,110,97,109,101] /-serial_name-/, strField [100,110,100,95,109,101,116,97,100,97,116,97] /-dnd_metadata-/),
  ([118,101,114,115,105,111,110] /-version-/, f64Field fOne),
  ([97,120,101,115] /-axes-/, structObj (d.axes.fields filename filepath)),
  ([112,114,111,106] /-proj-/, structObj d.proj.fields),
  ([99,114,101,97,116,105,111,110,95,100,97,116,101,95,115,116,114] /-creation_date_str-/, strField stamp)]

/-! ## Builder state machine -/

inductive Block where
  | mainHeader (h : MainHeader)
  | expdata (es : List Experiment)
  | pixMeta (m : PixMeta)
  | detpar
  | dndMeta (d : DndMeta)
  | instruments (i : Instrument) (n : Nat)
  | samples (s : Sample) (n : Nat)
  deriving Repr

def nMainHeader : BlockName := ([], [109,97,105,110,95,104,101,97,100,101,114] /-main_header-/)
def nDetpar : BlockName := ([], [100,101,116,112,97,114] /-detpar-/)
def nDataMeta : BlockName := ([100,97,116,97] /-data-/, [109,101,116,97,100,97,116,97] /-metadata-/)
def nNdData : BlockName := ([100,97,116,97] /-data-/, [110,100,95,100,97,116,97] /-nd_data-/)
def nInstruments : BlockName := ([101,120,112,101,114,105,109,101,110,116,95,105,110,102,111] /-experiment_info-/, [105,110,115,116,114,117,109,101,110,116,115] /-instruments-/)
def nSamples : BlockName := ([101,120,112,101,114,105,109,101,110,116,95,105,110,102,111] /-experiment_info-/, [115,97,109,112,108,101,115] /-samples-/)
def nExpdata : BlockName := ([101,120,112,101,114,105,109,101,110,116,95,105,110,102,111] /-experiment_info-/, [101,120,112,100,97,116,97] /-expdata-/)
def nPixMeta : BlockName := ([112,105,120] /-pix-/, [109,101,116,97,100,97,116,97] /-metadata-/)
def nPixData : BlockName := ([112,105,120] /-pix-/, [100,97,116,97,95,119,114,97,112] /-data_wrap-/)

/-- a pixel row: values as f64 bit patterns in the row's declared unit. `emptyLo`/`emptyHi` are what
`to_unit(row.min(), unit)` / `to_unit(row.max(), unit)` give for an EMPTY row (scipp returns the
identity elements of min/max for the dtype, which are then converted); unused when the row has values -/
structure PixRow where
  emptyLo : Nat
  emptyHi : Nat
  vals : List Nat
  deriving Repr

/-- Python `dict.__setitem__`: replace in place, or append -/
def dictSet {β} (k : BlockName) (v : β) : List (BlockName × β) → List (BlockName × β)
  | [] => [(k, v)]
  | (k', v') :: rest => if k' = k then (k, v) :: rest else (k', v') :: dictSet k v rest

def dictGet {β} (k : BlockName) : List (BlockName × β) → Option β
  | [] => none
  | (k', v') :: rest => if k' = k then some v' else dictGet k rest

structure Builder where
  order : Order
  /-- `os.fspath(stored_path or "in_memory")` -/
  fullFilename : Str
  /-- `_filepath_and_name` -/
  filepath : Str
  filename : Str
  nDims : Nat
  dataBlocks : List (BlockName × Block)
  dnd : Option (List Nat)
  pix : Option (List PixRow)
  instrument : Option Instrument
  sample : Option Sample
  deriving Repr

/-- `SqwBuilder.__init__` -/
def Builder.init (order : Order) (fullFilename filepath filename title : Str) : Builder :=
  { order, fullFilename, filepath, filename, nDims := 0,
    dataBlocks := [(nMainHeader, .mainHeader ⟨fullFilename, title, 0⟩)],
    dnd := none, pix := none, instrument := none, sample := none }

/-- order relation on f64 bit patterns used for min/max (the driver instantiates IEEE `<`) -/
abbrev Lt := Nat → Nat → Bool

def minBy (lt : Lt) : Nat → List Nat → Nat
  | acc, [] => acc
  | acc, x :: xs => minBy lt (if lt x acc then x else acc) xs
def maxBy (lt : Lt) : Nat → List Nat → Nat
  | acc, [] => acc
  | acc, x :: xs => maxBy lt (if lt acc x then x else acc) xs

/-- `to_unit(row.min(), unit).value`, `to_unit(row.max(), unit).value` -/
def rowRange (lt : Lt) (r : PixRow) : Nat × Nat :=
  match r.vals with
  | [] => (r.emptyLo, r.emptyHi)
  | x :: xs => (minBy lt x xs, maxBy lt x xs)

def nPixels (rows : List PixRow) : Nat :=
  match rows with
  | [] => 0
  | r :: _ => r.vals.length

inductive Op where
  | addPixelData (rows : List PixRow) (experiments : List Experiment) (nDims : Nat)
  | addDefaultInstrument (i : Instrument)
  | addDefaultSample (s : Sample)
  | addEmptyDndData (d : DndMeta)
  | addEmptyDetectorParams
  deriving Repr

def setNfiles (n : Nat) : List (BlockName × Block) → List (BlockName × Block)
  | [] => []
  | (k, .mainHeader h) :: rest => (k, .mainHeader { h with nfiles := n }) :: setNfiles n rest
  | kv :: rest => kv :: setNfiles n rest

def step (lt : Lt) (b : Builder) : Op → Builder
  | .addPixelData rows exps nDims =>
    let blocks := dictSet nExpdata (.expdata exps) b.dataBlocks
    let pm : PixMeta := ⟨b.fullFilename, nPixels rows, rows.map (rowRange lt)⟩
    let blocks := dictSet nPixMeta (.pixMeta pm) blocks
    { b with nDims := nDims, pix := some rows, dataBlocks := setNfiles exps.length blocks }
  | .addEmptyDetectorParams => { b with dataBlocks := dictSet nDetpar .detpar b.dataBlocks }
  | .addEmptyDndData d =>
    { b with dataBlocks := dictSet nDataMeta (.dndMeta d) b.dataBlocks, dnd := some d.axes.nBins }
  | .addDefaultInstrument i => { b with instrument := some i }
  | .addDefaultSample s => { b with sample := some s }

def run (lt : Lt) (b : Builder) (ops : List Op) : Builder := ops.foldl (step lt) b

/-- time stamps taken by `prepare_for_serialization` (main header, histogram metadata) -/
structure Stamps where
  main : Str
  dnd : Str

/-- `block.prepare_for_serialization(...).serialize_to_ir().to_object_array()` -/
def Block.toObj (b : Builder) (st : Stamps) : Block → Obj
  | .mainHeader h => structObj (h.fields st.main)
  | .expdata es => structObj (multiExperimentFields es)
  | .pixMeta m => structObj m.fields
  | .detpar => structObj (uniqueRefFields [71,76,79,66,65,76,95,78,65,77,69,95,68,69,84,69,67,84,79,82,83,95,67,79,78,84,65,73,78,69,82] /-GLOBAL_NAME_DETECTORS_CONTAINER-/ [73,88,95,100,101,116,101,99,116,111,114,95,97,114,114,97,121] /-IX_detector_array-/ [] 0)
  | .dndMeta d => structObj (d.fields b.filename b.filepath st.dnd)
  | .instruments i n =>
      structObj (uniqueRefFields [71,76,79,66,65,76,95,78,65,77,69,95,73,78,83,84,82,85,77,69,78,84,83,95,67,79,78,84,65,73,78,69,82] /-GLOBAL_NAME_INSTRUMENTS_CONTAINER-/ [73,88,95,105,110,115,116] /-IX_inst-/ [structObj i.fields] n)
  | .samples s n =>
      structObj (uniqueRefFields [71,76,79,66,65,76,95,78,65,77,69,95,83,65,77,80,76,69,83,95,67,79,78,84,65,73,78,69,82] /-GLOBAL_NAME_SAMPLES_CONTAINER-/ [73,88,95,115,97,109,112] /-IX_samp-/ [structObj s.fields] n)

def nfilesOf : List (BlockName × Block) → Nat
  | [] => 0
  | (_, .mainHeader h) :: _ => h.nfiles
  | _ :: rest => nfilesOf rest

/-- `_to_canonical_block_order` for a given order table -/
def toCanonicalOrder {β} (order : List BlockName) (blocks : List (BlockName × β)) : List (BlockName × β) :=
  let head := order.filterMap (fun n => (dictGet n blocks).map (fun v => (n, v)))
  -- `out.update(blocks)`: keys already present keep their place (and get the same value), others append
  blocks.foldl (fun out kv => dictSet kv.1 kv.2 out) head

/-- `_prepare_data_blocks` -/
def prepareBlocks (order : List BlockName) (b : Builder) : List (BlockName × Block) :=
  let blocks := b.dataBlocks
  let n := nfilesOf blocks
  let blocks := match b.instrument with
    | some i => dictSet nInstruments (.instruments i n) blocks
    | none => blocks
  let blocks := match b.sample with
    | some s => dictSet nSamples (.samples s n) blocks
    | none => blocks
  toCanonicalOrder order blocks

/-! ## Pixel and histogram blocks -/

def prodList : List Nat → Nat
  | [] => 1
  | d :: ds => d * prodList ds

/-- `_DndPlaceholder.size` -/
def dndSize (shape : List Nat) : Nat := 4 + 4 * shape.length + 3 * 8 * prodList shape

/-- `_DndPlaceholder.write`: rank, extents, then three zero arrays (f64, f64, u64) -/
def dndWrite (o : Order) (shape : List Nat) : Bytes :=
  u32 o shape.length ++ shape.flatMap (u32 o) ++
  (List.replicate (8 * prodList shape) 0 ++ (List.replicate (8 * prodList shape) 0 ++
   List.replicate (8 * prodList shape) 0))

/-- `_PixWrap.size` -/
def pixSize (rows : List PixRow) : Nat := 4 + 8 + rows.length * 4 * nPixels rows

/-- the bytes of `buffer[:n]` after filling it from `row[offset : offset + chunk]` for every row:
`n` pixels, all rows of one pixel next to each other, each value rounded to f32 by `round` -/
def pixChunk (o : Order) (round : Nat → Nat) (rows : List PixRow) (offset chunk n : Nat) : Bytes :=
  (List.range n).flatMap (fun k =>
    rows.flatMap (fun r => f32 o (round (((r.vals.drop offset).take chunk).getD k 0))))

/-- the chunk loop AS CODED: `for offset in range(0, bound, chunk): n = min(chunk, remaining) …`;
`bound` is `n_pixels` in the current code (it was `n_rows` before commit d2d86d4). -/
def pixLoop (o : Order) (round : Nat → Nat) (rows : List PixRow) (bound chunk : Nat) :
    Nat → Nat → Nat → Bytes
  | 0, _, _ => []
  | fuel+1, offset, remaining =>
    if offset < bound then
      let n := min chunk remaining
      pixChunk o round rows offset chunk n ++
        pixLoop o round rows bound chunk fuel (offset + chunk) (remaining - n)
    else []

def pixWriteBound (o : Order) (round : Nat → Nat) (rows : List PixRow) (bound chunk : Nat) : Bytes :=
  u32 o rows.length ++ (u64 o (nPixels rows) ++
    pixLoop o round rows bound chunk bound 0 (nPixels rows))

/-- `_PixWrap.write` -/
def pixWrite (o : Order) (round : Nat → Nat) (rows : List PixRow) (chunk : Nat) : Bytes :=
  pixWriteBound o round rows (nPixels rows) chunk

/-! ## File -/

def sHorace : Str := [104,111,114,97,99,101] /-horace-/
def tyRegular : Str := [100,97,116,97,95,98,108,111,99,107] /-data_block-/
def tyPix : Str := [112,105,120,95,100,97,116,97,95,98,108,111,99,107] /-pix_data_block-/
def tyDnd : Str := [100,110,100,95,100,97,116,97,95,98,108,111,99,107] /-dnd_data_block-/

/-- `_write_file_header(_make_file_header())`: "horace", 4.0, SQW (=1), n_dims -/
def fileHeader (o : Order) (nDims : Nat) : Bytes :=
  charArray o sHorace ++ (f64 o fFour ++ (u32 o 1 ++ u32 o nDims))

structure Desc where
  ty : Str
  name : BlockName
  pos : Nat
  size : Nat
  locked : Nat
  deriving Repr, DecidableEq

/-- `_write_data_block_descriptor` -/
def descBytes (o : Order) (d : Desc) : Bytes :=
  charArray o d.ty ++ (charArray o d.name.1 ++ (charArray o d.name.2 ++
    (u64 o d.pos ++ (u32 o d.size ++ u32 o d.locked))))

/-- the table body after its size field: number of blocks, descriptors -/
def batBody (o : Order) (ds : List Desc) : Bytes := u32 o ds.length ++ ds.flatMap (descBytes o)

/-- positions: each block starts where the previous one ends -/
def assignPos : Nat → List Desc → List Desc
  | _, [] => []
  | p, d :: ds => { d with pos := p } :: assignPos (p + d.size) ds

/-- `_serialize_block_allocation_table`: a first pass with placeholder positions fixes the length;
then positions are counted from `batOffset + length` and patched in (modelled by re-serialising
with the final positions: the two serialisations have equal length). -/
def serializeBat (o : Order) (ds : List Desc) (batOffset : Nat) : Bytes × List Desc :=
  let placeholder := u32 o 0 ++ batBody o ds
  let ds' := assignPos (batOffset + placeholder.length) ds
  (u32 o (placeholder.length - 4) ++ batBody o ds', ds')

/-- payload of one block and its descriptor with placeholder position -/
structure BlockOut where
  desc : Desc
  bytes : Bytes

/-- `_serialize_data_blocks` + the write loop of `create` -/
def blockOuts (order : List BlockName) (b : Builder) (st : Stamps) (round : Nat → Nat) (chunk : Nat) :
    List BlockOut :=
  let regular := (prepareBlocks order b).map (fun (name, blk) =>
    let bytes := writeObj b.order (blk.toObj b st)
    (⟨⟨tyRegular, name, 0, bytes.length, 0⟩, bytes⟩ : BlockOut))
  let dnd := match b.dnd with
    | some shape => [(⟨⟨tyDnd, nNdData, 0, dndSize shape, 0⟩, dndWrite b.order shape⟩ : BlockOut)]
    | none => []
  let pix := match b.pix with
    | some rows => [(⟨⟨tyPix, nPixData, 0, pixSize rows, 0⟩, pixWrite b.order round rows chunk⟩ : BlockOut)]
    | none => []
  regular ++ (dnd ++ pix)

/-- `SqwBuilder.create` -/
def create (order : List BlockName) (b : Builder) (st : Stamps) (round : Nat → Nat) (chunk : Nat) : Bytes :=
  let header := fileHeader b.order b.nDims
  let outs := blockOuts order b st round chunk
  let (bat, _) := serializeBat b.order (outs.map (·.desc)) header.length
  header ++ (bat ++ (outs.map (·.bytes)).flatten)

/-! ## The output target

`create` opens a path with `open_or_pass(path, "wb")`: whatever the path held before is discarded, then
header, table and blocks are written one after the other from position 0. -/

/-- `open(path, "wb")` on a path that holds `previous`: the file is truncated to nothing -/
def openWb (_previous : Bytes) : Bytes := []

/-- what a path that held `previous` holds after `SqwBuilder.create` -/
def pathAfterCreate (previous : Bytes) (order : List BlockName) (b : Builder) (st : Stamps)
    (round : Nat → Nat) (chunk : Nat) : Bytes :=
  openWb previous ++ create order b st round chunk

end ScnVerif.Sqw
