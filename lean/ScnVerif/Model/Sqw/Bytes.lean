/-!
# SQW byte layer (import-free)

Transcribed from `src/scippneutron/io/sqw/_low_level_io.py` (`LowLevelSqw.write_u8/u32/u64/f64/
write_char_array/write_chars`, `read_*`, `_deduce_byteorder`).

Bytes are naturals `< 256` in a `List` (kernel friendly). Floating point numbers are *opaque bit
patterns*: an f64 is the natural number `< 2^64` holding its IEEE-754 bits, so `write_f64` is
`write_u64` of the bits (that is what `struct.pack('<d')` / `ndarray.tobytes()` do).
`int.to_bytes(w, order)` raises `OverflowError` for `n ≥ 256^w`; the model writes `n mod 256^w`
and the theorems carry explicit `n < 256^w` hypotheses where the value matters.
-/
namespace ScnVerif.Sqw

abbrev Bytes := List Nat

inductive Order | little | big
  deriving DecidableEq, Repr, Inhabited

/-- little-endian digits, exactly `w` of them -/
def leBytes : Nat → Nat → Bytes
  | 0, _ => []
  | w+1, n => (n % 256) :: leBytes w (n / 256)

def leNat : Bytes → Nat
  | [] => 0
  | b :: bs => b + 256 * leNat bs

/-- `n.to_bytes(w, order)` -/
def encUInt (o : Order) (w n : Nat) : Bytes :=
  match o with
  | .little => leBytes w n
  | .big => (leBytes w n).reverse

/-- `int.from_bytes(bs, order)` -/
def decUInt (o : Order) (bs : Bytes) : Nat :=
  match o with
  | .little => leNat bs
  | .big => leNat bs.reverse

def u8 (n : Nat) : Bytes := [n % 256]
def u32 (o : Order) (n : Nat) : Bytes := encUInt o 4 n
def u64 (o : Order) (n : Nat) : Bytes := encUInt o 8 n
/-- f64 given by its bit pattern -/
def f64 (o : Order) (bits : Nat) : Bytes := encUInt o 8 bits
/-- f32 given by its bit pattern -/
def f32 (o : Order) (bits : Nat) : Bytes := encUInt o 4 bits

/-- `write_char_array`: u32 length of the UTF-8 encoding, then the encoded bytes -/
def charArray (o : Order) (s : Bytes) : Bytes := u32 o s.length ++ s

/-- `file.read(n)` that must deliver `n` bytes -/
def takeN (n : Nat) (bs : Bytes) : Option (Bytes × Bytes) :=
  if bs.length < n then none else some (bs.take n, bs.drop n)

def rdUInt (o : Order) (w : Nat) (bs : Bytes) : Option (Nat × Bytes) :=
  match takeN w bs with
  | none => none
  | some (a, r) => some (decUInt o a, r)

def rdU8 (bs : Bytes) : Option (Nat × Bytes) :=
  match bs with
  | [] => none
  | b :: r => some (b, r)

def rdU32 (o : Order) (bs : Bytes) : Option (Nat × Bytes) := rdUInt o 4 bs
def rdU64 (o : Order) (bs : Bytes) : Option (Nat × Bytes) := rdUInt o 8 bs

def rdCharArray (o : Order) (bs : Bytes) : Option (Bytes × Bytes) :=
  match rdU32 o bs with
  | none => none
  | some (n, r) => takeN n r

/-- `_deduce_byteorder`: compare the first four bytes read as little and as big endian; the
smaller reading wins, `big` on a tie. -/
def deduceOrder (bs : Bytes) : Order :=
  let b := bs.take 4
  if decUInt .little b < decUInt .big b then .little else .big

/-! ## Exact integer → IEEE-754 binary64 bit pattern (`float(n)` for `0 ≤ n < 2^53`) -/

def natToF64 (n : Nat) : Nat :=
  if n = 0 then 0
  else (1023 + n.log2) * 2 ^ 52 + (n - 2 ^ n.log2) * 2 ^ (52 - n.log2)

/-- inverse on the image: the non-negative integer a bit pattern denotes, if it denotes one
(below 2^53) -/
def f64ToNat? (b : Nat) : Option Nat :=
  if b = 0 then some 0
  else
    let e := b / 2 ^ 52
    let m := b % 2 ^ 52
    if 1023 ≤ e ∧ e ≤ 1075 ∧ m % 2 ^ (52 - (e - 1023)) = 0 then
      some (2 ^ (e - 1023) + m / 2 ^ (52 - (e - 1023)))
    else none

end ScnVerif.Sqw
