import ScnVerif.Model.Sqw.Build
/-!
# The package's own SQW reader (import-free)

Transcribed from `_read_write.py` (`read_object_array`, `_read_char_arrays`, `_read_cell`,
`_read_struct`, `_read_single_struct`, `_read_f64`, `_read_logical`, `_read_shape`, `_volume`) and
`_sqw.py` (`_try_parse_block`, `_get_struct_type_id`, `_get_struct_field`, `_get_scalar_struct_field`,
`_parse_main_header_cl_2_0`, `_parse_pix_metadata_1_0`, `_parse_single_ix_experiment_3_0`,
`_parse_ix_experiment_3_0`, `_parse_ix_sample_0_0`, `_parse_ix_source_2_0`,
`_parse_ix_null_instrument_1_0`, `_parse_unique_references_container_1_0`,
`_parse_unique_objects_container_1_0`).

The reader's IR is again `Obj`: a struct array is `structs shape n names fields` (the reader splits the
combined cell into `n` structs with the same names — the same information); an f64 array is `f64s`
whether the reader returns a list with one `F64` (`data.size == 1`) or an `ndarray` (parsers test that
with `vals.length = 1`). Errors (exceptions, `AbortParse`) are `none`.
Unit labels are not part of this model (they are compared in `Gen/SqwTables` and by the oracle).
-/
namespace ScnVerif.Sqw

/-- `_volume(shape) = int(np.prod(shape))`: the EMPTY product is 1 -/
def rVolume : List Nat → Nat
  | [] => 1
  | d :: ds => d * rVolume ds

/-- `k` strings of `n` bytes each -/
def rdStrings (n : Nat) : Nat → Bytes → Option (List Bytes × Bytes)
  | 0, bs => some ([], bs)
  | k+1, bs =>
    match takeN n bs with
    | none => none
    | some (s, r) =>
      match rdStrings n k r with
      | none => none
      | some (ss, r') => some (s :: ss, r')

def rdBools : Nat → Bytes → Option (List Bool × Bytes)
  | 0, bs => some ([], bs)
  | k+1, [] => none
  | k+1, b :: bs =>
    match rdBools k bs with
    | none => none
    | some (vs, r) => some ((b != 0) :: vs, r)

mutual
/-- `read_object_array` -/
def rdObj (o : Order) : Nat → Bytes → Option (Obj × Bytes)
  | 0, _ => none
  | _+1, [] => none
  | f+1, tag :: rest =>
    if tag = 32 then rdObj o f rest else
    match rdShape o rest with
    | none => none
    | some (shape, r) =>
      if tag = 1 then
        -- `_read_char_arrays`
        match shape with
        | [] => some (.chars [] [[]], r)
        | n :: more =>
          match rdStrings n (rVolume more) r with
          | none => none
          | some (ss, r') => some (.chars shape ss, r')
      else if tag = 3 then
        -- `_read_f64` / `read_array`: no shape ⇒ empty array, nothing read
        match shape with
        | [] => some (.f64s [] [], r)
        | _ =>
          match rdF64s o (rVolume shape) r with
          | none => none
          | some (vs, r') => some (.f64s shape vs, r')
      else if tag = 0 then
        match rdBools (rVolume shape) r with
        | none => none
        | some (vs, r') => some (.logicals shape vs, r')
      else if tag = 23 then
        match rdObjs o f (rVolume shape) r with
        | none => none
        | some (xs, r') => some (.cell shape xs, r')
      else if tag = 24 then
        -- `_read_struct`
        match shape with
        | [] => some (.structs [] 0 [] [], r)
        | _ =>
          match rdU32 o r with
          | none => none
          | some (nf, r1) =>
            match rdDims o nf r1 with
            | none => none
            | some (lens, r2) =>
              match rdPieces lens r2 with
              | none => none
              | some (names, r3) =>
                match rdObj o f r3 with
                | some (.cell cshape xs, r') =>
                  let expected := if shape = [1] then [nf, 1] else nf :: 1 :: shape
                  if cshape = expected then some (.structs shape (rVolume shape) names xs, r') else none
                | _ => none
      else none
def rdObjs (o : Order) : Nat → Nat → Bytes → Option (List Obj × Bytes)
  | _, 0, bs => some ([], bs)
  | 0, _+1, _ => none
  | f+1, k+1, bs =>
    match rdObj o f bs with
    | none => none
    | some (x, r) =>
      match rdObjs o f k r with
      | none => none
      | some (xs, r') => some (x :: xs, r')
end

/-! ## Parsers -/

/-- the k-th struct of a struct array as (names, values) -/
def structAt (names : List Bytes) (fields : List Obj) (k : Nat) : List Bytes × List Obj :=
  (names, (fields.drop (k * names.length)).take names.length)

/-- `_get_scalar_struct_field(...)` for a string field -/
def scalarStr (names : List Bytes) (vals : List Obj) (name : Bytes) : Option Bytes :=
  match lookupField name names vals with
  | some (.chars shape (s :: _)) => if shape.drop 1 = [] ∨ shape.drop 1 = [1] then some s else none
  | _ => none

/-- `_get_scalar_struct_field(...)` for a number: shape `(1,)` or `()`, first element -/
def scalarF64 (names : List Bytes) (vals : List Obj) (name : Bytes) : Option Nat :=
  match lookupField name names vals with
  | some (.f64s shape (v :: _)) => if shape = [1] ∨ shape = [] then some v else none
  | _ => none

def scalarBool (names : List Bytes) (vals : List Obj) (name : Bytes) : Option Bool :=
  match lookupField name names vals with
  | some (.logicals shape (v :: _)) => if shape = [1] ∨ shape = [] then some v else none
  | _ => none

/-- `_get_struct_field(struct, name).data` for an f64 array -/
def arrayF64 (names : List Bytes) (vals : List Obj) (name : Bytes) : Option (List Nat × List Nat) :=
  match lookupField name names vals with
  | some (.f64s shape vs) => some (shape, vs)
  | _ => none

/-- `_get_struct_type_id`: (`serial_name`, `version`) -/
def typeId (names : List Bytes) (vals : List Obj) : Option (Bytes × Nat) :=
  match lookupField sSerialName names vals, lookupField [118,101,114,115,105,111,110] /-version-/ names vals with
  | some (.chars [_] (n :: _)), some (.f64s [1] (v :: _)) => some (n, v)
  | _, _ => none

/-- what `_parse_main_header_cl_2_0` returns (the creation date stays a string here) -/
structure RMainHeader where
  fullFilename : Bytes
  title : Bytes
  nfiles : Nat
  creationDate : Bytes
  deriving Repr, DecidableEq

def parseMainHeader (names : List Bytes) (vals : List Obj) : Option RMainHeader := do
  let ff ← scalarStr names vals [102,117,108,108,95,102,105,108,101,110,97,109,101] /-full_filename-/
  let t ← scalarStr names vals [116,105,116,108,101] /-title-/
  let nf ← f64ToNat? (← scalarF64 names vals [110,102,105,108,101,115] /-nfiles-/)   -- `int(float)` of a non-negative integer
  let cd ← scalarStr names vals [99,114,101,97,116,105,111,110,95,100,97,116,101] /-creation_date-/
  some ⟨ff, t, nf, cd⟩

structure RPixMeta where
  fullFilename : Bytes
  npix : Nat
  /-- `data_range` as read: shape reversed back (`reshape(shape[::-1])`), values in file order -/
  rangeShape : List Nat
  range : List Nat
  deriving Repr, DecidableEq

def parsePixMeta (names : List Bytes) (vals : List Obj) : Option RPixMeta := do
  let (shape, vs) ← arrayF64 names vals [100,97,116,97,95,114,97,110,103,101] /-data_range-/
  if vs.length = 1 then none else   -- a one-element array comes back as a list: `AbortParse`
  let ff ← scalarStr names vals [102,117,108,108,95,102,105,108,101,110,97,109,101] /-full_filename-/
  let np ← f64ToNat? (← scalarF64 names vals [110,112,105,120] /-npix-/)
  some ⟨ff, np, shape.reverse, vs⟩

/-- shape of `en` as `_parse_single_ix_experiment_3_0` returns it. `shapeRev` is the shape of the
array the reader holds (file extents reversed), `n` the number of values: a single value comes as a
list (→ one element); two dimensions with more than one row stay 2-d (`detector`,
`energy_transfer`, since commit b948ebb); otherwise `squeeze()`, which must leave one dimension -/
def enShapeRead (shapeRev : List Nat) (n : Nat) : Option (List Nat) :=
  if n = 1 then some [1]
  else if shapeRev.length = 2 ∧ 1 < shapeRev.headD 0 then some shapeRev
  else
    let sq := shapeRev.filter (· ≠ 1)
    if sq.length = 1 then some sq else none

/-- what `_parse_single_ix_experiment_3_0` returns: numbers as bit patterns; `efix` scalar iff one
value was stored -/
structure RExperiment where
  filename : Bytes
  filepath : Bytes
  runId : Nat
  efix : List Nat
  efixIsScalar : Bool
  emode : Nat
  enShape : List Nat
  en : List Nat
  psi : Nat
  u : List Nat
  v : List Nat
  omega : Nat
  dpsi : Nat
  gl : Nat
  gs : Nat
  anglesInDegrees : Bool
  deriving Repr, DecidableEq

def parseExperiment (names : List Bytes) (vals : List Obj) : Option RExperiment := do
  let (_, efix) ← arrayF64 names vals [101,102,105,120] /-efix-/
  let (enShape, en) ← arrayF64 names vals [101,110] /-en-/
  let deg ← scalarBool names vals [97,110,103,117,108,97,114,95,105,115,95,100,101,103,114,101,101] /-angular_is_degree-/
  let rid ← f64ToNat? (← scalarF64 names vals [114,117,110,95,105,100] /-run_id-/)
  if rid = 0 then none else    -- `int(run_id) - 1` would be negative
  let emode ← f64ToNat? (← scalarF64 names vals [101,109,111,100,101] /-emode-/)
  if emode ≠ 1 ∧ emode ≠ 2 then none else   -- `EnergyMode(...)`
  let (_, u) ← arrayF64 names vals [117] /-u-/
  let (_, v) ← arrayF64 names vals [118] /-v-/
  if u.length ≠ 3 ∨ v.length ≠ 3 then none else   -- `sc.vector`
  let enRead ← enShapeRead enShape.reverse en.length
  some {
    filename := ← scalarStr names vals [102,105,108,101,110,97,109,101] /-filename-/, filepath := ← scalarStr names vals [102,105,108,101,112,97,116,104] /-filepath-/,
    runId := rid - 1, efix := efix, efixIsScalar := efix.length == 1, emode := emode,
    enShape := enRead, en := en,
    psi := ← scalarF64 names vals [112,115,105] /-psi-/, u := u, v := v, omega := ← scalarF64 names vals [111,109,101,103,97] /-omega-/,
    dpsi := ← scalarF64 names vals [100,112,115,105] /-dpsi-/, gl := ← scalarF64 names vals [103,108] /-gl-/,
    gs := ← scalarF64 names vals [103,115] /-gs-/, anglesInDegrees := deg }

/-- `_parse_ix_experiment_3_0` on the block object -/
def parseExperiments (blockNames : List Bytes) (blockVals : List Obj) : Option (List RExperiment) :=
  match lookupField [97,114,114,97,121,95,100,97,116] /-array_dat-/ blockNames blockVals with
  | some (.structs _ n names fields) => (List.range n).mapM (fun k =>
      let (ns, vs) := structAt names fields k
      parseExperiment ns vs)
  | _ => none

structure RSample where
  name : Bytes
  alatt : List Nat
  angdeg : List Nat
  deriving Repr, DecidableEq

def parseSample (names : List Bytes) (vals : List Obj) : Option RSample := do
  let n ← scalarStr names vals [110,97,109,101] /-name-/
  let (_, a) ← arrayF64 names vals [97,108,97,116,116] /-alatt-/
  let (_, g) ← arrayF64 names vals [97,110,103,100,101,103] /-angdeg-/
  if a.length ≠ 3 ∨ g.length ≠ 3 then none else some ⟨n, a, g⟩

structure RInstrument where
  name : Bytes
  sourceName : Bytes
  targetName : Bytes
  frequency : Nat
  deriving Repr, DecidableEq

def parseInstrument (names : List Bytes) (vals : List Obj) : Option RInstrument :=
  match lookupField [115,111,117,114,99,101] /-source-/ names vals with
  | some (.structs [1] 1 sn sv) => do
    let (ser, ver) ← typeId sn sv
    if ser ≠ [73,88,95,115,111,117,114,99,101] /-IX_source-/ ∨ ver ≠ fTwo then none else
    let name ← scalarStr names vals [110,97,109,101] /-name-/
    some ⟨name, ← scalarStr sn sv [110,97,109,101] /-name-/, ← scalarStr sn sv [116,97,114,103,101,116,95,110,97,109,101] /-target_name-/, ← scalarF64 sn sv [102,114,101,113,117,101,110,99,121] /-frequency-/⟩
  | _ => none

/-- `_parse_unique_references_container_1_0` ∘ `_parse_unique_objects_container_1_0`: the stored
objects (as structs) and, for every index, which one it refers to (0-based) -/
def parseContainer (names : List Bytes) (vals : List Obj) : Option (List Obj × List Nat) :=
  match lookupField [117,110,105,113,117,101,95,111,98,106,101,99,116,115] /-unique_objects-/ names vals with
  | some (.structs _ 1 n2 v2) =>
    match lookupField [117,110,105,113,117,101,95,111,98,106,101,99,116,115] /-unique_objects-/ n2 v2, lookupField [105,100,120] /-idx-/ n2 v2 with
    | some (.cell _ objs), some (.f64s _ idx) => do
      let is ← idx.mapM f64ToNat?
      if is.all (fun i => 1 ≤ i ∧ i ≤ objs.length) then some (objs, is.map (· - 1)) else none
    | _, _ => none
  | _ => none

/-! ### histogram metadata (`_parse_dnd_metadata_1_0`, `_parse_line_axes_7_0`, `_parse_line_proj_7_0`) -/

/-- `_unpack_cell_array` for a 1-d cell array of strings (one `String` per char array) -/
def unpackLabels : Obj → Option (List Bytes)
  | .cell _ items => items.mapM (fun x => match x with | .chars _ [s] => some s | _ => none)
  | _ => none

/-- an array field that must come as an `ndarray` (more than one value) -/
def ndarrayF64 (names : List Bytes) (vals : List Obj) (name : Bytes) : Option (List Nat × List Nat) :=
  match arrayF64 names vals name with
  | some (shape, vs) => if vs.length = 1 then none else some (shape, vs)
  | none => none

/-- `sc.vector(values)`: exactly three numbers -/
def vec3 (names : List Bytes) (vals : List Obj) (name : Bytes) : Option (List Nat) :=
  match ndarrayF64 names vals name with
  | some (_, vs) => if vs.length = 3 then some vs else none
  | none => none

def pairsOf : List Nat → List (Nat × Nat)
  | a :: b :: rest => (a, b) :: pairsOf rest
  | _ => []

structure RLineProj where
  alatt : List Nat
  angdeg : List Nat
  /-- `zip(values, units, strict=False)` with four units: at most four scalars -/
  offset : List Nat
  title : Bytes
  label : List Bytes
  u : List Nat
  v : List Nat
  /-- `[]` for `None` (stored shape `(0,)`) -/
  w : List Nat
  nonOrthogonal : Bool
  deriving Repr, DecidableEq

def getVec (names : List Bytes) (vals : List Obj) (name : Bytes) : Option (List Nat) :=
  match arrayF64 names vals name with
  | some (shape, vs) =>
    if shape.reverse = [0] then some []           -- `values.shape == (0,)` ⇒ `None`
    else if vs.length = 3 ∧ vs.length ≠ 1 then some vs else none
  | none => none

def parseLineProj (names : List Bytes) (vals : List Obj) : Option RLineProj := do
  let ty ← scalarStr names vals [116,121,112,101] /-type-/
  if ty ≠ [97,97,97] /-aaa-/ then none else
  let alatt ← vec3 names vals [97,108,97,116,116] /-alatt-/
  let angdeg ← vec3 names vals [97,110,103,100,101,103] /-angdeg-/
  let (_, off) ← ndarrayF64 names vals [111,102,102,115,101,116] /-offset-/
  let title ← scalarStr names vals [116,105,116,108,101] /-title-/
  let label ← unpackLabels (← lookupField [108,97,98,101,108] /-label-/ names vals)
  let u ← getVec names vals [117] /-u-/
  let v ← getVec names vals [118] /-v-/
  let w ← getVec names vals [119] /-w-/
  let no ← scalarBool names vals [110,111,110,111,114,116,104,111,103,111,110,97,108] /-nonorthogonal-/
  some ⟨alatt, angdeg, off.take 4, title, label, u, v, w, no⟩

structure RLineAxes where
  title : Bytes
  label : List Bytes
  imgScales : List Nat
  /-- rows of the (n × 2) array zipped with the four units -/
  imgRange : List (Nat × Nat)
  nBins : List Nat
  singleBin : List Bool
  /-- zero-based again (`- 1`) -/
  dax : List Nat
  offset : List Nat
  changesAspectRatio : Bool
  filename : Bytes
  filepath : Bytes
  deriving Repr, DecidableEq

def parseLineAxes (names : List Bytes) (vals : List Obj) : Option RLineAxes := do
  let title ← scalarStr names vals [116,105,116,108,101] /-title-/
  let label ← unpackLabels (← lookupField [108,97,98,101,108] /-label-/ names vals)
  let (_, scales) ← ndarrayF64 names vals [105,109,103,95,115,99,97,108,101,115] /-img_scales-/
  let (rshape, range) ← ndarrayF64 names vals [105,109,103,95,114,97,110,103,101] /-img_range-/
  if rshape.reverse.drop 1 ≠ [2] then none else     -- rows of two values each
  let (_, nb) ← ndarrayF64 names vals [110,98,105,110,115,95,97,108,108,95,100,105,109,115] /-nbins_all_dims-/
  let nbins ← nb.mapM f64ToNat?                      -- `dtype="int64"` of non-negative integers
  let single ← match lookupField [115,105,110,103,108,101,95,98,105,110,95,100,101,102,105,110,101,115,95,105,97,120] /-single_bin_defines_iax-/ names vals with
    | some (.logicals _ bs) => some bs
    | _ => none
  let (_, dx) ← ndarrayF64 names vals [100,97,120] /-dax-/
  let dax1 ← dx.mapM f64ToNat?
  if dax1.any (· = 0) then none else                 -- `astype(int) - 1` of a 1-based index
  let (_, off) ← ndarrayF64 names vals [111,102,102,115,101,116] /-offset-/
  let car ← scalarBool names vals [99,104,97,110,103,101,115,95,97,115,112,101,99,116,95,114,97,116,105,111] /-changes_aspect_ratio-/
  let fn ← scalarStr names vals [102,105,108,101,110,97,109,101] /-filename-/
  let fp ← scalarStr names vals [102,105,108,101,112,97,116,104] /-filepath-/
  some ⟨title, label, scales.take 4, (pairsOf range).take 4, nbins, single, dax1.map (· - 1), off.take 4, car, fn, fp⟩

structure RDnd where
  axes : RLineAxes
  proj : RLineProj
  creationDate : Bytes
  deriving Repr, DecidableEq

def parseDnd (names : List Bytes) (vals : List Obj) : Option RDnd :=
  match lookupField [97,120,101,115] /-axes-/ names vals, lookupField [112,114,111,106] /-proj-/ names vals with
  | some (.structs _ 1 an av), some (.structs _ 1 pn pv) => do
    let proj ← parseLineProj pn pv
    let axes ← parseLineAxes an av
    let cd ← scalarStr names vals [99,114,101,97,116,105,111,110,95,100,97,116,101,95,115,116,114] /-creation_date_str-/
    some ⟨axes, proj, cd⟩
  | _, _ => none

end ScnVerif.Sqw
