import ScnVerif.Model.Sqw.Bytes
/-!
# SQW intermediate representation and its byte codec

Transcribed from `src/scippneutron/io/sqw/_ir.py` (`ObjectArray`, `CellArray`, `Struct`, scalar
objects, `_serialize_field`) and `_read_write.py` (`write_object_array`, `_write_char_array`,
`_write_cell`, `_write_struct`, `_write_single_struct`, `_write_f64`, `_write_logical`).

`Obj` is an `ObjectArray`/`CellArray`:
* `chars shape strs`   — `ObjectArray(ty=char)`, `data` a list of `String` (UTF-8 bytes each);
* `f64s shape vals`    — `ObjectArray(ty=f64)`, `data` a list of `F64` or an `ndarray` (C-order
                         values; both are written as the values one after the other), as bit patterns;
* `logicals shape vals`— `ObjectArray(ty=logical)`;
* `cell shape items`   — `CellArray`;
* `structs shape n names fields` — `ObjectArray(ty=struct)` holding `n` structs; `_write_struct`
  uses only the field names of the first struct and the concatenation of all structs' field values,
  which is exactly what is stored here (`names`, `fields`); `n = 0` ⇒ nothing follows the shape.

`decObj` is an INDEPENDENT decoder written from the format description (type tag, rank, extents,
payload; an empty extent list denotes an empty array; tag 32 announces a self-serialising object
and is followed by an ordinary object array). It is not a transcription of `read_object_array`.
-/
namespace ScnVerif.Sqw

inductive Obj where
  | chars (shape : List Nat) (strs : List Bytes)
  | f64s (shape : List Nat) (vals : List Nat)
  | logicals (shape : List Nat) (vals : List Bool)
  | cell (shape : List Nat) (items : List Obj)
  | structs (shape : List Nat) (n : Nat) (names : List Bytes) (fields : List Obj)
  deriving Repr, Inhabited

/-- `write_u8(len(shape)); for size in shape: write_u32(size)` -/
def shapeBytes (o : Order) (shape : List Nat) : Bytes :=
  u8 shape.length ++ shape.flatMap (u32 o)

def sSerialName : Bytes := [115,101,114,105,97,108,95,110,97,109,101]   -- "serial_name"
def sIX : Bytes := [73,88,95]                                             -- "IX_"

def startsWith (p s : Bytes) : Bool := s.take p.length == p

/-- `_get_struct_field(struct, name)`: first field with that name -/
def lookupField (name : Bytes) : List Bytes → List Obj → Option Obj
  | n :: ns, v :: vs => if n = name then some v else lookupField name ns vs
  | _, _ => none

/-- the test in `write_object_array` that decides whether the `serializable` tag (32) precedes a
struct array: exactly one struct, whose scalar `serial_name` field starts with `IX_`.
(`AbortParse` ⇒ no tag.) -/
def needsSerializableTag (n : Nat) (names : List Bytes) (fields : List Obj) : Bool :=
  n == 1 &&
  match lookupField sSerialName names fields with
  | some (.chars shape (s :: _)) =>
      (shape.drop 1 == [] || shape.drop 1 == [1]) && startsWith sIX s
  | _ => false

/-- cell-array shape that `_write_struct` gives the combined field values -/
def structCellShape (nFields n : Nat) : List Nat :=
  if n = 1 then [nFields, 1] else [nFields, 1, n]

/-- what `_write_struct` / `_write_single_struct` emit after the shape of a struct array, given the
already serialised field values: nothing for an empty list of structs; else the number of fields,
the lengths of the field names, the names, and one cell array holding all field values -/
def structPayload (o : Order) (n : Nat) (names : List Bytes) (fieldBytes : Bytes) : Bytes :=
  if n = 0 then [] else
    u32 o names.length ++ (names.flatMap (fun s => u32 o s.length) ++ (names.flatten ++
    23 :: (shapeBytes o (structCellShape names.length n) ++ fieldBytes)))

mutual
/-- `write_object_array` -/
def writeObj (o : Order) : Obj → Bytes
  | .chars shape strs => 1 :: (shapeBytes o shape ++ strs.flatten)
  | .f64s shape vals => 3 :: (shapeBytes o shape ++ vals.flatMap (f64 o))
  | .logicals shape vals => 0 :: (shapeBytes o shape ++ vals.map (fun b => if b then 1 else 0))
  | .cell shape items => 23 :: (shapeBytes o shape ++ writeObjs o items)
  | .structs shape n names fields =>
      (if needsSerializableTag n names fields then [32] else []) ++
      24 :: (shapeBytes o shape ++ structPayload o n names (writeObjs o fields))
def writeObjs (o : Order) : List Obj → Bytes
  | [] => []
  | x :: xs => writeObj o x ++ writeObjs o xs
end

/-! ## Independent decoder -/

/-- number of elements denoted by an extent list; the empty list denotes an empty array -/
def volume : List Nat → Nat
  | [] => 0
  | d :: ds => ds.foldl (· * ·) d

def rdDims (o : Order) : Nat → Bytes → Option (List Nat × Bytes)
  | 0, bs => some ([], bs)
  | k+1, bs =>
    match rdU32 o bs with
    | none => none
    | some (d, r) =>
      match rdDims o k r with
      | none => none
      | some (ds, r') => some (d :: ds, r')

def rdShape (o : Order) (bs : Bytes) : Option (List Nat × Bytes) :=
  match bs with
  | [] => none
  | k :: r => rdDims o k r

def rdF64s (o : Order) : Nat → Bytes → Option (List Nat × Bytes)
  | 0, bs => some ([], bs)
  | k+1, bs =>
    match rdU64 o bs with
    | none => none
    | some (v, r) =>
      match rdF64s o k r with
      | none => none
      | some (vs, r') => some (v :: vs, r')

/-- split `bs` into pieces of the given lengths -/
def rdPieces : List Nat → Bytes → Option (List Bytes × Bytes)
  | [], bs => some ([], bs)
  | l :: ls, bs =>
    match takeN l bs with
    | none => none
    | some (a, r) =>
      match rdPieces ls r with
      | none => none
      | some (as, r') => some (a :: as, r')

mutual
def decObj (o : Order) : Nat → Bytes → Option (Obj × Bytes)
  | 0, _ => none
  | _+1, [] => none
  | f+1, tag :: rest =>
    if tag = 32 then
      -- self-serialising object: an ordinary struct array follows
      match rest with
      | 24 :: _ => decObj o f rest
      | _ => none
    else
    match rdShape o rest with
    | none => none
    | some (shape, r) =>
      let vol := volume shape
      if tag = 1 then
        match takeN vol r with
        | none => none
        | some (s, r') => some (.chars shape [s], r')
      else if tag = 3 then
        match rdF64s o vol r with
        | none => none
        | some (vs, r') => some (.f64s shape vs, r')
      else if tag = 0 then
        match takeN vol r with
        | none => none
        | some (s, r') => some (.logicals shape (s.map (· != 0)), r')
      else if tag = 23 then
        match decObjs o f vol r with
        | none => none
        | some (xs, r') => some (.cell shape xs, r')
      else if tag = 24 then
        if vol = 0 then some (.structs shape 0 [] [], r) else
        match rdU32 o r with
        | none => none
        | some (nf, r1) =>
          match rdDims o nf r1 with
          | none => none
          | some (lens, r2) =>
            match rdPieces lens r2 with
            | none => none
            | some (names, r3) =>
              match r3 with
              | 23 :: r4 =>
                match rdShape o r4 with
                | none => none
                | some (cshape, r5) =>
                  if cshape = structCellShape nf vol then
                    match decObjs o f (nf * vol) r5 with
                    | none => none
                    | some (xs, r') => some (.structs shape vol names xs, r')
                  else none
              | _ => none
      else none
def decObjs (o : Order) : Nat → Nat → Bytes → Option (List Obj × Bytes)
  | _, 0, bs => some ([], bs)
  | 0, _+1, _ => none
  | f+1, k+1, bs =>
    match decObj o f bs with
    | none => none
    | some (x, r) =>
      match decObjs o f k r with
      | none => none
      | some (xs, r') => some (x :: xs, r')
end

end ScnVerif.Sqw
