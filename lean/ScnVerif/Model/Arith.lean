/-!
# Carrier for numeric kernels

Kernels are written once against the standard notation classes (`Add`, `Mul`, `Div`, …) plus
`Trans` for the non-field operations, so that the *same definition* is executed at
`Float` / `Float32` (correspondence with the Python code) and reasoned about at `ℝ`
(theorems; the `ℝ` instance lives in `ScnVerif/Real/Basic.lean`, which imports Mathlib).
-/
namespace ScnVerif

class Trans (α : Type) where
  sqrt : α → α
  sin : α → α
  cos : α → α
  atan2 : α → α → α
  exp : α → α
  pi : α

instance : Trans Float where
  sqrt := Float.sqrt
  sin := Float.sin
  cos := Float.cos
  atan2 := Float.atan2
  exp := Float.exp
  pi := 3.141592653589793

instance : Trans Float32 where
  sqrt := Float32.sqrt
  sin := Float32.sin
  cos := Float32.cos
  atan2 := Float32.atan2
  exp := Float32.exp
  pi := 3.14159265

structure V3 (α : Type) where
  x : α
  y : α
  z : α
  deriving Repr, DecidableEq

namespace V3
variable {α : Type} [Add α] [Sub α] [Mul α] [Div α] [Neg α] [Trans α]
def add (a b : V3 α) : V3 α := ⟨a.x + b.x, a.y + b.y, a.z + b.z⟩
def sub (a b : V3 α) : V3 α := ⟨a.x - b.x, a.y - b.y, a.z - b.z⟩
def smul (c : α) (a : V3 α) : V3 α := ⟨c * a.x, c * a.y, c * a.z⟩
def sdiv (a : V3 α) (c : α) : V3 α := ⟨a.x / c, a.y / c, a.z / c⟩
def dot (a b : V3 α) : α := a.x * b.x + a.y * b.y + a.z * b.z
def cross (a b : V3 α) : V3 α :=
  ⟨a.y * b.z - a.z * b.y, a.z * b.x - a.x * b.z, a.x * b.y - a.y * b.x⟩
def norm (a : V3 α) : α := Trans.sqrt (dot a a)
def normalize (a : V3 α) : V3 α := sdiv a (norm a)
end V3

end ScnVerif
