import ScnVerif.Model.Arith
import ScnVerif.Model.Beamline
/-!
# Gravity-corrected scattering angles (`src/scippneutron/conversion/beamline.py`)

Transcription of `beam_aligned_unit_vectors` (with its `ValueError`), `_drop_due_to_gravity`,
the dispatch predicate of `scattering_angles_with_gravity`, `_scattering_angles_with_gravity_generic`,
`_scattering_angles_with_gravity_orthogonal_coords` and `scattering_angle_in_yz_plane` (with its
`ValueError`).

Two carriers: `α` is the element type of positions/beams/gravity (scipp `vector3` is always
float64) and `β` the element type of the wavelength (float64 or float32).  `Conv.down` is
`.to(dtype=elem_dtype(wavelength), copy=False)` and `Conv.up` the implicit promotion when a `β`
scalar multiplies a `vector3`.  For the theorems `α = β = ℝ` and both are the identity.

Unit handling is reduced to numbers: `c` is the value of `m_n**2 / (2*h**2)`; `lamScale` is the
factor applied by `wavelength.to(unit=sqrt(reciprocal(unit(distance) * unit(const))))` (scipp converts
units by multiplying in double precision and rounding to the element type once).
Thresholds (`1e-10`) are applied to the *values* in whatever unit the beams are given, as the code
does (`sc.scalar(1e-10, unit=incident_beam.unit)`).
-/
namespace ScnVerif.Gravity
open ScnVerif

class HasAbs (α : Type) where
  abs : α → α

instance : HasAbs Float := ⟨Float.abs⟩
instance : HasAbs Float32 := ⟨Float32.abs⟩

/-- dtype conversions between the vector carrier `α` and the wavelength carrier `β` -/
structure Conv (α β : Type) where
  down : α → β
  up : β → α

def Conv.id (α : Type) : Conv α α := ⟨fun x => x, fun x => x⟩
def Conv.f32 : Conv Float Float32 := ⟨Float.toFloat32, Float32.toFloat⟩

inductive Err where
  | value
  deriving Repr, DecidableEq

inductive Path where
  | generic
  | orthogonal
  deriving Repr, DecidableEq

structure Frame (α : Type) where
  ex : V3 α
  ey : V3 α
  ez : V3 α

structure Angles (β : Type) where
  twoTheta : β
  phi : β

section
variable {α β : Type}
variable [Add α] [Sub α] [Mul α] [Div α] [Neg α] [Trans α] [OfNat α 2] [OfScientific α]
  [LT α] [DecidableLT α] [HasAbs α]
variable [Add β] [Sub β] [Mul β] [Div β] [Neg β] [Trans β] [HasAbs β]

def V3.neg (a : V3 α) : V3 α := ⟨-a.x, -a.y, -a.z⟩

/-- `ey = -gravity / sc.norm(gravity)` -/
def unitY (g : V3 α) : V3 α := V3.sdiv (V3.neg g) (V3.norm g)

/-- `z = incident_beam - sc.dot(incident_beam, ey) * ey` -/
def zProj (b1 ey : V3 α) : V3 α := V3.sub b1 (V3.smul (V3.dot b1 ey) ey)

/-- the test `z_norm < sc.scalar(1e-10, unit=z_norm.unit)` of `beam_aligned_unit_vectors`, one element -/
def zNormTooSmall (b1 g : V3 α) : Bool :=
  decide (V3.norm (zProj b1 (unitY g)) < (1e-10 : α))

/-- the vectors computed by `beam_aligned_unit_vectors`, one element, without the check -/
def frame (b1 g : V3 α) : Frame α :=
  let ey := unitY g
  let z := zProj b1 ey
  let ez := V3.sdiv z (V3.norm z)
  let ex := V3.cross ey ez
  ⟨ex, ey, ez⟩

/-- `beam_aligned_unit_vectors` on an array of incident beams (`sc.any` over all elements) -/
def beamAlignedUnitVectors (b1s : List (V3 α)) (g : V3 α) : Except Err (List (Frame α)) :=
  if b1s.any (fun b1 => zNormTooSmall b1 g) then .error .value
  else .ok (b1s.map (fun b1 => frame b1 g))

/-- `_drop_due_to_gravity(distance, wavelength, gravity)`, one element:
```
distance = distance.to(dtype)                          -- down
const = (norm(gravity) * (m_n**2/(2*h**2))).to(dtype)  -- down
drop = wavelength.to(unit=…)                           -- down(up(λ) × lamScale): scipp multiplies in double
drop *= drop;  drop *= const;  distance *= distance;  drop *= distance
``` -/
def dropDueToGravity (cv : Conv α β) (c : α) (lamScale : α) (distance : α) (wavelength : β)
    (g : V3 α) : β :=
  let d := cv.down distance
  let const := cv.down (V3.norm g * c)
  let drop := cv.down (cv.up wavelength * lamScale)
  let drop := drop * drop
  let drop := drop * const
  let d := d * d
  drop * d

/-- one element of the dispatch test
`abs(sc.dot(gravity, incident_beam)) > sc.scalar(1e-10, unit=incident_beam.unit) * sc.norm(gravity)` -/
def needsGeneric (g b1 : V3 α) : Bool :=
  decide ((1e-10 : α) * V3.norm g < HasAbs.abs (V3.dot g b1))

/-- `_scattering_angles_with_gravity_generic`, one element (frame already computed) -/
def anglesGeneric (cv : Conv α β) (c : α) (lamScale : α) (fr : Frame α) (b1 b2 : V3 α) (wavelength : β)
    (g : V3 α) : Angles β :=
  let dropDistance := dropDueToGravity cv c lamScale (V3.norm b2) wavelength g
  let y := dropDistance + cv.down (V3.dot b2 fr.ey)
  let x := cv.down (V3.dot b2 fr.ex)
  let phi := Trans.atan2 y x
  let drop := V3.smul (cv.up dropDistance) fr.ey
  let drop := V3.add drop b2
  ⟨cv.down (Beamline.twoTheta b1 drop), phi⟩

/-- `_scattering_angles_with_gravity_orthogonal_coords`, one element -/
def anglesOrthogonal (cv : Conv α β) (c : α) (lamScale : α) (fr : Frame α) (b2 : V3 α) (wavelength : β)
    (g : V3 α) : Angles β :=
  let y := dropDueToGravity cv c lamScale (V3.norm b2) wavelength g
  let y := y + cv.down (V3.dot b2 fr.ey)
  let x := cv.down (V3.dot b2 fr.ex)
  let phi := Trans.atan2 y x
  let x := x * x
  let y := y * y
  let y := y + x
  let y := Trans.sqrt y
  let z := cv.down (V3.dot b2 fr.ez)
  ⟨Trans.atan2 y z, phi⟩

/-- `scattering_angle_in_yz_plane` after its checks, one element -/
def angleYZ (cv : Conv α β) (c : α) (lamScale : α) (fr : Frame α) (b2 : V3 α) (wavelength : β)
    (g : V3 α) : β :=
  let y := dropDueToGravity cv c lamScale (V3.norm b2) wavelength g
  let y := y + cv.down (V3.dot b2 fr.ey)
  let y := HasAbs.abs y
  let z := cv.down (V3.dot b2 fr.ez)
  Trans.atan2 y z

/-- one detector element with the wavelengths recorded there (dense row or bin contents) -/
structure Pixel (α β : Type) where
  b1 : V3 α
  b2 : V3 α
  wavelengths : List β

/-- which implementation `scattering_angles_with_gravity` dispatches to (`sc.any` over elements) -/
def dispatch (g : V3 α) (pixels : List (Pixel α β)) : Path :=
  if pixels.any (fun p => needsGeneric g p.b1) then .generic else .orthogonal

/-- `scattering_angles_with_gravity` on arrays -/
def scatteringAnglesWithGravity (cv : Conv α β) (c : α) (lamScale : α) (g : V3 α)
    (pixels : List (Pixel α β)) : Except Err (Path × List (List (Angles β))) :=
  let path := dispatch g pixels
  if pixels.any (fun p => zNormTooSmall p.b1 g) then .error .value
  else
    .ok (path, pixels.map (fun p =>
      let fr := frame p.b1 g
      p.wavelengths.map (fun w =>
        match path with
        | .generic => anglesGeneric cv c lamScale fr p.b1 p.b2 w g
        | .orthogonal => anglesOrthogonal cv c lamScale fr p.b2 w g)))

/-- `scattering_angle_in_yz_plane` on arrays -/
def scatteringAngleInYZPlane (cv : Conv α β) (c : α) (lamScale : α) (g : V3 α)
    (pixels : List (Pixel α β)) : Except Err (List (List β)) :=
  if pixels.any (fun p => needsGeneric g p.b1) then .error .value
  else if pixels.any (fun p => zNormTooSmall p.b1 g) then .error .value
  else
    .ok (pixels.map (fun p =>
      let fr := frame p.b1 g
      p.wavelengths.map (fun w => angleYZ cv c lamScale fr p.b2 w g)))

end
end ScnVerif.Gravity
