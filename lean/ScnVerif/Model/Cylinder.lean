import ScnVerif.Model.Arith
/-!
# Cylinder absorption (C18): executable model of `scippneutron/absorption/{cylinder,base}.py`

Written once over an abstract carrier `α` (run at `Float` in the driver, reasoned about at `ℝ`).
All lengths are values in ONE length unit (scipp refuses to mix units in `beam_intersection`);
the only unit conversion the code performs (`radius → unit of the centre` in `quadrature`) enters as
the scale factor `sr`.

IEEE infinities of the Python code (`left = -inf`, `right = +inf` for the parallel cases) are
modelled by `Option`: a left end `none` is `-∞`, a right end / a length `none` is `+∞`.
`x == 0` is written `x ≤ 0 ∧ 0 ≤ x` (the same predicate on IEEE doubles, NaN included).
-/
namespace ScnVerif.Cylinder
open ScnVerif

variable {α : Type} [Add α] [Sub α] [Mul α] [Div α] [Neg α] [Trans α] [LE α] [DecidableLE α]
  [OfNat α 0] [OfNat α 1] [OfNat α 2]

/-- `_maximum(x, y) = where(x >= y, x, y)` -/
def maxW (x y : α) : α := if y ≤ x then x else y
/-- `_minimum(x, y) = where(x <= y, x, y)` -/
def minW (x y : α) : α := if x ≤ y then x else y
/-- `_max0` -/
def max0 (x : α) : α := maxW x 0
/-- `x == 0` -/
def isZero (x : α) : Bool := decide (x ≤ 0) && decide ((0 : α) ≤ x)

/-- result of a line/solid intersection: `hit`, left end (`none` = −∞), right end (`none` = +∞) -/
structure Itv (α : Type) where
  hit : Bool
  left : Option α
  right : Option α

/-- `_line_infinite_cylinder_intersection(a, b, r, n)` — the current code (after fix ef5a368): `n × a` and `b`
    are projected onto the plane perpendicular to the axis before use, same operation order as the Python -/
def lineInfiniteCylinder (a b : V3 α) (r : α) (n : V3 α) : Itv α :=
  let nxa0 := V3.cross n a
  let nxa := V3.sub nxa0 (V3.smul (V3.dot nxa0 a) a)
  let bp := V3.sub b (V3.smul (V3.dot b a) a)
  let q := V3.dot nxa nxa
  let bn := V3.dot bp nxa
  let s2 := q * (r * r) - bn * bn
  let s := Trans.sqrt s2
  let m := V3.dot nxa (V3.cross bp a)
  let originIn := decide (V3.norm bp ≤ r)
  if isZero q then ⟨originIn, none, none⟩
  else ⟨decide ((0 : α) ≤ s2), some ((m - s) / q), some ((m + s) / q)⟩

/-- the formula before fix ef5a368 (no projections): the same function over ℝ
    (`Props.C18.old_variant_same`), but in floating point it lost all accuracy for rays parallel to the axis
    up to rounding (finding `C18:near-axis-ray-rounding`) -/
def lineInfiniteCylinderOld (a b : V3 α) (r : α) (n : V3 α) : Itv α :=
  let nxa := V3.cross n a
  let q := V3.dot nxa nxa
  let bn := V3.dot b nxa
  let s2 := q * (r * r) - bn * bn
  let s := Trans.sqrt s2
  let m := V3.dot nxa (V3.cross b a)
  let originIn := decide (V3.norm (V3.sub b (V3.smul (V3.dot b a) a)) ≤ r)
  if isZero q then ⟨originIn, none, none⟩
  else ⟨decide ((0 : α) ≤ s2), some ((m - s) / q), some ((m + s) / q)⟩

/-- `_line_slab_intersection(a, b, h, n)` -/
def lineSlab (a b : V3 α) (h : α) (n : V3 α) : Itv α :=
  let nd := V3.dot n a
  let bd := V3.dot b a
  let originIn := decide (bd ≤ 0) && decide (-h ≤ bd)
  let t0 := bd / nd
  let t1 := t0 + h / nd
  if isZero nd then ⟨originIn, none, none⟩
  else ⟨true, some (minW t0 t1), some (maxW t1 t0)⟩

/-- `_maximum` on left ends (`none` = −∞) -/
def maxLeft : Option α → Option α → Option α
  | none, y => y
  | some x, none => some x
  | some x, some y => some (maxW x y)

/-- `_minimum` on right ends (`none` = +∞) -/
def minRight : Option α → Option α → Option α
  | none, y => y
  | some x, none => some x
  | some x, some y => some (minW x y)

/-- `_max0` of a left end: `max0(−∞) = 0` -/
def max0Left : Option α → α
  | none => 0
  | some x => max0 x

/-- `_positive_interval_intersection(a, b)`; `none` = +∞ -/
def positiveIntervalIntersection (aL aR bL bR : Option α) : Option α :=
  match minRight aR bR with
  | none => none
  | some R => some (max0 (max0 R - max0Left (maxLeft aL bL)))

/-- `Cylinder.beam_intersection(start, n)`; `none` = +∞ (only for a degenerate direction) -/
def beamIntersection (a base : V3 α) (r h : α) (start n : V3 α) : Option α :=
  let b := V3.sub base start
  let c := lineInfiniteCylinder a b r n
  let s := lineSlab a b h n
  if c.hit && s.hit then positiveIntervalIntersection s.left s.right c.left c.right
  else some 0

/-- `beam_intersection` with the pre-fix cylinder formula (only used to re-find the old defect) -/
def beamIntersectionOld (a base : V3 α) (r h : α) (start n : V3 α) : Option α :=
  let b := V3.sub base start
  let c := lineInfiniteCylinderOld a b r n
  let s := lineSlab a b h n
  if c.hit && s.hit then positiveIntervalIntersection s.left s.right c.left c.right
  else some 0

/-! ## quadrature -/

/-- Chebyshev–Gauss rule re-weighted as in `_select_quadrature_points`:
    `w *= (1 - x**2) ** 0.5; w /= sum(w) / 2` -/
def sumList : List α → α
  | [] => 0
  | x :: xs => x + sumList xs

def chebReweight (line : List (α × α)) : List (α × α) :=
  let l1 := line.map fun (x, w) => (x, w * Trans.sqrt (1 - x * x))
  let s := sumList (l1.map (·.2)) / 2
  l1.map fun (x, w) => (x, w / s)

/-- `_cylinder_quadrature_from_product`: disk rows `(x, y, w)`, line rows `(z, w)`;
    disk-major order (`np.repeat` of the disk columns, `np.tile` of the line nodes) -/
def productRule (disk : List (α × α × α)) (line : List (α × α)) : List (V3 α × α) :=
  disk.flatMap fun d => line.map fun l => (⟨d.1, d.2.1, l.1⟩, d.2.2 * l.2)

/-- rotation by a rotation vector `w` (axis `w/|w|`, angle `|w|`), Rodrigues' formula:
    what `sc.spatial.rotations_from_rotvecs(w) * v` computes -/
def rotvecRotate (w v : V3 α) : V3 α :=
  let th := V3.norm w
  let k := V3.sdiv w th
  let c := Trans.cos th
  let s := Trans.sin th
  V3.add (V3.add (V3.smul c v) (V3.smul s (V3.cross k v))) (V3.smul ((1 - c) * V3.dot k v) k)

def zhat : V3 α := ⟨0, 0, 1⟩

/-- `Cylinder.center` -/
def center (a base : V3 α) (h : α) : V3 α := V3.add base (V3.sdiv (V3.smul h a) 2)

/-- the rotation `Cylinder.quadrature` applies (identity when `|ẑ × a| < eps`, eps = 1e-10) -/
def axisRotation (eps : α) (a : V3 α) (v : V3 α) : V3 α :=
  let u := V3.cross zhat a
  let un := V3.norm u
  if eps ≤ un then
    let angle := Trans.atan2 un (V3.dot zhat a)
    rotvecRotate (V3.smul (angle / un) u) v
  else v

/-- `Cylinder.quadrature` for a deterministic kind given by its disk table and line rule.
    `sr` converts the radius unit to the unit of the centre. -/
def quadrature (eps : α) (disk : List (α × α × α)) (line : List (α × α))
    (a base : V3 α) (r h sr : α) : List (V3 α × α) :=
  (productRule disk line).map fun qw =>
    let q := qw.1
    (V3.add (axisRotation eps a ⟨q.x * r * sr, q.y * r * sr, q.z * h / 2⟩) (center a base h),
     qw.2 * (r * r * h / 2))

/-- `Cylinder.volume` -/
def volume (r h : α) : α := r * r * h * Trans.pi

/-! ## transmission -/

/-- `_single_scatter_distance_through_sample` for one scatter point -/
def scatterDistance (a base : V3 α) (r h : α) (beam det p : V3 α) : Option α :=
  match beamIntersection a base r h p ⟨-beam.x, -beam.y, -beam.z⟩,
        beamIntersection a base r h p (V3.normalize (V3.sub det p)) with
  | some l1, some l2 => some (l1 + l2)
  | _, _ => none

/-- `Σ wᵢ · exp(−μ Lᵢ)` -/
def weightedTransmission (mu : α) : List (α × α) → α
  | [] => 0
  | (w, l) :: rest => w * Trans.exp (-(mu * l)) + weightedTransmission mu rest

/-- path lengths of all scatter points, `none` if any is infinite -/
def pathLengths (a base : V3 α) (r h : α) (beam det : V3 α) : List (V3 α × α) → Option (List (α × α))
  | [] => some []
  | (p, w) :: rest =>
    match scatterDistance a base r h beam det p, pathLengths a base r h beam det rest with
    | some l, some ls => some ((w, l) :: ls)
    | _, _ => none

/-- one element of `compute_transmission_map`: detector position `det`, attenuation coefficient `mu` -/
def transmission (pts : List (V3 α × α)) (a base : V3 α) (r h : α) (beam det : V3 α) (mu : α) : Option α :=
  match pathLengths a base r h beam det pts with
  | some wl => some (weightedTransmission mu wl / volume r h)
  | none => none

end ScnVerif.Cylinder

namespace ScnVerif.Cylinder

/-- Python's `round` (half to even) on a non-negative double -/
def roundHalfEven (x : Float) : Nat :=
  let f := x.floor
  let d := x - f
  let n := f.toUInt64.toNat
  if d < 0.5 then n else if d > 0.5 then n + 1 else if n % 2 == 0 then n else n + 1

/-- Python's `max(a, b)` / `min(a, b)` on floats (first argument kept unless the second is strictly better) -/
def pyMax (a b : Float) : Float := if b > a then b else a
def pyMin (a b : Float) : Float := if b < a then b else a

/-- number of line nodes: `round(max(min(mult * (height / radius).value, cap), lo))` -/
def selectK (mult cap lo h r : Float) : Nat := roundHalfEven (pyMax (pyMin (mult * (h / r)) cap) lo)

end ScnVerif.Cylinder
