/-!
# A small heap semantics for straight-line scipp code, and a may-write analysis (C09 a)

Variables of a function body are bound to *buffers*. The first `n` buffers are the caller's (buffer
`j` is what argument `j` refers to); everything allocated by the function has an index `≥ n`.

Instructions (the translator `harness/translate/kernels.py` maps Python constructs onto them):

* `fresh v`        — `v = op(args)`: a new local buffer (arithmetic, `sc.norm`, `.copy()`, `.to(copy=True)` …)
* `view v ws`      — `v` refers to the buffer of one of `ws` (`.fields`, slices, `transpose`, `broadcast`,
                     `bins.constituents`, dict/attribute access, shallow copies, results of calls that may return
                     an argument)
* `conv v w bit`   — `v = w.to(unit=…/dtype=…, copy=False)`: aliases `w` iff configuration bit `bit` is set
                     (unit/dtype already match), otherwise a new buffer
* `write v`        — an in-place operator (`v *= …`), `out=v`, or item assignment on `v`: modifies `v`'s buffer

`inplace v ∘= w` is `write v`; `v := op(args; out=w)` is `write w; view v [w]`; `v[...] = e` is `write v`.

`writtenArgs n p c` is the analysis: the arguments whose buffer *may* be written by program `p` under
aliasing configuration `c`. Soundness (`Props/C09.lean`): an argument not in that list is unchanged
by every run.
-/
namespace ScnVerif.Heap

abbrev Var := Nat

inductive Instr
  | fresh (v : Var)
  | view (v : Var) (ws : List Var)
  | conv (v w : Var) (bit : Nat)
  | write (v : Var)
  deriving Repr, DecidableEq

abbrev Program := List Instr

/-! ## Concrete semantics -/

structure State (β : Type) where
  env : List (Var × Nat)
  heap : List β

def State.lookup {β} (s : State β) (v : Var) : Option Nat :=
  (s.env.find? (fun p => p.1 == v)).map (·.2)

def State.bind {β} (s : State β) (v : Var) (b : Nat) : State β := { s with env := (v, b) :: s.env }

def State.alloc {β} (s : State β) (x : β) (v : Var) : State β :=
  { env := (v, s.heap.length) :: s.env, heap := s.heap ++ [x] }

def State.write {β} (s : State β) (b : Nat) (f : β → β) : State β := { s with heap := s.heap.modify b f }

/-- what the semantics leaves open: contents of new buffers, the effect of a write, and which of the
candidate buffers a `view` picks -/
structure Sem (β : Type) where
  init : β
  upd : β → β
  pick : List Nat → Nat

def step {β} (S : Sem β) (c : Nat) (s : State β) : Instr → State β
  | .fresh v => s.alloc S.init v
  | .view v ws =>
    let cands := ws.filterMap s.lookup
    match cands[S.pick cands]? with
    | some b => s.bind v b
    | none => s.alloc S.init v
  | .conv v w bit =>
    if c.testBit bit then
      match s.lookup w with
      | some b => s.bind v b
      | none => s.alloc S.init v
    else s.alloc S.init v
  | .write v =>
    match s.lookup v with
    | some b => s.write b S.upd
    | none => s

def run {β} (S : Sem β) (c : Nat) (p : Program) (s : State β) : State β := p.foldl (step S c) s

/-- argument `j` is variable `j` and refers to buffer `j` -/
def initState {β} (vals : List β) : State β :=
  { env := (List.range vals.length).map (fun j => (j, j)), heap := vals }

/-! ## Analysis -/

abbrev Abs := List (Var × List Nat)

def absLookup (a : Abs) (v : Var) : List Nat :=
  match a.find? (fun p => p.1 == v) with
  | some p => p.2
  | none => []

def absStep (c : Nat) (st : Abs × List Nat) : Instr → Abs × List Nat
  | .fresh v => ((v, []) :: st.1, st.2)
  | .view v ws => ((v, ws.flatMap (absLookup st.1)) :: st.1, st.2)
  | .conv v w bit => ((v, if c.testBit bit then absLookup st.1 w else []) :: st.1, st.2)
  | .write v => (st.1, absLookup st.1 v ++ st.2)

def initAbs (n : Nat) : Abs := (List.range n).map (fun j => (j, [j]))

/-- arguments that may be written by `p` when called with `n` arguments under configuration `c` -/
def writtenArgs (n : Nat) (p : Program) (c : Nat) : List Nat := (p.foldl (absStep c) (initAbs n, [])).2

def writesArg (n : Nat) (p : Program) (c : Nat) : Bool := !(writtenArgs n p c).isEmpty

/-- arguments whose buffer the variable `ret` (the returned value) may refer to after `p` -/
def returnAliases (n : Nat) (p : Program) (c : Nat) (ret : Var) : List Nat :=
  absLookup (p.foldl (absStep c) (initAbs n, [])).1 ret

/-- configuration bits a program consults are `< maxBit p` -/
def maxBit : Program → Nat
  | [] => 0
  | .conv _ _ bit :: rest => max (bit + 1) (maxBit rest)
  | _ :: rest => maxBit rest

/-! ## Translated functions -/

structure Kernel where
  name : List Nat          -- qualified name, as byte codes (kept out of `String` for the kernel)
  nargs : Nat              -- real parameters followed by one pseudo-argument per module-level mutable object used
  nreal : Nat              -- number of real parameters (`nreal ≤ nargs`)
  bits : Nat               -- number of aliasing configuration bits
  allowed : List Nat       -- parameters the function may write by design (private helpers only; `[]` if public)
  isPublic : Bool
  retContainer : Bool      -- the returned value is a container created by the function (only its elements may alias)
  rets : List (Var × List Nat)   -- returned variables (the value itself, then one per named field of a returned
                                 -- record) with the parameters each may alias (used at call sites)
  ir : Program
  deriving Repr

/-- the decidable check behind `K_no_arg_write`: over all `2^bits` configurations the written arguments
stay inside `allowed` -/
def Kernel.check (k : Kernel) : Bool :=
  decide (maxBit k.ir ≤ k.bits) &&
  ((!k.isPublic || k.allowed.isEmpty) && k.allowed.all (fun j => decide (j < k.nreal)) &&
   (!k.isPublic || k.retContainer || k.rets.all (fun r => r.2.all (fun j => decide (j < k.nreal))))) &&
  (List.range (2 ^ k.bits)).all (fun c =>
    (writtenArgs k.nargs k.ir c).all (fun j => k.allowed.contains j) &&
    k.rets.all (fun r => (returnAliases k.nargs k.ir c r.1).all (fun j => r.2.contains j)))

end ScnVerif.Heap
