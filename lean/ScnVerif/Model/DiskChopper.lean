import ScnVerif.Model.ChopperRat
import ScnVerif.Model.Filtering
/-!
# Model of `scippneutron.chopper.disk_chopper` and `Chopper.from_disk_chopper`

Transcribed from `src/scippneutron/chopper/disk_chopper.py`
(`DiskChopper.is_clockwise`, `_apply_angle_repetitions`, `time_offset_angle_at_beam`,
`time_offset_open`, `time_offset_close`, `open_duration`, `_source_phase_factor`,
`_is_int_or_inverse_int`, `_check_edges`, `_check_edge_overlap`) and
`src/scippneutron/tof/chopper_cascade.py` (`Chopper.from_disk_chopper`).

Angles are measured in **turns** (the code uses radians; `2π` cancels), frequencies in turns
per unit time, so the model is exact over the rationals. The same definitions are executed at
`Q` (exact, compared with the floating-point implementation at 1e-12) and at `Float` (the
integer-ratio test, bit-exact), and reasoned about at `ℝ`.
-/
namespace ScnVerif.DiskChopper
open ScnVerif.ChopperRat ScnVerif.Filtering

structure Disk (α : Type) where
  /-- rotation frequency, turns per unit time; negative = clockwise -/
  freq : α
  /-- beam position, turns -/
  beam : α
  /-- phase, turns -/
  phase : α
  /-- slit edges `(begin, end)`, turns, in the order given by the user -/
  slits : List (α × α)

inductive Err | value | dimension
  deriving Repr, DecidableEq

section
variable {α : Type} [Add α] [Sub α] [Mul α] [Div α] [Neg α] [LT α] [DecidableLT α] [LE α] [DecidableLE α]
  [IntCast α]

/-- `is_clockwise`: `frequency < 0` -/
def isClockwise (d : Disk α) : Bool := decide (d.freq < ((0 : Int) : α))

/-- `sc.arange(dim, -1, n_repetitions)` -/
def turns (n : Nat) : List Int := (List.range (n + 1)).map (fun (i : Nat) => (i : Int) - 1)

/-- `_apply_angle_repetitions`: repetitions are the outer (slow) index, slits the inner one -/
def applyAngleRepetitions (d : Disk α) (angles : List α) (n : Nat) : List α :=
  (turns n).flatMap (fun k => angles.map (fun a =>
    if isClockwise d then a + ((k : Int) : α) else a - ((k : Int) : α)))

/-- `Δt_g(θ)` for one (already repeated) angle -/
def timeOfAngle (d : Disk α) (a : α) : α :=
  let x := d.beam + d.phase - a
  let x := if isClockwise d then x else ((1 : Int) : α) + x
  x / d.freq

/-- `time_offset_angle_at_beam` -/
def timeOffsetAngleAtBeam (d : Disk α) (angles : List α) (n : Nat) : List α :=
  (applyAngleRepetitions d angles n).map (timeOfAngle d)

/-- `time_offset_open`: begin edges for clockwise rotation, end edges otherwise -/
def timeOffsetOpen (d : Disk α) (n : Nat) : List α :=
  timeOffsetAngleAtBeam d (d.slits.map (fun s => if isClockwise d then s.1 else s.2)) n

/-- `time_offset_close` -/
def timeOffsetClose (d : Disk α) (n : Nat) : List α :=
  timeOffsetAngleAtBeam d (d.slits.map (fun s => if isClockwise d then s.2 else s.1)) n

/-- `open_duration` -/
def openDuration (d : Disk α) (n : Nat) : List α :=
  List.zipWith (fun c o => c - o) (timeOffsetClose d n) (timeOffsetOpen d n)

/-! ### slit validation -/

/-- `sc.sort(edges, key=begin)` -/
def sortByBegin (slits : List (α × α)) : List (α × α) :=
  slits.mergeSort (fun s t => decide (s.1 ≤ t.1))

/-- `sc.any(begin[1:] <= end[:-1])` on the sorted edges -/
def adjacentOverlap : List (α × α) → Bool
  | [] => false
  | [_] => false
  | s :: t :: rest => decide (t.1 ≤ s.2) || adjacentOverlap (t :: rest)

/-- comparison across top-dead-centre (only in the repaired variant of the code):
`end[-1] - full_turn > begin[0]` on the sorted edges; `turn` is one full turn in the unit of the
edges (`1` in the theorems) -/
def wrapOverlap (turn : α) (sorted : List (α × α)) : Bool :=
  match sorted.head?, sorted.getLast? with
  | some f, some l => decide (f.1 < l.2 - turn)
  | _, _ => false

/-- `_check_edge_overlap`; `wrap = false` is the code as it stands -/
def checkEdgeOverlap (wrap : Bool) (turn : α) (slits : List (α × α)) : Except Err Unit :=
  let sorted := sortByBegin slits
  if adjacentOverlap sorted || (wrap && wrapOverlap turn sorted) then .error .value else .ok ()

/-- `_check_edges` on separate begin / end arrays -/
def checkEdges (wrap : Bool) (turn : α) (begins ends : List α) : Except Err Unit :=
  if begins.length ≠ ends.length then .error .dimension
  else if (begins.zip ends).any (fun s => decide (s.2 < s.1)) then .error .value
  else checkEdgeOverlap wrap turn (begins.zip ends)

/-! ### integer-ratio test -/
variable [Rint α]

/-- `_source_phase_factor`; `freq` and `pulseFreq` in the same unit -/
def sourcePhaseFactor (freq pulseFreq rtol : α) : Except Err Int :=
  if pulseFreq ≤ ((0 : Int) : α) then .error .value else
  let quot := absv freq / pulseFreq
  if !isIntOrInverseInt quot rtol then .error .value
  else .ok (Rint.rintInt (if quot < ((1 : Int) : α) then ((1 : Int) : α) else quot))

/-! ### expansion over source pulses (`Chopper.from_disk_chopper`) -/

/-- `(offsets + t).flatten()`: pulses are the outer index -/
def addPulseOffsets (pulseFreq : α) (npulses : Nat) (ts : List α) : List α :=
  (List.range npulses).flatMap (fun (j : Nat) => ts.map (fun t => (((j : Nat) : Int) : α) * (((1 : Int) : α) / pulseFreq) + t))

/-- `Chopper.from_disk_chopper`: `(time_open, time_close)` -/
def fromDiskChopper (d : Disk α) (pulseFreq rtol : α) (npulses : Nat) : Except Err (List α × List α) :=
  match sourcePhaseFactor d.freq pulseFreq rtol with
  | .error e => .error e
  | .ok n =>
    .ok (addPulseOffsets pulseFreq npulses (timeOffsetOpen d n.toNat),
         addPulseOffsets pulseFreq npulses (timeOffsetClose d n.toNat))

/-- the repaired `Chopper.from_disk_chopper` (proposed fix): rotate the chopper for as many whole turns as
span `npulses` pulses, `n_rotations = ceil(npulses * rotations_per_pulse / pulses_per_rotation)` -/
def fromDiskChopperByRotation (d : Disk α) (pulseFreq rtol : α) (npulses : Nat) : Except Err (List α × List α) :=
  match sourcePhaseFactor d.freq pulseFreq rtol with
  | .error e => .error e
  | .ok n =>
    let ratio := absv d.freq / pulseFreq
    let ppr : Int := if ((0 : Int) : α) < ratio then max (Rint.rintInt (((1 : Int) : α) / ratio)) 1 else 1
    let nrot : Int := -((-((npulses : Int) * n)) / ppr)
    .ok (timeOffsetOpen d nrot.toNat, timeOffsetClose d nrot.toNat)

end

end ScnVerif.DiskChopper
