/-!
# Model of `scippneutron.io.xye`

Transcribed from `src/scippneutron/io/xye.py` and from the parts of numpy it delegates to:

* `saveCheck` — the refusals of `save_xye` in the order of the code, and `_deduce_coord`;
* `genHeader` — `_generate_xye_header`;
* `formatE18` — C / Python `'%.18e' % x` for an IEEE binary64 bit pattern, *exact*: the value
  `m·2^e` is scaled by a power of ten with natural-number arithmetic and rounded half-even to 19
  significant digits;
* `parseDecimal` — `strtod` as used by `numpy.loadtxt`: the exactly nearest binary64 (ties to
  even, subnormals, overflow to infinity) of a decimal string;
* `saveText` — `numpy.savetxt(fname, np.c_[x, y, sqrt(v)], delimiter=' ', header=header)`:
  header `'# ' + header.replace('\n', '\n# ') + '\n'` unless empty, rows `'%.18e %.18e %.18e\n'`;
* `loadText` — `numpy.loadtxt(fname, delimiter=' ', unpack=True)` followed by `load_xye`'s
  reshaping and squaring: lines as Python hands them to numpy (a path is opened in text mode with
  universal newlines, a `StringIO` splits at `\n` only), `#` starts a comment, empty lines are
  skipped, fields split at single blanks, all rows must have the same number of columns, the
  third column is squared.

Text is `List Char`. Everything is import-free and executable.
-/
namespace ScnVerif.Xye

/-! ## refusals -/

inductive Err | variances | dimension | value | coord | key | index | type
  deriving DecidableEq, Repr

/-- what `save_xye` looks at in a coordinate: its name, its number of dimensions (0 or 1 for
one-dimensional data), whether it is a bin-edge coordinate, and whether its dtype is numeric -/
structure Coord (N : Type) where
  name : N
  ndim : Nat
  edges : Bool
  numeric : Bool     -- float64/float32/int64/int32/bool values (`np.c_` cannot promote datetimes)
  deriving Repr

/-- what `save_xye` looks at in a data array -/
structure Desc (N : Type) where
  hasVariances : Bool
  ndim : Nat
  hasMasks : Bool
  dim : N            -- `da.dim` (only read when `ndim = 1`)
  coords : List (Coord N)
  deriving Repr

section refusals
variable {N : Type} [DecidableEq N]

/-- `_deduce_coord` -/
def deduceCoord (d : Desc N) : Except Err N :=
  match d.coords with
  | [c] => .ok c.name
  | cs =>
    if cs.length > 1 && !(cs.any (fun c => c.name = d.dim)) then .error .value
    else .ok d.dim

/-- `da.coords.is_edges(coord)` for one-dimensional data -/
def isEdges (d : Desc N) (coord : N) : Except Err Bool :=
  match d.coords.find? (fun c => c.name = coord) with
  | none => .error .key
  | some c => if c.ndim = 0 then .error .dimension else .ok c.edges

/-- `coord = _deduce_coord(da) if coord is None else coord` -/
def chooseCoord (d : Desc N) : Option N → Except Err N
  | some c => .ok c
  | none => deduceCoord d

/-- the checks of `save_xye` in the order of the code; returns the coordinate to be written.
The last one is implicit: `np.c_[coord, values, sqrt(variances)]` raises `DTypePromotionError`
(a `TypeError`) for a datetime coordinate, before anything is written. -/
def saveCheck (d : Desc N) (coordArg : Option N) : Except Err N :=
  if !d.hasVariances then .error .variances
  else if d.ndim ≠ 1 then .error .dimension
  else if d.hasMasks then .error .value
  else if d.coords.isEmpty then .error .value
  else match chooseCoord d coordArg with
    | .error e => .error e
    | .ok coord =>
      match isEdges d coord with
      | .error e => .error e
      | .ok true => .error .coord
      | .ok false =>
        if (d.coords.find? (fun c => c.name = coord)).any (fun c => !c.numeric) then .error .type
        else .ok coord

end refusals

/-! ## `_generate_xye_header` -/

/-- `f'{s:w}'` for a string: left-aligned, padded with blanks to width `w` -/
def ljust (w : Nat) (s : List Char) : List Char := s ++ List.replicate (w - s.length) ' '

/-- `f'[{unit}]' if unit is not None else ''` -/
def formatUnit : Option (List Char) → List Char
  | some u => '[' :: u ++ [']']
  | none => []

def genHeader (coord : List Char) (coordUnit dataUnit : Option (List Char)) : List Char :=
  ljust 22 (coord ++ ' ' :: formatUnit coordUnit) ++ ' ' ::
  ljust 24 ('Y' :: ' ' :: formatUnit dataUnit) ++ ' ' ::
  ljust 24 ('E' :: ' ' :: formatUnit dataUnit)

/-! ## exact decimal printing (`%.18e`) -/

/-- `num / den` rounded to the nearest natural number, ties to even (`den > 0`) -/
def roundHalfEven (num den : Nat) : Nat :=
  let q := num / den
  let r := num % den
  if 2 * r < den then q
  else if den < 2 * r then q + 1
  else if q % 2 = 0 then q else q + 1

/-- `10^k ≤ num/den` for an integer `k` -/
def geTenPow (num den : Nat) (k : Int) : Bool :=
  if 0 ≤ k then decide (den * 10 ^ k.toNat ≤ num) else decide (den ≤ num * 10 ^ (-k).toNat)

/-- decimal exponent `k` with `10^k ≤ num/den < 10^(k+1)`, searched from an estimate -/
def decExpFrom (num den : Nat) : Nat → Int → Int
  | 0, k => k
  | fuel + 1, k =>
    if !geTenPow num den k then decExpFrom num den fuel (k - 1)
    else if geTenPow num den (k + 1) then decExpFrom num den fuel (k + 1)
    else k

/-- the same exponent by plain downward search (never needed for binary64 inputs; it makes the
result of `decExp` correct by construction whatever the estimate) -/
def decExpDown (num den : Nat) : Nat → Int → Int
  | 0, k => k
  | fuel + 1, k => if geTenPow num den k then k else decExpDown num den fuel (k - 1)

def decExp (num den : Nat) : Int :=
  let k := decExpFrom num den 8 ((((Nat.log2 num : Int) - (Nat.log2 den : Int)) * 30103) / 100000)
  if geTenPow num den k && !geTenPow num den (k + 1) then k else decExpDown num den 800 400

/-- `num/den · 10^(18-k)` rounded half-even -/
def digitsAt (num den : Nat) (k : Int) : Nat :=
  if k ≤ 18 then roundHalfEven (num * 10 ^ (18 - k).toNat) den
  else roundHalfEven num (den * 10 ^ (k - 18).toNat)

/-- 19 significant digits `D` and decimal exponent `k` of `num/den > 0`: `D·10^(k-18) ≈ num/den`,
`10^18 ≤ D < 10^19` -/
def sci19 (num den : Nat) : Nat × Int :=
  let k := decExp num den
  let D := digitsAt num den k
  if D = 10 ^ 19 then (10 ^ 18, k + 1) else (D, k)

def digitChar (d : Nat) : Char := Char.ofNat (48 + d % 10)

/-- the `w` least significant decimal digits of `n`, most significant first -/
def digitsFixed : Nat → Nat → List Char
  | 0, _ => []
  | w + 1, n => digitsFixed w (n / 10) ++ [digitChar n]

/-- decimal digits of `n` without leading zeros (at least one digit) -/
def natDecAux : Nat → Nat → List Char → List Char
  | 0, _, acc => acc
  | fuel + 1, n, acc =>
    if n < 10 then digitChar n :: acc else natDecAux fuel (n / 10) (digitChar n :: acc)
def natDec (n : Nat) : List Char := natDecAux (n + 1) n []

/-- exponent field of `%e`: sign and at least two digits -/
def expField (k : Int) : List Char :=
  let a := k.natAbs
  (if k < 0 then '-' else '+') :: (if a < 10 then ['0', digitChar a] else natDec a)

/-- mantissa `d.dddddddddddddddddd` of the 19-digit integer `D` -/
def mantField (D : Nat) : List Char :=
  match digitsFixed 19 D with
  | d :: rest => d :: '.' :: rest
  | [] => []

/-- decode a binary64 bit pattern: `(negative, exponent field, fraction field)` -/
def decode (b : Nat) : Bool × Nat × Nat := (b / 2 ^ 63 % 2 = 1, b / 2 ^ 52 % 2048, b % 2 ^ 52)

def signChars (neg : Bool) : List Char := if neg then ['-'] else []

/-- `[-]d.dddddddddddddddddde±XX` -/
def formatFinite (neg : Bool) (D : Nat) (k : Int) : List Char :=
  signChars neg ++ mantField D ++ 'e' :: expField k

/-- the exact value `num/den` of a finite non-zero binary64 with exponent field `ef` and
significand `m` -/
def valueFrac (ef m : Nat) : Nat × Nat :=
  let e : Int := ((if ef = 0 then 1 else ef : Nat) : Int) - 1075
  if 0 ≤ e then (m * 2 ^ e.toNat, 1) else (m, 2 ^ (-e).toNat)

/-- what `%.18e` has to print: not-a-number, a signed infinity, or sign, 19 digits and exponent -/
inductive Printed
  | nan
  | inf (neg : Bool)
  | fin (neg : Bool) (D : Nat) (k : Int)
  deriving Repr, DecidableEq

/-- exact decimal scientific representation (19 digits, half-even) of a bit pattern -/
def classify (b : Nat) : Printed :=
  let d := decode b
  let neg := d.1
  let ef := d.2.1
  let frac := d.2.2
  if ef = 2047 then
    if frac = 0 then .inf neg else .nan
  else
    let m := if ef = 0 then frac else frac + 2 ^ 52
    if m = 0 then .fin neg 0 0
    else
      let v := valueFrac ef m
      let Dk := sci19 v.1 v.2
      .fin neg Dk.1 Dk.2

def render : Printed → List Char
  | .nan => ['n', 'a', 'n']
  | .inf neg => signChars neg ++ ['i', 'n', 'f']
  | .fin neg D k => formatFinite neg D k

/-- `'%.18e' % x` where `x` is the binary64 with bit pattern `b` -/
def formatE18 (b : Nat) : List Char := render (classify b)

/-! ## exact decimal parsing (`strtod`) -/

/-- binary exponent `e ≥ -1074` with `2^52 ≤ num/(den·2^e) < 2^53` (or `e = -1074` and only the
upper bound), searched from an estimate; returns the scaled fraction as well -/
def scaleBin (num den : Nat) (e : Int) : Nat × Nat :=
  if 0 ≤ e then (num, den * 2 ^ e.toNat) else (num * 2 ^ (-e).toNat, den)

def binExpFrom (num den : Nat) : Nat → Int → Int
  | 0, e => e
  | fuel + 1, e =>
    let (n, d) := scaleBin num den e
    if 2 ^ 53 * d ≤ n then binExpFrom num den fuel (e + 1)
    else if n < 2 ^ 52 * d && -1074 < e then binExpFrom num den fuel (e - 1)
    else e

/-- `e ≥ -1074`, `num/(den·2^e) < 2^53`, and `2^52 ≤ num/(den·2^e)` unless `e = -1074` -/
def binExpOk (num den : Nat) (e : Int) : Bool :=
  decide (-1074 ≤ e) && decide ((scaleBin num den e).1 < 2 ^ 53 * (scaleBin num den e).2) &&
    (decide (2 ^ 52 * (scaleBin num den e).2 ≤ (scaleBin num den e).1) || decide (e = -1074))

/-- the same exponent by plain downward search (never needed; it makes `binExp` correct by
construction whatever the estimate) -/
def binExpDown (num den : Nat) : Nat → Int → Int
  | 0, e => e
  | fuel + 1, e =>
    if e ≤ -1074 then -1074
    else if 2 ^ 52 * (scaleBin num den e).2 ≤ (scaleBin num den e).1 then e
    else binExpDown num den fuel (e - 1)

/-- binary exponent of the unit in the last place of the binary64 nearest to `num/den` -/
def binExp (num den : Nat) : Int :=
  let e0 : Int := (Nat.log2 num : Int) - (Nat.log2 den : Int) - 52
  let e := binExpFrom num den 6 (if e0 < -1074 then -1074 else e0)
  if binExpOk num den e then e else binExpDown num den 2100 972

/-- exponent and fraction fields for significand `m ≤ 2^53 - 1` at exponent `e` -/
def packBits (m : Nat) (e : Int) : Nat :=
  if m < 2 ^ 52 then m                         -- subnormal (e = -1074) or zero
  else if 2047 ≤ e + 1075 then 2047 * 2 ^ 52   -- overflow: infinity
  else (e + 1075).toNat * 2 ^ 52 + (m - 2 ^ 52)

/-- bit pattern (without sign) of the binary64 nearest to `num/den > 0`, ties to even -/
def nearestBits (num den : Nat) : Nat :=
  let e := binExp num den
  let m := roundHalfEven (scaleBin num den e).1 (scaleBin num den e).2
  if m = 2 ^ 53 then packBits (2 ^ 52) (e + 1) else packBits m e

def isDigit (c : Char) : Bool := '0' ≤ c && c ≤ '9'

def digitsToNat (cs : List Char) : Nat := cs.foldl (fun a c => a * 10 + (c.toNat - 48)) 0

def lower (c : Char) : Char := if 'A' ≤ c && c ≤ 'Z' then Char.ofNat (c.toNat + 32) else c

/-- split at the first character satisfying `p`: `(before, some after)` or `(all, none)` -/
def splitFirst (p : Char → Bool) : List Char → List Char × Option (List Char)
  | [] => ([], none)
  | c :: cs =>
    if p c then ([], some cs)
    else let (a, b) := splitFirst p cs; (c :: a, b)

/-- sign, digit string `D` and decimal exponent `k` of a decimal literal: value `±D·10^k` -/
inductive Lit
  | num (neg : Bool) (D : Nat) (k : Int)
  | inf (neg : Bool)
  | nan
  deriving Repr, DecidableEq

/-- an optional sign -/
def stripSign : List Char → Bool × List Char
  | '-' :: r => (true, r)
  | '+' :: r => (false, r)
  | r => (false, r)

/-- the exponent part after `e`: optional sign, at least one digit -/
def parseExpo (ex : List Char) : Option Int :=
  let s := stripSign ex
  if s.2.isEmpty || !s.2.all isDigit then none
  else some (if s.1 then -((digitsToNat s.2 : Nat) : Int) else ((digitsToNat s.2 : Nat) : Int))

/-- `digits[.digits][e[±]digits]` with at least one mantissa digit -/
def parseNumber (neg : Bool) (body : List Char) : Option Lit :=
  let me := splitFirst (fun c => c = 'e' || c = 'E') body
  let pf := splitFirst (fun c => c = '.') me.1
  let ip := pf.1
  let fp := pf.2.getD []
  if !(ip.all isDigit && fp.all isDigit) || (ip.isEmpty && fp.isEmpty) then none
  else
    let D := digitsToNat (ip ++ fp)
    match me.2 with
    | none => some (.num neg D (-(fp.length : Int)))
    | some ex => (parseExpo ex).map (fun ev => .num neg D (ev - (fp.length : Int)))

def parseLit (cs : List Char) : Option Lit :=
  let s := stripSign cs
  let low := s.2.map lower
  if low = ['i', 'n', 'f'] || low = ['i', 'n', 'f', 'i', 'n', 'i', 't', 'y'] then some (.inf s.1)
  else if low = ['n', 'a', 'n'] then some .nan
  else parseNumber s.1 s.2

/-- bit pattern of the binary64 nearest to a literal -/
def litBits : Lit → Nat
  | .nan => 0x7ff8000000000000
  | .inf neg => (if neg then 2 ^ 63 else 0) + 2047 * 2 ^ 52
  | .num neg D k =>
    let s := if neg then 2 ^ 63 else 0
    if D = 0 then s
    else
      -- decimal magnitude estimate, to keep the powers of ten bounded
      let mag : Int := (Nat.log2 D : Int) * 30103 / 100000 + k
      if 400 < mag then s + 2047 * 2 ^ 52
      else if mag < -400 then s
      else if 0 ≤ k then s + nearestBits (D * 10 ^ k.toNat) 1
      else s + nearestBits D (10 ^ (-k).toNat)

def parseDecimal (cs : List Char) : Option Nat := (parseLit cs).map litBits

/-! ## text of the file -/

/-- Python `str.split(c)` -/
def splitOn (c : Char) : List Char → List (List Char)
  | [] => [[]]
  | a :: as =>
    if a = c then [] :: splitOn c as
    else match splitOn c as with
      | p :: ps => (a :: p) :: ps
      | [] => [[a]]

/-- `header.replace('\n', '\n# ')` -/
def replaceNewlines : List Char → List Char
  | [] => []
  | c :: cs => if c = '\n' then '\n' :: '#' :: ' ' :: replaceNewlines cs else c :: replaceNewlines cs

/-- what `numpy.savetxt` writes before the rows: nothing for an empty header, else
`comments + header.replace('\n', '\n' + comments) + newline` with `comments = '# '` -/
def headerText (header : List Char) : List Char :=
  if header.isEmpty then [] else '#' :: ' ' :: replaceNewlines header ++ ['\n']

/-- Python `s.replace(old, new)` for non-empty `old`: leftmost non-overlapping occurrences
(`skip` = characters of a matched occurrence still to be dropped) -/
def replaceSubAux (old new : List Char) : Nat → List Char → List Char
  | _, [] => []
  | skip + 1, _ :: cs => replaceSubAux old new skip cs
  | 0, c :: cs =>
    if old.isPrefixOf (c :: cs) && !old.isEmpty then new ++ replaceSubAux old new (old.length - 1) cs
    else c :: replaceSubAux old new 0 cs

def replaceSub (old new : List Char) (s : List Char) : List Char := replaceSubAux old new 0 s

/-- the `header = header.replace(old, new)` statements of `save_xye` (extracted from the source
by the translator into `Gen/Xye.lean`; none in the original code) applied in order -/
def normalizeHeader (repls : List (List Char × List Char)) (header : List Char) : List Char :=
  repls.foldl (fun h r => replaceSub r.1 r.2 h) header

section text
variable {F : Type}

/-- one row: `'%.18e %.18e %.18e\n' % (x, y, sqrt(v))` -/
def rowText (fmt : F → List Char) (sqrt : F → F) (r : F × F × F) : List Char :=
  fmt r.1 ++ ' ' :: fmt r.2.1 ++ ' ' :: fmt (sqrt r.2.2) ++ ['\n']

/-- the file written by `save_xye` for rows `(x, y, variance)` -/
def saveText (fmt : F → List Char) (sqrt : F → F) (header : List Char) (rows : List (F × F × F)) :
    List Char :=
  headerText header ++ (rows.map (rowText fmt sqrt)).flatten

/-- `save_xye` with its header rewriting statements `repls` -/
def saveXye (repls : List (List Char × List Char)) (fmt : F → List Char) (sqrt : F → F)
    (header : List Char) (rows : List (F × F × F)) : List Char :=
  saveText fmt sqrt (normalizeHeader repls header) rows

/-- universal newlines of Python's text-mode reading: `\r\n` and `\r` become `\n` -/
def univNewlines : List Char → List Char
  | [] => []
  | '\r' :: '\n' :: cs => '\n' :: univNewlines cs
  | '\r' :: cs => '\n' :: univNewlines cs
  | c :: cs => c :: univNewlines cs

def stripTrailingCR (l : List Char) : List Char :=
  match l.reverse with
  | '\r' :: r => r.reverse
  | _ => l

/-- one line as numpy's tokenizer sees it: `none` for a line without fields -/
def processLine (parse : List Char → Option F) (l : List Char) : Except Err (Option (List F)) :=
  let l := (stripTrailingCR l).takeWhile (· ≠ '#')
  if l.contains '\r' then .error .value      -- "unquoted embedded newline"
  else if l.isEmpty then .ok none
  else match (splitOn ' ' l).mapM parse with
    | some fs => .ok (some fs)
    | none => .error .value

def tableRows (parse : List Char → Option F) : List (List Char) → Except Err (List (List F))
  | [] => .ok []
  | l :: ls => do
    let r ← processLine parse l
    let rs ← tableRows parse ls
    pure (match r with | some r => r :: rs | none => rs)

/-- `load_xye` after `loadtxt` has tokenised the table -/
def finishLoad (sq : F → F) (rows : List (List F)) : Except Err (List (F × F × F)) :=
  match rows with
  | [] => .error .index                                  -- empty table: `loaded[1]` fails
  | r0 :: _ =>
    if !rows.all (fun r => r.length = r0.length) then .error .value   -- "number of columns changed"
    else
      -- `loadtxt` squeezes: a single column of n > 1 rows comes back one-dimensional and is then
      -- taken by `load_xye` for a single row (a single number is zero-dimensional: IndexError)
      let rows := if r0.length = 1 then (if rows.length = 1 then [] else [rows.flatten]) else rows
      if rows.isEmpty then .error .index
      else rows.mapM (fun r => match r with
        | x :: y :: e :: _ => .ok (x, y, sq e)
        | _ => .error .index)

/-- `load_xye`: `pathMode` = the file is opened by name (universal newlines) rather than handed
over as `StringIO`. Returns rows `(x, y, e²)`. -/
def loadText (parse : List Char → Option F) (sq : F → F) (pathMode : Bool) (text : List Char) :
    Except Err (List (F × F × F)) :=
  match tableRows parse (splitOn '\n' (if pathMode then univNewlines text else text)) with
  | .error e => .error e
  | .ok rows => finishLoad sq rows

end text

/-! ## the table that is written

`np.c_[coord.values, da.values, np.sqrt(da.variances)]` promotes integer and single-precision
columns to float64 *exactly* (the table is float32 only if all three columns are, which prints
the same digits), so the numbers printed are the exact values of the inputs; the square root is
taken in the precision of the data. -/

/-- `np.sqrt(da.variances)` for float64 (`single = false`) or float32 data, as a float64 -/
def sqrtData (single : Bool) (v : Float) : Float :=
  if single then (Float32.sqrt v.toFloat32).toFloat else Float.sqrt v

end ScnVerif.Xye
