import ScnVerif.Model.Arith
/-!
# Model of the inelastic energy-transfer kernels

Transcribed from `src/scippneutron/conversion/tof.py`:
`_common_dtype`, `_energy_constant`, `_energy_transfer_t0`,
`energy_transfer_direct_from_tof`, `energy_transfer_indirect_from_tof`
(and `_utils.float_dtype`, `as_float_type`).

The code works with up to three floating-point types at once:

* `γ` — float64: the constant `m_n/2` converted by `sc.to_unit`;
* `lam1`, `lam2` — the dtypes of the lengths `L1`, `L2` (float64 from the beamline graph, but float32 operands are
  accepted): a length enters as `length.astype(dtype)` in `t0` and as `c * L**2` (the square in the length's own
  precision, the product with the float64 constant in float64) in `scale` — the two conversions of `LenCast`;
* `β` — `float_dtype(energy)`: the type of the energy operand (`as_float_type(c, energy)`);
* `α` — `_common_dtype(energy, tof)`: float32 iff *both* energy and tof are float32.

`Casts γ β α` carries the three conversions the code performs (`astype`, `as_float_type`, and the
implicit promotion of scipp's binary operations).  Over `ℝ` all three types are `ℝ` and the casts
are the identity (`Casts.id`), which is the instance the theorems are about; the driver runs
`Float/Float/Float`, `Float/Float32/Float32` and `Float/Float32/Float`.

The result is an `Option α`: `none` stands for the NaN written by
`sc.where(delta_tof <= 0, NaN, …)`.  (`x ** 2` is modelled as `x * x`.)
-/
namespace ScnVerif.Inelastic

/-- element types as far as `_common_dtype` / `float_dtype` distinguish them -/
inductive DType where
  | f64 | f32 | i64 | i32
  deriving DecidableEq, Repr

/-- `_utils.float_dtype` -/
def floatDType : DType → DType
  | .f32 => .f32
  | _ => .f64

/-- `_common_dtype`: single precision only if both operands are single precision -/
def commonDType (a b : DType) : DType :=
  if a = .f32 ∧ b = .f32 then .f32 else .f64

structure Casts (γ β α : Type) where
  /-- `as_float_type(c, energy)` -/
  gb : γ → β
  /-- `.astype(dtype, copy=False)` with `dtype = _common_dtype(energy, tof)` -/
  ga : γ → α
  /-- promotion of an energy-typed operand in a binary operation with a `dtype` operand -/
  ba : β → α

def Casts.id (α : Type) : Casts α α α := ⟨fun x => x, fun x => x, fun x => x⟩

/-- the conversions applied to a length operand of type `lam` -/
structure LenCast (lam γ α : Type) where
  /-- `length.astype(dtype, copy=False)` with `dtype = _common_dtype(energy, tof)` -/
  toA : lam → α
  /-- promotion of `L**2` in the product with the float64 constant (`c * L**2`) -/
  toG : lam → γ

def LenCast.id (α : Type) : LenCast α α α := ⟨fun x => x, fun x => x⟩

/-- dtype of the result of both kernels: `_common_dtype(energy, tof)` — the dtypes of `L1` and `L2` do not
enter (lengths are converted to that dtype) -/
def energyTransferDType (energy tof _L1 _L2 : DType) : DType := commonDType energy tof

section
variable {γ β α lam1 lam2 lam : Type}

/-- `_energy_constant`: `to_unit(m_n/2, energy_unit * (tof_unit/length_unit)**2)`; `mHalf` is the SI
value of `m_n/2`, `sE st sL` are the SI scales of the energy, time and length units. -/
def energyConstant [Mul γ] [Div γ] (mHalf sE st sL : γ) : γ :=
  mHalf / (sE * ((st / sL) * (st / sL)))

/-- `_energy_transfer_t0(energy, tof, length)` with `c = _energy_constant(unit(energy), tof, length)` -/
def energyTransferT0 [Mul α] [Div β] [Trans β] (k : Casts γ β α) (kl : LenCast lam γ α) (c : γ) (energy : β)
    (length : lam) : α :=
  kl.toA length * k.ba (Trans.sqrt (k.gb c / energy))

/-- `energy_transfer_direct_from_tof`; `c1`, `c2` are the constants for the units of `L1`, `L2` -/
def energyTransferDirect [Sub α] [Mul α] [Div α] [LE α] [OfNat α 0] [∀ a b : α, Decidable (a ≤ b)]
    [Mul γ] [Div β] [Trans β] [Mul lam2]
    (k : Casts γ β α) (k1 : LenCast lam1 γ α) (k2 : LenCast lam2 γ α) (c1 c2 : γ) (tof : α) (L1 : lam1) (L2 : lam2)
    (Ei : β) : Option α :=
  let t0 := energyTransferT0 k k1 c1 Ei L1
  let scale := k.ga (c2 * k2.toG (L2 * L2))
  let deltaTof := tof - t0
  if deltaTof ≤ 0 then none else some (k.ba Ei - scale / (deltaTof * deltaTof))

/-- `energy_transfer_indirect_from_tof` (note `delta_tof = -t0 + tof`) -/
def energyTransferIndirect [Add α] [Neg α] [Sub α] [Mul α] [Div α] [LE α] [OfNat α 0]
    [∀ a b : α, Decidable (a ≤ b)] [Mul γ] [Div β] [Trans β] [Mul lam1]
    (k : Casts γ β α) (k1 : LenCast lam1 γ α) (k2 : LenCast lam2 γ α) (c1 c2 : γ) (tof : α) (L1 : lam1) (L2 : lam2)
    (Ef : β) : Option α :=
  let t0 := energyTransferT0 k k2 c2 Ef L2
  let scale := k.ga (c1 * k1.toG (L1 * L1))
  let deltaTof := -t0 + tof
  if deltaTof ≤ 0 then none else some (scale / (deltaTof * deltaTof) - k.ba Ef)

end

/-! The same kernels with the constants computed from the unit scales (one carrier). -/
section
variable {α : Type} [Add α] [Neg α] [Sub α] [Mul α] [Div α] [LE α] [OfNat α 0]
  [∀ a b : α, Decidable (a ≤ b)] [Trans α]

def directFromUnits (mHalf sE st sL1 sL2 tof L1 L2 Ei : α) : Option α :=
  energyTransferDirect (Casts.id α) (LenCast.id α) (LenCast.id α) (energyConstant mHalf sE st sL1)
    (energyConstant mHalf sE st sL2) tof L1 L2 Ei

def indirectFromUnits (mHalf sE st sL1 sL2 tof L1 L2 Ef : α) : Option α :=
  energyTransferIndirect (Casts.id α) (LenCast.id α) (LenCast.id α) (energyConstant mHalf sE st sL1)
    (energyConstant mHalf sE st sL2) tof L1 L2 Ef

end

end ScnVerif.Inelastic
