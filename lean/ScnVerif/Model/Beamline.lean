import ScnVerif.Model.Arith
/-!
# Straight-beamline kernels (`src/scippneutron/conversion/beamline.py`)

Transcription of `straight_incident_beam`, `straight_scattered_beam`, `L1`, `L2`,
`total_beam_length`, `total_straight_beam_length_no_scatter`, `two_theta` — one element of the
(broadcast) arrays; scipp applies the scalar operation to every element.  The operation order of
`two_theta` is kept (normalise, `‖b1n − b2n‖`, `b2n += b1n`, `‖·‖`, `atan2`, `*= 2`), and
`V3.norm`/`V3.dot` associate as scipp's Eigen kernels do (`(x·x + y·y) + z·z`), so that the `Float`
instance reproduces the implementation bit for bit up to libm's `atan2`.

The same definitions are executed at `Float` (driver, correspondence with the Python code) and
reasoned about at `ℝ` (`Props/C03.lean`).
-/
namespace ScnVerif.Beamline
open ScnVerif

variable {α : Type} [Add α] [Sub α] [Mul α] [Div α] [Neg α] [Trans α]

/-- `straight_incident_beam`: `sample_position - source_position` -/
def straightIncidentBeam (source sample : V3 α) : V3 α := V3.sub sample source

/-- `straight_scattered_beam`: `position - sample_position` -/
def straightScatteredBeam (position sample : V3 α) : V3 α := V3.sub position sample

/-- `L1`: `sc.norm(incident_beam)` -/
def l1 (incidentBeam : V3 α) : α := V3.norm incidentBeam

/-- `L2`: `sc.norm(scattered_beam)` -/
def l2 (scatteredBeam : V3 α) : α := V3.norm scatteredBeam

/-- `total_beam_length`: `L1 + L2` -/
def totalBeamLength (L1 L2 : α) : α := L1 + L2

/-- `total_straight_beam_length_no_scatter`: `sc.norm(position - source_position)` -/
def totalStraightNoScatter (source position : V3 α) : α := V3.norm (V3.sub position source)

/-- `two_theta` (W. Kahan's formula):
```
b1 = incident_beam / L1(incident_beam);  b2 = scattered_beam / L2(scattered_beam)
y = norm(b1 - b2);  b2 += b1;  x = norm(b2);  res = atan2(y, x);  res *= 2
``` -/
def twoTheta [OfNat α 2] (incidentBeam scatteredBeam : V3 α) : α :=
  let b1 := V3.sdiv incidentBeam (l1 incidentBeam)
  let b2 := V3.sdiv scatteredBeam (l2 scatteredBeam)
  let y := V3.norm (V3.sub b1 b2)
  let b2' := V3.add b2 b1
  let x := V3.norm b2'
  Trans.atan2 y x * 2

/-- The graph `beamline(scatter=True)` evaluated from the three positions:
`incident_beam, scattered_beam, L1, L2, two_theta, Ltotal`. -/
structure Scatter (α : Type) where
  incidentBeam : V3 α
  scatteredBeam : V3 α
  L1 : α
  L2 : α
  twoTheta : α
  Ltotal : α

def scatterGraph [OfNat α 2] (source sample position : V3 α) : Scatter α :=
  let ib := straightIncidentBeam source sample
  let sb := straightScatteredBeam position sample
  let a := l1 ib
  let b := l2 sb
  ⟨ib, sb, a, b, twoTheta ib sb, totalBeamLength a b⟩

end ScnVerif.Beamline
