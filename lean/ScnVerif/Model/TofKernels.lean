import ScnVerif.Model.Arith
/-!
# Elastic time-of-flight kernels (`src/scippneutron/conversion/tof.py`) and scipp's dtype algebra

Every kernel is written ONCE, generically over a carrier `α` that supports the notation classes,
`ScnVerif.Trans` (sqrt, sin, π …) and the small class `Scipp` below (the scipp operations that are
not plain arithmetic: `astype(float_dtype(ref))`, `x ** 2`, integer literals).  The same definition is

* executed at `Val` (dynamically typed scalars float64 / float32 / int64 / int32 with scipp's promotion
  rules; compared with the Python code by the correspondence run),
* evaluated at `DTy` (abstract interpretation: only the dtype; the dtype contract of C07 is `cases`
  over this), and
* reasoned about at `ℝ` (`Lemmas/Tof.lean`: casts are the identity; C01 and the unit-equivariance half
  of C07).

Each kernel takes the *pre-converted constant* `c` exactly the way the code computes it: a physical
constant expression converted with `sc.to_unit` to a unit assembled from the operands' units.  Units
enter only through their SI scale factors (`sT` = seconds per time unit, `sL` = metres per length unit,
`sA` = metres per ångström, `sE` = joule per energy unit, `sAng` = radians per angle unit …).

The transcription follows the operation order of the source, including where `as_float_type` sits.
-/
namespace ScnVerif.Tof
open ScnVerif

/-! ## scipp's element types and promotion rules (probed from scipp, exercised by the correspondence) -/

inductive DTy | f64 | f32 | i64 | i32 | err
  deriving DecidableEq, Repr, Inhabited

namespace DTy

/-- `+ - *` : float64 wins, then float32, then int64, then int32 -/
def arith : DTy → DTy → DTy
  | err, _ | _, err => err
  | f64, _ | _, f64 => f64
  | f32, _ | _, f32 => f32
  | i64, _ | _, i64 => i64
  | i32, i32 => i32

/-- true division: as `arith`, but integer / integer is float64 -/
def divT : DTy → DTy → DTy
  | err, _ | _, err => err
  | f64, _ | _, f64 => f64
  | f32, _ | _, f32 => f32
  | _, _ => f64

/-- `pow`: as `arith`, but scipp has no kernel for an int32 base with an integer exponent -/
def powT : DTy → DTy → DTy
  | err, _ | _, err => err
  | f64, _ | _, f64 => f64
  | f32, _ | _, f32 => f32
  | i32, _ => err
  | i64, _ => i64

/-- unary functions defined for floating point only (`sin`, `sqrt`, `atan2` …) -/
def floatOnly : DTy → DTy
  | f64 => f64
  | f32 => f32
  | _ => err

/-- `_utils.float_dtype`: float32 stays, everything else becomes float64 -/
def floatDType : DTy → DTy
  | err => err
  | f32 => f32
  | _ => f64

/-- `var.astype(float_dtype(ref))` -/
def asFloatLike (x ref : DTy) : DTy :=
  match x with
  | err => err
  | _ => floatDType ref

/-- `x.astype(float32 if all of a b c d are float32 else float64)` -/
def asCommon4 (x a b c d : DTy) : DTy :=
  match x with
  | err => err
  | _ => if a = f32 ∧ b = f32 ∧ c = f32 ∧ d = f32 then f32 else f64

end DTy

/-! ## the operations of scipp used by the kernels that are not notation classes -/

class Scipp (α : Type) where
  /-- `_utils.as_float_type(x, ref)` = `x.astype(float_dtype(ref), copy=False)` -/
  asFloatLike : α → α → α
  /-- `x ** 2` (Python int exponent, i.e. an int64 scalar) -/
  sq : α → α
  /-- `x ** sc.scalar(2, dtype=elem_dtype(x))` -/
  sqSame : α → α
  /-- a Python `int` operand (scipp makes it an int64 scalar) -/
  i64 : Nat → α
  /-- `sc.scalar(0.5)` -/
  half : α
  /-- `x.astype(float32 if all four reference operands are float32 else float64)` -/
  asCommon4 : α → α → α → α → α → α

export Scipp (asFloatLike sq sqSame i64 half asCommon4)

instance : Add DTy := ⟨DTy.arith⟩
instance : Sub DTy := ⟨DTy.arith⟩
instance : Mul DTy := ⟨DTy.arith⟩
instance : Div DTy := ⟨DTy.divT⟩

instance : Trans DTy where
  sqrt := DTy.floatOnly
  sin := DTy.floatOnly
  cos := DTy.floatOnly
  atan2 := fun y x => DTy.floatOnly (DTy.arith y x)
  exp := DTy.floatOnly
  pi := .f64

instance : Scipp DTy where
  asFloatLike := DTy.asFloatLike
  sq := fun x => DTy.powT x .i64
  sqSame := fun x => DTy.powT x x
  i64 := fun _ => .i64
  half := .f64
  asCommon4 := DTy.asCommon4

/-! ## dynamically typed scalars: the executable carrier -/

inductive Val
  | f64 (x : Float)
  | f32 (x : Float32)
  | i64 (n : Int)
  | i32 (n : Int)
  | err
  deriving Inhabited

namespace Val

def dty : Val → DTy
  | f64 _ => .f64 | f32 _ => .f32 | i64 _ => .i64 | i32 _ => .i32 | err => .err

def asF64 : Val → Float
  | f64 x => x | f32 x => x.toFloat | i64 n => Float.ofInt n | i32 n => Float.ofInt n | err => 0

def asF32 : Val → Float32
  | f64 x => x.toFloat32 | f32 x => x | i64 n => Float32.ofInt n | i32 n => Float32.ofInt n | err => 0

def asInt : Val → Int
  | i64 n => n | i32 n => n | _ => 0

/-- apply a binary operation in the element type `d` chosen by the promotion rule; integer operands are
converted to the floating type of the result, as the C++ usual arithmetic conversions do -/
def bin (d : DTy) (fd : Float → Float → Float) (fs : Float32 → Float32 → Float32) (fi : Int → Int → Int)
    (a b : Val) : Val :=
  match d with
  | .f64 => f64 (fd a.asF64 b.asF64)
  | .f32 => f32 (fs a.asF32 b.asF32)
  | .i64 => i64 (fi a.asInt b.asInt)
  | .i32 => i32 (fi a.asInt b.asInt)
  | .err => err

def un (d : DTy) (fd : Float → Float) (fs : Float32 → Float32) (a : Val) : Val :=
  match d with
  | .f64 => f64 (fd a.asF64)
  | .f32 => f32 (fs a.asF32)
  | _ => err

def cast (d : DTy) (a : Val) : Val :=
  match a, d with
  | err, _ => err
  | a, .f64 => f64 a.asF64
  | a, .f32 => f32 a.asF32
  | a, .i64 => i64 a.asInt
  | a, .i32 => i32 a.asInt
  | _, .err => err

end Val

instance : Add Val := ⟨fun a b => Val.bin (DTy.arith a.dty b.dty) (· + ·) (· + ·) (· + ·) a b⟩
instance : Sub Val := ⟨fun a b => Val.bin (DTy.arith a.dty b.dty) (· - ·) (· - ·) (· - ·) a b⟩
instance : Mul Val := ⟨fun a b => Val.bin (DTy.arith a.dty b.dty) (· * ·) (· * ·) (· * ·) a b⟩
/-- the integer branch is never taken: `divT` is never an integer type -/
instance : Div Val := ⟨fun a b => Val.bin (DTy.divT a.dty b.dty) (· / ·) (· / ·) (fun x _ => x) a b⟩

instance : Trans Val where
  sqrt := fun a => Val.un (DTy.floatOnly a.dty) Float.sqrt Float32.sqrt a
  sin := fun a => Val.un (DTy.floatOnly a.dty) Float.sin Float32.sin a
  cos := fun a => Val.un (DTy.floatOnly a.dty) Float.cos Float32.cos a
  atan2 := fun y x => Val.bin (DTy.floatOnly (DTy.arith y.dty x.dty)) Float.atan2 Float32.atan2 (fun a _ => a) y x
  exp := fun a => Val.un (DTy.floatOnly a.dty) Float.exp Float32.exp a
  pi := .f64 3.141592653589793

instance : Scipp Val where
  asFloatLike := fun x ref => Val.cast (DTy.asFloatLike x.dty ref.dty) x
  sq := fun x => Val.bin (DTy.powT x.dty .i64) (· * ·) (· * ·) (· * ·) x x
  sqSame := fun x => Val.bin (DTy.powT x.dty x.dty) (· * ·) (· * ·) (· * ·) x x
  i64 := fun n => .i64 n
  half := .f64 0.5
  asCommon4 := fun x a b c d => Val.cast (DTy.asCommon4 x.dty a.dty b.dty c.dty d.dty) x

/-! ## the kernels -/

section kernels
variable {α : Type} [Add α] [Sub α] [Mul α] [Div α] [Trans α] [Scipp α]

/-- `sc.to_unit(x, u)` of a constant `x` given in SI units; `target` is the SI scale of `u` -/
def toUnitC (x target : α) : α := x / target

/-- `sc.sin(x)` of a variable whose unit has `sAng` radians per unit (`deg` is converted to `rad` in the
variable's own precision first; for `rad` the factor is exactly 1) -/
def sinU (x sAng : α) : α := Trans.sin (x * asFloatLike sAng x)

/-- `sc.to_unit(h / m_n, angstrom * unit(Ltotal) / unit(tof))` -/
def cWavelengthFromTof (h mn sA sL sT : α) : α := toUnitC (h / mn) (sA * sL / sT)

/-- `wavelength_from_tof`: `as_float_type(c / Ltotal, tof) * tof` -/
def wavelengthFromTof (c tof Ltotal : α) : α := asFloatLike (c / Ltotal) tof * tof

/-- `sc.to_unit(2 * m_n / h, unit(tof) / angstrom / unit(Ltotal))` -/
def cDspacingFromTof (h mn sA sL sT : α) : α := toUnitC (i64 2 * mn / h) (sT / sA / sL)

/-- `dspacing_from_tof`: `1 / as_float_type(c * Ltotal * sin(as_float_type(two_theta, tof) / 2), tof) * tof` -/
def dspacingFromTof (c sAng tof Ltotal twoTheta : α) : α :=
  i64 1 / asFloatLike (c * Ltotal * sinU (asFloatLike twoTheta tof / i64 2) sAng) tof * tof

/-- `_energy_constant(energy_unit, tof, length)`: `to_unit(m_n / 2, energy_unit * (unit(tof)/unit(length))**2)` -/
def cEnergy (mn sE sL sT : α) : α := toUnitC (mn / i64 2) (sE * sq (sT / sL))

/-- `energy_from_tof`: with `t = as_float_type(tof, tof)` (an integer tof is squared in double precision: no int64
overflow, no missing int32 power): `as_float_type(c * as_float_type(Ltotal, c)**2, tof) / t ** scalar(2, dtype=dtype(t))` -/
def energyFromTof (c tof Ltotal : α) : α :=
  asFloatLike (c * sq (asFloatLike Ltotal c)) tof / sqSame (asFloatLike tof tof)

/-- `as_float_type(to_unit(h**2 / 2 / m_n, meV * unit(wavelength)**2), wavelength)` -/
def cEnergyFromWavelength (h mn sE sW wavelength : α) : α :=
  asFloatLike (toUnitC (sq h / i64 2 / mn) (sE * sq sW)) wavelength

/-- `energy_from_wavelength`: `c / wavelength**2` -/
def energyFromWavelength (c wavelength : α) : α := c / sq wavelength

/-- `as_float_type(to_unit(h**2 / 2 / m_n, angstrom**2 * unit(energy)), energy)` -/
def cWavelengthFromEnergy (h mn sA sE energy : α) : α :=
  asFloatLike (toUnitC (sq h / i64 2 / mn) (sq sA * sE)) energy

/-- `wavelength_from_energy`: `sqrt(c / energy)` -/
def wavelengthFromEnergy (c energy : α) : α := Trans.sqrt (c / energy)

/-- `_wavelength_Q_conversions(x, two_theta)`:
`as_float_type(4 * pi, x) * sin(as_float_type(two_theta, x) / 2) / x` -/
def wavelengthQ (sAng x twoTheta : α) : α :=
  asFloatLike (i64 4 * Trans.pi) x * sinU (asFloatLike twoTheta x / i64 2) sAng / x

/-- `Q_from_wavelength` (unit: one over the wavelength unit) -/
def qFromWavelength (sAng wavelength twoTheta : α) : α := wavelengthQ sAng wavelength twoTheta

/-- `wavelength_from_Q`: `to_unit(_wavelength_Q_conversions(Q, two_theta), 'angstrom')`; `sQinv` is the SI
scale (metres) of the unit `1/unit(Q)`; the conversion factor is applied in the value's own precision -/
def wavelengthFromQ (sAng sQinv sA q twoTheta : α) : α :=
  let r := wavelengthQ sAng q twoTheta
  r * asFloatLike (sQinv / sA) r

/-- `as_float_type(sc.scalar(0.5).to(unit=angstrom / unit(wavelength)), wavelength)` -/
def cDspacingFromWavelength (sA sW wavelength : α) : α :=
  asFloatLike (toUnitC half (sA / sW)) wavelength

/-- `dspacing_from_wavelength`: `c * wavelength / sin(as_float_type(two_theta, wavelength) / 2)` -/
def dspacingFromWavelength (c sAng wavelength twoTheta : α) : α :=
  c * wavelength / sinU (asFloatLike twoTheta wavelength / i64 2) sAng

/-- `as_float_type(to_unit(h**2 / 8 / m_n, angstrom**2 * unit(energy)), energy)` -/
def cDspacingFromEnergy (h mn sA sE energy : α) : α :=
  asFloatLike (toUnitC (sq h / i64 8 / mn) (sq sA * sE)) energy

/-- `dspacing_from_energy`: `sqrt(c / energy) / sin(as_float_type(two_theta, energy) / 2)` -/
def dspacingFromEnergy (c sAng energy twoTheta : α) : α :=
  Trans.sqrt (c / energy) / sinU (asFloatLike twoTheta energy / i64 2) sAng

/-- `time_at_sample_from_tof`: every operand and the constant
`c = to_unit(h / m_n, angstrom * unit(L2) / unit(tof))` are first cast to float32 if all four operands are float32,
else to float64; then `pulse_time + tof - L2 * wavelength / c` -/
def timeAtSampleFromTof (c pulseTime tof L2 wavelength : α) : α :=
  let k := fun (x : α) => asCommon4 x pulseTime tof L2 wavelength
  k pulseTime + k tof - k L2 * k wavelength / k c

/-- one component of `Q_elements_from_wavelength`: `as_float_type(k * e, wavelength)` with `k = 2π / wavelength` and
`e` a component of `incident_beam/|incident_beam| - scattered_beam/|scattered_beam|` (float64: vector elements) -/
def qElement (wavelength e : α) : α := asFloatLike ((i64 2 * Trans.pi) / wavelength * e) wavelength

/-- dispatch by kernel name (used by the drivers at `Val` and at `DTy`): the arguments are the constants
and unit scales (always float64 scalars in the code) followed by the operands -/
def evalKernel (name : String) (args : List α) : Option α :=
  match name, args with
  | "wft", [h, mn, sA, sL, sT, tof, l] => some (wavelengthFromTof (cWavelengthFromTof h mn sA sL sT) tof l)
  | "dft", [h, mn, sA, sL, sT, sAng, tof, l, th] =>
      some (dspacingFromTof (cDspacingFromTof h mn sA sL sT) sAng tof l th)
  | "eft", [mn, sE, sL, sT, tof, l] => some (energyFromTof (cEnergy mn sE sL sT) tof l)
  | "efw", [h, mn, sE, sW, w] => some (energyFromWavelength (cEnergyFromWavelength h mn sE sW w) w)
  | "wfe", [h, mn, sA, sE, e] => some (wavelengthFromEnergy (cWavelengthFromEnergy h mn sA sE e) e)
  | "qfw", [sAng, w, th] => some (qFromWavelength sAng w th)
  | "wfq", [sAng, sQinv, sA, q, th] => some (wavelengthFromQ sAng sQinv sA q th)
  | "dfw", [sA, sW, sAng, w, th] => some (dspacingFromWavelength (cDspacingFromWavelength sA sW w) sAng w th)
  | "dfe", [h, mn, sA, sE, sAng, e, th] =>
      some (dspacingFromEnergy (cDspacingFromEnergy h mn sA sE e) sAng e th)
  | "tas", [h, mn, sA, sL, sT, p, tof, l2, w] =>
      some (timeAtSampleFromTof (cWavelengthFromTof h mn sA sL sT) p tof l2 w)
  | "qel", [w, e] => some (qElement w e)
  | _, _ => none

end kernels

end ScnVerif.Tof
