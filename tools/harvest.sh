#!/bin/sh
# tools/harvest.sh X  — copy agent X's new files from /tmp/w_X/verif into /verif (never overwrites shared files)
# NOTE: uses rsync --update semantics only for files the agent owns; if an agent refreshed its copy from /verif,
# restore foreign files afterwards with `git checkout` (see git status).
set -e
X=$1; SRC=/tmp/w_$X/verif; DST=/verif
[ -d "$SRC" ] || { echo "no $SRC"; exit 1; }
echo "== shared files changed by agent $X (NOT copied):"
for f in harness/framework.py harness/main.py check lean/ScnVerif/Model/Proto.lean lean/ScnVerif/Model/Arith.lean lean/ScnVerif/Real/Basic.lean lean/lakefile.toml DESIGN.md properties.jsonl harness/gen_root.py harness/gen_manifest.py harness/props/c20.py lean/ScnVerif/Model/Atoms.lean lean/ScnVerif/Props/C20.lean lean/ScnVerif/Driver/C20.lean harness/translate/atoms.py harness/translate/util.py DEV_GUIDE.md; do
  cmp -s "$SRC/$f" "$DST/$f" || echo "   DIFFERS: $f"
done
echo "== copying new/updated non-shared files"
rsync -a --itemize-changes \
  --exclude '.lake' --exclude 'Audit' --exclude '__pycache__' \
  --exclude 'Model/Proto.lean' --exclude 'Model/Arith.lean' --exclude 'Real/Basic.lean' \
  --exclude 'Model/Atoms.lean' --exclude 'Props/C20.lean' --exclude 'Driver/C20.lean' --exclude 'Gen/Atoms.lean' \
  "$SRC/lean/ScnVerif/" "$DST/lean/ScnVerif/" | grep -v '/$' || true
rsync -a --itemize-changes --exclude '__pycache__' --exclude 'c20.py' "$SRC/harness/props/" "$DST/harness/props/" | grep -v '/$' || true
rsync -a --itemize-changes --exclude '__pycache__' --exclude 'atoms.py' --exclude 'util.py' --exclude '__init__.py' "$SRC/harness/translate/" "$DST/harness/translate/" | grep -v '/$' || true
for d in corpus proposed_fixes harness/lib harness/oracle harness/gen; do
  [ -d "$SRC/$d" ] && rsync -a --itemize-changes --exclude '__pycache__' "$SRC/$d/" "$DST/$d/" | grep -v '/$' || true
done
[ -f "$SRC/proposed_findings.jsonl" ] && { echo "== proposed findings:"; cat "$SRC/proposed_findings.jsonl"; }
diff "$SRC/known_findings.jsonl" "$DST/known_findings.jsonl" > /dev/null || { echo "== agent's known_findings.jsonl differs:"; diff "$SRC/known_findings.jsonl" "$DST/known_findings.jsonl" || true; }
echo "== other new top-level files:"; (cd "$SRC" && ls) | while read f; do [ -e "$DST/$f" ] || echo "   $f"; done
