"""Confirm candidate seeded changes delivered by independent sub-agents and keep the confirmed ones.

For each candidate directory (patch.diff, demo.py, meta.json):
  * the patch applies to /repo HEAD (scratch worktree under /tmp, removed afterwards),
  * demo.py exits 0 on the clean tree and non-zero with the patch,
  * the pinned suite still passes with the patch (tools/baseline.py → missing=0).
Confirmed candidates are copied to /verif/seeded/<id>/ with a `confirmed` record added to meta.json.

usage: tools/seeded_import.py <candidate dir>… [-j N]
"""
from __future__ import annotations

import json
import os
import shutil
import subprocess
import sys
from concurrent.futures import ThreadPoolExecutor

VERIF = os.path.dirname(os.path.dirname(os.path.abspath(__file__)))


def sh(cmd, **kw):
    return subprocess.run(cmd, capture_output=True, text=True, **kw)


def confirm(cand: str) -> tuple[str, dict]:
    ident = os.path.basename(cand.rstrip('/'))
    wt = f'/tmp/seeded_import_{ident}'
    sh(['git', '-C', '/repo', 'worktree', 'remove', '--force', wt])
    rec: dict = {}
    try:
        r = sh(['git', '-C', '/repo', 'worktree', 'add', '--detach', wt, 'HEAD'])
        if r.returncode:
            return ident, {'error': r.stderr[-300:]}
        rec['repo_head'] = sh(['git', '-C', '/repo', 'rev-parse', '--short', 'HEAD']).stdout.strip()
        env = dict(os.environ, PYTHONPATH=os.path.join(wt, 'src'))
        demo = os.path.join(cand, 'demo.py')
        rec['demo_clean_rc'] = sh(['/venv/bin/python', demo], env=env, cwd=cand, timeout=1800).returncode
        a = sh(['git', '-C', wt, 'apply', os.path.join(cand, 'patch.diff')])
        if a.returncode:
            a = sh(['git', '-C', wt, 'apply', '-3', os.path.join(cand, 'patch.diff')])
            rec['applied_with_3way'] = a.returncode == 0
        if a.returncode:
            rec['error'] = 'patch does not apply: ' + a.stderr[-300:]
            return ident, rec
        rec['patch_for_head'] = sh(['git', '-C', wt, 'diff']).stdout
        rec['demo_patched_rc'] = sh(['/venv/bin/python', demo], env=env, cwd=cand, timeout=1800).returncode
        b = sh(['/venv/bin/python', os.path.join(VERIF, 'tools', 'baseline.py'), wt], timeout=3600)
        rec['baseline'] = (b.stdout.strip().splitlines() or ['?'])[0]
        rec['baseline_rc'] = b.returncode
        rec['ok'] = rec['demo_clean_rc'] == 0 and rec['demo_patched_rc'] != 0 and b.returncode == 0
        return ident, rec
    except Exception as e:  # noqa: BLE001
        rec['error'] = repr(e)
        return ident, rec
    finally:
        sh(['git', '-C', '/repo', 'worktree', 'remove', '--force', wt])


def main():
    args = [a for a in sys.argv[1:] if not a.startswith('-j')]
    jobs = 4
    for a in sys.argv[1:]:
        if a.startswith('-j'):
            jobs = int(a[2:])
    with ThreadPoolExecutor(jobs) as ex:
        for ident, rec in ex.map(confirm, args):
            cand = [a for a in args if os.path.basename(a.rstrip('/')) == ident][0]
            patch = rec.pop('patch_for_head', None)
            print(ident, json.dumps(rec))
            sys.stdout.flush()
            if rec.get('ok'):
                dst = os.path.join(VERIF, 'seeded', ident)
                os.makedirs(dst, exist_ok=True)
                shutil.copy(os.path.join(cand, 'demo.py'), dst)
                meta = json.load(open(os.path.join(cand, 'meta.json')))
                meta['confirmed'] = {
                    **rec,
                    'how': 'tools/seeded_import.py: scratch worktree of /repo HEAD; demo.py rc clean/patched; '
                           'tools/baseline.py on the patched worktree',
                }
                with open(os.path.join(dst, 'meta.json'), 'w') as f:
                    json.dump(meta, f, indent=1)
                    f.write('\n')
                with open(os.path.join(dst, 'patch.diff'), 'w') as f:
                    f.write(patch)


if __name__ == '__main__':
    main()
