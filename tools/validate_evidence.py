"""Validate MANIFEST.json and every evidence/<id>.json against the schemas in /root/.vp, and check the
record is coherent for its level (proof: discharged == obligations; no violations recorded on a run that
is committed as the unchanged-tree evidence; the tree hash recorded is /repo's HEAD)."""
import glob
import json
import os
import subprocess
import sys

import jsonschema

VERIF = os.path.dirname(os.path.dirname(os.path.abspath(__file__)))
bad = 0
man = json.load(open(os.path.join(VERIF, 'MANIFEST.json')))
jsonschema.validate(man, json.load(open('/root/.vp/MANIFEST.schema.json')))
es = json.load(open('/root/.vp/EVIDENCE.schema.json'))
head = subprocess.run(['git', '-C', '/repo', 'rev-parse', 'HEAD'], capture_output=True, text=True).stdout.strip()
for p in sorted(glob.glob(os.path.join(VERIF, 'evidence', 'C*.json'))):
    e = json.load(open(p))
    try:
        jsonschema.validate(e, es)
    except jsonschema.ValidationError as x:
        print('SCHEMA', p, x.message[:200]); bad += 1; continue
    c = e.get('coverage', {})
    ob, d = c.get('obligations'), c.get('discharged')
    n = lambda v: len(v) if isinstance(v, list) else v  # noqa: E731
    if e.get('level') == 'proof' and n(ob) != n(d):
        print('INCOHERENT', p, 'obligations', n(ob), 'discharged', n(d)); bad += 1
    s = json.dumps(e)
    tr = c.get("tree", {})
    if tr.get("uncommitted_src_files") or tr.get("repo") != "/repo":
        print("MUTATED-TREE", p, tr); bad += 1
    if head and head not in s:
        print('NOTE', os.path.basename(p), 'does not mention /repo HEAD', head[:7])
print('evidence ok' if not bad else f'{bad} problems')
sys.exit(1 if bad else 0)
