"""Run the registered checks against the seeded changes kept under /verif/seeded/<id>/.

For each seeded change: apply patch.diff to a scratch worktree of /repo (outside /repo and /verif),
confirm the demonstration fails there (and passes on the clean tree), run the quick (or thorough)
check of the property it breaks with SCN_REPO pointing at the worktree, and record whether a
VIOLATION was reported. Results go to seeded/RESULTS.json. The worktree is removed at the end and the
generated Lean tables are restored from /repo.

usage: tools/seeded_eval.py [--tier quick|thorough] [--only ID[,ID…]] [--skip-demo]
"""
from __future__ import annotations

import argparse
import json
import os
import subprocess
import sys
import time

VERIF = os.path.dirname(os.path.dirname(os.path.abspath(__file__)))
WT = '/tmp/seeded_eval_wt'


def sh(cmd, **kw):
    return subprocess.run(cmd, capture_output=True, text=True, **kw)


def main():
    ap = argparse.ArgumentParser()
    ap.add_argument('--tier', default='quick')
    ap.add_argument('--only')
    ap.add_argument('--skip-demo', action='store_true')
    a = ap.parse_args()
    seeded = os.path.join(VERIF, 'seeded')
    ids = sorted(d for d in os.listdir(seeded) if os.path.isdir(os.path.join(seeded, d)))
    if a.only:
        ids = [i for i in ids if i in a.only.split(',')]
    sh(['git', '-C', '/repo', 'worktree', 'remove', '--force', WT])
    r = sh(['git', '-C', '/repo', 'worktree', 'add', '--detach', WT, 'HEAD'])
    if r.returncode != 0:
        print(r.stderr)
        return 2
    res_path = os.path.join(seeded, 'RESULTS.json')
    results = json.load(open(res_path)) if os.path.exists(res_path) else {}
    # the evidence files committed under /verif/evidence describe the unchanged tree: keep them aside
    # while checks run against modified trees and put them back afterwards
    import shutil
    import tempfile
    keep = tempfile.mkdtemp(prefix='scn_evidence_keep_')
    shutil.copytree(os.path.join(VERIF, 'evidence'), os.path.join(keep, 'evidence'))
    try:
        for i in ids:
            d = os.path.join(seeded, i)
            meta = json.load(open(os.path.join(d, 'meta.json')))
            prop = meta['property']
            sh(['git', '-C', WT, 'checkout', '--', '.'])
            sh(['git', '-C', WT, 'clean', '-fdq'])
            entry = {'property': prop, 'tier': a.tier}
            env = dict(os.environ, PYTHONPATH=os.path.join(WT, 'src'))
            demo = os.path.join(d, 'demo.py')
            if not a.skip_demo and os.path.exists(demo):
                entry['demo_clean_rc'] = sh(['/venv/bin/python', demo], env=env, cwd=d, timeout=900).returncode
            ap_ = sh(['git', '-C', WT, 'apply', os.path.join(d, 'patch.diff')])
            if ap_.returncode != 0:
                entry['error'] = 'patch does not apply: ' + ap_.stderr[-300:]
                results[i] = entry
                print(i, entry)
                continue
            if not a.skip_demo and os.path.exists(demo):
                entry['demo_patched_rc'] = sh(['/venv/bin/python', demo], env=env, cwd=d, timeout=900).returncode
            t0 = time.time()
            env2 = dict(os.environ, SCN_REPO=WT)
            c = sh([os.path.join(VERIF, 'check'), prop, '--tier', a.tier], env=env2, cwd=VERIF, timeout=7200)
            entry['check_rc'] = c.returncode
            entry['wall_s'] = round(time.time() - t0, 1)
            lines = [l for l in c.stdout.splitlines() if l.startswith(('VIOLATION', 'KNOWN-FINDING'))]
            entry['lines'] = lines[:5]
            keys = []
            for l in lines:
                if l.startswith('VIOLATION') and 'replay=' in l:
                    rp = os.path.join(VERIF, l.split('replay=')[1].split()[0])
                    try:
                        keys.append(json.load(open(rp)).get('key'))
                    except Exception:  # noqa: BLE001
                        pass
            entry['keys'] = keys
            entry['caught'] = c.returncode == 1 and any(l.startswith('VIOLATION') for l in lines)
            entry['with_failing_input'] = any(
                l.startswith('VIOLATION') and not l.rstrip().endswith('no-failing-input-found') for l in lines
            )
            if c.returncode not in (0, 1):
                entry['stderr_tail'] = c.stderr[-500:]
            results[i] = entry
            print(i, json.dumps(entry))
            sys.stdout.flush()
            with open(res_path, 'w') as f:
                json.dump(results, f, indent=1, sort_keys=True)
                f.write('\n')
    finally:
        sh(['git', '-C', '/repo', 'worktree', 'remove', '--force', WT])
        shutil.rmtree(os.path.join(VERIF, 'evidence'), ignore_errors=True)
        shutil.copytree(os.path.join(keep, 'evidence'), os.path.join(VERIF, 'evidence'))
        shutil.rmtree(keep, ignore_errors=True)
        # restore generated tables from the real repo
        sh(['/venv/bin/python', '-c',
            'import sys; sys.path.insert(0, %r); sys.path.insert(0, "/repo/src")\n'
            'import importlib, glob, os\n'
            'for p in sorted(glob.glob(os.path.join(%r, "harness", "props", "c*.py"))):\n'
            '    m = importlib.import_module("harness.props." + os.path.basename(p)[:-3])\n'
            '    for t in getattr(m, "TRANSLATORS", []): t("/repo")\n' % (VERIF, VERIF)], cwd=VERIF,
           env=dict(os.environ, PYTHONHASHSEED='0'))
    caught = sum(1 for v in results.values() if v.get('caught'))
    print(f'{caught}/{len(results)} seeded changes caught')
    return 0


if __name__ == '__main__':
    sys.exit(main())
