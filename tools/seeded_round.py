"""Prepare a round of seeded changes for independent sub-agents.

For each group of properties: a scratch directory /tmp/mut_<N>/ with its own git worktree of /repo (repo/),
PROPERTIES.txt (the text of the properties from properties.jsonl plus the one-line summaries of the change
ideas earlier rounds already used — nothing else from /verif) and PROMPT.txt (tools/seeded_prompt_template.txt).
/tmp/mut_tools/baseline.py is a copy of tools/baseline.py (the pinned suite, run serially against a worktree).

usage: tools/seeded_round.py <first N> [--one]     then start one agent per directory with
       "Read /tmp/mut_<N>/PROMPT.txt and follow it exactly."; afterwards copy out/* to /tmp/rK/<Cxx_n>,
       run tools/seeded_import.py and tools/seeded_eval.py, and remove the worktrees.
"""
import glob
import json
import os
import shutil
import subprocess
import sys

VERIF = os.path.dirname(os.path.dirname(os.path.abspath(__file__)))
GROUPS = [['C01', 'C06', 'C11', 'C16'], ['C02', 'C07', 'C12', 'C17'], ['C03', 'C08', 'C13', 'C18'],
          ['C04', 'C09', 'C14', 'C19'], ['C05', 'C10', 'C15', 'C20']]


def main():
    first = int(sys.argv[1])
    one = '--one' in sys.argv
    props = {}
    for line in open(os.path.join(VERIF, 'properties.jsonl')):
        d = json.loads(line)
        props[d['id']] = d
    used: dict = {}
    for mp in sorted(glob.glob(os.path.join(VERIF, 'seeded', '*', 'meta.json'))):
        m = json.load(open(mp))
        used.setdefault(m['property'], []).append(m.get('summary', '').replace('\n', ' ')[:300])
    tpl = open(os.path.join(VERIF, 'tools', 'seeded_prompt_template.txt')).read()
    if one:
        tpl = (tpl.replace('produce TWO different changes', 'produce ONE change').replace('(n = 1, 2)', '(n = 1)')
               .replace('Make the two changes for a property different in kind and in code location where possible, and spread '
                        'them over the different clauses of the property statement.',
                        'Pick the clause of the property statement least touched by the already-used ideas.'))
    os.makedirs('/tmp/mut_tools', exist_ok=True)
    shutil.copy(os.path.join(VERIF, 'tools', 'baseline.py'), '/tmp/mut_tools/baseline.py')
    for k, g in enumerate(GROUPS):
        d = f'/tmp/mut_{first + k}'
        os.makedirs(d, exist_ok=True)
        subprocess.run(['git', '-C', '/repo', 'worktree', 'add', '--detach', d + '/repo', 'HEAD'], capture_output=True)
        with open(d + '/PROPERTIES.txt', 'w') as f:
            for p in g:
                f.write('=' * 70 + '\nPROPERTY ' + p + '\n' + json.dumps(props[p], indent=1)
                        + '\n\nChange ideas ALREADY USED for this property (do not repeat these or close variants):\n')
                for u in used.get(p, []):
                    f.write(' - ' + u + '\n')
                f.write('\n')
        open(d + '/PROMPT.txt', 'w').write(tpl.replace('__D__', d))
        print(d, g)


if __name__ == '__main__':
    main()
