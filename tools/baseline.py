"""Run the pinned test-suite of /repo (or $1) and compare with /root/.vp/BASELINE.json stable_pass."""
import json, subprocess, sys, tempfile, os
import xml.etree.ElementTree as ET
repo = sys.argv[1] if len(sys.argv) > 1 else '/repo'
base = json.load(open('/root/.vp/BASELINE.json'))
with tempfile.TemporaryDirectory() as d:
    x = os.path.join(d, 'j.xml')
    env = dict(os.environ, PYTHONPATH=os.path.join(repo, 'src'))
    env.pop('SCIPPNEUTRON_VERIF', None)
    p = subprocess.run(['/venv/bin/python', '-m', 'pytest', '-ra', '-q', '-p', 'no:cacheprovider', '--timeout=900',
                        '--continue-on-collection-errors', f'--junitxml={x}'], cwd=repo, capture_output=True, text=True, env=env)
    passed = set()
    for tc in ET.parse(x).getroot().iter('testcase'):
        if not any(c.tag in ('failure', 'error', 'skipped') for c in tc):
            passed.add(f"{tc.get('classname')}::{tc.get('name')}")
want = set(base['stable_pass'])
missing = sorted(want - passed)
print(f'passed={len(passed)} baseline={len(want)} missing={len(missing)}')
for m in missing[:40]:
    print('  MISSING', m)
sys.exit(1 if missing else 0)
