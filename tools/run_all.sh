#!/bin/sh
# tools/run_all.sh [tier] [props…]   — run checks sequentially, print each summary line
cd "$(dirname "$0")/.." || exit 2
TIER=${1:-quick}; shift
PROPS=${*:-$(ls harness/props/c[0-9][0-9].py | sed 's/.*\/c\([0-9]*\)\.py/C\1/')}
for p in $PROPS; do
  /usr/bin/time -f "%es" ./check $p --tier $TIER 2>&1 | grep -E "^(VIOLATION|KNOWN-FINDING|C[0-9]+ (quick|thorough):|INFRASTRUCTURE|Traceback|[0-9.]+s$)" | cut -c1-400
done
/venv/bin/python tools/validate_evidence.py
