"""C09 — computations never modify their arguments; results do not depend on call history."""
from __future__ import annotations

import dataclasses
import io
import itertools
import json
import math
import os
import subprocess
import sys
import tempfile

from ..translate import kernels as tr_kernels

PROP = 'C09'
LEAN_TARGETS = ['ScnVerif.Props.C09']
PROPS_FILE = 'ScnVerif/Props/C09.lean'
TRANSLATORS = [tr_kernels.translate]
RULE = (
    '(arg) every public entry point in the call table (conversion kernels by parameter name, convert() on dense and '
    'binned data, chopper, tof.chopper_cascade, peaks, absorption, io xye/cif and the whole SQW builder surface (BytesIO / Path / '
    'str targets, model objects with and without preset file names, objects reused for two builders), atoms/material) is called with every '
    'argument in each unit/dtype configuration of its parameter (configurations whose unit and dtype equal the '
    'internal target come first, so copy=False conversions alias; float64 and float32; scalar and array shapes) and '
    'seeded mixed configurations; all arguments are deep-snapshotted (values, variances, units, dtypes, dims, masks, '
    'coords, bin contents, nested dataclasses / dicts / model objects — also when the call raises, with a table of argument '
    'sets that drive every entry point into its documented error paths; for container arguments — chopper lists, model / '
    'name lists, lists of FitResult, CIF content / author / reducer lists, SQW experiment lists — also identity and order '
    'of the elements) before and after. '
    '(hist) every sequence of up to 3 factory / lookup / combinator calls per factory family, each followed by every '
    'applicable mutation of the returned object, then a fresh lookup compared with the pristine value obtained in a '
    'fresh subprocess; (compute-hist) every computational entry point (conversion kernels, cylinder quadrature / volume / '
    'intersection, transmission map, attenuation, disk chopper offsets, frame sequences, fit_peaks / remove_peaks, model '
    'calls, xye and CIF writers) with three argument sets (float64 / float32 / other unit, or three different objects) in '
    'the orders 1,0,2,1,0, each result compared bit for bit with the same call in a process that made no other call; (handed-out) every public '
    'property / zero-argument method (enumerated with dir()) of instances of every long-lived class (models, FitResult, Atom, '
    'ScatteringParams, Material, Cylinder, DiskChopper, Chopper, Subframe, Frame, FrameSequence, CIF, Block, Chunk, Loop): the '
    'returned value and its elements mutated in every way the type allows, then every attribute and the computations of the '
    'object compared with an untouched instance (plain stored fields of records are skipped and counted); (earlier-result) '
    'scripted sequences on chopper cascades, CIF builders and models with snapshots of every previously returned object '
    'after every later call. (ir) the analysis of every translated function is re-run through the Lean driver for every '
    'configuration and compared with the Python mirror; concrete runs of the heap semantics are compared with the '
    'analysis. distinct = distinct (function, configuration) / history.'
)
ASSUMPTIONS = [
    'classification of scipp / numpy operations into fresh / view / in-place in harness/translate/kernels.py (trusted; '
    'exercised by the dynamic snapshots)',
    'functions listed as untranslated are covered by the dynamic snapshots only',
    'control flow is joined (both branches translated, differing bindings become views of both values); loop bodies are '
    'repeated until the abstract state is stable; constructors / displays store references and do not write; method calls '
    'on objects dispatch to every class of the package defining that method; external functions are pure only if whitelisted',
    'a call to another translated function is replaced by that function\'s summary (parameters it may write, parameters '
    'its result may alias), which Lean re-checks for the callee',
]
TRUSTED = [
    'translator harness/translate/kernels.py (Python ast -> heap IR)',
    'modelled, not verified: the heap semantics of scipp operations (Model/Heap.lean), the factory state machine '
    '(Model/Factories.lean)',
    'the snapshot function of the harness (what it does not look at, it cannot see change)',
]
LEVEL_TEXT = (
    'Lean 4 theorems: the may-write analysis is sound for a heap semantics of straight-line scipp code (any program, '
    'configuration, contents, alias choice); for every function the translator extracts from the working tree the '
    'analysis is evaluated by the Lean kernel over all 2^k aliasing configurations: no public function writes a '
    'caller-owned buffer, helpers write only their recorded parameters. Factories/caches as a state machine: with '
    'copying hand-out any later lookup equals the pristine value after any op sequence. The dynamic tie snapshots all '
    'arguments of every public entry point in every aliasing configuration and enumerates factory histories against a '
    'pristine subprocess.'
)
LEVEL_NOTE = (
    'The theorem covers the translated functions only (list in the evidence, with the untranslated ones named); all '
    'entry points are covered dynamically. The op classification table is trusted.'
)
TECHNIQUE = 'Lean 4 proof (sound may-write analysis + kernel-evaluated check per translated function) + dynamic snapshots'


# =================================================================================================
# deep snapshots
# =================================================================================================


def report(ctx, key, what, witness, cap=3):
    """ctx.violation, capped per key so that a frequent class cannot crowd out another"""
    n = sum(1 for v in ctx.violations if v['key'] == key)
    if n < cap:
        getattr(ctx, 'violation')(key, what, witness)
    else:
        ctx.count('violation:' + key)


def snap(obj, depth=0, seen=None):
    """canonical, hashable, JSON-able deep snapshot of everything reachable from `obj`"""
    import numpy as np
    import scipp as sc

    if seen is None:
        seen = set()
    if depth > 12:
        return ('deep',)
    if obj is None or isinstance(obj, bool | int | str | bytes):
        return ('v', repr(obj))
    if isinstance(obj, float):
        return ('f', obj.hex() if not math.isnan(obj) else 'nan')
    if isinstance(obj, np.generic):
        return ('np', str(obj.dtype), np.asarray(obj).tobytes().hex())
    if isinstance(obj, np.ndarray):
        return ('nd', str(obj.dtype), obj.shape, np.ascontiguousarray(obj).tobytes().hex() if obj.dtype != object else repr(obj.tolist()))
    if isinstance(obj, sc.Unit | sc.DType):
        return ('u', repr(obj))
    if isinstance(obj, sc.Variable):
        head = ('var', tuple(obj.dims), tuple(obj.shape), str(obj.dtype), str(obj.unit))
        if obj.bins is not None:
            c = obj.bins.constituents
            return (*head, 'bins', snap(c['begin'], depth + 1, seen), snap(c['end'], depth + 1, seen), c['dim'],
                    snap(c['data'], depth + 1, seen))
        try:
            vals = np.ascontiguousarray(obj.values)
            vb = vals.tobytes().hex() if vals.dtype != object else repr(vals.tolist())
        except Exception:  # noqa: BLE001
            vb = repr(obj.values)
        var = None
        if obj.variances is not None:
            var = np.ascontiguousarray(obj.variances).tobytes().hex()
        return (*head, vb, var)
    if isinstance(obj, sc.DataArray):
        return ('da', snap(obj.data, depth + 1, seen),
                tuple(sorted((k, snap(v, depth + 1, seen)) for k, v in obj.coords.items())),
                tuple(sorted((k, snap(v, depth + 1, seen)) for k, v in obj.masks.items())),
                tuple(sorted(str(k) for k in obj.coords if obj.coords[k].aligned)))
    if isinstance(obj, sc.Dataset | sc.DataGroup):
        return ('group', type(obj).__name__, tuple(sorted((str(k), snap(v, depth + 1, seen)) for k, v in obj.items())))
    if id(obj) in seen:
        return ('cycle',)
    seen = seen | {id(obj)}
    if isinstance(obj, dict):
        return ('dict', tuple((repr(k), snap(v, depth + 1, seen)) for k, v in obj.items()))
    if isinstance(obj, list | tuple):
        return (type(obj).__name__, tuple(snap(v, depth + 1, seen) for v in obj))
    if isinstance(obj, set | frozenset):
        return ('set', tuple(sorted(repr(v) for v in obj)))
    if callable(obj) and not hasattr(obj, '__dict__'):
        return ('callable', getattr(obj, '__qualname__', repr(obj)))
    if dataclasses.is_dataclass(obj) and not isinstance(obj, type):
        return ('dc', type(obj).__name__, tuple((f.name, snap(getattr(obj, f.name, None), depth + 1, seen)) for f in dataclasses.fields(obj)))
    if isinstance(obj, io.StringIO):
        return ('sio',)
    fields = {}
    if hasattr(obj, '__dict__'):
        fields.update(vars(obj))
    for cls in type(obj).__mro__:
        for s in getattr(cls, '__slots__', ()) or ():
            if isinstance(s, str) and hasattr(obj, s):
                fields[s] = getattr(obj, s)
    if fields:
        return ('obj', type(obj).__name__, tuple(sorted((k, snap(v, depth + 1, seen)) for k, v in fields.items())))
    if callable(obj):
        return ('callable', getattr(obj, '__qualname__', repr(obj)))
    return ('repr', type(obj).__name__)


def first_diff(a, b, path='arg'):
    if a == b:
        return None
    if isinstance(a, tuple) and isinstance(b, tuple) and len(a) == len(b):
        for i, (x, y) in enumerate(zip(a, b)):
            d = first_diff(x, y, f'{path}.{i}' if not (isinstance(x, tuple) and x and isinstance(x[0], str) and len(x) == 2) else f'{path}.{x[0]}')
            if d:
                return d
    return f'{path}: {str(a)[:80]} -> {str(b)[:80]}'


# =================================================================================================
# argument configurations, by parameter name
# =================================================================================================

def _arr(values, unit, dtype, shape):
    import numpy as np
    import scipp as sc

    if shape == 'scalar':
        return sc.scalar(values[0], unit=unit, dtype=dtype)
    return sc.array(dims=['row'], values=np.array(values), unit=unit, dtype=dtype)


def _vecs(vals, unit, shape):
    import numpy as np
    import scipp as sc

    if shape == 'scalar':
        return sc.vector(vals[0], unit=unit)
    return sc.vectors(dims=['row'], values=np.array(vals), unit=unit)


# name -> (kind, [(unit, dtype)...] with the aliasing configuration(s) first, base values)
SCALARS = {
    'tof': ([('us', 'float64'), ('us', 'float32'), ('ms', 'float64'), ('ns', 'float64'), ('s', 'float32')], [4000.0, 5500.0, 8000.0]),
    'Ltotal': ([('m', 'float64'), ('m', 'float32'), ('mm', 'float64'), ('angstrom', 'float64')], [10.0, 12.0, 25.0]),
    'L1': ([('m', 'float64'), ('m', 'float32'), ('mm', 'float64')], [8.0, 9.0, 20.0]),
    'L2': ([('m', 'float64'), ('m', 'float32'), ('mm', 'float64')], [2.0, 3.0, 5.0]),
    'wavelength': ([('angstrom', 'float64'), ('angstrom', 'float32'), ('nm', 'float64'), ('m', 'float64')], [1.0, 2.5, 6.0]),
    'two_theta': ([('rad', 'float64'), ('rad', 'float32'), ('deg', 'float64')], [0.3, 1.1, 2.4]),
    'energy': ([('meV', 'float64'), ('meV', 'float32'), ('J', 'float64'), ('eV', 'float64')], [5.0, 20.0, 80.0]),
    'incident_energy': ([('meV', 'float64'), ('meV', 'float32'), ('J', 'float64')], [500.0, 600.0, 900.0]),
    'final_energy': ([('meV', 'float64'), ('meV', 'float32'), ('J', 'float64')], [1.0, 2.0, 3.0]),
    'Q': ([('1/angstrom', 'float64'), ('1/angstrom', 'float32'), ('1/nm', 'float64')], [0.5, 2.0, 7.0]),
    'Qx': ([('1/angstrom', 'float64'), ('1/angstrom', 'float32')], [0.5, 2.0, 7.0]),
    'Qy': ([('1/angstrom', 'float64'), ('1/angstrom', 'float32')], [0.1, -2.0, 3.0]),
    'Qz': ([('1/angstrom', 'float64'), ('1/angstrom', 'float32')], [1.5, 0.2, -1.0]),
    'dspacing': ([('angstrom', 'float64'), ('angstrom', 'float32')], [1.0, 2.5, 6.0]),
    'pulse_frequency': ([('Hz', 'float64'), ('Hz', 'float32'), ('kHz', 'float64')], [14.0]),
    'distance': ([('m', 'float64'), ('m', 'float32'), ('mm', 'float64')], [5.0, 7.0, 9.0]),
    'pulse_time': ([('us', 'float64'), ('us', 'float32'), ('ms', 'float64')], [0.0, 71428.0, 142857.0]),
}
VECTORS = {
    'incident_beam': ([('m',), ('mm',)], [[0.0, 0.0, 10.0], [0.0, 0.1, 10.0], [0.1, 0.0, 9.0]]),
    'scattered_beam': ([('m',), ('mm',)], [[1.0, 0.5, 2.0], [0.0, 1.0, 1.0], [-1.0, 0.2, 0.5]]),
    'gravity': ([('m/s**2',), ('mm/s**2',)], [[0.0, -9.81, 0.0]]),
    'source_position': ([('m',), ('mm',)], [[0.0, 0.0, -10.0]]),
    'sample_position': ([('m',), ('mm',)], [[0.0, 0.0, 0.0]]),
    'position': ([('m',), ('mm',)], [[1.0, 0.5, 2.0], [0.0, 1.0, 1.0], [-1.0, 0.2, 0.5]]),
    'Q_vec': ([('1/angstrom',), ('1/nm',)], [[1.0, 0.5, 2.0], [0.0, 1.0, 1.0], [-1.0, 0.2, 0.5]]),
    'hkl_vec': ([('one',)], [[1.0, 0.0, 2.0], [0.0, 1.0, 1.0], [-1.0, 2.0, 0.0]]),
}


def param_configs(name):
    """[(label, builder(shape) -> Variable)] for a parameter name; aliasing configurations first"""
    import numpy as np
    import scipp as sc

    if name in SCALARS:
        cfgs, vals = SCALARS[name]
        out = []
        for unit, dtype in cfgs:
            scale = float(sc.to_unit(sc.scalar(1.0, unit=cfgs[0][0]), unit).value)
            out.append((f'{unit}/{dtype}', lambda shape, u=unit, d=dtype, s=scale: _arr([v * s for v in vals], u, d, shape)))
        return out
    if name in VECTORS:
        cfgs, vals = VECTORS[name]
        out = []
        for (unit,) in cfgs:
            scale = float(sc.to_unit(sc.scalar(1.0, unit=cfgs[0][0]), unit).value)
            out.append((unit, lambda shape, u=unit, s=scale: _vecs([[c * s for c in v] for v in vals], u, shape)))
        return out
    if name in ('u_matrix', 'b_matrix', 'ub_matrix'):
        m = np.array([[0.2, 0.01, 0.0], [0.0, 0.25, 0.02], [0.0, 0.0, 0.3]])
        unit = 'one' if name == 'u_matrix' else '1/angstrom'
        return [(unit, lambda shape, u=unit: sc.spatial.linear_transform(value=m, unit=u))]
    if name == 'pulse_time_datetime':
        return [('datetime64[ns]', lambda shape: sc.datetimes(dims=['row'], values=np.array(['2024-01-01T00:00:00', '2024-01-01T00:00:01', '2024-01-01T00:00:02'], dtype='datetime64[ns]'))
                 if shape != 'scalar' else sc.datetime('2024-01-01T00:00:00', unit='ns')),
                ('datetime64[us]', lambda shape: sc.datetimes(dims=['row'], values=np.array(['2024-01-01T00:00:00', '2024-01-01T00:00:01', '2024-01-01T00:00:02'], dtype='datetime64[us]'))
                 if shape != 'scalar' else sc.datetime('2024-01-01T00:00:00', unit='us'))]
    if name == 'sample_rotation':
        return [('rot', lambda shape: sc.spatial.rotations_from_rotvecs(sc.vector([0.1, 0.2, 0.3], unit='rad')))]
    return None


def kernel_functions():
    """public functions of conversion.tof and conversion.beamline with their parameter names"""
    import inspect

    from scippneutron.conversion import beamline, tof

    out = []
    for mod in (tof, beamline):
        for name, f in sorted(vars(mod).items()):
            if name.startswith('_') or not inspect.isfunction(f) or f.__module__ != mod.__name__:
                continue
            params = list(inspect.signature(f).parameters)
            out.append((f'{mod.__name__.split(".", 1)[1]}.{name}', f, params))
    return out


def ident(obj, depth=0):
    """identity and order of the elements of container arguments (lists, tuples, dicts, sets), recursively"""
    if depth > 4:
        return None
    if isinstance(obj, list | tuple):
        return (type(obj).__name__, id(obj) if isinstance(obj, list) else None, tuple((id(e), ident(e, depth + 1)) for e in obj))
    if isinstance(obj, dict):
        return ('dict', id(obj), tuple((repr(k), id(v), ident(v, depth + 1)) for k, v in obj.items()))
    return None


def call_and_compare(ctx, label, cfg, fn, args, kwargs, extra=None):
    """snapshot all arguments, call, compare; returns True if an argument changed"""
    ids_before = ident((args, kwargs))
    before = snap((args, kwargs))
    err = None
    try:
        fn(*args, **kwargs)
    except Exception as e:  # noqa: BLE001
        err = type(e).__name__
    after = snap((args, kwargs))
    ids_after = ident((args, kwargs))
    ctx.case(('arg', label, cfg), True, sample={'op': 'call', 'function': label, 'config': cfg, 'raised': err})
    kind = 'arg-mutated-on-error' if err else 'arg-mutated'
    if (extra or {}).get('table') == 'error_calls':
        ctx.count('error-call:' + ('raised:' + err if err else 'did-not-raise'))
    if ids_before != ids_after and before == after:
        report(ctx, f'C09:{kind}:{label}', f'{label} changed the identity or order of the elements of a container argument in configuration {cfg}',
               {'kind': 'arg', 'function': label, 'config': cfg, 'diff': 'container identity/order', **(extra or {})})
        return True
    ctx.count('call:' + label.split('.')[0] + (':raised' if err else ''))
    if before != after:
        d = first_diff(before, after)
        report(ctx, f'C09:{kind}:{label}', f'{label} modified an argument in configuration {cfg}' + (f' although it raised {err}' if err else '') + f': {d}',
                      {'kind': 'arg', 'function': label, 'config': cfg, 'diff': d, **(extra or {})})
        return True
    return False


# =================================================================================================
# the call table
# =================================================================================================

def kernel_calls(ctx, deep):
    rng = ctx.rng
    for label, f, params in kernel_functions():
        cfgs = [param_configs(p) for p in params]
        if any(c is None for c in cfgs):
            ctx.count('kernel-without-builder:' + label)
            ctx.note(f'no argument builder for {label}{params}')
            continue
        combos = []
        n = max(len(c) for c in cfgs)
        for k in range(n):                      # every parameter in its k-th configuration
            combos.append(tuple(min(k, len(c) - 1) for c in cfgs))
        for i in range(len(params)):            # one parameter off the aliasing configuration
            for k in range(1, len(cfgs[i])):
                combos.append(tuple(k if j == i else 0 for j in range(len(params))))
        for _ in range(8 if (deep or not ctx.quick) else 2):
            combos.append(tuple(rng.randrange(len(c)) for c in cfgs))
        for combo in dict.fromkeys(combos):
            for shape in ('array', 'scalar'):
                kwargs = {p: cfgs[i][combo[i]][1](shape) for i, p in enumerate(params)}
                cfg = ','.join(f'{p}={cfgs[i][combo[i]][0]}' for i, p in enumerate(params)) + f';{shape}'
                yield label, cfg, f, (), kwargs, {'combo': list(combo), 'shape': shape}


def make_beamline(binned, tof_cfg, pos_unit, n=6):
    import numpy as np
    import scipp as sc

    unit, dtype = tof_cfg
    scale = float(sc.to_unit(sc.scalar(1.0, unit='us'), unit).value)
    pos = sc.vectors(dims=['spectrum'], values=np.array([[1.0, 0.1 * i, 2.0 + 0.2 * i] for i in range(3)]), unit='m').to(unit=pos_unit)
    coords = {
        'position': pos,
        'source_position': sc.vector([0.0, 0.0, -10.0], unit='m').to(unit=pos_unit),
        'sample_position': sc.vector([0.0, 0.0, 0.0], unit='m').to(unit=pos_unit),
    }
    if not binned:
        tof = sc.array(dims=['tof'], values=np.linspace(3000.0, 9000.0, n + 1) * scale, unit=unit, dtype=dtype)
        data = sc.array(dims=['spectrum', 'tof'], values=np.arange(3.0 * n).reshape(3, n), variances=np.ones((3, n)), unit='counts')
        return sc.DataArray(data, coords={**coords, 'tof': tof})
    ev = sc.DataArray(
        sc.array(dims=['event'], values=np.ones(12), variances=np.ones(12), unit='counts'),
        coords={'tof': sc.array(dims=['event'], values=np.linspace(3100.0, 8900.0, 12) * scale, unit=unit, dtype=dtype)},
    )
    begin = sc.array(dims=['spectrum'], values=[0, 4, 8], unit=None, dtype='int64')
    end = sc.array(dims=['spectrum'], values=[4, 8, 12], unit=None, dtype='int64')
    binned_var = sc.bins(begin=begin, end=end, dim='event', data=ev)
    return sc.DataArray(binned_var, coords=coords)


def convert_calls(ctx, deep):
    from scippneutron import convert
    from scippneutron.conversion.graph import beamline as gb
    from scippneutron.conversion.graph import tof as gt

    targets = ['wavelength', 'dspacing', 'energy', 'Q', 'Ltotal', 'two_theta']
    for binned in (False, True):
        for tof_cfg in [('us', 'float64'), ('us', 'float32'), ('ms', 'float64')]:
            for pos_unit in ('m', 'mm'):
                for target in targets:
                    da = make_beamline(binned, tof_cfg, pos_unit)
                    cfg = f'binned={binned},tof={tof_cfg[0]}/{tof_cfg[1]},pos={pos_unit},target={target}'
                    yield 'convert', cfg, convert, (da,), {'origin': 'tof', 'target': target, 'scatter': True}, {}
                da = make_beamline(binned, tof_cfg, pos_unit)
                graph = {**gb.beamline(scatter=True), **gt.elastic('tof')}
                cfg = f'binned={binned},tof={tof_cfg[0]}/{tof_cfg[1]},pos={pos_unit}'
                yield 'transform_coords(graph)', cfg, (lambda d, g: d.transform_coords(['wavelength', 'dspacing', 'Q'], graph=g)), (da, graph), {}, {}


def chopper_calls(ctx, deep):
    import numpy as np
    import scipp as sc
    from scippneutron.chopper import DiskChopper, collapse_plateaus, filter_in_phase, find_plateaus
    from scippneutron.tof import chopper_cascade as cc

    for ang_unit, dtype in [('rad', 'float64'), ('deg', 'float64'), ('rad', 'float32')]:
        for freq_unit in ('Hz', 'kHz'):
            def mk():
                return DiskChopper(
                    axle_position=sc.vector([0.0, 0.0, 6.0], unit='m'),
                    frequency=sc.scalar(14.0, unit='Hz').to(unit=freq_unit),
                    beam_position=sc.scalar(0.3, unit='rad').to(unit=ang_unit, dtype=dtype),
                    phase=sc.scalar(0.5, unit='rad').to(unit=ang_unit, dtype=dtype),
                    slit_begin=sc.array(dims=['slit'], values=[0.0, 1.0, 2.5], unit='rad').to(unit=ang_unit, dtype=dtype),
                    slit_end=sc.array(dims=['slit'], values=[0.5, 1.6, 3.0], unit='rad').to(unit=ang_unit, dtype=dtype),
                    slit_height=sc.array(dims=['slit'], values=[0.1, 0.1, 0.1], unit='m'),
                    radius=sc.scalar(0.4, unit='m'),
                )
            cfg = f'angle={ang_unit}/{dtype},freq={freq_unit}'
            for pf_unit in ('Hz', 'kHz'):
                pf = sc.scalar(14.0, unit='Hz').to(unit=pf_unit)
                for meth in ('time_offset_open', 'time_offset_close', 'open_duration'):
                    ch = mk()
                    yield f'DiskChopper.{meth}', cfg + f',pulse={pf_unit}', (lambda c, m=meth, p=pf: getattr(c, m)(pulse_frequency=p)), (ch,), {'pulse_frequency': pf}, {}
                ch = mk()
                yield 'DiskChopper.time_offset_angle_at_beam', cfg, (lambda c, a: c.time_offset_angle_at_beam(angle=a)), (ch, sc.scalar(1.0, unit='rad').to(unit=ang_unit, dtype=dtype)), {}, {}
                ch = mk()
                yield 'Chopper.from_disk_chopper', cfg + f',pulse={pf_unit}', cc.Chopper.from_disk_chopper, (ch, pf, 2), {}, {}
            ch = mk()
            yield 'DiskChopper.properties', cfg, (lambda c: (c.angular_frequency, c.is_clockwise, c.n_slits, c.slit_begin, c.slit_end, c.make_svg())), (ch,), {}, {}
    # filtering
    for tunit, dtype in [('ns', 'int64'), ('s', 'float64'), ('ns', 'float64')]:
        def mkda():
            t = sc.array(dims=['time'], values=np.arange(40) * 1000, unit='ns').to(unit=tunit, dtype=dtype)
            vals = np.concatenate([np.full(10, 14.0), np.linspace(14, 28, 8), np.full(12, 28.0), np.linspace(28, 7, 10)])
            return sc.DataArray(sc.array(dims=['time'], values=vals + 1e-3 * np.sin(np.arange(40)), unit='Hz'), coords={'time': t})
        cfg = f'time={tunit}/{dtype}'
        da = mkda()
        atol = sc.scalar(1e-4, unit='Hz/ns').to(unit=f'Hz/{tunit}')
        yield 'find_plateaus', cfg, find_plateaus, (da,), {'atol': atol, 'min_n_points': 4}, {}
        pl = find_plateaus(mkda(), atol=atol, min_n_points=4)
        yield 'collapse_plateaus', cfg, collapse_plateaus, (pl,), {}, {}
        col = collapse_plateaus(find_plateaus(mkda(), atol=atol, min_n_points=4))
        yield 'filter_in_phase', cfg, filter_in_phase, (col,), {'reference': sc.scalar(14.0, unit='Hz'), 'rtol': sc.scalar(0.01)}, {}
    # chopper cascade
    for tunit, wunit, dunit in [('s', 'm', 'm'), ('ms', 'angstrom', 'm'), ('us', 'angstrom', 'mm'), ('s', 'm', 'mm')]:
        def mkframes():
            return cc.FrameSequence.from_source_pulse(
                time_min=sc.scalar(0.0, unit='ms').to(unit=tunit), time_max=sc.scalar(3.0, unit='ms').to(unit=tunit),
                wavelength_min=sc.scalar(0.5, unit='angstrom').to(unit=wunit), wavelength_max=sc.scalar(8.0, unit='angstrom').to(unit=wunit))
        cfg = f'time={tunit},wavelength={wunit},distance={dunit}'
        fs = mkframes()
        d = sc.scalar(8.0, unit='m').to(unit=dunit)
        yield 'FrameSequence.propagate_to', cfg, (lambda f, x: f.propagate_to(x)), (fs, d), {}, {}
        chop = cc.Chopper(distance=sc.scalar(6.0, unit='m').to(unit=dunit),
                          time_open=sc.array(dims=['cutout'], values=[1.0, 9.0], unit='ms').to(unit='s'),
                          time_close=sc.array(dims=['cutout'], values=[4.0, 12.0], unit='ms').to(unit='s'))
        fs = mkframes()
        yield 'FrameSequence.chop', cfg, (lambda f, c: f.chop(c)), (fs, [chop]), {}, {}
        def mkchop(dist_m, shift_ms=0.0):
            return cc.Chopper(distance=sc.scalar(dist_m, unit='m').to(unit=dunit),
                              time_open=sc.array(dims=['cutout'], values=[1.0 + shift_ms, 9.0 + shift_ms], unit='ms').to(unit='s'),
                              time_close=sc.array(dims=['cutout'], values=[4.0 + shift_ms, 12.0 + shift_ms], unit='ms').to(unit='s'))
        for order in ([9.0, 6.0, 7.5], [6.0, 7.5, 9.0], [7.5, 6.0], [9.0, 7.5, 6.0]):
            lst = [mkchop(d, 0.2 * i) for i, d in enumerate(order)]
            yield 'FrameSequence.chop', cfg + f',choppers at {order}', (lambda f, c: f.chop(c)), (mkframes(), lst), {}, {}
            yield 'FrameSequence.chop', cfg + f',choppers at {order} (tuple)', (lambda f, c: f.chop(c)), (mkframes(), tuple(lst)), {}, {}
        fs2 = mkframes().chop([chop])
        frame = fs2[-1]
        yield 'Frame.propagate_to', cfg, (lambda f, x: f.propagate_to(x)), (frame, sc.scalar(12.0, unit='m').to(unit=dunit)), {}, {}
        yield 'Frame.chop', cfg, (lambda f, c: f.chop(c)), (frame, cc.Chopper(distance=sc.scalar(7.0, unit='m').to(unit=dunit), time_open=chop.time_open, time_close=chop.time_close)), {}, {}
        yield 'Frame.bounds', cfg, (lambda f: (f.bounds(), f.subbounds())), (frame,), {}, {}
        sub = frame.subframes[0]
        yield 'Subframe.propagate_by', cfg, (lambda s, x: (s.propagate_by(x), s.start_time, s.end_time, s.start_wavelength, s.end_wavelength, s.is_regular())), (sub, sc.scalar(2.0, unit='m').to(unit=dunit)), {}, {}
        yield 'propagate_times', cfg, cc.propagate_times, (), {'time': sub.time, 'wavelength': sub.wavelength, 'distance': sc.scalar(2.0, unit='m').to(unit=dunit)}, {}
        yield 'wavelength_to_inverse_velocity', cfg, cc.wavelength_to_inverse_velocity, (sub.wavelength,), {}, {}


def peaks_calls(ctx, deep):
    import numpy as np
    import scipp as sc
    from scippneutron.peaks import FitParameters, FitRequirements, fit_peaks, remove_peaks
    from scippneutron.peaks import model as M

    rs = np.random.default_rng(ctx.rng.getrandbits(32))
    for dtype in ('float64', 'float32'):
        for xunit in ('angstrom', 'nm'):
            xs = np.linspace(0.5, 10, 120)
            y = 5 + 0.3 * xs + 40 * np.exp(-(xs - 4) ** 2 / (2 * 0.2 ** 2)) + 30 * np.exp(-(xs - 8) ** 2 / 0.1)
            yn = rs.poisson(y * 20) / 20.0

            def mkda():
                return sc.DataArray(sc.array(dims=['x'], values=yn, variances=np.maximum(yn, 1) / 20, unit='counts', dtype=dtype),
                                    coords={'x': sc.array(dims=['x'], values=xs, unit='angstrom', dtype=dtype).to(unit=xunit)})
            cfg = f'dtype={dtype},x={xunit}'
            est = sc.array(dims=['x'], values=[4.0, 8.0], unit='angstrom', dtype=dtype).to(unit=xunit)
            win = sc.scalar(2.0, unit='angstrom', dtype=dtype).to(unit=xunit)
            for peak, bg in [('gaussian', 'linear'), (['lorentzian', 'pseudo_voigt'], ['linear', 'quadratic']),
                             (M.GaussianModel(prefix='g_'), M.PolynomialModel(degree=2, prefix='b_'))]:
                da = mkda()
                yield 'fit_peaks', cfg + f',models={peak if isinstance(peak, str | list) else "instances"}', fit_peaks, (da,), {
                    'peak_estimates': est, 'windows': win, 'background': bg, 'peak': peak,
                    'fit_parameters': FitParameters(), 'fit_requirements': FitRequirements()}, {}
            if dtype == 'float64':
                da = mkda()
                results = fit_peaks(da, peak_estimates=est, windows=win, background='linear', peak='gaussian')
                plain = sc.DataArray(sc.values(da.data), coords={'x': da.coords['x']})
                yield 'remove_peaks', cfg, remove_peaks, (plain, results), {}, {}
                yield 'remove_peaks', cfg + ',reversed list', remove_peaks, (plain.copy(), results[::-1]), {}, {}
                yield 'remove_peaks', cfg + ',tuple', remove_peaks, (plain.copy(), tuple(results)), {}, {}
                models_p = [M.LorentzianModel(prefix='l_'), M.GaussianModel(prefix='g_')]
                models_b = [M.PolynomialModel(degree=2, prefix='q_'), M.PolynomialModel(degree=1, prefix='l_')]
                yield 'fit_peaks', cfg + ',models=lists of instances', fit_peaks, (mkda(),), {
                    'peak_estimates': est, 'windows': win, 'background': models_b, 'peak': models_p}, {}
                w2 = sc.array(dims=['x', 'range'], values=[[3.0, 5.0], [7.0, 9.0]], unit='angstrom').to(unit=xunit)
                yield 'fit_peaks', cfg + ',explicit windows,name lists', fit_peaks, (mkda(),), {
                    'peak_estimates': est, 'windows': w2, 'background': ['quadratic', 'linear'], 'peak': ['pseudo_voigt', 'gaussian']}, {}
            # model evaluation / guesses: parameters in the units of the data
            x = mkda().coords['x']
            for model, params in [
                (M.GaussianModel(), {'amplitude': sc.scalar(3.0, unit='counts' if False else x.unit, dtype=dtype), 'loc': sc.scalar(4.0, unit='angstrom', dtype=dtype).to(unit=xunit), 'scale': sc.scalar(0.3, unit='angstrom', dtype=dtype).to(unit=xunit)}),
                (M.LorentzianModel(), {'amplitude': sc.scalar(3.0, unit=x.unit, dtype=dtype), 'loc': sc.scalar(4.0, unit='angstrom', dtype=dtype).to(unit=xunit), 'scale': sc.scalar(0.3, unit='angstrom', dtype=dtype).to(unit=xunit)}),
                (M.PseudoVoigtModel(), {'amplitude': sc.scalar(3.0, unit=x.unit, dtype=dtype), 'loc': sc.scalar(4.0, unit='angstrom', dtype=dtype).to(unit=xunit), 'scale': sc.scalar(0.3, unit='angstrom', dtype=dtype).to(unit=xunit), 'fraction': sc.scalar(0.4, dtype=dtype)}),
                (M.PolynomialModel(degree=2), {'a0': sc.scalar(1.0, dtype=dtype), 'a1': sc.scalar(0.5, unit=sc.units.one / x.unit, dtype=dtype), 'a2': sc.scalar(0.1, unit=sc.units.one / x.unit**2, dtype=dtype)}),
            ]:
                yield f'{type(model).__name__}.__call__', cfg, (lambda m, xx, pp: m(xx, **pp)), (model, x, params), {}, {}
                yield f'{type(model).__name__}.guess', cfg, (lambda m, d: m.guess(d)), (model, mkda()), {}, {}
            comp = M.PolynomialModel(degree=1, prefix='b_') + M.GaussianModel(prefix='p_')
            cp = {'b_a0': sc.scalar(1.0, dtype=dtype), 'b_a1': sc.scalar(0.5, unit=sc.units.one / x.unit, dtype=dtype),
                  'p_amplitude': sc.scalar(3.0, unit=x.unit, dtype=dtype), 'p_loc': sc.scalar(4.0, unit='angstrom', dtype=dtype).to(unit=xunit),
                  'p_scale': sc.scalar(0.3, unit='angstrom', dtype=dtype).to(unit=xunit)}
            yield 'CompositeModel.__call__', cfg, (lambda m, xx, pp: m(xx, **pp)), (comp, x, cp), {}, {}
            yield 'Model.with_prefix', cfg, (lambda m: m.with_prefix('q_')), (comp,), {}, {}


def absorption_calls(ctx, deep):
    import numpy as np
    import scipp as sc
    from scippneutron.absorption import compute_transmission_map
    from scippneutron.absorption.cylinder import Cylinder
    from scippneutron.absorption.material import Material
    from scippneutron.atoms import ScatteringParams

    for lunit in ('mm', 'm'):
        for wunit, wdtype in [('angstrom', 'float64'), ('angstrom', 'float32'), ('nm', 'float64')]:
            cyl = Cylinder(symmetry_line=sc.vector([0.0, 1.0, 0.0]), center_of_base=sc.vector([0.0, -5.0, 0.0], unit='mm').to(unit=lunit),
                           radius=sc.scalar(2.0, unit='mm').to(unit=lunit), height=sc.scalar(10.0, unit='mm').to(unit=lunit))
            mat = Material(scattering_params=ScatteringParams.for_isotope('V'), effective_sample_number_density=sc.scalar(0.07, unit='1/angstrom**3'))
            wav = sc.array(dims=['wavelength'], values=[1.0, 2.0, 4.0], unit='angstrom', dtype=wdtype).to(unit=wunit)
            det = sc.vectors(dims=['detector'], values=np.array([[1.0, 0.0, 1.0], [0.0, 0.5, 1.0]]), unit='m')
            cfg = f'length={lunit},wavelength={wunit}/{wdtype}'
            yield 'compute_transmission_map', cfg, compute_transmission_map, (cyl, mat), {
                'beam_direction': sc.vector([0.0, 0.0, 1.0]), 'wavelength': wav, 'detector_position': det, 'quadrature_kind': 'cheap'}, {}
            yield 'Material.attenuation_coefficient', cfg, (lambda m, w: m.attenuation_coefficient(w)), (mat, wav), {}, {}
            yield 'Cylinder.quadrature', cfg, (lambda c: (c.quadrature('cheap'), c.volume, c.center)), (cyl,), {}, {}
            yield 'Cylinder.beam_intersection', cfg, (lambda c, s, d: c.beam_intersection(s, d)), (cyl, sc.vectors(dims=['p'], values=np.array([[0.0, 0.0, 0.0], [0.5, 1.0, 0.2]]), unit='mm').to(unit=lunit), sc.vector([0.0, 0.0, 1.0])), {}, {}


def io_calls(ctx, deep):
    import numpy as np
    import scipp as sc
    from scippneutron.io import cif, load_xye, save_xye

    for dtype in ('float64', 'float32'):
        for xunit in ('angstrom', 'us'):
            def mkda(variances=True):
                x = sc.array(dims=['x'], values=np.linspace(1, 5, 9), unit=xunit, dtype=dtype)
                return sc.DataArray(sc.array(dims=['x'], values=np.arange(9.0), variances=np.arange(9.0) + 1 if variances else None, unit='counts', dtype=dtype), coords={'x': x})
            cfg = f'dtype={dtype},x={xunit}'
            da = mkda()
            buf = io.StringIO()
            yield 'save_xye', cfg, (lambda b, d: save_xye(b, d)), (buf, da), {}, {}
            b2 = io.StringIO()
            save_xye(b2, mkda())
            b2.seek(0)
            yield 'load_xye', cfg, (lambda b: load_xye(b, dim='x', unit='counts', coord_unit=xunit)), (b2,), {}, {}
            tof = xunit == 'us'
            red = mkda().rename_dims(x='tof' if tof else 'dspacing')
            red = sc.DataArray(red.data, coords={('tof' if tof else 'dspacing'): mkda().coords['x'].rename_dims(x='tof' if tof else 'dspacing')})
            c = cif.CIF('blk')
            yield 'CIF.with_reduced_powder_data', cfg, (lambda cc_, d: cc_.with_reduced_powder_data(d).save(io.StringIO())), (c, red), {}, {}
            cal = sc.DataArray(sc.array(dims=['cal'], values=[1.2, 4.5, 6.7], dtype=dtype), coords={'power': sc.array(dims=['cal'], values=[0, 1, 2], unit=None)})
            yield 'CIF.with_powder_calibration', cfg, (lambda cc_, d: cc_.with_powder_calibration(d).save(io.StringIO())), (cif.CIF('blk'), cal), {}, {}
            loop = cif.Loop({'_a': mkda().data, '_b': mkda().coords['x']})
            chunk = cif.Chunk({'_k': mkda().data['x', 0], '_s': 'text'})
            blk = cif.Block('b', [chunk, loop])
            yield 'Block.write', cfg, (lambda b: b.write(io.StringIO())), (blk,), {}, {}
            yield 'Block.add', cfg, (lambda b, l: cif.Block('c', [l]).write(io.StringIO())), (blk, loop), {}, {}
            yield 'save_cif', cfg, (lambda b: cif.save_cif(io.StringIO(), b)), (blk,), {}, {}
            def mkbuilder():
                return cif.CIF('blk', comment='builder comment').with_reducers('r1')
            yield 'save_cif(CIF builder, comment)', cfg, (lambda b: cif.save_cif(io.StringIO(), b, comment='per-call comment')), (mkbuilder(),), {}, {}
            yield 'save_cif(CIF builder)', cfg, (lambda b: cif.save_cif(io.StringIO(), b)), (mkbuilder(),), {}, {}
            yield 'CIF.save', cfg, (lambda b: b.save(io.StringIO())), (mkbuilder(),), {}, {}
            yield 'CIF.copy', cfg, (lambda b: b.copy()), (mkbuilder(),), {}, {}
            yield 'CIF.with_beamline-less builders', cfg, (lambda b: (b.with_reducers('x'), b.with_authors(), b.schema, b.name, b.comment)), (mkbuilder(),), {}, {}
            yield 'Block.copy', cfg, (lambda b: (b.copy(), b.schema, b.name, b.comment)), (blk,), {}, {}
            yield 'Chunk.write', cfg, (lambda c_: (c_.write(io.StringIO()), c_.schema, c_.comment)), (chunk,), {}, {}
            yield 'Loop.write', cfg, (lambda l_: (l_.write(io.StringIO()), l_.schema, l_.comment)), (loop,), {}, {}
            content = [cif.Chunk({'_z': 1}), loop, chunk, {'_m': 'mapping'}]
            yield 'Block(content list)', cfg, (lambda lst: cif.Block('c', lst).write(io.StringIO())), (content,), {}, {}
            yield 'save_cif(list of blocks)', cfg, (lambda lst: cif.save_cif(io.StringIO(), lst)), ([cif.Block('b2', [chunk]), cif.Block('a1', [loop])],), {}, {}
            pairs = [('_b', 2), ('_a', 1)]
            yield 'Chunk(pairs list)', cfg, (lambda lst: cif.Chunk(lst).write(io.StringIO())), (pairs,), {}, {}
            cols = {'_y': mkda().data, '_x': mkda().coords['x']}
            yield 'Loop(columns dict)', cfg, (lambda d: cif.Loop(d).write(io.StringIO())), (cols,), {}, {}
            reducers = ['zeta-reducer', 'alpha-reducer']
            yield 'CIF.with_reducers', cfg, (lambda c_, lst: c_.with_reducers(*lst).save(io.StringIO())), (cif.CIF('blk'), reducers), {}, {}
            try:
                from scippneutron.metadata import Person

                authors = [Person(name='Zed, Z.', corresponding=False), Person(name='Abe, A.', corresponding=True, email='a@b.c')]
                yield 'CIF.with_authors', cfg, (lambda c_, lst: c_.with_authors(*lst).save(io.StringIO())), (cif.CIF('blk'), authors), {}, {}
            except ImportError:
                pass
    yield from sqw_calls(ctx, deep)


def sqw_objects(preset_names=False, dtype='float64'):
    """fresh model objects of the SQW builder surface"""
    import dataclasses as dc

    import numpy as np
    import scipp as sc
    from scippneutron.io import sqw as S

    A = sc.Unit('angstrom')
    offset = [0.5 / A, 1.0 / A, 0.0 / A, 0.0 * sc.Unit('meV')]
    metadata = S.SqwDndMetadata(
        axes=S.SqwLineAxes(
            title='test axes', label=['x', 'y', 'z', 'dE'],
            img_scales=[1.0 / A, 1.0 / A, 0.5 / A, 2.0 * sc.Unit('meV')],
            img_range=[sc.array(dims=['range'], values=[-0.03, 0.54], unit='1/angstrom'), sc.array(dims=['range'], values=[-0.5, 6.7], unit='1/angstrom'),
                       sc.array(dims=['range'], values=[-56.0, -24.0], unit='1/angstrom'), sc.array(dims=['range'], values=[6.0, 9.1], unit='meV')],
            n_bins_all_dims=sc.array(dims=['axis'], values=[40, 50, 40, 40], unit=None),
            single_bin_defines_iax=sc.array(dims=['axis'], values=[False, True, True, True]),
            dax=sc.array(dims=['axis'], values=[2, 1, 0, 3], unit=None), offset=list(offset), changes_aspect_ratio=True,
            **({'filename': 'preset.sqw', 'filepath': '/some/old/dir'} if preset_names else {})),
        proj=S.SqwLineProj(
            lattice_spacing=sc.vector([2.1, 2.1, 2.5], unit='angstrom'), lattice_angle=sc.vector([90.0, 45.0, 90.0], unit='deg'),
            offset=list(offset), title='my projection', label=['x', 'y', 'z', 'dE'],
            u=sc.vector([0.0, 1.0, 0.0], unit='1/angstrom'), v=sc.vector([1.0, 0.0, 0.0], unit='1/angstrom'), w=None, non_orthogonal=False, type='aaa'))
    instrument = S.SqwIXNullInstrument(name='inst', source=S.SqwIXSource(name='src', target_name='tgt', frequency=sc.scalar(14.0, unit='Hz')))
    sample = S.SqwIXSample(name='smp', lattice_spacing=sc.vector([2.1, 2.1, 2.5], unit='angstrom'), lattice_angle=sc.vector([90.0, 45.0, 90.0], unit='deg'))
    tmpl = S.SqwIXExperiment(
        run_id=-1, efix=sc.scalar(1.2, unit='meV'), emode=S.EnergyMode.direct,
        en=sc.array(dims=['energy_transfer'], values=[3.0], unit='meV'), psi=sc.scalar(1.2, unit='rad'),
        u=sc.vector([0.0, 1.0, 0.0]), v=sc.vector([1.0, 1.0, 0.0]), omega=sc.scalar(1.4, unit='rad'),
        dpsi=sc.scalar(0.0, unit='rad'), gl=sc.scalar(3, unit='rad'), gs=sc.scalar(-0.5, unit='rad'),
        filename='run.nxspe' if preset_names else '', filepath='/data')
    experiments = [dc.replace(tmpl, run_id=1, filename='f2'), dc.replace(tmpl, run_id=0, filename='f1')]
    n = 7
    pix = sc.DataArray(
        sc.array(dims=['obs'], values=np.arange(n, dtype=dtype), variances=np.ones(n, dtype=dtype), unit='count'),
        coords={'idet': sc.arange('obs', 0, n, unit=None).astype(int) // sc.index(3), 'irun': sc.arange('obs', 0, n, unit=None).astype(int) // sc.index(4),
                'ien': sc.arange('obs', 0, n, unit=None).astype(int) // sc.index(10),
                'u1': sc.arange('obs', 0.0, n + 0.0, unit='1/angstrom').astype(dtype), 'u2': sc.arange('obs', 1.0, n + 1.0, unit='1/angstrom').astype(dtype),
                'u3': sc.arange('obs', 2.0, n + 2.0, unit='1/angstrom').astype(dtype), 'u4': (sc.arange('obs', n, unit='meV') * 2.0).astype(dtype)})
    return {'metadata': metadata, 'instrument': instrument, 'sample': sample, 'experiments': experiments, 'pixels': pix}


def sqw_calls(ctx, deep):
    """the whole SQW builder surface; every model object handed to the builder is an argument of the call"""
    import tempfile
    from io import BytesIO
    from pathlib import Path

    try:
        from scippneutron.io.sqw import Sqw
    except ImportError as e:
        ctx.note(f'sqw builder not importable: {e}')
        return

    def full(target, o, chunk, steps, n_builders=1):
        """build and create `n_builders` files from the same objects"""
        with tempfile.TemporaryDirectory() as d:
            for i in range(n_builders):
                where = BytesIO() if target == 'BytesIO' else (Path(d) / f'out{i}.sqw' if target == 'Path' else str(Path(d) / f'out{i}.sqw'))
                b = Sqw.build(where, title=f'title {i}')
                if 'instrument' in steps:
                    b = b.add_default_instrument(o['instrument'])
                if 'sample' in steps:
                    b = b.add_default_sample(o['sample'])
                if 'pixels' in steps:
                    b = b.add_pixel_data(o['pixels'], experiments=o['experiments'])
                if 'dnd' in steps:
                    b = b.add_empty_dnd_data(o['metadata'])
                if 'detpar' in steps:
                    b = b.add_empty_detector_params()
                b.create(chunk_size=chunk)

    surfaces = [('dnd',), ('pixels',), ('instrument', 'sample', 'pixels'), ('instrument', 'sample', 'pixels', 'dnd'),
                ('instrument', 'sample', 'pixels', 'dnd', 'detpar'), ('dnd', 'pixels')]
    for target in ('BytesIO', 'Path', 'str'):
        for preset in (False, True):
            for steps in surfaces:
                for nb in (1, 2):
                    if nb == 2 and steps not in (('dnd',), ('instrument', 'sample', 'pixels', 'dnd')):
                        continue
                    for chunk in ((8192, 2) if steps == ('pixels',) else (8192,)):
                        o = sqw_objects(preset_names=preset, dtype='float32' if chunk == 2 else 'float64')
                        cfg = f'target={target},preset-names={preset},steps={"+".join(steps)},builders={nb},chunk={chunk}'
                        yield 'SqwBuilder.create', cfg, full, (target, o, chunk, steps, nb), {}, {}
    # the adders alone (no create)
    for preset in (False, True):
        o = sqw_objects(preset_names=preset)
        yield 'SqwBuilder.add_empty_dnd_data', f'preset-names={preset}', (lambda m: Sqw.build(BytesIO()).add_empty_dnd_data(m)), (o['metadata'],), {}, {}
        yield 'SqwBuilder.add_pixel_data', f'preset-names={preset}', (lambda p_, e: Sqw.build(BytesIO()).add_pixel_data(p_, experiments=e)), (o['pixels'], o['experiments']), {}, {}
        yield 'SqwBuilder.add_default_instrument', f'preset-names={preset}', (lambda i_: Sqw.build(BytesIO()).add_default_instrument(i_)), (o['instrument'],), {}, {}
        yield 'SqwBuilder.add_default_sample', f'preset-names={preset}', (lambda s_: Sqw.build(BytesIO()).add_default_sample(s_)), (o['sample'],), {}, {}
        yield 'SqwDndMetadata.prepare_for_serialization', f'preset-names={preset}', (lambda m: m.prepare_for_serialization('new.sqw', '/new/dir')), (o['metadata'],), {}, {}


def _unused_io_tail():
    if False:
        yield None


def atoms_calls(ctx, deep):
    from scippneutron.atoms import Atom, ScatteringParams

    for iso in ('H', '2H', 'V', '157Gd', 'Si'):
        yield 'Atom.for_isotope', iso, Atom.for_isotope, (iso,), {}, {}
        yield 'ScatteringParams.for_isotope', iso, ScatteringParams.for_isotope, (iso,), {}, {}



def error_calls(ctx, deep):
    """argument sets that drive the public entry points into their documented error paths: the arguments must be
    unchanged after a raising call too"""
    import numpy as np
    import scipp as sc
    from scippneutron import convert
    from scippneutron.absorption import compute_transmission_map
    from scippneutron.atoms import Atom, ScatteringParams
    from scippneutron.chopper import DiskChopper, collapse_plateaus, filter_in_phase, find_plateaus
    from scippneutron.io import cif, load_xye, save_xye
    from scippneutron.peaks import fit_peaks, remove_peaks
    from scippneutron.peaks import model as M
    from scippneutron.tof import chopper_cascade as cc

    # --- find_plateaus: a slow drift, every step below atol but the whole plateau far above it (documented RuntimeError)
    for tunit, dtype in [('s', 'float64'), ('ns', 'int64')]:
        for repeat in (1, 2):
            t = sc.array(dims=['time'], values=np.arange(40) * 1000, unit='ns').to(unit=tunit, dtype=dtype)
            atol = sc.scalar(1e-4, unit='Hz/ns').to(unit=f'Hz/{tunit}')
            step = 0.6 * 1e-4 * 1000        # Hz per sample: derivative = 0.6 atol
            da = sc.DataArray(sc.array(dims=['time'], values=14.0 + step * np.arange(40), unit='Hz'), coords={'time': t})

            def drift(d, a, n=repeat):
                last = None
                for _ in range(n):
                    try:
                        return find_plateaus(d, atol=a, min_n_points=4)
                    except RuntimeError as e:
                        last = e
                raise last
            yield 'find_plateaus', f'drift guard,time={tunit}/{dtype},calls={repeat}', drift, (da, atol), {}, {}
    yield 'find_plateaus', 'atol with a wrong unit', find_plateaus, (da,), {'atol': sc.scalar(1.0, unit='m'), 'min_n_points': 4}, {}
    yield 'collapse_plateaus', 'missing coord', collapse_plateaus, (da,), {'coord': 'nope'}, {}
    yield 'filter_in_phase', 'reference with a wrong unit', filter_in_phase, (da,), {'reference': sc.scalar(1.0, unit='m'), 'rtol': sc.scalar(0.1)}, {}

    # --- peaks
    xs = np.linspace(0.5, 10, 60)
    y = 5 + 40 * np.exp(-(xs - 4) ** 2 / 0.08)

    def mkda(variances=True, unit='angstrom'):
        return sc.DataArray(sc.array(dims=['x'], values=y, variances=np.maximum(y, 1) / 20 if variances else None, unit='counts'),
                            coords={'x': sc.array(dims=['x'], values=xs, unit=unit)})
    est = sc.array(dims=['x'], values=[4.0, 8.0], unit='angstrom')
    good = {'peak_estimates': est, 'windows': sc.scalar(2.0, unit='angstrom'), 'background': ['linear'], 'peak': ['gaussian']}
    bad_sets = {
        'window unit mismatch': {**good, 'windows': sc.scalar(2.0, unit='s')},
        'explicit windows of the wrong shape': {**good, 'windows': sc.array(dims=['x', 'range'], values=[[3.0, 5.0, 6.0]], unit='angstrom')},
        'inverted explicit window': {**good, 'windows': sc.array(dims=['x', 'range'], values=[[5.0, 3.0], [7.0, 9.0]], unit='angstrom')},
        'unsorted estimates': {**good, 'peak_estimates': sc.array(dims=['x'], values=[8.0, 4.0], unit='angstrom')},
        'estimate unit mismatch': {**good, 'peak_estimates': sc.array(dims=['x'], values=[4.0], unit='s')},
        'empty model list': {**good, 'peak': []},
        'unknown model name': {**good, 'background': ['cubic', 'linear']},
        'model instance list with a non-model': {**good, 'peak': [M.GaussianModel(), 3]},
    }
    for name, kw in bad_sets.items():
        yield 'fit_peaks', name, fit_peaks, (mkda(),), kw, {}
    yield 'fit_peaks', 'data without variances', fit_peaks, (mkda(variances=False),), good, {}
    yield 'fit_peaks', '2-d data', fit_peaks, (sc.concat([mkda(), mkda()], 'y'),), good, {}
    edges = sc.DataArray(mkda().data['x', :-1], coords={'x': mkda().coords['x']})
    yield 'fit_peaks', 'bin-edge coordinate', fit_peaks, (edges,), good, {}
    res = fit_peaks(mkda(), **good)
    yield 'remove_peaks', 'data with variances', remove_peaks, (mkda(), res), {}, {}
    yield 'remove_peaks', 'coordinate unit mismatch', remove_peaks, (sc.DataArray(sc.values(mkda().data), coords={'x': mkda(unit='s').coords['x']}), res), {}, {}
    pp = {'amplitude': sc.scalar(3.0, unit='angstrom'), 'loc': sc.scalar(3.0, unit='angstrom')}
    yield 'GaussianModel.__call__', 'missing parameter', (lambda m, x, d: m(x, **d)), (M.GaussianModel(), mkda().coords['x'], pp), {}, {}
    yield 'PolynomialModel', 'degree 0', (lambda d: M.PolynomialModel(degree=d)), (0,), {}, {}
    yield 'CompositeModel', 'clashing names', (lambda a, b: a + b), (M.GaussianModel(), M.LorentzianModel()), {}, {}

    # --- save_xye refusals / load_xye
    yield 'save_xye', 'no variances', (lambda d: save_xye(io.StringIO(), d)), (mkda(variances=False),), {}, {}
    yield 'save_xye', '2-d', (lambda d: save_xye(io.StringIO(), d)), (sc.concat([mkda(), mkda()], 'y'),), {}, {}
    masked = mkda()
    masked.masks['m'] = masked.coords['x'] > sc.scalar(5.0, unit='angstrom')
    yield 'save_xye', 'masks', (lambda d: save_xye(io.StringIO(), d)), (masked,), {}, {}
    yield 'save_xye', 'no coordinates', (lambda d: save_xye(io.StringIO(), d)), (sc.DataArray(mkda().data),), {}, {}
    yield 'save_xye', 'bin edges', (lambda d: save_xye(io.StringIO(), d)), (edges,), {}, {}
    two = mkda()
    two.coords['other'] = two.coords['x'] * 2
    two = two.rename_dims(x='row')
    yield 'save_xye', 'ambiguous coordinate', (lambda d: save_xye(io.StringIO(), d)), (two,), {}, {}
    yield 'load_xye', 'malformed table', (lambda b: load_xye(b, dim='x', unit='counts', coord_unit='angstrom')), (io.StringIO('1 2 3\n4 five 6\n'),), {}, {}

    # --- choppers
    def disk(**over):
        kw = {'axle_position': sc.vector([0.0, 0.0, 6.0], unit='m'), 'frequency': sc.scalar(14.0, unit='Hz'), 'beam_position': sc.scalar(0.3, unit='rad'),
              'phase': sc.scalar(0.5, unit='rad'), 'slit_begin': sc.array(dims=['slit'], values=[0.0, 1.0], unit='rad'),
              'slit_end': sc.array(dims=['slit'], values=[0.5, 1.6], unit='rad')}
        kw.update(over)
        return kw
    for name, over in {
        'slit arrays of different length': {'slit_end': sc.array(dims=['slit'], values=[0.5], unit='rad')},
        'slit_begin with a length unit': {'slit_begin': sc.array(dims=['slit'], values=[0.0, 1.0], unit='m')},
        '2-d slits': {'slit_begin': sc.zeros(sizes={'a': 2, 'b': 2}, unit='rad'), 'slit_end': sc.ones(sizes={'a': 2, 'b': 2}, unit='rad')},
        'overlapping slits': {'slit_begin': sc.array(dims=['slit'], values=[0.0, 0.3], unit='rad')},
        'frequency in metres': {'frequency': sc.scalar(14.0, unit='m')},
    }.items():
        yield 'DiskChopper', name, (lambda kw: DiskChopper(**kw)), (disk(**over),), {}, {}
    ch = DiskChopper(**disk())
    yield 'DiskChopper.time_offset_open', 'pulse frequency in metres', (lambda c, pf: c.time_offset_open(pulse_frequency=pf)), (ch, sc.scalar(14.0, unit='m')), {}, {}
    yield 'DiskChopper.time_offset_open', 'pulse frequency not a multiple', (lambda c, pf: c.time_offset_open(pulse_frequency=pf)), (ch, sc.scalar(9.0, unit='Hz')), {}, {}
    yield 'Chopper.from_disk_chopper', 'pulse frequency in metres', cc.Chopper.from_disk_chopper, (ch, sc.scalar(14.0, unit='m'), 2), {}, {}

    def frames():
        return cc.FrameSequence.from_source_pulse(time_min=sc.scalar(0.0, unit='ms'), time_max=sc.scalar(3.0, unit='ms'),
                                                  wavelength_min=sc.scalar(0.5, unit='angstrom'), wavelength_max=sc.scalar(8.0, unit='angstrom'))

    def chop(d, tunit='s'):
        return cc.Chopper(distance=sc.scalar(d, unit='m'), time_open=sc.array(dims=['cutout'], values=[0.001, 0.009], unit=tunit),
                          time_close=sc.array(dims=['cutout'], values=[0.004, 0.012], unit=tunit))
    fs = frames().chop([chop(8.0)])
    yield 'FrameSequence.chop', 'chopper before the last frame (ValueError)', (lambda f, c: f.chop(c)), (fs, [chop(9.0), chop(6.0)]), {}, {}
    yield 'FrameSequence.chop', 'chopper times in ms (UnitError)', (lambda f, c: f.chop(c)), (frames(), [chop(6.0), chop(7.0, 'ms')]), {}, {}
    yield 'Frame.chop', 'chopper before the frame', (lambda f, c: f.chop(c)), (fs[-1], chop(6.0)), {}, {}
    yield 'FrameSequence.propagate_to', 'backwards', (lambda f, d: f.propagate_to(d)), (fs, sc.scalar(1.0, unit='m')), {}, {}
    yield 'FrameSequence.propagate_to', 'distance in seconds', (lambda f, d: f.propagate_to(d)), (fs, sc.scalar(10.0, unit='s')), {}, {}

    # --- convert / kernels
    for binned in (False, True):
        da2 = make_beamline(binned, ('us', 'float64'), 'm')
        yield 'convert', f'unknown target,binned={binned}', convert, (da2,), {'origin': 'tof', 'target': 'nonsense', 'scatter': True}, {}
        yield 'convert', f'unknown origin,binned={binned}', convert, (da2,), {'origin': 'nonsense', 'target': 'wavelength', 'scatter': True}, {}
        da3 = make_beamline(binned, ('us', 'float64'), 'm')
        del da3.coords['sample_position']
        yield 'convert', f'missing sample_position,binned={binned}', convert, (da3,), {'origin': 'tof', 'target': 'dspacing', 'scatter': True}, {}
        da4 = make_beamline(binned, ('us', 'float64'), 'm')
        da4.coords['position'] = da4.coords['position'].to(unit='mm') * sc.scalar(1.0, unit='s/mm')
        yield 'convert', f'position in seconds,binned={binned}', convert, (da4,), {'origin': 'tof', 'target': 'wavelength', 'scatter': True}, {}
        yield 'convert', f'inelastic without energies,binned={binned}', convert, (make_beamline(binned, ('us', 'float64'), 'm'),), {'origin': 'tof', 'target': 'energy_transfer', 'scatter': True}, {}
    from scippneutron.conversion import tof as tk
    yield 'conversion.tof.wavelength_from_tof', 'Ltotal in seconds', tk.wavelength_from_tof, (), {'tof': sc.array(dims=['row'], values=[1.0, 2.0], unit='us'), 'Ltotal': sc.scalar(1.0, unit='s')}, {}
    yield 'conversion.tof.energy_transfer_direct_from_tof', 'mismatched shapes', tk.energy_transfer_direct_from_tof, (), {
        'tof': sc.array(dims=['row'], values=[4000.0, 5000.0], unit='us'), 'L1': sc.array(dims=['other'], values=[8.0, 9.0, 10.0], unit='m'),
        'L2': sc.array(dims=['row'], values=[2.0, 3.0, 4.0], unit='m'), 'incident_energy': sc.scalar(500.0, unit='meV')}, {}

    # --- absorption / atoms
    from scippneutron.absorption.cylinder import Cylinder
    from scippneutron.absorption.material import Material
    cyl = Cylinder(symmetry_line=sc.vector([0.0, 1.0, 0.0]), center_of_base=sc.vector([0.0, -5.0, 0.0], unit='mm'), radius=sc.scalar(2.0, unit='mm'), height=sc.scalar(10.0, unit='mm'))
    mat = Material(scattering_params=ScatteringParams.for_isotope('V'), effective_sample_number_density=sc.scalar(0.07, unit='1/angstrom**3'))
    wav = sc.array(dims=['wavelength'], values=[1.0, 2.0], unit='angstrom')
    det = sc.vectors(dims=['detector'], values=np.array([[1.0, 0.0, 1.0]]), unit='m')
    yield 'compute_transmission_map', 'unknown quadrature kind', compute_transmission_map, (cyl, mat), {'beam_direction': sc.vector([0.0, 0.0, 1.0]), 'wavelength': wav, 'detector_position': det, 'quadrature_kind': 'nonsense'}, {}
    yield 'compute_transmission_map', 'wavelength in seconds', compute_transmission_map, (cyl, mat), {'beam_direction': sc.vector([0.0, 0.0, 1.0]), 'wavelength': sc.array(dims=['wavelength'], values=[1.0], unit='s'), 'detector_position': det, 'quadrature_kind': 'cheap'}, {}
    yield 'Material.attenuation_coefficient', 'wavelength in seconds', (lambda m, w: m.attenuation_coefficient(w)), (mat, sc.scalar(1.0, unit='s')), {}, {}
    yield 'Atom.for_isotope', 'unknown isotope', Atom.for_isotope, ('Xx',), {}, {}
    yield 'ScatteringParams.for_isotope', 'unknown isotope', ScatteringParams.for_isotope, ('999H',), {}, {}

    # --- CIF
    loop = cif.Loop({'_a': sc.arange('r', 3.0)})
    chunk = cif.Chunk({'_k': 1})
    content = [chunk, loop]
    yield 'Block', 'name with a space', (lambda n, c: cif.Block(n, c)), ('bad name', content), {}, {}
    yield 'Block', 'non-ascii name', (lambda n, c: cif.Block(n, c)), ('bläck', content), {}, {}
    yield 'Loop', 'columns of different length', (lambda d: cif.Loop(d).write(io.StringIO())), ({'_a': sc.arange('r', 3.0), '_b': sc.arange('r', 4.0)},), {}, {}
    yield 'Loop', '2-d column', (lambda d: cif.Loop(d).write(io.StringIO())), ({'_a': sc.zeros(sizes={'r': 2, 'c': 2})},), {}, {}
    yield 'Chunk', 'array value', (lambda d: cif.Chunk(d).write(io.StringIO())), ({'_a': sc.arange('r', 3.0)},), {}, {}
    builder = cif.CIF('blk').with_reducers('r')
    yield 'CIF.with_reduced_powder_data', 'data without variances / wrong coordinate', (lambda b, d: b.with_reduced_powder_data(d).save(io.StringIO())), (builder, mkda(variances=False)), {}, {}
    yield 'CIF.with_reduced_powder_data', '2-d data', (lambda b, d: b.with_reduced_powder_data(d).save(io.StringIO())), (builder, sc.concat([mkda(), mkda()], 'y')), {}, {}
    yield 'CIF.with_powder_calibration', 'missing power coordinate', (lambda b, d: b.with_powder_calibration(d).save(io.StringIO())), (builder, sc.DataArray(sc.arange('cal', 3.0))), {}, {}
    yield 'CIF', 'name with a space', (lambda n: cif.CIF(n).save(io.StringIO())), ('bad name',), {}, {}
    yield 'save_cif', 'to a directory that does not exist', (lambda b: cif.save_cif('/nonexistent-dir-c09/x.cif', b)), (builder,), {}, {}

    # --- SQW builder
    try:
        from io import BytesIO

        from scippneutron.io.sqw import Sqw
        o = sqw_objects(preset_names=True)
        pix_bad = o['pixels'].copy()
        del pix_bad.coords['u3']
        yield 'SqwBuilder.add_pixel_data', 'missing pixel coordinate', (lambda p_, e: Sqw.build(BytesIO()).add_pixel_data(p_, experiments=e).create()), (pix_bad, o['experiments']), {}, {}
        pix_unit = o['pixels'].copy()
        pix_unit.coords['u4'] = pix_unit.coords['u4'].to(unit='meV') * sc.scalar(1.0, unit='s/meV')
        yield 'SqwBuilder.add_pixel_data', 'energy coordinate in seconds', (lambda p_, e: Sqw.build(BytesIO()).add_pixel_data(p_, experiments=e).create()), (pix_unit, o['experiments']), {}, {}
        yield 'SqwBuilder.create', 'path in a directory that does not exist', (lambda m: Sqw.build('/nonexistent-dir-c09/x.sqw').add_empty_dnd_data(m).create()), (o['metadata'],), {}, {}
        yield 'SqwBuilder.add_pixel_data', 'unknown row name', (lambda p_, e: Sqw.build(BytesIO()).add_pixel_data(p_, experiments=e, rows=('u1', 'nope'), row_units=('1/angstrom', None)).create()), (o['pixels'], o['experiments']), {}, {}
        yield 'Sqw.build', 'unknown byteorder', (lambda m: Sqw.build(BytesIO(), byteorder='middle').add_empty_dnd_data(m).create()), (o['metadata'],), {}, {}
    except ImportError:
        pass


CALL_TABLES = [kernel_calls, convert_calls, chopper_calls, peaks_calls, absorption_calls, io_calls, atoms_calls, error_calls]


def run_calls(ctx, deep):
    import warnings

    with warnings.catch_warnings():
        warnings.simplefilter('ignore')
        for table in CALL_TABLES:
            try:
                for label, cfg, fn, args, kwargs, extra in table(ctx, deep):
                    call_and_compare(ctx, label, cfg, fn, args, kwargs, {'table': table.__name__, **extra})
            except Exception as e:  # noqa: BLE001
                import traceback

                ctx.note(f'call table {table.__name__} aborted: {type(e).__name__}: {e} :: {traceback.format_exc()[-400:]}')
                ctx.count('call-table-aborted:' + table.__name__)
                raise


# =================================================================================================
# histories: factories, lookups, combinators
# =================================================================================================
# A family = (name, [producers], [mutations], observe).  A producer returns a fresh object from the factory
# (possibly derived from an earlier handle); `observe` canonicalises what a fresh lookup returns.

def graph_canon(g):
    def fn(v):
        return getattr(v, '__qualname__', None) or getattr(v, '__name__', None) or repr(v)
    return tuple(sorted((repr(k), fn(v)) for k, v in g.items()))


def families():
    import scipp as sc
    from scippneutron.atoms import Atom, ScatteringParams
    from scippneutron.conversion.graph import beamline as gb
    from scippneutron.conversion.graph import tof as gt
    from scippneutron.core.conversions import conversion_graph
    from scippneutron.io import cif
    from scippneutron.peaks import model as M

    def mut_dict_set(g):
        g[next(iter(g))] = 'poison'

    def mut_dict_del(g):
        del g[next(iter(g))]

    def mut_dict_add(g):
        g['__poison__'] = lambda: 0

    def mut_dict_clear(g):
        g.clear()

    graph_muts = [('setitem', mut_dict_set), ('delitem', mut_dict_del), ('additem', mut_dict_add), ('clear', mut_dict_clear)]
    fams = []
    graph_factories = [(f'graph.tof.{n}', (lambda n=n: getattr(gt, n)('tof'))) for n in
                       ('elastic', 'kinematic', 'elastic_dspacing', 'elastic_energy', 'elastic_Q', 'elastic_Q_vec',
                        'elastic_hkl', 'elastic_wavelength', 'direct_inelastic', 'indirect_inelastic')]
    graph_factories += [(f'graph.beamline.{n}', (lambda n=n: getattr(gb, n)())) for n in ('incident_beam', 'scattered_beam', 'two_theta', 'L1', 'L2')]
    graph_factories += [('graph.beamline.Ltotal', lambda: gb.Ltotal(scatter=True)), ('graph.beamline.beamline', lambda: gb.beamline(scatter=True)),
                        ('graph.beamline.beamline(no scatter)', lambda: gb.beamline(scatter=False)),
                        ('conversion_graph(tof,dspacing)', lambda: conversion_graph('tof', 'dspacing', True, 'elastic')),
                        ('conversion_graph(tof,energy_transfer)', lambda: conversion_graph('tof', 'energy_transfer', True, 'direct_inelastic'))]
    fams.append(('graphs', graph_factories, graph_muts, graph_canon))

    def atom_canon(a):
        return snap(a)

    def mut_var_inplace(field):
        def m(o):
            v = getattr(o, field)
            if v is None:
                raise LookupError
            v *= 2.0
        return m

    def mut_var_value(field):
        def m(o):
            v = getattr(o, field)
            if v is None:
                raise LookupError
            v.value = 123.0
        return m

    def mut_setattr(field, val):
        def m(o):
            setattr(o, field, val)      # frozen dataclasses refuse (not applicable); no bypass of the public surface
        return m

    atoms = [(f'Atom.for_isotope({i})', (lambda i=i: Atom.for_isotope(i))) for i in ('H', '2H', 'V')]
    fams.append(('Atom.for_isotope', atoms,
                 [('atomic_weight*=2', mut_var_inplace('atomic_weight')), ('atomic_weight.value=', mut_var_value('atomic_weight')),
                  ('atomic_mass*=2', mut_var_inplace('atomic_mass')), ('setattr z', mut_setattr('z', 999))], atom_canon))
    scat = [(f'ScatteringParams.for_isotope({i})', (lambda i=i: ScatteringParams.for_isotope(i))) for i in ('H', 'V', '157Gd')]
    fams.append(('ScatteringParams.for_isotope', scat,
                 [('absorption_cross_section*=2', mut_var_inplace('absorption_cross_section')),
                  ('absorption_cross_section.value=', mut_var_value('absorption_cross_section')),
                  ('coherent_scattering_length_re.value=', mut_var_value('coherent_scattering_length_re')),
                  ('setattr isotope', mut_setattr('isotope', 'Xx'))], atom_canon))

    # model combinators: one shared prototype, combinators derive from it
    proto = {'g': M.GaussianModel(prefix='a_'), 'p': M.PolynomialModel(degree=2, prefix='b_')}
    model_ops = [('with_prefix', lambda: proto['g'].with_prefix('x_')), ('add', lambda: proto['p'] + proto['g']),
                 ('with_prefix(composite)', lambda: (proto['p'] + proto['g']).with_prefix('c_')), ('prototype', lambda: proto['g'])]

    def mut_model_names(m):
        m._param_names.add('poison')

    def mut_model_prefixed(m):
        m._prefixed_param_names.add('poison')

    def mut_model_prefix(m):
        m._prefix = 'zz_'

    def mut_model_child(m):
        if not hasattr(m, '_left'):
            raise LookupError
        m._left._param_names.add('poison')

    def model_canon(m):
        return snap(m)
    def mut_public_names(m):
        m.param_names.add('poison')

    def mut_public_bounds(m):
        m.param_bounds['poison'] = (0.0, 1.0)

    # private state is poked only on results of with_prefix (documented as a deep copy); `left + right` keeps
    # references to its operands by design and offers no public mutator
    wp = {'with_prefix', 'with_prefix(composite)'}
    fams.append(('Model combinators', model_ops[:3],
                 [('param_names.add', mut_public_names), ('param_bounds[]=', mut_public_bounds),
                  ('_param_names.add', mut_model_names, wp), ('_prefixed_param_names.add', mut_model_prefixed, wp),
                  ('_prefix=', mut_model_prefix, wp), ('_left._param_names.add', mut_model_child, wp)], model_canon, lambda: snap(proto)))

    # CIF builder
    base = {'cif': cif.CIF('base', comment='c').with_reducers('r1')}
    cif_ops = [('copy', lambda: base['cif'].copy()), ('with_reducers', lambda: base['cif'].with_reducers('r2')),
               ('with_authors', lambda: base['cif'].with_authors())]

    def cif_text(c):
        b = io.StringIO()
        c.save(b)
        return '\n'.join(line for line in b.getvalue().split('\n') if 'creation_date' not in line)

    def mut_cif_name(c):
        c.name = 'poison'

    def mut_cif_comment(c):
        c.comment = 'poison'

    def mut_cif_reducers(c):
        c._reducers.append('poison')

    def mut_cif_block(c):
        c._block.add({'_poison': 1})

    fams.append(('CIF builder', cif_ops, [('name=', mut_cif_name), ('comment=', mut_cif_comment), ('_reducers.append', mut_cif_reducers),
                                           ('_block.add', mut_cif_block)], cif_text, lambda: cif_text(base['cif'])))
    _ = sc
    return fams


PRISTINE_SCRIPT = r'''
import sys, json
sys.path.insert(0, sys.argv[1]); sys.path.insert(0, sys.argv[2])
import warnings; warnings.simplefilter('ignore')
from harness.props import c09
out = {}
for fam in c09.families():
    name, producers, muts, canon = fam[:4]
    for pname, p in producers:
        out[name + '::' + pname] = repr(canon(p()))
    if len(fam) > 4:
        out[name + '::__base__'] = repr(fam[4]())
json.dump(out, sys.stdout)
'''


def pristine_reference(ctx):
    verif = os.path.dirname(os.path.dirname(os.path.dirname(os.path.abspath(__file__))))
    p = subprocess.run([sys.executable, '-c', PRISTINE_SCRIPT, os.path.join(ctx.repo, 'src'), verif],
                       capture_output=True, text=True, timeout=600,
                       env=dict(os.environ, PYTHONDONTWRITEBYTECODE='1'))
    if p.returncode != 0:
        raise RuntimeError('pristine subprocess failed: ' + p.stderr[-600:])
    return json.loads(p.stdout[p.stdout.index('{'):])


def run_histories(ctx, deep):
    import warnings

    warnings.simplefilter('ignore')
    ref = pristine_reference(ctx)
    max_len = 3
    for fam in families():
        name, producers, muts, canon = fam[:4]
        base_obs = fam[4] if len(fam) > 4 else None
        # steps: (producer index, mutation index or None)
        steps = [(i, j) for i in range(len(producers)) for j in [None, *range(len(muts))]]
        if len(steps) ** max_len > (4000 if (deep or not ctx.quick) else 700):
            # complete up to length 2, seeded sample of length 3
            seqs = [s for n in (1, 2) for s in itertools.product(steps, repeat=n)]
            budget = (4000 if (deep or not ctx.quick) else 700) - len(seqs)
            seqs += [tuple(ctx.rng.choice(steps) for _ in range(3)) for _ in range(max(budget, 0))]
            complete = False
        else:
            seqs = [s for n in range(1, max_len + 1) for s in itertools.product(steps, repeat=n)]
            complete = True
        ctx.count(f'hist:{name}:sequences', len(seqs))
        if not complete:
            ctx.count(f'hist:{name}:sampled-length-3')
        model_lines = []
        bad_seen = set()
        for seq in seqs:
            applied = []
            for pi, mi in seq:
                obj = producers[pi][1]()
                if mi is not None:
                    try:
                        if len(muts[mi]) > 2 and producers[pi][0] not in muts[mi][2]:
                            raise LookupError
                        muts[mi][1](obj)
                        applied.append((producers[pi][0], muts[mi][0]))
                    except (LookupError, StopIteration, AttributeError, TypeError, ValueError, dataclasses.FrozenInstanceError, sc_errors()):
                        applied.append((producers[pi][0], muts[mi][0] + ' (not applicable)'))
                else:
                    applied.append((producers[pi][0], None))
            ctx.case(('hist', name, seq), True, sample={'op': 'history', 'family': name, 'steps': applied} if len(seq) == 3 else None)
            # fresh lookups after the history
            for pname, p in producers:
                got = repr(canon(p()))
                if got != ref[name + '::' + pname]:
                    key = f'C09:history-dependent:{pname.split("(")[0]}'
                    if pname.startswith('ScatteringParams.for_isotope'):
                        key = 'C09:scattering-params-cache-shared'     # the class fixed in a087e21
                    if (key, pname) not in bad_seen:
                        bad_seen.add((key, pname))
                        report(ctx, key, f'{pname} after {applied} differs from the pristine value',
                                      {'kind': 'hist', 'family': name, 'steps': [[pi, mi] for pi, mi in seq], 'producer': pname,
                                       'applied': applied})
            if base_obs is not None:
                got = repr(base_obs())
                if got != ref[name + '::__base__']:
                    key = f'C09:history-dependent:{name}:source-object-modified'
                    if key not in bad_seen:
                        bad_seen.add(key)
                        report(ctx, key, f'the object the combinators were applied to changed after {applied}',
                                      {'kind': 'hist', 'family': name, 'steps': [[pi, mi] for pi, mi in seq], 'applied': applied})
            # the model (copying hand-out): every lookup pristine
            ops = []
            h = 0
            for pi, mi in seq:
                ops.append(f'L{pi}')
                if mi is not None:
                    ops.append(f'M{h}')
                h += 1
            ops += [f'L{i}' for i in range(len(producers))]
            if len(model_lines) < 400:
                model_lines.append('c09.hist 0 ' + ' '.join(ops))
        for line, out in zip(model_lines, ctx.driver(model_lines)):
            if set(out.split()) != {'1'}:
                ctx.disagree({'op': 'hist', 'line': line}, 'pristine', out, 'model with copying hand-out predicts a non-pristine lookup')
        if bad_seen:
            ctx.count(f'hist:{name}:impl-not-pristine', len(bad_seen))


def sc_errors():
    import scipp as sc

    return sc.UnitError



# =================================================================================================
# histories of computational entry points: result(B) after A must equal result(B) in a pristine process
# =================================================================================================

def _digest(obj):
    import hashlib

    return hashlib.blake2b(repr(snap(obj)).encode(), digest_size=12).hexdigest()


def compute_entries():
    """[(function label, [thunk_0, thunk_1, thunk_2])]: thunk_k builds fresh arguments of argument set k and returns the
    result. Argument set 0 is the aliasing / float64 one, 1 float32 (or a second object), 2 other units (or a third)."""
    import numpy as np
    import scipp as sc

    out = []
    # --- conversion kernels: every parameter in its k-th configuration
    for label, f, params in kernel_functions():
        cfgs = [param_configs(p) for p in params]
        if any(c is None for c in cfgs):
            continue
        thunks = []
        for k in range(3):
            def th(k=k, f=f, params=params, cfgs=cfgs):
                try:
                    return f(**{p: cfgs[i][min(k, len(cfgs[i]) - 1)][1]('array') for i, p in enumerate(params)})
                except sc.DimensionError:
                    return f(**{p: cfgs[i][min(k, len(cfgs[i]) - 1)][1]('scalar') for i, p in enumerate(params)})
            thunks.append(th)
        out.append((label, thunks))

    # --- absorption
    from scippneutron.absorption import compute_transmission_map
    from scippneutron.absorption.cylinder import Cylinder
    from scippneutron.absorption.material import Material
    from scippneutron.atoms import ScatteringParams

    def cyl(k):
        r, h = [(2.0, 2.0), (1.0, 9.0), (4.0, 1.5)][k]
        return Cylinder(symmetry_line=sc.vector([[0.0, 1.0, 0.0], [0.0, 0.6, 0.8], [1.0, 0.0, 0.0]][k]),
                        center_of_base=sc.vector([0.0, -h / 2, 0.0], unit='mm'), radius=sc.scalar(r, unit='mm'), height=sc.scalar(h, unit='mm'))

    def mat(k):
        return Material(scattering_params=ScatteringParams.for_isotope(['V', 'H', 'Si'][k]),
                        effective_sample_number_density=sc.scalar([0.07, 0.05, 0.1][k], unit='1/angstrom**3'))

    def wav(k):
        return [sc.array(dims=['wavelength'], values=[1.0, 2.0, 4.0], unit='angstrom'),
                sc.array(dims=['wavelength'], values=[1.0, 2.0, 4.0], unit='angstrom', dtype='float32'),
                sc.array(dims=['wavelength'], values=[0.1, 0.2, 0.4], unit='nm')][k]

    det = sc.vectors(dims=['detector'], values=np.array([[1.0, 0.0, 1.0], [0.0, 0.5, 1.0]]), unit='m')
    for kind in ('cheap', 'medium', 'expensive'):
        out.append((f'Cylinder.quadrature[{kind}]', [lambda k=k, kind=kind: cyl(k).quadrature(kind) for k in range(3)]))
    out.append(('Cylinder.volume/center', [lambda k=k: (cyl(k).volume, cyl(k).center) for k in range(3)]))
    out.append(('Cylinder.beam_intersection', [lambda k=k: cyl(k).beam_intersection(
        sc.vectors(dims=['p'], values=np.array([[0.0, 0.0, 0.0], [0.3, 0.2, 0.1]]), unit='mm'), sc.vector([0.0, 0.0, 1.0])) for k in range(3)]))
    out.append(('compute_transmission_map', [lambda k=k: compute_transmission_map(
        cyl(k), mat(k), beam_direction=sc.vector([0.0, 0.0, 1.0]), wavelength=wav(k), detector_position=det, quadrature_kind='cheap')
        for k in range(3)]))
    out.append(('Material.attenuation_coefficient', [lambda k=k: mat(k).attenuation_coefficient(wav(k)) for k in range(3)]))

    # --- choppers
    from scippneutron.chopper import DiskChopper
    from scippneutron.tof import chopper_cascade as cc

    def disk(k):
        ang, dt = [('rad', 'float64'), ('rad', 'float32'), ('deg', 'float64')][k]
        return DiskChopper(axle_position=sc.vector([0.0, 0.0, 6.0 + k], unit='m'), frequency=sc.scalar([14.0, 28.0, -14.0][k], unit='Hz'),
                           beam_position=sc.scalar(0.3, unit='rad').to(unit=ang, dtype=dt), phase=sc.scalar(0.5 + 0.1 * k, unit='rad').to(unit=ang, dtype=dt),
                           slit_begin=sc.array(dims=['slit'], values=[0.0, 1.0 + 0.2 * k, 2.5], unit='rad').to(unit=ang, dtype=dt),
                           slit_end=sc.array(dims=['slit'], values=[0.5, 1.6 + 0.2 * k, 3.0], unit='rad').to(unit=ang, dtype=dt))
    pf = [sc.scalar(14.0, unit='Hz'), sc.scalar(14.0, unit='Hz', dtype='float32'), sc.scalar(0.014, unit='kHz')]
    for meth in ('time_offset_open', 'time_offset_close', 'open_duration'):
        out.append((f'DiskChopper.{meth}', [lambda k=k, m=meth: getattr(disk(k), m)(pulse_frequency=pf[k]) for k in range(3)]))

    def frames(k):
        tu, wu, du = [('s', 'm', 'm'), ('ms', 'angstrom', 'm'), ('us', 'angstrom', 'mm')][k]
        fs = cc.FrameSequence.from_source_pulse(
            time_min=sc.scalar(0.0, unit='ms').to(unit=tu), time_max=sc.scalar(3.0 + k, unit='ms').to(unit=tu),
            wavelength_min=sc.scalar(0.5, unit='angstrom').to(unit=wu), wavelength_max=sc.scalar(8.0 - k, unit='angstrom').to(unit=wu))
        chops = [cc.Chopper(distance=sc.scalar(d, unit='m').to(unit=du), time_open=sc.array(dims=['cutout'], values=[1.0 + 0.3 * i, 9.0], unit='ms').to(unit='s'),
                            time_close=sc.array(dims=['cutout'], values=[4.0, 12.0 + 0.3 * i], unit='ms').to(unit='s')) for i, d in enumerate([9.0, 6.0 + k, 7.5])]
        fs = fs.chop(chops).propagate_to(sc.scalar(15.0, unit='m').to(unit=du))
        return [(f.distance, f.bounds(), f.subbounds()) for f in fs]
    out.append(('FrameSequence.chop/propagate_to/bounds', [lambda k=k: frames(k) for k in range(3)]))

    # --- peaks
    from scippneutron.peaks import fit_peaks, remove_peaks
    from scippneutron.peaks import model as M

    def spectrum(k):
        rs = np.random.default_rng(100 + k)
        xs = np.linspace(0.5, 10, [120, 90, 150][k])
        c = [4.0, 6.0, 3.0][k]
        y = 5 + 0.3 * xs + 40 * np.exp(-(xs - c) ** 2 / (2 * [0.2, 0.3, 0.15][k] ** 2))
        yn = rs.poisson(y * 20) / 20.0
        da = sc.DataArray(sc.array(dims=['x'], values=yn, variances=np.maximum(yn, 1) / 20, unit='counts'),
                          coords={'x': sc.array(dims=['x'], values=xs, unit='angstrom')})
        return da, sc.array(dims=['x'], values=[c], unit='angstrom')

    def fit(k):
        da, est = spectrum(k)
        rs = fit_peaks(da, peak_estimates=est, windows=sc.scalar(2.0, unit='angstrom'),
                       background=[['linear'], ['quadratic', 'linear'], 'linear'][k], peak=['gaussian', ['lorentzian', 'gaussian'], 'pseudo_voigt'][k])
        plain = sc.DataArray(sc.values(da.data), coords={'x': da.coords['x']})
        return [(r.assessment.name, r.popt, r.red_chisq, r.aic, r.window) for r in rs], remove_peaks(plain, rs)
    out.append(('fit_peaks+remove_peaks', [lambda k=k: fit(k) for k in range(3)]))

    def model_call(k):
        dt = ['float64', 'float32', 'float64'][k]
        x = sc.array(dims=['x'], values=np.linspace(1, 5, 9), unit=['angstrom', 'angstrom', 'nm'][k], dtype=dt)
        u = x.unit
        pp = {'amplitude': sc.scalar(3.0 + k, unit=u, dtype=dt), 'loc': sc.scalar(3.0, unit=u, dtype=dt), 'scale': sc.scalar(0.3 + 0.1 * k, unit=u, dtype=dt)}
        comp = M.PolynomialModel(degree=1, prefix='b_') + M.GaussianModel(prefix='p_')
        cp = {'b_a0': sc.scalar(1.0, dtype=dt), 'b_a1': sc.scalar(0.5, unit=sc.units.one / u, dtype=dt), **{'p_' + n: v for n, v in pp.items()}}
        return (M.GaussianModel()(x, **pp), M.LorentzianModel()(x, **pp), M.PseudoVoigtModel()(x, fraction=sc.scalar(0.3, dtype=dt), **pp), comp(x, **cp),
                comp.with_prefix('z_').param_names)
    out.append(('Model.__call__', [lambda k=k: model_call(k) for k in range(3)]))

    # --- io
    from scippneutron.io import cif, load_xye, save_xye

    def xye(k):
        dt = ['float64', 'float32', 'float64'][k]
        da = sc.DataArray(sc.array(dims=['x'], values=np.arange(9.0) + k, variances=np.arange(9.0) + 1, unit='counts', dtype=dt),
                          coords={'x': sc.array(dims=['x'], values=np.linspace(1, 5 + k, 9), unit=['angstrom', 'angstrom', 'us'][k], dtype=dt)})
        b = io.StringIO()
        save_xye(b, da, header=['', 'my header\nline two', 'h'][k]) if k else save_xye(b, da)
        text = b.getvalue()
        b.seek(0)
        return text, load_xye(b, dim='x', unit='counts', coord_unit=str(da.coords['x'].unit))
    out.append(('save_xye/load_xye', [lambda k=k: xye(k) for k in range(3)]))

    def strip(text):
        return '\n'.join(line for line in text.split('\n') if 'creation_date' not in line)

    def cif_save(k):
        base = cif.CIF(['one', 'two', 'three'][k], comment=['c1', '', 'c3'][k]).with_reducers(*['ra', 'rb', 'rc'][:k + 1])
        texts = []
        b = io.StringIO()
        cif.save_cif(b, base, comment=['per-call', 'other', 'third'][k])
        texts.append(strip(b.getvalue()))
        for c in (base, base.copy(), base.with_reducers('later')):      # the same builder again, and builders derived from it
            b = io.StringIO()
            c.save(b)
            texts.append(strip(b.getvalue()))
        blk = cif.Block('blk' + str(k), [cif.Chunk({'_a': k, '_b': 'text'}), cif.Loop({'_x': sc.arange('r', 3.0 + k)})])
        b = io.StringIO()
        cif.save_cif(b, [blk], comment='c' * k)
        texts.append(strip(b.getvalue()))
        return texts
    out.append(('save_cif/CIF.save', [lambda k=k: cif_save(k) for k in range(3)]))
    return out


COMPUTE_PRISTINE_SCRIPT = r"""
import sys, json
sys.path.insert(0, sys.argv[1]); sys.path.insert(0, sys.argv[2])
import warnings; warnings.simplefilter('ignore')
from harness.props import c09
k = int(sys.argv[3])
out = {}
for label, thunks in c09.compute_entries():
    try:
        out[label] = c09._digest(thunks[k]())
    except Exception as e:
        out[label] = 'raised:' + type(e).__name__
json.dump(out, sys.stdout)
"""


def compute_pristine(ctx, k):
    verif = os.path.dirname(os.path.dirname(os.path.dirname(os.path.abspath(__file__))))
    p = subprocess.run([sys.executable, '-c', COMPUTE_PRISTINE_SCRIPT, os.path.join(ctx.repo, 'src'), verif, str(k)],
                       capture_output=True, text=True, timeout=900, env=dict(os.environ, PYTHONDONTWRITEBYTECODE='1'))
    if p.returncode != 0:
        raise RuntimeError('pristine subprocess failed: ' + p.stderr[-600:])
    return json.loads(p.stdout[p.stdout.index('{'):])


def run_compute_histories(ctx, deep, only=None):
    """for every entry point: argument sets in the orders 1,0,2,1,0 (float32 before float64, one object after another, one
    unit after another); every result is compared with the result of the same argument set in a process that computed
    nothing else with that entry point"""
    import warnings

    warnings.simplefilter('ignore')
    ref = [compute_pristine(ctx, k) for k in range(3)]
    for label, thunks in compute_entries():
        if only is not None and label != only:
            continue
        seq = [1, 0, 2, 1, 0] if (deep or not ctx.quick or label.startswith(('Cylinder', 'compute', 'save_cif'))) else [1, 0, 2]
        if label.startswith('fit_peaks') and ctx.quick and not deep:
            seq = [1, 0]
        prev = []
        for k in seq:
            try:
                got = _digest(thunks[k]())
            except Exception as e:  # noqa: BLE001
                got = 'raised:' + type(e).__name__
            ctx.case(('compute-history', label, tuple(prev), k), True,
                     sample={'op': 'compute-history', 'function': label, 'after': list(prev), 'argument_set': k} if not prev else None)
            ctx.count('compute-history:' + label.split('[')[0].split('.')[0])
            if got != ref[k][label]:
                report(ctx, f'C09:history-dependent:{label.split("[")[0]}',
                       f'{label}: result for argument set {k} after calls with argument sets {prev} differs from the result in a pristine process',
                       {'kind': 'compute-history', 'function': label, 'after': list(prev), 'argument_set': k})
            prev.append(k)


# =================================================================================================
# objects handed out by properties / methods of long-lived objects must not alias internal state
# =================================================================================================

HANDED_OUT_DENY = {
    # mutators, writers and plotting: not "obtain a value" operations
    'add', 'save', 'write', 'create', 'draw', 'acceptance_diagram', 'make_svg', 'report', 'clear', 'pop',
    'add_empty_detector_params', 'add_default_instrument', 'add_default_sample', 'add_empty_dnd_data', 'add_pixel_data',
    'register', 'from_nexus',
}


def handed_out_classes():
    """[(class label, make() -> fresh instance, extra(instance) -> further computations of the object)]"""
    import numpy as np
    import scipp as sc
    from scippneutron.absorption.cylinder import Cylinder
    from scippneutron.absorption.material import Material
    from scippneutron.atoms import Atom, ScatteringParams
    from scippneutron.chopper import DiskChopper
    from scippneutron.io import cif
    from scippneutron.peaks import FitParameters, FitRequirements, fit_peaks
    from scippneutron.peaks import model as M
    from scippneutron.tof import chopper_cascade as cc

    x = sc.array(dims=['x'], values=np.linspace(1.0, 5.0, 9), unit='angstrom')

    def call_model(m):
        """evaluate the model with exactly the parameters it says it has; also as part of a composite"""
        vals = {'amplitude': sc.scalar(3.0, unit='angstrom'), 'loc': sc.scalar(3.0, unit='angstrom'), 'scale': sc.scalar(0.4, unit='angstrom'),
                'fraction': sc.scalar(0.3), 'a0': sc.scalar(1.0), 'a1': sc.scalar(0.5, unit='1/angstrom'), 'a2': sc.scalar(0.1, unit='1/angstrom**2')}

        def params(model):
            return {n: vals[n.rsplit('_', 1)[-1]] for n in sorted(model.param_names)}

        def safe(f):
            try:
                return f()
            except Exception as e:  # noqa: BLE001
                return 'raised:' + type(e).__name__
        other = M.PolynomialModel(degree=1, prefix='other_')
        return (safe(lambda: m(x, **params(m))), safe(lambda: sorted((other + m).param_names)),
                safe(lambda: (other + m)(x, **params(other + m))), safe(lambda: sorted(m.with_prefix('w_').param_names)),
                safe(lambda: sorted(m.param_bounds.items())))

    def spectrum():
        rs = np.random.default_rng(7)
        xs = np.linspace(0.5, 10, 100)
        y = 5 + 0.3 * xs + 40 * np.exp(-(xs - 4) ** 2 / (2 * 0.2 ** 2))
        yn = rs.poisson(y * 20) / 20.0
        return sc.DataArray(sc.array(dims=['x'], values=yn, variances=np.maximum(yn, 1) / 20, unit='counts'),
                            coords={'x': sc.array(dims=['x'], values=xs, unit='angstrom')})

    fit_cache = {}

    def fit_result():
        import copy

        if 'r' not in fit_cache:
            fit_cache['r'] = fit_peaks(spectrum(), peak_estimates=sc.array(dims=['x'], values=[4.0], unit='angstrom'),
                                       windows=sc.scalar(2.0, unit='angstrom'), background='linear', peak='gaussian')[0]
        return copy.deepcopy(fit_cache['r'])

    def disk():
        return DiskChopper(axle_position=sc.vector([0.0, 0.0, 6.0], unit='m'), frequency=sc.scalar(14.0, unit='Hz'),
                           beam_position=sc.scalar(0.3, unit='rad'), phase=sc.scalar(0.5, unit='rad'),
                           slit_begin=sc.array(dims=['slit'], values=[0.0, 1.0, 2.5], unit='rad'),
                           slit_end=sc.array(dims=['slit'], values=[0.5, 1.6, 3.0], unit='rad'),
                           slit_height=sc.array(dims=['slit'], values=[0.1, 0.1, 0.1], unit='m'), radius=sc.scalar(0.4, unit='m'))

    def chopper(d=6.0):
        return cc.Chopper(distance=sc.scalar(d, unit='m'), time_open=sc.array(dims=['cutout'], values=[0.001, 0.009], unit='s'),
                          time_close=sc.array(dims=['cutout'], values=[0.004, 0.012], unit='s'))

    def frames():
        fs = cc.FrameSequence.from_source_pulse(time_min=sc.scalar(0.0, unit='ms'), time_max=sc.scalar(3.0, unit='ms'),
                                                wavelength_min=sc.scalar(0.5, unit='angstrom'), wavelength_max=sc.scalar(8.0, unit='angstrom'))
        return fs.chop([chopper(6.0), chopper(8.0)])

    def cyl():
        return Cylinder(symmetry_line=sc.vector([0.0, 0.6, 0.8]), center_of_base=sc.vector([0.0, -5.0, 0.0], unit='mm'),
                        radius=sc.scalar(2.0, unit='mm'), height=sc.scalar(10.0, unit='mm'))

    def cif_text(c):
        b = io.StringIO()
        (c.save(b) if hasattr(c, 'save') else c.write(b))
        return '\n'.join(line for line in b.getvalue().split('\n') if 'creation_date' not in line)

    def mkloop():
        return cif.Loop({'_pd_x': sc.arange('r', 3.0), '_pd_y': sc.arange('r', 3.0) * 2}, schema=cif.PD_SCHEMA if hasattr(cif, 'PD_SCHEMA') else None)

    def mkchunk():
        return cif.Chunk({'_a': 1, '_b': 'text'}, comment='c', schema=cif.CORE_SCHEMA if hasattr(cif, 'CORE_SCHEMA') else None)

    return [
        ('GaussianModel', lambda: M.GaussianModel(prefix='g_'), call_model),
        ('LorentzianModel', lambda: M.LorentzianModel(prefix='l_'), call_model),
        ('PseudoVoigtModel', lambda: M.PseudoVoigtModel(prefix='v_'), call_model),
        ('PolynomialModel', lambda: M.PolynomialModel(degree=2, prefix='p_'), call_model),
        ('CompositeModel', lambda: M.PolynomialModel(degree=1, prefix='b_') + M.GaussianModel(prefix='k_'), call_model),
        ('FitResult', fit_result, lambda r: (r.eval_model(x), r.eval_peak(x), r.success)),
        ('FitParameters', FitParameters, lambda o: None),
        ('FitRequirements', FitRequirements, lambda o: None),
        ('Atom', lambda: Atom.for_isotope('2H'), lambda a: (Atom.for_isotope('2H'), a == Atom.for_isotope('2H'))),
        ('ScatteringParams', lambda: ScatteringParams.for_isotope('V'), lambda p_: ScatteringParams.for_isotope('V')),
        ('Material', lambda: Material(scattering_params=ScatteringParams.for_isotope('V'), effective_sample_number_density=sc.scalar(0.07, unit='1/angstrom**3')),
         lambda m: m.attenuation_coefficient(sc.array(dims=['w'], values=[1.0, 2.0], unit='angstrom'))),
        ('Cylinder', cyl, lambda c: (c.quadrature('cheap'), c.beam_intersection(sc.vector([0.1, 0.2, 0.3], unit='mm'), sc.vector([0.0, 0.0, 1.0])))),
        ('DiskChopper', disk, lambda d: (d.time_offset_open(pulse_frequency=sc.scalar(14.0, unit='Hz')),
                                         d.time_offset_close(pulse_frequency=sc.scalar(14.0, unit='Hz')), d.open_duration(pulse_frequency=sc.scalar(14.0, unit='Hz')))),
        ('Chopper', chopper, lambda c: None),
        ('Subframe', lambda: frames()[-1].subframes[0], lambda s_: s_.propagate_by(sc.scalar(1.0, unit='m'))),
        ('Frame', lambda: frames()[-1], lambda f: (f.propagate_to(sc.scalar(12.0, unit='m')), f.chop(chopper(11.0)))),
        ('FrameSequence', frames, lambda fs: (fs.propagate_to(sc.scalar(12.0, unit='m')), fs.chop([chopper(11.0)]))),
        ('CIF', lambda: cif.CIF('blk', comment='c').with_reducers('r1'), lambda c: (cif_text(c), cif_text(c.copy()), cif_text(c.with_reducers('r2')))),
        ('Block', lambda: cif.Block('b', [mkchunk(), mkloop()], comment='bc'), lambda b: (cif_text(b), cif_text(b.copy()))),
        ('Chunk', mkchunk, lambda c: (cif_text(c), cif_text(cif.Block('x', [c])), sorted(map(str, cif.Block('x', [c]).schema)))),
        ('Loop', mkloop, lambda l_: (cif_text(l_), cif_text(cif.Block('x', [l_])), sorted(map(str, cif.Block('x', [l_]).schema)))),
    ]


def _is_plain_field(obj, name):
    """the attribute is stored state of a record (instance dict / slot / dataclass field), not computed access"""
    cls_attr = getattr(type(obj), name, None)
    if isinstance(cls_attr, property):
        return False
    if callable(cls_attr) and not isinstance(cls_attr, type):
        return False
    return True


def _obtain(obj, name):
    """(kind, value) for public attribute `name`: property / field value, or the result of a zero-argument method"""
    import inspect

    cls_attr = getattr(type(obj), name, None)
    if isinstance(cls_attr, property) or not callable(getattr(obj, name)):
        return 'attr', getattr(obj, name)
    meth = getattr(obj, name)
    try:
        sig = inspect.signature(meth)
    except (TypeError, ValueError):
        return 'skip', None
    if any(p.default is inspect.Parameter.empty and p.kind in (p.POSITIONAL_ONLY, p.POSITIONAL_OR_KEYWORD, p.KEYWORD_ONLY)
           for p in sig.parameters.values()):
        return 'skip', None
    return 'call', meth()


def mutations_of(v):
    """[(label, function mutating v in place)] — every way the type allows"""
    import numpy as np
    import scipp as sc

    out = []
    if isinstance(v, set):
        out += [('set.add', lambda s_: s_.add('poison')), ('set|=', lambda s_: s_.__ior__({'poison1', 'poison2'})), ('set.clear', lambda s_: s_.clear()),
                ('set.pop', lambda s_: s_.pop())]
    elif isinstance(v, dict):
        out += [('dict[k]=', lambda d: d.__setitem__('poison', 1)), ('dict.clear', lambda d: d.clear()),
                ('del dict[first]', lambda d: d.__delitem__(next(iter(d)))), ('dict[first]=', lambda d: d.__setitem__(next(iter(d)), 'poison'))]
    elif isinstance(v, list):
        out += [('list.append', lambda l_: l_.append('poison')), ('list.reverse', lambda l_: l_.reverse()), ('list.clear', lambda l_: l_.clear()),
                ('del list[0]', lambda l_: l_.__delitem__(0))]
    elif isinstance(v, np.ndarray):
        out += [('ndarray[...]=', lambda a: a.__setitem__(Ellipsis, 0))]
    elif isinstance(v, sc.Variable):
        def imul(var):
            var *= 2.0

        def setvalues(var):
            if var.ndim == 0:
                var.value = var.value * 0 + 123
            else:
                var.values = var.values * 0 + 123

        def setunit(var):
            var.unit = 'kg'
        out += [('Variable*=2', imul), ('Variable.value(s)=', setvalues), ('Variable.unit=', setunit)]
    elif isinstance(v, sc.DataArray):
        def da_imul(d):
            d *= 2.0

        def da_coord(d):
            d.coords['poison'] = sc.scalar(1.0)
        out += [('DataArray*=2', da_imul), ('DataArray.coords[]=', da_coord)]
    elif isinstance(v, sc.DataGroup | sc.Dataset):
        out += [('group[k]=', lambda g: g.__setitem__('poison', sc.scalar(1.0)))]
    return out


def _elements(v):
    """mutable elements one level down (list of subframes, dict of Variables, tuple of results …)"""
    import scipp as sc

    if isinstance(v, list | tuple):
        return [(f'[{i}]', e) for i, e in enumerate(v)][:3]
    if isinstance(v, dict | sc.DataGroup):
        return [(f'[{k!r}]', e) for k, e in list(v.items())[:3]]
    return []


def run_handed_out(ctx, deep, only=None):
    """for every public attribute / property / zero-argument method of every long-lived class: obtain the value, mutate it in
    every way its type allows, then the attribute re-obtained and the object's computations must be what they are for an
    untouched instance"""
    import warnings

    warnings.simplefilter('ignore')

    def observe(label, obj, extra):
        names = [n for n in dir(obj) if not n.startswith('_') and n not in HANDED_OUT_DENY]
        res = {}
        for n in names:
            try:
                kind, val = _obtain(obj, n)
                res[n] = repr(snap(val)) if kind != 'skip' else 'skip'
            except Exception as e:  # noqa: BLE001
                res[n] = 'raised:' + type(e).__name__
        try:
            res['<computations>'] = repr(snap(extra(obj)))
        except Exception as e:  # noqa: BLE001
            res['<computations>'] = 'raised:' + type(e).__name__
        return res

    for label, make, extra in handed_out_classes():
        try:
            pristine = observe(label, make(), extra)
            if pristine != observe(label, make(), extra):
                ctx.count('handed-out:not-reproducible:' + label)
                continue
        except Exception as e:  # noqa: BLE001
            ctx.note(f'handed-out: cannot build {label}: {type(e).__name__}: {e}')
            ctx.count('handed-out:cannot-build:' + label)
            continue
        probe = make()
        for name in [n for n in dir(probe) if not n.startswith('_') and n not in HANDED_OUT_DENY]:
            if only is not None and f'{label}.{name}' != only:
                continue
            try:
                kind, val = _obtain(probe, name)
            except Exception:  # noqa: BLE001
                continue
            if kind == 'skip':
                ctx.count('handed-out:skipped:method-with-arguments')
                continue
            if kind == 'attr' and _is_plain_field(probe, name):
                # stored state of a (data)class record: the attribute IS the state, assigning to / through it is the record's interface
                ctx.count('handed-out:skipped:plain-field-of-record')
                continue
            targets = [('', val)] + _elements(val)
            for sub, tv in targets:
                muts = mutations_of(tv)
                if not muts:
                    ctx.count('handed-out:immutable-value')
                    continue
                for mlabel, mut in muts:
                    obj = make()
                    try:
                        _, v = _obtain(obj, name)
                        for subl, e in [('', v)] + _elements(v):
                            if subl == sub:
                                target = e
                                break
                        else:
                            continue
                        mut(target)
                    except Exception:  # noqa: BLE001
                        ctx.count('handed-out:mutation-not-applicable')
                        continue
                    after = observe(label, obj, extra)
                    ctx.case(('handed-out', label, name, sub, mlabel), True,
                             sample={'op': 'handed-out', 'class': label, 'attribute': name + sub, 'mutation': mlabel})
                    ctx.count('handed-out:' + label)
                    diff = [k for k in pristine if after.get(k) != pristine[k]]
                    if diff:
                        owner = next((c.__name__ for c in type(obj).__mro__ if name in vars(c)), label)
                        report(ctx, f'C09:handed-out-object-aliases-internal:{owner}.{name}',
                               f'{label}.{name}{sub}: after {mlabel} on the returned object, {diff[:4]} of the same {label} differ from an untouched instance',
                               {'kind': 'handed-out', 'attribute': f'{label}.{name}', 'element': sub, 'mutation': mlabel, 'changed': diff[:6]})


# =================================================================================================
# results returned earlier must not change when the objects are used again
# =================================================================================================

def earlier_result_scenarios():
    """[(scenario label, [(step label, step(state) -> new object or None)])]; every object returned by a step is kept and
    snapshotted; after every later step all kept objects must be unchanged"""
    import scipp as sc
    from scippneutron.io import cif
    from scippneutron.peaks import model as M
    from scippneutron.tof import chopper_cascade as cc

    def chopper(d, shift=0.0, unit='m'):
        return cc.Chopper(distance=sc.scalar(d, unit='m').to(unit=unit), time_open=sc.array(dims=['cutout'], values=[0.001 + shift, 0.009], unit='s'),
                          time_close=sc.array(dims=['cutout'], values=[0.004, 0.012 + shift], unit='s'))

    def source(st):
        return cc.FrameSequence.from_source_pulse(time_min=sc.scalar(0.0, unit='ms'), time_max=sc.scalar(3.0, unit='ms'),
                                                  wavelength_min=sc.scalar(0.5, unit='angstrom'), wavelength_max=sc.scalar(8.0, unit='angstrom'))
    out = []
    for unit in ('m', 'mm'):
        out.append((f'chopper cascade [{unit}]', [
            ('FrameSequence.from_source_pulse', source),
            ('FrameSequence.chop', lambda st: st[0].chop([chopper(6.0, unit=unit)])),
            # a chopper at exactly the distance of the last frame, in a second chop() call
            ('FrameSequence.chop', lambda st: st[1].chop([chopper(6.0, 0.0005, unit=unit)])),
            # alternative choppers tried on one frame sequence
            ('FrameSequence.chop', lambda st: st[1].chop([chopper(6.0, 0.001, unit=unit)])),
            ('FrameSequence.chop', lambda st: st[1].chop([chopper(7.0, unit=unit), chopper(6.0, 0.0015, unit=unit)])),
            ('FrameSequence.propagate_to', lambda st: st[1].propagate_to(sc.scalar(6.0, unit='m').to(unit=unit))),
            ('FrameSequence.propagate_to', lambda st: st[2].propagate_to(sc.scalar(9.0, unit='m').to(unit=unit))),
            ('Frame.propagate_to', lambda st: st[1][-1].propagate_to(st[1][-1].distance)),
            ('Frame.chop', lambda st: st[1][-1].chop(chopper(6.0, 0.002, unit=unit))),
            ('Frame.chop', lambda st: st[7].chop(chopper(6.0, 0.0025, unit=unit))),
            ('Subframe.propagate_by', lambda st: st[1][-1].subframes[0].propagate_by(sc.scalar(0.0, unit='m'))),
            ('Frame.bounds', lambda st: (st[1][-1].bounds(), st[1][-1].subbounds())),
        ]))
    out.append(('CIF builders', [
        ('CIF', lambda st: cif.CIF('base', comment='c')),
        ('CIF.with_reducers', lambda st: st[0].with_reducers('r1')),
        ('CIF.with_reducers', lambda st: st[1].with_reducers('r2')),
        ('CIF.copy', lambda st: st[1].copy()),
        ('CIF.with_authors', lambda st: st[3].with_authors()),
        ('save_cif', lambda st: cif.save_cif(io.StringIO(), st[1], comment='per call')),
        ('CIF.save', lambda st: st[2].save(io.StringIO())),
    ]))
    out.append(('models', [
        ('GaussianModel', lambda st: M.GaussianModel(prefix='g_')),
        ('PolynomialModel', lambda st: M.PolynomialModel(degree=1, prefix='b_')),
        ('Model.__add__', lambda st: st[1] + st[0]),
        ('Model.with_prefix', lambda st: st[2].with_prefix('c_')),
        ('Model.with_prefix', lambda st: st[0].with_prefix('h_')),
        ('Model.__add__', lambda st: st[4] + st[1]),
        ('Model.param_names', lambda st: (st[2].param_names, st[3].param_bounds)),
    ]))
    return out


def run_earlier_results(ctx, deep, only=None):
    import warnings

    warnings.simplefilter('ignore')
    for scen, steps in earlier_result_scenarios():
        if only is not None and scen != only:
            continue
        kept = []       # (index, step label, object, snapshot)
        state = []
        for i, (slabel, step) in enumerate(steps):
            try:
                obj = step(state)
            except Exception as e:  # noqa: BLE001
                obj = None
                ctx.count('earlier-result:step-raised:' + type(e).__name__)
            state.append(obj)
            ctx.case(('earlier-result', scen, i), True, sample={'op': 'earlier-result', 'scenario': scen, 'step': i, 'call': slabel} if i == 2 else None)
            ctx.count('earlier-result:' + scen.split(' [')[0])
            for j, jl, o, before in kept:
                now = snap(o)
                if now != before:
                    report(ctx, f'C09:earlier-result-modified:{slabel}',
                           f'{scen}: step {i} ({slabel}) changed the object returned by step {j} ({jl}): {first_diff(before, now)}',
                           {'kind': 'earlier-result', 'scenario': scen, 'step': i, 'changed_step': j})
                    kept[kept.index((j, jl, o, before))] = (j, jl, o, now)
            if obj is not None:
                kept.append((i, slabel, obj, snap(obj)))


# =================================================================================================
# module-level public functions: what they return must not be shared state
# =================================================================================================

MODULE_SKIP = ('scippneutron.mantid', 'scippneutron.instrument_view', 'scippneutron.data', 'scippneutron.logging',
               'scippneutron._html_repr', 'scippneutron.conftest')
# arguments by parameter name for functions that need a few simple ones (each combination is tried)
SIMPLE_ARGS = {
    'start': ['tof'], 'origin': ['tof'], 'target': ['dspacing', 'energy_transfer'], 'scatter': [True, False],
    'energy_mode': ['elastic', 'direct_inelastic'], 'degree': [2], 'isotope': ['V', 'H'], 'prefix': ['p_'],
}


def module_functions():
    """[(qualified name, [thunk ...])] — every public callable of every public module of the package whose signature can
    be satisfied with no arguments or with the small table `SIMPLE_ARGS` (found by introspection)"""
    import importlib
    import inspect
    import itertools as it
    import pkgutil

    import scippneutron

    out = {}
    mods = ['scippneutron']
    for m in pkgutil.walk_packages(scippneutron.__path__, 'scippneutron.'):
        if m.name.startswith(MODULE_SKIP) or any(part.startswith('_') for part in m.name.split('.')[1:]):
            continue
        mods.append(m.name)
    for mn in mods:
        try:
            mod = importlib.import_module(mn)
        except Exception:  # noqa: BLE001
            continue
        names = getattr(mod, '__all__', None) or [n for n in vars(mod) if not n.startswith('_')]
        for n in names:
            f = getattr(mod, n, None)
            if not callable(f) or not getattr(f, '__module__', '').startswith('scippneutron') or getattr(f, '__module__', '').startswith(MODULE_SKIP):
                continue
            qual = f'{f.__module__}.{getattr(f, "__qualname__", n)}'
            if qual in out:
                continue
            cands = [f]
            if inspect.isclass(f):      # also its public alternative constructors (for_isotope, from_source_pulse need arguments …)
                cands += [getattr(f, a) for a in dir(f) if not a.startswith('_') and isinstance(inspect.getattr_static(f, a), classmethod | staticmethod)
                          and (getattr(getattr(inspect.getattr_static(f, a), '__func__', None), '__module__', '') or '').startswith('scippneutron')]
            for g in cands:
                gq = qual if g is f else f'{qual}.{g.__name__}'
                try:
                    sig = inspect.signature(g)
                except (TypeError, ValueError):
                    continue
                req = [p for p in sig.parameters.values() if p.default is inspect.Parameter.empty
                       and p.kind in (p.POSITIONAL_ONLY, p.POSITIONAL_OR_KEYWORD, p.KEYWORD_ONLY)]
                if any(p.name not in SIMPLE_ARGS for p in req):
                    continue
                combos = list(it.product(*[SIMPLE_ARGS[p.name] for p in req])) if req else [()]
                thunks = []
                for combo in combos[:4]:
                    kw = {p.name: v for p, v in zip(req, combo)}
                    thunks.append((','.join(f'{k}={v}' for k, v in kw.items()), (lambda g=g, kw=kw: g(**kw))))
                out[gq] = thunks
    return sorted(out.items())


def dependent_computations():
    """computations in other modules that consume what the module-level functions hand out"""
    import numpy as np
    import scipp as sc
    from scippneutron.absorption import compute_transmission_map
    from scippneutron.absorption.cylinder import Cylinder
    from scippneutron.absorption.material import Material
    from scippneutron.atoms import ScatteringParams

    mat = Material(scattering_params=ScatteringParams.for_isotope('V'), effective_sample_number_density=sc.scalar(0.07, unit='1/angstrom**3'))
    wav = sc.array(dims=['wavelength'], values=[1.0, 2.0, 4.0], unit='angstrom')
    cyl = Cylinder(symmetry_line=sc.vector([0.0, 1.0, 0.0]), center_of_base=sc.vector([0.0, -5.0, 0.0], unit='mm'),
                   radius=sc.scalar(2.0, unit='mm'), height=sc.scalar(10.0, unit='mm'))
    det = sc.vectors(dims=['detector'], values=np.array([[1.0, 0.0, 1.0], [0.0, 0.5, 1.0]]), unit='m')
    from scippneutron import convert
    da = make_beamline(False, ('us', 'float64'), 'm')
    return {
        'Material.attenuation_coefficient': mat.attenuation_coefficient(wav),
        'compute_transmission_map': compute_transmission_map(cyl, mat, beam_direction=sc.vector([0.0, 0.0, 1.0]), wavelength=wav,
                                                              detector_position=det, quadrature_kind='cheap'),
        'convert(tof->dspacing)': convert(da, origin='tof', target='dspacing', scatter=True).coords['dspacing'],
        'convert(tof->energy)': convert(da, origin='tof', target='energy', scatter=True).coords['energy'],
    }


MODULE_PRISTINE_SCRIPT = r"""
import sys, json
sys.path.insert(0, sys.argv[1]); sys.path.insert(0, sys.argv[2])
import warnings; warnings.simplefilter('ignore')
from harness.props import c09
out = {}
for qual, thunks in c09.module_functions():
    for label, th in thunks:
        try:
            out[qual + '(' + label + ')'] = c09._digest(th())
        except Exception as e:
            out[qual + '(' + label + ')'] = 'raised:' + type(e).__name__
for k, v in c09.dependent_computations().items():
    out['dep:' + k] = c09._digest(v)
json.dump(out, sys.stdout)
"""


def run_module_functions(ctx, deep, only=None):
    """call, mutate what was returned in every way its type allows (also one level down), call again: the second result
    and the dependent computations must be what a pristine process gives"""
    import warnings

    warnings.simplefilter('ignore')
    verif = os.path.dirname(os.path.dirname(os.path.dirname(os.path.abspath(__file__))))
    p = subprocess.run([sys.executable, '-c', MODULE_PRISTINE_SCRIPT, os.path.join(ctx.repo, 'src'), verif],
                       capture_output=True, text=True, timeout=900, env=dict(os.environ, PYTHONDONTWRITEBYTECODE='1'))
    if p.returncode != 0:
        raise RuntimeError('pristine subprocess failed: ' + p.stderr[-600:])
    ref = json.loads(p.stdout[p.stdout.index('{'):])
    funcs = module_functions()
    ctx.note(f'module-level functions found by introspection and callable with no / simple arguments: {len(funcs)}: ' + ', '.join(q for q, _ in funcs))
    def deps_now():
        try:
            return {dk: _digest(dv) for dk, dv in dependent_computations().items()}
        except Exception as e:  # noqa: BLE001
            return {dk[4:]: 'raised:' + type(e).__name__ for dk in ref if dk.startswith('dep:')}

    for qual, thunks in funcs:
        if only is not None and qual != only:
            continue
        short = qual.split('scippneutron.', 1)[-1]
        # state already damaged by an earlier (reported) function: do not blame this one for the dependents
        deps_clean = all(v == ref['dep:' + k] for k, v in deps_now().items())
        if not deps_clean:
            ctx.count('module-function:dependents-already-differ')
        for label, th in thunks:
            key = f'{qual}({label})'
            try:
                first = th()
            except Exception:  # noqa: BLE001
                ctx.count('module-function:raises')
                continue
            targets = [('', first)] + _elements(first)
            nmut = 0
            for sub, tv in targets:
                for mlabel, _ in mutations_of(tv):
                    try:
                        r = th()
                        target = dict([('', r)] + _elements(r))[sub]
                        dict(mutations_of(target))[mlabel](target)
                    except Exception:  # noqa: BLE001
                        ctx.count('module-function:mutation-not-applicable')
                        continue
                    nmut += 1
                    ctx.case(('module-function', key, sub, mlabel), True,
                             sample={'op': 'module-function', 'function': key, 'mutated': sub or 'result', 'mutation': mlabel} if nmut == 1 else None)
                    ctx.count('module-function:mutations')
                    try:
                        again = _digest(th())
                    except Exception as e:  # noqa: BLE001
                        again = 'raised:' + type(e).__name__
                    bad = []
                    if again != ref.get(key):
                        bad.append('the function itself')
                    if deps_clean:
                        for dk, dv in deps_now().items():
                            if dv != ref['dep:' + dk]:
                                bad.append(dk)
                    if bad:
                        report(ctx, f'C09:history-dependent:{short}',
                               f'{key}: after {mlabel} on the returned object{sub}, {bad} differ(s) from a pristine process',
                               {'kind': 'module-function', 'function': qual, 'call': label, 'element': sub, 'mutation': mlabel, 'changed': bad})
            if nmut == 0:
                ctx.count('module-function:immutable-result')
            else:
                ctx.count('module-function:checked')

# =================================================================================================
# translated IR: Lean analysis vs Python mirror; concrete runs vs analysis
# =================================================================================================

def correspond_ir(ctx):
    done, failed = tr_kernels.analyse(ctx.repo)
    ctx.note(f'untranslated (dynamic only), {len(failed)}: ' + ('; '.join(f'{f}:{q} [{e}]' for f, q, e in failed) or 'none'))
    ctx.note(f'translated, {len(done)} functions ({sum(1 for fi in done if fi.public)} public, '
             f'{sum(1 for fi in done if not fi.public)} helpers; {sum(len(p) for fi in done for p in fi.paths)} IR instructions; '
             f'{sum(1 for fi in done if fi.bits)} with aliasing conversions, {sum(2 ** fi.bits for fi in done)} configurations in total): '
             + ', '.join(f'{fi.file}:{fi.qual}' for fi in done))
    gs = [fi for fi in done if fi.globals or fi.cached]
    ctx.note(f'global-state, {len(gs)} functions touch module-level mutable objects or an lru_cache: ' + '; '.join(
        f'{fi.file}:{fi.qual} reads {[g[1] for g in fi.globals]} writes {[g[1] for g in sorted(fi.global_writes)]}'
        + (' [lru_cache]' if fi.cached else '') for fi in gs))
    rms = [fi for fi in done if fi.public and not fi.ret_container and any(j >= fi.nreal for j in (fi.ret_alias or []))]
    ctx.note(f'public functions whose return value may be an object of module state, {len(rms)}: ' + ', '.join(f'{fi.file}:{fi.qual}' for fi in rms))
    for fi in rms:
        ctx.disagree({'op': 'ir', 'function': f'{fi.file}:{fi.qual}'}, 'returns module state', [], 'translated public function returns an alias of module-level state')
    ctx.count('ir:global-state-functions', len(gs))
    ctx.count('ir:global-state-writers', sum(1 for fi in gs if fi.global_writes))
    for fi in gs:
        if fi.global_writes:
            ctx.disagree({'op': 'ir', 'function': f'{fi.file}:{fi.qual}'}, sorted(fi.global_writes), [], 'translated function writes module-level mutable state')
    ctx.note('helpers writing a parameter by design: ' + ', '.join(f'{fi.qual}{[j for j in fi.allowed if j < fi.nreal]}' for fi in done if fi.allowed))
    ctx.count('ir:translated-functions', len(done))
    ctx.count('ir:untranslated-functions', len(failed))
    head = ctx.driver(['c09.kernels'])[0].split()
    npaths = sum(len(fi.paths) for fi in done)
    if [int(t) for t in head] != [npaths, len(failed), 1]:
        ctx.disagree('kernel table', [npaths, len(failed), 1], head, 'driver table differs from the translator output / a check fails')
    lines, meta = [], []
    for fi in done:
        for k, prog in enumerate(fi.paths):
            qn = f'{fi.file}:{fi.qual}' + (f' path {k}' if len(fi.paths) > 1 else '')
            lines.append('c09.kernel ' + qn.encode().hex())
            meta.append((fi, k, prog, qn, 'analysis'))
            for c in range(2 ** fi.bits):
                lines.append(f'c09.run {qn.encode().hex()} {c}')
                meta.append((fi, k, prog, qn, c))
    outs = ctx.driver(lines)
    for (fi, k, prog, qn, what), out in zip(meta, outs):
        n = len(fi.params)
        if what == 'analysis':
            exp = ';'.join(f'{c}:{",".join(str(j) for j in sorted(tr_kernels.written_args(n, prog, c)))}' for c in range(2 ** fi.bits))
            got = out.split('written=')[-1]
            # the Lean list is in discovery order and may repeat; compare as sets per configuration
            got_sets = ';'.join(f'{p.split(":")[0]}:{",".join(str(j) for j in sorted({int(t) for t in p.split(":")[1].split(",") if t}))}' for p in got.split(';'))
            ctx.case(('ir', qn), True, sample={'op': 'ir', 'function': qn, 'bits': fi.bits, 'allowed': fi.allowed})
            ctx.count('ir:public' if fi.public else 'ir:helper')
            if exp != got_sets:
                ctx.disagree({'op': 'ir', 'function': qn}, exp, got_sets, 'analysis: Python mirror vs Lean')
            if fi.public and fi.allowed:
                ctx.disagree({'op': 'ir', 'function': qn}, fi.allowed, [], 'translated public function may write an argument')
        else:
            c = what
            vals = [int(t) for t in out.split(',')] if out else []
            written_concrete = {j for j, v in enumerate(vals) if v != 0}
            written_analysis = tr_kernels.written_args(n, prog, c)
            ctx.case(('ir-run', qn, c), True)
            if not written_concrete <= written_analysis:
                ctx.disagree({'op': 'ir-run', 'function': qn, 'config': c}, sorted(written_analysis), sorted(written_concrete),
                             'concrete run writes an argument the analysis does not report')


# =================================================================================================
# entry points of the check
# =================================================================================================

def correspond(ctx):
    correspond_ir(ctx)


def oracle(ctx, deep):
    run_calls(ctx, deep)
    run_histories(ctx, deep)
    run_compute_histories(ctx, deep)
    run_handed_out(ctx, deep)
    run_earlier_results(ctx, deep)
    run_module_functions(ctx, deep)


def replay(ctx, payload):
    import warnings

    warnings.simplefilter('ignore')
    w = payload.get('witness', {})
    before = len(ctx.violations)
    if w.get('kind') == 'arg':
        table = globals()[w['table']]
        for label, cfg, fn, args, kwargs, extra in table(ctx, True):
            if label == w['function'] and cfg == w['config']:
                call_and_compare(ctx, label, cfg, fn, args, kwargs, extra)
                break
        else:
            print('configuration not found in the call table')
    elif w.get('kind') == 'module-function':
        run_module_functions(ctx, True, only=w['function'])
    elif w.get('kind') == 'handed-out':
        run_handed_out(ctx, True, only=w['attribute'])
    elif w.get('kind') == 'earlier-result':
        run_earlier_results(ctx, True, only=w['scenario'])
    elif w.get('kind') == 'compute-history':
        run_compute_histories(ctx, True, only=w['function'])
    elif w.get('kind') == 'hist':
        ref = pristine_reference(ctx)
        for fam in families():
            name, producers, muts, canon = fam[:4]
            if name != w['family']:
                continue
            for pi, mi in w['steps']:
                obj = producers[pi][1]()
                if mi is not None:
                    try:
                        if len(muts[mi]) > 2 and producers[pi][0] not in muts[mi][2]:
                            raise LookupError
                        muts[mi][1](obj)
                    except Exception:  # noqa: BLE001
                        pass
            for pname, p in producers:
                if repr(canon(p())) != ref[name + '::' + pname]:
                    report(ctx, payload['key'], f'{pname} differs from pristine', w)
            if len(fam) > 4 and repr(fam[4]()) != ref[name + '::__base__']:
                report(ctx, payload['key'], 'source object modified', w)
    for v in ctx.violations[before:]:
        print('replay:', v['key'], v['what'][:200])
    return len(ctx.violations) > before
