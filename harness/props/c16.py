"""C16 — peak and background models satisfy their analytic definitions."""
from __future__ import annotations

import math
import struct
from fractions import Fraction

PROP = 'C16'
LEAN_TARGETS = ['ScnVerif.Props.C16']
PROPS_FILE = 'ScnVerif/Props/C16.lean'
TRANSLATORS = []
RULE = (
    'model trees (Gaussian / Lorentzian / pseudo-Voigt / polynomial degree 1..6 leaves, composites to depth 3) with '
    'random prefixes (empty, ASCII, non-ASCII, clashing), built through the constructors or through with_prefix; '
    'amplitudes of either sign and coefficients log-uniform 1e-3..1e3, locations uniform / log-uniform up to 1e6, '
    'scales log-uniform 1e-6..1e6 plus the guarded region (0, negative, <1e-15), fractions in [0,1] incl. the ends; '
    'fwhm() (also of models derived by chains of with_prefix from the prefixes of the other peaks) is called with the full parameter dictionary of multi-peak models (2-4 peaks + background; prefixes of equal '
    'length p1_/p2_, nested p_/p_1_/p_1_2_, empty mixed with non-empty, prefixes that look like parameter names); '
    'guess(data, coord=c) is called for every coordinate c of data carrying 2-3 coordinates of different units and values; '
    'the oracle also passes parameters in compatible but different units (loc / scale in mm|um|nm with x in m, scaled amplitude and '
    'coefficient units): refusal or the same physics; a dtype stream gives x and every parameter its own dtype out of float64 / float32 / int64 / int32 (moderate values) and compares '
    'the result dtype / DTypeError with the model of scipp promotion (callDT); '
    'x at loc + k*scale (|k| <= 45) and far away; x / y units from a grid incl. scaled units; a malformed stream drops, adds '
    'or mis-prefixes a key or gives one parameter a wrong unit. Every case is evaluated by the real Model.__call__ and by '
    'the Lean model; a case is distinct by (tree, prefixes, units, parameter bits, x bits, mutation).'
)
ASSUMPTIONS = [
    'libm exp of numpy and of the Lean runtime agree to 1e-12 relative (values involving exp are compared at 1e-12 of the '
    'sum of the magnitudes of the parts, with an absolute floor where exp underflows); values not involving exp '
    '(Lorentzian, polynomial, their composites, every FWHM) are compared bit for bit',
    'scipp applies the scalar operation to every element and propagates units as modelled (exponent vectors); '
    'unit errors are compared as an error kind',
    'the oracle integrates the real model numerically (Gauss-Legendre, 4000 nodes, after x = loc + scale*tan(t)) and '
    'accepts 1e-9 relative',
]
TRUSTED = [
    'modelled, not verified: scippneutron.peaks.model (_gaussian, _lorentzian, PseudoVoigtModel._call, '
    'PolynomialModel._call, CompositeModel, Model.__call__/with_prefix/param_bounds/fwhm)',
    "Mathlib's integral_gaussian and integral_univ_inv_one_add_sq",
]
LEVEL_TEXT = (
    'Lean 4 theorems about the executable transcription of peaks/model.py instantiated at the reals: on the domain of the '
    'max(scale,1e-15) guard the Gaussian, Lorentzian and pseudo-Voigt integrate to their amplitude over the whole line '
    '(Mathlib integrals, any real fraction), are symmetric about loc and take half their peak value at loc +/- FWHM/2 with the '
    'FWHM the model reports; below the guard they equal the model of scale 1e-15; the Horner loop equals sum a_i x^i for every '
    'degree; a composite equals the sum of its parts; evaluation is independent of the prefix string for every model tree; '
    'any key set other than the prefixed parameter names is refused; units are amplitude/x (peaks) and a_i = a_0/x^i (polynomial).'
)
LEVEL_NOTE = (
    'The model is tied to the Python code by a correspondence run on every check (values bit-exact where no exp is involved, '
    '1e-12 otherwise; units, error kinds, parameter names, bounds, FWHM exact). Floating-point rounding of the kernels and '
    'libm exp are not covered by theorems.'
)
TECHNIQUE = 'Lean 4 proof (Mathlib analysis) about an executable model + model/implementation correspondence + numeric oracle'

# ------------------------------------------------------------------------------------------------
# units: (metre, second, counts, power of ten)
UNITS = {
    'm': (1, 0, 0, 0), 'mm': (1, 0, 0, -3), 'angstrom': (1, 0, 0, -10), 's': (0, 1, 0, 0), 'us': (0, 1, 0, -6),
    'dimensionless': (0, 0, 0, 0), 'counts': (0, 0, 1, 0),
}
X_UNITS = ['m', 'mm', 'angstrom', 's', 'us', 'dimensionless']
Y_UNITS = ['counts', 'dimensionless', 'm', 's', 'mm']


def umul(a, b):
    return tuple(x + y for x, y in zip(a, b))


def udiv(a, b):
    return tuple(x - y for x, y in zip(a, b))


def upow(a, n):
    return tuple(x * n for x in a)


def sc_unit(t):
    import scipp as sc

    u = sc.Unit('m') ** t[0] * sc.Unit('s') ** t[1] * sc.Unit('counts') ** t[2]
    if t[3]:
        u = u * sc.Unit(f'1e{t[3]}')
    return u


def ustr(t):
    return ','.join(str(i) for i in t)


def bits(x: float) -> str:
    return struct.pack('>d', float(x)).hex()


def unbits(h: str) -> float:
    return struct.unpack('>d', bytes.fromhex(h))[0]


def hexs(s: str) -> str:
    b = s.encode('utf-8')
    return b.hex() if b else '-'


# ------------------------------------------------------------------------------------------------
# model trees: ('G'|'L'|'V', prefix) | ('P', degree, prefix) | ('C', prefix, left, right)

PREFIX_POOL = ['', '', 'p_', 'a', 'a1', 'bg_', 'peak.', 'g', 'gg', ' ', 'x y', 'é', 'µ_', 'scale', 'a0', '_', '0', 'A', 'amplitude']


def rand_prefix(rng):
    if rng.random() < 0.7:
        return rng.choice(PREFIX_POOL)
    n = rng.randint(1, 6)
    return ''.join(rng.choice('abcxyz_019. -#$éλ') for _ in range(n))


def rand_tree(rng, depth, clash_ok=True):
    if depth > 0 and rng.random() < 0.55:
        l = rand_tree(rng, depth - 1, clash_ok)
        r = rand_tree(rng, depth - 1, clash_ok)
        if not (clash_ok and rng.random() < 0.08):
            # make the parts' names disjoint the way users do: distinct prefixes
            r = _with_prefix(r, _prefix(r) + rng.choice(['r', 'R_', '2']))
            if set(names(l)) & set(names(r)):
                r = _with_prefix(r, 'zz' + _prefix(r))
        return ('C', rand_prefix(rng), l, r)
    k = rng.choice('GLVP')
    if k == 'P':
        return ('P', rng.randint(1, 6), rand_prefix(rng))
    return (k, rand_prefix(rng))


def _prefix(t):
    return t[2] if t[0] == 'P' else t[1]


def _with_prefix(t, p):
    if t[0] == 'P':
        return ('P', t[1], p)
    if t[0] == 'C':
        return ('C', p, t[2], t[3])
    return (t[0], p)


def own_names(t):
    if t[0] in 'GL':
        return ['amplitude', 'loc', 'scale']
    if t[0] == 'V':
        return ['amplitude', 'loc', 'scale', 'fraction']
    if t[0] == 'P':
        return [f'a{i}' for i in range(t[1] + 1)]
    return names(t[2]) + names(t[3])


def names(t):
    return [_prefix(t) + n for n in own_names(t)]


def tree_tokens(t):
    if t[0] == 'P':
        return ['P', str(t[1]), hexs(t[2])]
    if t[0] == 'C':
        return ['C', hexs(t[1])] + tree_tokens(t[2]) + tree_tokens(t[3])
    return [t[0], hexs(t[1])]


def has_exp(t):
    if t[0] == 'C':
        return has_exp(t[2]) or has_exp(t[3])
    return t[0] in 'GV'


def build(t, via_with_prefix=False):
    """the real model object; constructor errors propagate"""
    from scippneutron.peaks import model as M

    if t[0] == 'C':
        l, r = build(t[2], via_with_prefix), build(t[3], via_with_prefix)
        if via_with_prefix:
            return M.CompositeModel(l, r).with_prefix(t[1])
        return M.CompositeModel(l, r, prefix=t[1])
    cls = {'G': M.GaussianModel, 'L': M.LorentzianModel, 'V': M.PseudoVoigtModel}
    if t[0] == 'P':
        m = M.PolynomialModel(degree=t[1], prefix='' if via_with_prefix else t[2])
        return m.with_prefix(t[2]) if via_with_prefix else m
    m = cls[t[0]](prefix='' if via_with_prefix else t[1])
    return m.with_prefix(t[1]) if via_with_prefix else m


def err_kind(e):
    import scipp as sc

    if isinstance(e, sc.UnitError):
        return 'err:unit'
    if isinstance(e, sc.DTypeError):
        return 'err:dtype'
    if isinstance(e, ValueError):
        return 'err:value'
    if isinstance(e, KeyError):
        return 'err:key'
    if isinstance(e, NotImplementedError):
        return 'err:notimpl'
    return 'err:other:' + type(e).__name__


# ------------------------------------------------------------------------------------------------
# parameter generation

def logu(rng, lo, hi):
    return math.exp(rng.uniform(math.log(lo), math.log(hi)))


def rand_scale(rng):
    r = rng.random()
    if r < 0.03:
        return rng.choice([0.0, -1.0, 1e-16, 1e-15, 9.999999999999999e-16, 1.0000000000000001e-15, 5e-324, -0.0])
    return logu(rng, 1e-6, 1e6)


def rand_loc(rng):
    r = rng.random()
    if r < 0.1:
        return 0.0
    if r < 0.6:
        return rng.uniform(-1e3, 1e3)
    return rng.choice([-1, 1]) * logu(rng, 1e-6, 1e6)


def leaf_params(rng, t, ux, uy, path, out, locs):
    """append (full key path list, name, value, unit tuple) for the leaves of t; uy = unit of the result"""
    if t[0] == 'C':
        leaf_params(rng, t[2], ux, uy, path + [t[1]], out, locs)
        leaf_params(rng, t[3], ux, uy, path + [t[1]], out, locs)
        return
    pre = ''.join(path) + _prefix(t)
    if t[0] == 'P':
        for i in range(t[1] + 1):
            out.append((pre + f'a{i}', rng.choice([-1, 1]) * logu(rng, 1e-3, 1e3) if rng.random() > 0.05 else 0.0,
                        udiv(uy, upow(ux, i))))
        return
    scale = rand_scale(rng)
    loc = rand_loc(rng)
    locs.append((loc, max(scale, 1e-15)))
    out.append((pre + 'amplitude', rng.choice([-1, 1]) * logu(rng, 1e-3, 1e3), umul(uy, ux)))
    out.append((pre + 'loc', loc, ux))
    out.append((pre + 'scale', scale, ux))
    if t[0] == 'V':
        out.append((pre + 'fraction', rng.choice([0.0, 1.0, 0.5]) if rng.random() < 0.15 else rng.random(), (0, 0, 0, 0)))


def rand_xs(rng, locs, n):
    xs = []
    for _ in range(n):
        if locs and rng.random() < 0.85:
            loc, sc_ = rng.choice(locs)
            k = rng.choice([0.0, 1.0, -1.0, 1.1774100225154747, rng.uniform(-6, 6), rng.uniform(-45, 45)])
            xs.append(loc + k * sc_)
        else:
            xs.append(rng.choice([0.0, rng.uniform(-10, 10), rng.choice([-1, 1]) * logu(rng, 1e-6, 1e6)]))
    return xs


PREFIX_FAMILIES = [
    ['p1_', 'p2_', 'p3_', 'p4_'],            # equal length
    ['a_', 'b_', 'c_'],                      # equal length
    ['p_', 'p_1_', 'p_1_2_', 'p_2_'],        # one a prefix of another / nested
    ['', 'q_', 'qq_'],                       # empty mixed with non-empty
    ['peak', 'peak_', 'peak_s', 'peakscale'],
    ['s', 'sc', 'scale', 'scale_'],          # prefixes that look like parameter names
    ['é1', 'é2', 'λ_'],
    ['x', 'y', ''],
]


def multi_peak(rng):
    """several peaks (and sometimes a background) as a user would combine them: (list of leaf trees, full parameter
    list (key, value, unit tuple)) with pairwise distinct parameter names and distinct scales"""
    fam = list(rng.choice(PREFIX_FAMILIES))
    if rng.random() < 0.3:
        outer = rng.choice(['', 'm_', 'fit.'])
        fam = [outer + f for f in fam]
    rng.shuffle(fam)
    k = rng.randint(2, len(fam))
    leaves = [(rng.choice('GLV'), pre) for pre in fam[:k]]
    if rng.random() < 0.4:
        leaves.append(('P', rng.randint(1, 3), rng.choice(['bg_', 'b', 'zz_'])))
    ux, uy = UNITS[rng.choice(X_UNITS)], UNITS[rng.choice(Y_UNITS)]
    plist = []
    for t in leaves:
        leaf_params(rng, t, ux, uy, [], plist, [])
    # every scale inside the guard's domain and different from the others
    seen = set()
    fixed = []
    for key, v, u in plist:
        if key.endswith('scale') and u == ux:
            while not (v >= 1e-6) or bits(v) in seen:
                v = logu(rng, 1e-6, 1e6)
            seen.add(bits(v))
        fixed.append((key, v, u))
    keys = [key for key, _, _ in fixed]
    if len(set(keys)) != len(keys):
        return multi_peak(rng)
    rng.shuffle(fixed)
    return leaves, fixed, ux, uy


def magnitude(t, pvals, x, path=''):
    """sum of |leaf values| (reference scale for the exp tolerance), plain double arithmetic"""
    if t[0] == 'C':
        return magnitude(t[2], pvals, x, path + t[1]) + magnitude(t[3], pvals, x, path + t[1])
    pre = path + _prefix(t)
    if t[0] == 'P':
        return sum(abs(pvals[pre + f'a{i}']) * abs(x) ** i for i in range(t[1] + 1))
    a, mu, s = pvals[pre + 'amplitude'], pvals[pre + 'loc'], max(pvals[pre + 'scale'], 1e-15)
    with _np_quiet():
        g = abs(a) / (math.sqrt(2 * math.pi) * s)
        lo = abs(a) * s / math.pi / ((x - mu) ** 2 + s * s) if math.isfinite((x - mu) ** 2) else 0.0
    return g + lo + 1e-300 * (1.0 + abs(a) / s)


class _np_quiet:
    def __enter__(self):
        import numpy as np

        self._e = np.errstate(all='ignore')
        self._e.__enter__()

    def __exit__(self, *a):
        self._e.__exit__(*a)


# ------------------------------------------------------------------------------------------------
# correspondence

def _impl_call(t, via, xs, ux, plist):
    import numpy as np
    import scipp as sc

    try:
        m = build(t, via)
    except Exception as e:  # noqa: BLE001
        return err_kind(e)
    x = sc.array(dims=['x'], values=np.array(xs, dtype='float64'), unit=sc_unit(ux))
    params = {k: sc.scalar(float(v), unit=sc_unit(u)) for k, v, u in plist}
    try:
        with np.errstate(all='ignore'):
            r = m(x, **params)
    except Exception as e:  # noqa: BLE001
        return err_kind(e)
    return ('ok', r.unit, [float(v) for v in r.values])


def correspond(ctx):
    rng = ctx.rng
    n = ctx.n(1500, 150000)
    cases, lines = [], []
    for i in range(n):
        t = rand_tree(rng, rng.choice([0, 0, 1, 1, 2, 3]) if not ctx.quick else rng.choice([0, 0, 1, 2]))
        ux = UNITS[rng.choice(X_UNITS)]
        uy = UNITS[rng.choice(Y_UNITS)]
        plist, locs = [], []
        leaf_params(rng, t, ux, uy, [], plist, locs)
        xs = rand_xs(rng, locs, rng.randint(1, 6))
        mut = 'none'
        r = rng.random()
        if r < 0.06 and plist:
            plist.pop(rng.randrange(len(plist)))
            mut = 'missing'
        elif r < 0.12:
            plist.append((rng.choice(['q', 'scale', 'a0', 'a7', 'amplitude', _prefix(t), _prefix(t) + 'fraction', '']), 1.0, (0, 0, 0, 0)))
            mut = 'unknown'
        elif r < 0.16 and plist and _prefix(t):
            plist = [(k[len(_prefix(t)):], v, u) for k, v, u in plist]
            mut = 'unprefixed'
        elif r < 0.20:
            plist = [('w' + k, v, u) for k, v, u in plist]
            mut = 'wrong-prefix'
        elif r < 0.32 and plist:
            j = rng.randrange(len(plist))
            k, v, u = plist[j]
            plist[j] = (k, v, umul(u, UNITS[rng.choice(['m', 'mm', 's', 'counts'])]))
            mut = 'unit'
        elif r < 0.36:
            ux2 = UNITS[rng.choice(X_UNITS)]
            mut = 'x-unit' if ux2 != ux else 'none'
            ux_call = ux2
        # Python itself rejects keywords that collide with the positional parameters of __call__ (TypeError)
        plist = [(k + '_' if k in ('x', 'self') else k, v, u) for k, v, u in plist]
        seen = set()
        dup = False
        for k, _, _ in plist:
            dup = dup or k in seen
            seen.add(k)
        if dup:
            # a Python dict / keyword call cannot carry a repeated key; keep the last like dict() does
            plist = list({k: (k, v, u) for k, v, u in plist}.values())
        ux_used = ux_call if mut == 'x-unit' else ux
        via = rng.random() < 0.5
        cases.append((t, via, xs, ux_used, plist, mut))
        toks = ['c16.call', *tree_tokens(t), '|', ustr(ux_used), *[bits(x) for x in xs], '|']
        for k, v, u in plist:
            toks += [hexs(k), bits(v), ustr(u)]
        lines.append(' '.join(toks))
    outs = ctx.driver(lines)
    for (t, via, xs, ux, plist, mut), out in zip(cases, outs):
        impl = _impl_call(t, via, xs, ux, plist)
        ident = (t, ux, tuple((k, bits(v), u) for k, v, u in plist), tuple(bits(x) for x in xs), mut)
        kind = impl if isinstance(impl, str) else 'ok'
        ctx.count(f'call:{mut}:{kind}')
        ctx.count('tree:' + t[0])
        ctx.case(ident, True, sample={'op': 'call', 'tree': t, 'x_unit': ux, 'params': [(k, v, u) for k, v, u in plist],
                                      'x': xs, 'mutation': mut, 'impl': impl if isinstance(impl, str) else impl[2], 'model': out})
        case = {'tree': t, 'via_with_prefix': via, 'x': [bits(x) for x in xs], 'x_unit': ux, 'params': [(k, bits(v), u) for k, v, u in plist], 'mutation': mut}
        if isinstance(impl, str) or not out.startswith('ok '):
            if impl != out:
                ctx.disagree(case, impl if isinstance(impl, str) else 'ok', out, 'error kind')
            continue
        toks = out.split()
        mu = tuple(int(i) for i in toks[1].split(','))
        mvals = [float('nan') if h == 'nan' else unbits(h) for h in toks[2:]]
        if impl[1] != sc_unit(mu):
            ctx.disagree(case, str(impl[1]), ustr(mu), 'unit')
            continue
        pvals = {k: v for k, v, _ in plist}
        exact = not has_exp(t)
        for x, a, b in zip(xs, impl[2], mvals):
            if math.isnan(a) and math.isnan(b):
                continue
            if exact:
                ok = bits(a) == bits(b) or a == b
            else:
                if math.isinf(a) or math.isinf(b):
                    ok = a == b
                else:
                    ok = abs(a - b) <= 1e-12 * magnitude(t, pvals, x)
            if not ok:
                ctx.disagree(case, [bits(v) for v in impl[2]], [bits(v) for v in mvals],
                             'value' + (' (bit-exact demanded: no exp involved)' if exact else ' beyond 1e-12'))
                break
    _correspond_meta(ctx)
    _correspond_dtypes(ctx)


DTYPES = ['float64', 'float32', 'int64', 'int32']
DTCODE = {'float64': 'f64', 'float32': 'f32', 'int64': 'i64', 'int32': 'i32'}


def typed(v: float, dt: str) -> float:
    """the value of dtype dt nearest to v, as an exact Python float"""
    import numpy as np

    if dt == 'float64':
        return float(v)
    if dt == 'float32':
        return float(np.float32(v))
    return float(int(round(v)))


def sc_scalar(v: float, dt: str, unit):
    import numpy as np
    import scipp as sc

    if dt.startswith('int'):
        return sc.scalar(int(v), unit=unit, dtype=dt)
    return sc.scalar(np.dtype(dt).type(v), unit=unit)


def sc_array(xs, dt: str, unit):
    import numpy as np
    import scipp as sc

    return sc.array(dims=['x'], values=np.asarray(xs, dtype='float64').astype(dt), unit=unit)


def tame_params(rng, t, ux, uy, path, out, locs, dts=None):
    """like leaf_params, with moderate values that every dtype (float32, small integers) holds without overflow;
    each parameter gets its own dtype"""
    if t[0] == 'C':
        tame_params(rng, t[2], ux, uy, path + [t[1]], out, locs, dts)
        tame_params(rng, t[3], ux, uy, path + [t[1]], out, locs, dts)
        return
    pre = ''.join(path) + _prefix(t)
    pick = (lambda: rng.choice(dts)) if dts else (lambda: rng.choice(DTYPES))
    if t[0] == 'P':
        for i in range(t[1] + 1):
            dt = pick()
            out.append((pre + f'a{i}', typed(rng.choice([-1, 1]) * rng.uniform(1, 60), dt), udiv(uy, upow(ux, i)), dt))
        return
    dl, ds, da = pick(), pick(), pick()
    loc = typed(rng.uniform(-20, 20), dl)
    scale = typed(rng.choice([rng.uniform(0.5, 30)] * 9 + [0.0]), ds)
    locs.append((loc, max(scale, 1.0)))
    out.append((pre + 'amplitude', typed(rng.choice([-1, 1]) * rng.uniform(1, 100), da), umul(uy, ux), da))
    out.append((pre + 'loc', loc, ux, dl))
    out.append((pre + 'scale', scale, ux, ds))
    if t[0] == 'V':
        df = pick()
        out.append((pre + 'fraction', typed(rng.choice([0.0, 1.0, rng.random()]), df), (0, 0, 0, 0), df))


def int_overflow_risk(t, plist, x, path=''):
    """an integer-typed Horner accumulator (integer leading coefficient) wraps around silently in scipp; the value model
    works in float64, so such points are not compared (the dtype still is)"""
    if t[0] == 'C':
        return int_overflow_risk(t[2], plist, x, path + t[1]) or int_overflow_risk(t[3], plist, x, path + t[1])
    if t[0] != 'P':
        return False
    pre = path + _prefix(t)
    info = {k: (v, dt) for k, v, _, dt in plist}
    hi_dt = info[pre + f'a{t[1]}'][1]
    if not hi_dt.startswith('int'):
        return False
    mag = sum(abs(info[pre + f'a{i}'][0]) * abs(x) ** i for i in range(t[1] + 1))
    return mag >= (2.0 ** 30 if hi_dt == 'int32' else 2.0 ** 62)


def _impl_call_typed(t, via, xs, xdt, ux, plist):
    import numpy as np

    try:
        m = build(t, via)
        x = sc_array(xs, xdt, sc_unit(ux))
        params = {k: sc_scalar(v, dt, sc_unit(u)) for k, v, u, dt in plist}
        with np.errstate(all='ignore'):
            r = m(x, **params)
    except Exception as e:  # noqa: BLE001
        return err_kind(e)
    return ('ok', r.unit, [float(v) for v in r.values], str(r.dtype))


def _correspond_dtypes(ctx):
    """x and every parameter in its own dtype: result dtype / DTypeError exactly as scipp promotes the arithmetic the code
    writes (model: callDT), values against the float64 model at the precision of the inputs"""
    rng = ctx.rng
    n = ctx.n(700, 40000)
    cases, lines = [], []
    for _ in range(n):
        t = rand_tree(rng, rng.choice([0, 0, 0, 1, 2]), clash_ok=False)
        ux, uy = UNITS[rng.choice(X_UNITS)], UNITS[rng.choice(Y_UNITS)]
        plist, locs = [], []
        r = rng.random()
        dts = None if r < 0.6 else (['float64', 'float32'] if r < 0.8 else ['float64', 'int64'])
        tame_params(rng, t, ux, uy, [], plist, locs, dts)
        xdt = rng.choice(DTYPES)
        if locs:
            xs = [typed(loc + rng.uniform(-5, 5) * sc_, xdt) for loc, sc_ in (rng.choice(locs) for _ in range(3))]
        else:
            xs = [typed(rng.uniform(-5, 5), xdt) for _ in range(3)]
        via = rng.random() < 0.5
        cases.append((t, via, xs, xdt, ux, plist))
        mt = tree_tokens(t)
        toks = ['c16.call', *mt, '|', ustr(ux), *[bits(x) for x in xs], '|']
        for k, v, u, _ in plist:
            toks += [hexs(k), bits(v), ustr(u)]
        lines.append(' '.join(toks))
        toks = ['c16.calldt', *mt, '|', DTCODE[xdt], '|']
        for k, v, _, dt in plist:
            toks += [hexs(k), DTCODE[dt], bits(v)]
        lines.append(' '.join(toks))
    outs = ctx.driver(lines)
    for i, (t, via, xs, xdt, ux, plist) in enumerate(cases):
        out, outdt = outs[2 * i], outs[2 * i + 1]
        impl = _impl_call_typed(t, via, xs, xdt, ux, plist)
        case = {'op': 'call-dtype', 'tree': t, 'x': xs, 'x_dtype': xdt, 'x_unit': ux, 'params': [(k, v, u, dt) for k, v, u, dt in plist]}
        kind = impl if isinstance(impl, str) else 'ok:' + impl[3]
        ctx.count('dtype:' + t[0] + ':' + kind)
        ctx.case(('call-dtype', repr(case)), True, sample={**case, 'impl': kind, 'model': outdt})
        if isinstance(impl, str):
            if impl != outdt:
                ctx.disagree(case, impl, outdt, 'error kind / dtype')
            continue
        if outdt != 'ok ' + DTCODE.get(impl[3], impl[3]):
            ctx.disagree(case, impl[3], outdt, 'result dtype')
            continue
        if not out.startswith('ok '):
            ctx.disagree(case, 'ok', out, 'value model refuses')
            continue
        toks = out.split()
        if impl[1] != sc_unit(tuple(int(j) for j in toks[1].split(','))):
            ctx.disagree(case, str(impl[1]), toks[1], 'unit')
            continue
        mvals = [float('nan') if h == 'nan' else unbits(h) for h in toks[2:]]
        single = xdt == 'float32' or any(dt == 'float32' for *_, dt in plist)
        pvals = {k: v for k, v, _, _ in plist}
        for x, a, b in zip(xs, impl[2], mvals):
            if math.isnan(a) and math.isnan(b):
                continue
            if int_overflow_risk(t, plist, x):
                ctx.count('dtype:integer-accumulator-overflow-not-compared')
                continue
            if math.isinf(a) or math.isinf(b):
                ok = a == b
            elif single:
                ok = abs(a - b) <= 1e-5 * magnitude(t, pvals, x)
            elif not has_exp(t):
                ok = a == b
            else:
                ok = abs(a - b) <= 1e-12 * magnitude(t, pvals, x)
            if not ok:
                ctx.disagree(case, impl[2], mvals, 'value' + (' (1e-5: single precision involved)' if single else ''))
                break


def _correspond_meta(ctx):
    """param_names, param_bounds, fwhm"""
    import numpy as np
    import scipp as sc

    rng = ctx.rng
    n = ctx.n(300, 15000)
    trees = [rand_tree(rng, rng.choice([0, 1, 2, 3])) for _ in range(n)]
    lines = []
    for t in trees:
        lines.append(' '.join(['c16.names', *tree_tokens(t)]))
        lines.append(' '.join(['c16.bounds', *tree_tokens(t)]))
    fw = []
    for t in trees:
        scale = rand_scale(rng)
        u = UNITS[rng.choice(X_UNITS)]
        key = rng.choice([_prefix(t) + 'scale', _prefix(t) + 'scale', 'scale', _prefix(t) + 'Scale'])
        fw.append((t, key, scale, u))
        lines.append(' '.join(['c16.fwhm', *tree_tokens(t), '|', hexs(key), bits(scale), ustr(u)]))
    n_single = len(fw)
    for _ in range(ctx.n(150, 6000)):
        leaves, plist, _, _ = multi_peak(rng)
        for t in leaves:
            fw.append((t, None, plist, None))
            toks = ['c16.fwhm', *tree_tokens(t), '|']
            for k, v, u in plist:
                toks += [hexs(k), bits(v), ustr(u)]
            lines.append(' '.join(toks))
    outs = ctx.driver(lines)
    for i, t in enumerate(trees):
        via = rng.random() < 0.5
        try:
            m = build(t, via)
            impl_names = ' '.join(['ok', *sorted(hexs(k) for k in m.param_names)])
            b = m.param_bounds
            enc = {(0.0, np.inf): 'zi', (0.0, 1.0): 'zo'}
            impl_bounds = ' '.join(['ok', *sorted(f'{hexs(k)}:{enc.get(tuple(v), repr(v))}' for k, v in b.items())])
        except Exception as e:  # noqa: BLE001
            impl_names = impl_bounds = err_kind(e)
        mn, mb = outs[2 * i], outs[2 * i + 1]
        canon = lambda s: ' '.join(['ok', *sorted(s.split()[1:])]) if s.startswith('ok') else s  # noqa: E731
        ctx.case(('names', t), True, sample={'op': 'names', 'tree': t, 'impl': impl_names})
        ctx.count('names:' + ('ok' if impl_names.startswith('ok') else impl_names))
        if canon(mn) != impl_names:
            ctx.disagree({'op': 'names', 'tree': t}, impl_names, mn)
        if canon(mb) != impl_bounds:
            ctx.disagree({'op': 'bounds', 'tree': t}, impl_bounds, mb)
    for j, ((t, key, scale, u), out) in enumerate(zip(fw, outs[2 * len(trees):])):
        superset = j >= n_single
        try:
            m = build(t, rng.random() < 0.5)
            if superset:  # the whole parameter dictionary of a multi-peak model; fwhm picks its own scale
                r = m.fwhm({k: sc.scalar(v, unit=sc_unit(uu)) for k, v, uu in scale})
            else:
                r = m.fwhm({key: sc.scalar(scale, unit=sc_unit(u))})
            impl = ('ok', r.unit, float(r.value))
        except Exception as e:  # noqa: BLE001
            impl = err_kind(e)
        case = ({'op': 'fwhm', 'tree': t, 'params': [(k, bits(v), uu) for k, v, uu in scale]} if superset
                else {'op': 'fwhm', 'tree': t, 'key': key, 'scale': bits(scale)})
        ctx.case(('fwhm', repr(case)), True, sample=case if superset else None)
        ctx.count(('fwhm-superset:' if superset else 'fwhm:') + (impl if isinstance(impl, str) else 'ok'))
        if isinstance(impl, str) or not out.startswith('ok '):
            if impl != out:
                ctx.disagree(case, impl if isinstance(impl, str) else 'ok', out)
            continue
        toks = out.split()
        if impl[1] != sc_unit(tuple(int(i) for i in toks[1].split(','))) or bits(impl[2]) != toks[2]:
            ctx.disagree(case, [str(impl[1]), bits(impl[2])], out)


# ------------------------------------------------------------------------------------------------
# direct oracle on the real code

_GL = {}


def _gl(n):
    import numpy as np

    if n not in _GL:
        _GL[n] = np.polynomial.legendre.leggauss(n)
    return _GL[n]


def _peak(kind, prefix=''):
    from scippneutron.peaks import model as M

    return {'G': M.GaussianModel, 'L': M.LorentzianModel, 'V': M.PseudoVoigtModel}[kind](prefix=prefix)


def _peak_params(a, prefix=''):
    import scipp as sc

    p = {prefix + 'amplitude': sc.scalar(a['A'], unit=a.get('uy', 'counts')) * sc.scalar(1.0, unit=a.get('ux', 'm')),
         prefix + 'loc': sc.scalar(a['mu'], unit=a.get('ux', 'm')), prefix + 'scale': sc.scalar(a['sigma'], unit=a.get('ux', 'm'))}
    if a['kind'] == 'V':
        p[prefix + 'fraction'] = sc.scalar(a['f'])
    return p


def _eval(kind, a, xs, prefix=''):
    import numpy as np
    import scipp as sc

    x = sc.array(dims=['x'], values=np.asarray(xs, dtype='float64'), unit=a.get('ux', 'm'))
    with np.errstate(all='ignore'):
        return _peak(kind, prefix)(x, **_peak_params(a, prefix))


def check_integral(a):
    """∫ model dx = amplitude: substitution x = loc + scale*tan(t), Gauss-Legendre on (-pi/2, pi/2) on the real model"""
    import numpy as np

    nodes, w = _gl(4000)
    t = nodes * (math.pi / 2)
    xs = a['mu'] + a['sigma'] * np.tan(t)
    y = _eval(a['kind'], a, xs).values
    integrand = y * a['sigma'] / np.cos(t) ** 2
    integral = float(np.sum(w * integrand) * (math.pi / 2))
    # nodes are rounded to the grid of doubles near loc: |dx| <= spacing(loc)/2 moves f by f'(x) dx
    tol = 1e-9 + 4 * float(np.spacing(abs(a['mu']))) / a['sigma']
    if not abs(integral - a['A']) <= tol * abs(a['A']):
        return f"integral over the real line is {integral!r}, amplitude is {a['A']!r}"
    return None


LENGTHS = {'m': 0, 'mm': -3, 'um': -6, 'nm': -9}


def _ratio(u_from: str, u_to: str) -> Fraction:
    """exact factor between two of the length units"""
    k = LENGTHS[u_from] - LENGTHS[u_to]
    return Fraction(10) ** k


def check_units_reinterpreted(a):
    """parameters given in units compatible with, but different from, the implied ones (loc / scale in mm|um|nm with x in m,
    the amplitude or the coefficients in scaled units): the call must EITHER be refused with UnitError OR mean, physically
    (exact powers of ten), the analytic definition for the physical parameter values: half of the peak value at
    loc ± FWHM/2 with the FWHM model.fwhm reports (in its own unit), integral = amplitude; polynomial = sum a_i x^i"""
    import numpy as np
    import scipp as sc
    from scippneutron.peaks import model as M

    ux = a['ux']
    if a['kind'] == 'P':
        coef, cu = a['coef'], a['coef_len_units']       # a_i in (counts * ylen / m) / culen_i^i
        m = M.PolynomialModel(degree=len(coef) - 1)
        params = {f'a{i}': sc.scalar(c, unit=sc.Unit('counts') * sc.Unit(a['y_len']) / sc.Unit('m') / sc.Unit(cu[i]) ** i)
                  for i, c in enumerate(coef)}
        x = sc.array(dims=['x'], values=np.asarray(a['xs'], dtype='float64'), unit=ux)
        try:
            r = m(x, **params)
        except sc.UnitError:
            return None
        try:
            r = sc.to_unit(r, 'counts')
        except Exception as e:  # noqa: BLE001
            return f'polynomial accepted, result unit {r.unit} is not a count ({type(e).__name__})'
        yfac = _ratio(a['y_len'], 'm')
        for xv, got in zip(a['xs'], r.values):
            xp = Fraction(xv) * _ratio(ux, 'm')          # x in metres
            terms = [Fraction(c) * yfac * _ratio('m', cu[i]) ** i * xp ** i for i, c in enumerate(coef)]
            exact, scale = sum(terms), sum(abs(t) for t in terms)
            if abs(Fraction(float(got)) - exact) > Fraction(1, 10**9) * scale:
                return (f'accepted coefficients in units {[str(p.unit) for p in params.values()]} with x in {ux}: polynomial({xv!r} {ux}) = '
                        f'{float(got)!r} counts, physically sum a_i x^i = {float(exact)!r} counts')
        return None
    kind = a['kind']
    m = _peak(kind)
    ua = sc.Unit(a['uy']) * sc.Unit(a['u_amp'])
    params = {'amplitude': sc.scalar(a['A'], unit=ua), 'loc': sc.scalar(a['mu'], unit=a['u_loc']),
              'scale': sc.scalar(a['sigma'], unit=a['u_scale'])}
    if kind == 'V':
        params['fraction'] = sc.scalar(a['f'])
    fw = m.fwhm(params)
    if fw.unit != sc.Unit(a['u_scale']):
        return f'fwhm has unit {fw.unit}, the scale was given in {a["u_scale"]}'
    # physical values in the unit of x, exact powers of ten
    mu_p = float(Fraction(a['mu']) * _ratio(a['u_loc'], ux))
    sg_p = float(Fraction(a['sigma']) * _ratio(a['u_scale'], ux))
    h_p = float(Fraction(float(fw.value)) * _ratio(a['u_scale'], ux) / 2)

    def call(xs):
        with np.errstate(all='ignore'):
            return m(sc.array(dims=['x'], values=np.asarray(xs, dtype='float64'), unit=ux), **params)

    try:
        r = call([mu_p, mu_p + h_p, mu_p - h_p])
    except sc.UnitError:
        return None
    given = f"x in {ux}, loc in {a['u_loc']}, scale in {a['u_scale']}, amplitude in {ua}"
    y = r.values
    tol = 1e-9 + 8 * float(np.spacing(abs(mu_p) + h_p)) / sg_p
    for i in (1, 2):
        if not abs(y[i] - y[0] / 2) <= tol * abs(y[0] / 2):
            return (f'accepted ({given}) but f(loc)={float(y[0])!r}, f(loc{"+-"[i - 1]}fwhm/2)={float(y[i])!r} with '
                    f'fwhm={float(fw.value)!r} {fw.unit} (scale {a["sigma"]!r} {a["u_scale"]})')
    nodes, w = _gl(4000)
    t = nodes * (math.pi / 2)
    rr = call(mu_p + sg_p * np.tan(t))
    integral = float(np.sum(w * rr.values * sg_p / np.cos(t) ** 2) * (math.pi / 2))
    try:
        got = float(sc.to_unit(sc.scalar(integral, unit=rr.unit * sc.Unit(ux)), ua).value)
    except Exception as e:  # noqa: BLE001
        return f'accepted ({given}) but the result unit {rr.unit} times {ux} is not the amplitude unit ({type(e).__name__})'
    tol = 1e-8 + 4 * float(np.spacing(abs(mu_p))) / sg_p
    if not abs(got - a['A']) <= tol * abs(a['A']):
        return f'accepted ({given}) but the integral is {got!r} {ua}, the amplitude {a["A"]!r} {ua}'
    return None


def check_symmetry(a):
    """f(loc + t) = f(loc - t) at points where loc ± t are exactly representable"""
    ts = a['ts']
    yp = _eval(a['kind'], a, [a['mu'] + t for t in ts]).values
    ym = _eval(a['kind'], a, [a['mu'] - t for t in ts]).values
    for t, p, m in zip(ts, yp, ym):
        if not (p == m or abs(p - m) <= 1e-13 * abs(p)):
            return f'f(loc+{t!r}) = {p!r} but f(loc-{t!r}) = {m!r}'
    return None


def check_half_max(a):
    """f(loc ± fwhm/2) = f(loc)/2 with the FWHM the model reports; tolerance accounts for the rounding of loc ± h"""
    import numpy as np

    m = _peak(a['kind'])
    params = _peak_params(a)
    fw = m.fwhm(params)
    if str(fw.unit) != str(params['scale'].unit):
        return f'FWHM has unit {fw.unit}, scale has {params["scale"].unit}'
    h = float(fw.value) / 2
    xs = [a['mu'], a['mu'] + h, a['mu'] - h]
    y = _eval(a['kind'], a, xs).values
    tol = 1e-11 + 8 * float(np.spacing(abs(a['mu']) + h)) / a['sigma']
    for i in (1, 2):
        if not abs(y[i] - y[0] / 2) <= tol * abs(y[0] / 2):
            return f'f(loc)={y[0]!r}, f(loc{"+-"[i - 1]}fwhm/2)={y[i]!r}, fwhm={float(fw.value)!r} (tolerance {tol:.3g})'
    return None


def check_polynomial(a):
    """sum a_i x^i against exact rationals; coefficients and x in the given dtypes (exact values). The accuracy demanded
    follows the dtype of the RESULT (float64: 1e-12, float32: 1e-5, integers: exact); float64 coefficients must give a
    float64 result whatever the dtype of x (an integer or float32 x holds its values exactly)"""
    import scipp as sc
    from scippneutron.peaks import model as M

    coef = a['coef']
    cdts = a.get('cdts') or ['float64'] * len(coef)
    xdt = a.get('xdt', 'float64')
    m = M.PolynomialModel(degree=len(coef) - 1)
    x = sc_array(a['xs'], xdt, 'm')
    params = {f'a{i}': sc_scalar(c, dt, sc.Unit('counts') / sc.Unit('m') ** i) for i, (c, dt) in enumerate(zip(coef, cdts))}
    try:
        r = m(x, **params)
    except Exception as e:  # noqa: BLE001
        return 'dtype', f'polynomial with coefficient dtypes {cdts} refused x of dtype {xdt}: {type(e).__name__}: {e}'
    if r.unit != sc.Unit('counts'):
        return 'unit', f'unit {r.unit}, expected counts'
    rdt = str(r.dtype)
    if all(dt == 'float64' for dt in cdts) and rdt != 'float64':
        return 'dtype', f'float64 coefficients and {xdt} x give a {rdt} result'
    tol = {'float64': Fraction(1, 10**12), 'float32': Fraction(1, 10**5)}.get(rdt, Fraction(0))
    for xv, got in zip(a['xs'], r.values):
        exact = sum(Fraction(c) * Fraction(xv) ** i for i, c in enumerate(coef))
        scale = sum(abs(Fraction(c)) * abs(Fraction(xv)) ** i for i, c in enumerate(coef))
        if abs(Fraction(float(got)) - exact) > tol * scale:
            return 'value', (f'polynomial({xv!r}) = {float(got)!r} ({rdt}), sum a_i x^i = {float(exact)!r} '
                             f'(coefficient dtypes {cdts}, x {xdt})')
    return None


def check_x_dtype(a):
    """all parameters float64: x of any dtype (its values are exact) must be accepted and give the float64 result of the
    same x held in float64"""
    import numpy as np

    t = tuple_tree(a['tree'])
    ux = tuple(a['ux'])
    plist = [(k, v, tuple(u), 'float64') for k, v, u in a['params']]
    ref = _impl_call_typed(t, False, a['xs'], 'float64', ux, plist)
    got = _impl_call_typed(t, False, a['xs'], a['xdt'], ux, plist)
    if isinstance(ref, str):
        return f'float64 reference evaluation failed: {ref}'
    if isinstance(got, str):
        return f'x of dtype {a["xdt"]} refused ({got}) although all parameters are float64'
    if got[3] != 'float64' or got[1] != ref[1]:
        return f'x of dtype {a["xdt"]} with float64 parameters gives {got[3]} [{got[1]}], float64 x gives {ref[3]} [{ref[1]}]'
    pvals = {k: v for k, v, _, _ in plist}
    for x, g, r in zip(a['xs'], got[2], ref[2]):
        if not (g == r or (math.isnan(g) and math.isnan(r)) or abs(g - r) <= 1e-12 * magnitude(t, pvals, x)):
            return f'x = {x!r} as {a["xdt"]}: {g!r}, as float64: {r!r}'
    del np
    return None


def check_composite(a):
    import numpy as np
    import scipp as sc

    t = tuple_tree(a['tree'])
    m = build(t)
    ux, uy = tuple(a['ux']), tuple(a['uy'])
    x = sc.array(dims=['x'], values=np.asarray(a['xs'], dtype='float64'), unit=sc_unit(ux))
    params = {k: sc.scalar(v, unit=sc_unit(tuple(u))) for k, v, u in a['params']}
    with np.errstate(all='ignore'):
        whole = m(x, **params)
        strip = {k[len(t[1]):]: v for k, v in params.items()}
        l, r = build(t[2]), build(t[3])
        lv = l(x, **{k: strip[k] for k in l.param_names})
        rv = r(x, **{k: strip[k] for k in r.param_names})
    if whole.unit != sc_unit(uy) or lv.unit != rv.unit:
        return f'units: whole {whole.unit}, parts {lv.unit}, {rv.unit}, expected {sc_unit(uy)}'
    for w, p, q in zip(whole.values, lv.values, rv.values):
        if not (w == p + q or (math.isnan(w) and math.isnan(p + q)) or abs(w - (p + q)) <= 1e-13 * (abs(p) + abs(q))):
            return f'composite {w!r} != {p!r} + {q!r}'
    return None


def tuple_tree(t):
    if isinstance(t, (list, tuple)):
        return tuple(tuple_tree(i) for i in t)
    return t


def check_prefix(a):
    """same values under any prefix; exact refusal of missing / unknown / mis-prefixed keys; param_names; fwhm"""
    import numpy as np
    import scipp as sc

    t = tuple_tree(a['tree'])
    q = a['prefix']
    base = build(_with_prefix(t, ''))
    m = base.with_prefix(q)
    ux, uy = tuple(a['ux']), tuple(a['uy'])
    x = sc.array(dims=['x'], values=np.asarray(a['xs'], dtype='float64'), unit=sc_unit(ux))
    bare = {k: sc.scalar(v, unit=sc_unit(tuple(u))) for k, v, u in a['params']}
    if base.param_names != set(bare) or m.param_names != {q + k for k in bare}:
        return f'param_names {sorted(m.param_names)} / {sorted(base.param_names)} for keys {sorted(bare)}'
    if base.prefix != '' or m.prefix != q:
        return 'prefix property wrong'
    with np.errstate(all='ignore'):
        r0 = base(x, **bare)
        r1 = m(x, **{q + k: v for k, v in bare.items()})
    if r0.unit != r1.unit or r0.unit != sc_unit(uy) or not np.array_equal(r0.values, r1.values, equal_nan=True):
        return f'values differ under prefix {q!r}: {list(r0.values)} [{r0.unit}] vs {list(r1.values)} [{r1.unit}] (expected unit {sc_unit(uy)})'
    full = {q + k: v for k, v in bare.items()}
    for k in full:
        sub = dict(full)
        del sub[k]
        try:
            m(x, **sub)
            return f'missing parameter {k!r} accepted'
        except ValueError:
            pass
        except Exception as e:  # noqa: BLE001
            return f'missing parameter {k!r}: {type(e).__name__} instead of ValueError'
    for extra in a['extras']:
        if extra in full:
            continue
        try:
            m(x, **{**full, extra: sc.scalar(1.0)})
            return f'unknown parameter {extra!r} accepted'
        except ValueError:
            pass
        except Exception as e:  # noqa: BLE001
            return f'unknown parameter {extra!r}: {type(e).__name__} instead of ValueError'
    if q:
        try:
            m(x, **bare)
            return f'parameters without the prefix {q!r} accepted'
        except ValueError:
            pass
    if set(m.param_bounds) - m.param_names or {k[len(q):] for k in m.param_bounds} != set(base.param_bounds):
        return f'param_bounds keys {sorted(m.param_bounds)} vs {sorted(base.param_bounds)}'
    return None


def check_guess(a):
    """guess: keys are the parameter names, prefix-independent values, input data not modified"""
    import numpy as np
    import scipp as sc

    t = tuple_tree(a['tree'])
    q = a['prefix']
    base = build(_with_prefix(t, ''))
    m = base.with_prefix(q)
    xs = np.asarray(a['xs'], dtype='float64')
    ys = np.asarray(a['ys'], dtype='float64')
    data = sc.DataArray(sc.array(dims=['x'], values=ys.copy(), unit='counts'),
                        coords={'x': sc.array(dims=['x'], values=xs.copy(), unit='m')})
    before = data.copy(deep=True)
    import warnings

    with warnings.catch_warnings():
        warnings.simplefilter('ignore')
        g1 = m.guess(data)
        g0 = base.guess(data)
    if not sc.identical(data, before):
        return 'guess modified its input'
    if set(g1) != m.param_names or set(g0) != base.param_names:
        return f'guess keys {sorted(g1)} != param_names {sorted(m.param_names)}'
    for k, v in g0.items():
        w = g1[q + k]
        if v.unit != w.unit or not (float(v.value) == float(w.value) or (math.isnan(float(v.value)) and math.isnan(float(w.value)))):
            return f'guess for {k!r} depends on the prefix: {v.value!r} {v.unit} vs {w.value!r} {w.unit}'
    ux, uy = sc.Unit('m'), sc.Unit('counts')
    for k, v in g0.items():
        name = k.split('.')[-1] if False else k
        exp_unit = None
        if name.endswith('loc') or name.endswith('scale'):
            exp_unit = ux
        elif name.endswith('amplitude'):
            exp_unit = uy * ux
        elif name.endswith('fraction'):
            exp_unit = sc.Unit('dimensionless')
        if exp_unit is not None and v.unit != exp_unit:
            return f'guess for {k!r} has unit {v.unit}, expected {exp_unit}'
    # the guess can be fed to the model
    r = m(data.coords['x'], **g1)
    if r.unit != uy:
        return f'model(guess) has unit {r.unit}'
    return None


def check_fwhm_foreign(a):
    """fwhm() given the full parameter dictionary of a multi-peak model must report the FWHM of the model's OWN scale:
    equal to fwhm() of the own parameters alone, and f(loc ± fwhm/2) = f(loc)/2 with it"""
    import numpy as np
    import scipp as sc

    full = {k: sc.scalar(v, unit=sc_unit(tuple(u))) for k, v, u in a['params']}
    chains = a.get('chains') or [[] for _ in a['leaves']]
    for t, chain in zip(a['leaves'], chains):
        t = tuple_tree(t)
        if t[0] == 'P':
            continue
        pre = _prefix(t)
        how = ''
        if chain:
            # a model DERIVED by with_prefix: built with the first prefix of the chain (often the prefix of another peak of the
            # dictionary, or ''), re-prefixed along the chain, finally given its own prefix
            m = build(_with_prefix(t, chain[0]))
            for q in list(chain[1:]) + [pre]:
                m = m.with_prefix(q)
            how = f' (derived by with_prefix along {list(chain) + [pre]!r})'
        else:
            m = build(t)
        if m.param_names != {pre + n for n in own_names(t)}:
            return f'peak {pre!r}{how} has param_names {sorted(m.param_names)}'
        own = {k: full[k] for k in m.param_names}
        try:
            fw_full = m.fwhm(full)
        except Exception as e:  # noqa: BLE001
            return f'fwhm of peak {pre!r}{how} with the full parameter dictionary raised {type(e).__name__}: {e}'
        try:
            fw_own = m.fwhm(own)
        except Exception as e:  # noqa: BLE001
            return f'fwhm of peak {pre!r}{how} with its own parameters {sorted(own)} raised {type(e).__name__}: {e}'
        pre = pre + ''
        scale = own[pre + 'scale']
        if fw_full.unit != scale.unit:
            return f'FWHM of peak {pre!r} has unit {fw_full.unit}, its scale has {scale.unit}'
        if bits(float(fw_full.value)) != bits(float(fw_own.value)):
            return (f'peak {pre!r}{how} (scale {float(scale.value)!r}) reports FWHM {float(fw_full.value)!r} when given the parameters of all '
                    f'peaks {sorted(full)} but {float(fw_own.value)!r} when given its own')
        mu, h = float(own[pre + 'loc'].value), float(fw_full.value) / 2
        x = sc.array(dims=['x'], values=np.array([mu, mu + h, mu - h]), unit=scale.unit)
        with np.errstate(all='ignore'):
            y = m(x, **own).values
        tol = 1e-11 + 8 * float(np.spacing(abs(mu) + h)) / float(scale.value)
        for i in (1, 2):
            if not abs(y[i] - y[0] / 2) <= tol * abs(y[0] / 2):
                return (f'peak {pre!r}{how}: f(loc)={float(y[0])!r}, f(loc{"+-"[i - 1]}fwhm/2)={float(y[i])!r} with the FWHM '
                        f'{float(fw_full.value)!r} reported for the full parameter dictionary (tolerance {tol:.3g})')
    # the peaks combined into one composite and re-prefixed as a whole: same values as the composite built with that prefix
    peaks = [tuple_tree(t) for t in a['leaves']]
    if a.get('outer') is not None and len(peaks) >= 2:
        from scippneutron.peaks import model as M

        a0, b0 = a['outer']
        comp = build(peaks[0])
        for t in peaks[1:]:
            comp = comp + build(t)
        derived = M.CompositeModel(comp._left, comp._right, prefix=a0).with_prefix(b0) if hasattr(comp, '_left') else comp.with_prefix(b0)
        direct = comp.with_prefix(b0)
        xunit = next((v.unit for k, v in full.items() if k.endswith('loc')), sc.Unit('dimensionless'))
        xs = sc.array(dims=['x'], values=np.array(a.get('xs') or [0.0, 1.0]), unit=xunit)
        kw = {b0 + k: v for k, v in full.items()}
        if derived.param_names != set(kw):
            return f'composite re-prefixed {a0!r} -> {b0!r} has param_names {sorted(derived.param_names)}, expected {sorted(kw)}'
        try:
            with np.errstate(all='ignore'):
                r1, r2 = derived(xs, **kw), direct(xs, **kw)
        except sc.UnitError:
            r1 = r2 = None
        if r1 is not None and not (r1.unit == r2.unit and np.array_equal(r1.values, r2.values, equal_nan=True)):
            return f'composite re-prefixed {a0!r} -> {b0!r} evaluates to {list(r1.values)}, built with {b0!r}: {list(r2.values)}'
        try:
            derived.fwhm(kw)
            return 'composite reports an FWHM'
        except NotImplementedError:
            pass
    return None


def check_guess_coord(a):
    """guess(data, coord=c) for every coordinate c of the data: the guessed parameters carry the units implied by THAT
    coordinate (loc, scale in its unit; amplitude in y*its unit; a_i in y/its unit^i), a guessed loc lies within the range of
    that coordinate, and the guess equals the guess on a copy of the data whose dimension-coordinate IS that coordinate"""
    import re
    import warnings

    import numpy as np
    import scipp as sc

    t = tuple_tree(a['tree'])
    m = build(t)
    dim = a['dim']
    y = sc.array(dims=[dim], values=np.asarray(a['ys'], dtype='float64'), unit=a['yunit'])
    coords = {name: sc.array(dims=[dim], values=np.asarray(vals, dtype='float64'), unit=unit) for name, unit, vals in a['coords']}
    data = sc.DataArray(y, coords=coords)
    before = data.copy(deep=True)
    for name, unit, vals in a['coords']:
        cu = sc.Unit(unit)
        with warnings.catch_warnings():
            warnings.simplefilter('ignore')
            try:
                g = m.guess(data, coord=name)
            except Exception as e:  # noqa: BLE001
                return f'guess(data, coord={name!r}) raised {type(e).__name__}: {e}'
            ref = m.guess(sc.DataArray(y.copy(), coords={dim: coords[name].copy()}))
        if not sc.identical(data, before):
            return 'guess modified its input'
        if set(g) != m.param_names:
            return f'guess(coord={name!r}) keys {sorted(g)} != param_names {sorted(m.param_names)}'
        lo, hi = min(vals), max(vals)
        for k, v in g.items():
            if k.endswith('loc') or k.endswith('scale'):
                exp_unit = cu
            elif k.endswith('amplitude'):
                exp_unit = y.unit * cu
            elif k.endswith('fraction'):
                exp_unit = sc.Unit('dimensionless')
            else:
                i = int(re.search(r'a(\d+)$', k).group(1))
                exp_unit = y.unit / cu ** i
            if v.unit != exp_unit:
                return (f'guess(data, coord={name!r}) [{unit}] gives {k!r} in {v.unit}, the coordinate implies {exp_unit} '
                        f'(the dimension-coordinate {dim!r} has {coords[dim].unit})')
            if k.endswith('loc') and not (lo <= float(v.value) <= hi):
                return f'guess(data, coord={name!r}) puts {k!r} = {float(v.value)!r} {v.unit} outside the coordinate range [{lo!r}, {hi!r}]'
            w = ref[k]
            same = float(v.value) == float(w.value) or (math.isnan(float(v.value)) and math.isnan(float(w.value)))
            if w.unit != v.unit or not same:
                return (f'guess(data, coord={name!r}) gives {k!r} = {float(v.value)!r} {v.unit}, guess on the same data with {name!r} as '
                        f'dimension-coordinate gives {float(w.value)!r} {w.unit}')
    return None


CHECKS = {
    'C16:guess-wrong-coordinate': check_guess_coord,
    'C16:fwhm-foreign-parameter': check_fwhm_foreign,
    'C16:normalisation': check_integral,
    'C16:symmetry': check_symmetry,
    'C16:half-max-at-fwhm': check_half_max,
    'C16:polynomial-sum': check_polynomial,
    'C16:dtype': check_x_dtype,
    'C16:units-reinterpreted': check_units_reinterpreted,
    'C16:composite-sum': check_composite,
    'C16:prefix-keys': check_prefix,
    'C16:guess': check_guess,
}


def _run(ctx, key, args):
    try:
        msg = CHECKS[key](args)
    except Exception as e:  # noqa: BLE001
        msg = f'raised {type(e).__name__}: {e}'
    vkey = key
    if isinstance(msg, tuple):  # (sub-key, message): a dtype failure of the polynomial is reported under C16:dtype
        vkey = 'C16:dtype' if msg[0] == 'dtype' else key
        msg = msg[1]
    ctx.case((key, repr(args)), True)
    ctx.count('oracle:' + key.split(':')[1] + (':' + args['kind'] if 'kind' in args else ''))
    if msg:
        ctx.violation(vkey + (':' + args['kind'] if 'kind' in args else ''), msg, {'check': key, 'args': args})


def _peak_args(rng, kind):
    return {'kind': kind, 'A': rng.choice([-1, 1]) * logu(rng, 1e-3, 1e3), 'mu': rand_loc(rng), 'sigma': logu(rng, 1e-6, 1e6),
            'f': rng.choice([0.0, 1.0]) if rng.random() < 0.15 else rng.random(), 'ux': rng.choice(X_UNITS), 'uy': rng.choice(['counts', 'dimensionless', 's'])}


def oracle(ctx, deep):
    rng = ctx.rng
    n = 400 if deep else ctx.n(60, 5000)
    for _ in range(n):
        for kind in 'GLV':
            a = _peak_args(rng, kind)
            _run(ctx, 'C16:normalisation', a)
            _run(ctx, 'C16:half-max-at-fwhm', _peak_args(rng, kind))
            b = _peak_args(rng, kind)
            # loc and offsets on a dyadic grid so that loc ± t are exact
            b['mu'] = rng.randint(-2**20, 2**20) / 1024.0
            b['ts'] = [rng.randint(0, 2**20) / 1024.0 * 2.0 ** rng.randint(-8, 4) for _ in range(4)]
            b['ts'] = [t for t in b['ts'] if (b['mu'] + t) - b['mu'] == t and b['mu'] - (b['mu'] - t) == t]
            _run(ctx, 'C16:symmetry', b)
        leaves, plist, _, _ = multi_peak(rng)
        pres = [_prefix(t) for t in leaves]
        chains = []
        for t in leaves:
            others = [q for q in pres if q != _prefix(t)] + ['', 'tmp_']
            r = rng.random()
            if r < 0.35:
                chains.append([])                                             # built directly
            elif r < 0.65:
                chains.append([rng.choice(others)])                           # A -> own
            elif r < 0.85:
                chains.append([rng.choice(others), rng.choice(others)])       # A -> B -> own
            else:
                chains.append([_prefix(t), rng.choice(['', rng.choice(others)])])   # own -> '' / other -> own
        _run(ctx, 'C16:fwhm-foreign-parameter', {'leaves': [list(t) for t in leaves], 'params': [(k, v, list(u)) for k, v, u in plist],
                                                 'chains': chains, 'outer': [rng.choice(['', 'old_', 'm_']), rng.choice(['', 'new_', 'm_', 'fit.'])]})
        # guess(data, coord=<every coordinate>)
        npts = rng.choice([12, 30, 60])
        tof = sorted(rng.uniform(1000.0, 20000.0) for _ in range(npts))
        if len(set(tof)) == npts:
            peak_at, width = rng.uniform(0.25, 0.75), rng.uniform(0.05, 0.2)
            frac = [(v - tof[0]) / (tof[-1] - tof[0]) for v in tof]
            ys = [rng.uniform(0, 0.05) + math.exp(-((f_ - peak_at) / width) ** 2 / 2) * rng.uniform(5, 50) for f_ in frac]
            k_d, k_l = logu(rng, 1e-5, 1e-3), logu(rng, 1e-4, 1e-2)
            crd = [['tof', 'us', tof], ['dspacing', 'angstrom', [k_d * v for v in tof]]]
            if rng.random() < 0.6:
                crd.append(['wavelength', rng.choice(['nm', 'angstrom', 'm']), [5.0 - k_l * v for v in tof]])   # decreasing
            tg = rand_tree(rng, rng.choice([0, 0, 1, 2]), clash_ok=False)
            _run(ctx, 'C16:guess-wrong-coordinate', {'tree': _with_prefix(tg, rng.choice(['', 'p_', 'fit.', 'bg_'])), 'dim': 'tof',
                                                     'ys': ys, 'yunit': rng.choice(['counts', 'dimensionless']), 'coords': crd})
        # compatible but different units
        lens = list(LENGTHS)
        for kind in 'GLV':
            r = rng.random()
            ux_ = rng.choice(lens)
            same = r < 0.35      # only the amplitude in a scaled unit: accepted by construction, must mean the same physics
            _run(ctx, 'C16:units-reinterpreted', {
                'kind': kind, 'ux': ux_, 'u_loc': ux_ if same or rng.random() < 0.6 else rng.choice(lens),
                'u_scale': ux_ if same else rng.choice(lens), 'u_amp': rng.choice(lens), 'uy': rng.choice(['counts', 'dimensionless', 's']),
                'A': rng.choice([-1, 1]) * logu(rng, 1e-3, 1e3), 'mu': rng.uniform(-50, 50), 'sigma': logu(rng, 1e-3, 1e3), 'f': rng.random()})
        dg = rng.randint(1, 4)
        ux_ = rng.choice(lens)
        cu = [ux_] * (dg + 1) if rng.random() < 0.5 else [rng.choice(lens) for _ in range(dg + 1)]
        _run(ctx, 'C16:units-reinterpreted', {'kind': 'P', 'ux': ux_, 'coef': [rng.choice([-1, 1]) * logu(rng, 1e-2, 1e2) for _ in range(dg + 1)],
                                              'coef_len_units': cu, 'y_len': rng.choice(lens), 'xs': [rng.uniform(-5, 5) for _ in range(3)]})
        # polynomial in every dtype: (A) float64 coefficients, any x; (B) floating leading coefficient, anything else
        deg = rng.randint(1, 6)
        xdt = rng.choice(DTYPES)
        cdts = ['float64'] * (deg + 1) if rng.random() < 0.5 else [rng.choice(DTYPES) for _ in range(deg)] + [rng.choice(['float64', 'float32'])]
        _run(ctx, 'C16:polynomial-sum', {'coef': [typed(rng.choice([-1, 1]) * rng.uniform(1, 60), dt) for dt in cdts], 'cdts': cdts, 'xdt': xdt,
                                          'xs': [typed(rng.uniform(-5, 5), xdt) for _ in range(3)] + [typed(rng.choice([0.0, 1.0, -1.0, 3.0]), xdt)]})
        # all parameters float64, x in any dtype
        td = rand_tree(rng, rng.choice([0, 0, 1]), clash_ok=False)
        pl, lc = [], []
        uxd, uyd = UNITS[rng.choice(X_UNITS)], UNITS[rng.choice(Y_UNITS)]
        tame_params(rng, td, uxd, uyd, [], pl, lc, ['float64'])
        xdt = rng.choice(DTYPES[1:])
        xsd = [typed((rng.choice(lc)[0] if lc else 0.0) + rng.uniform(-5, 5) * (rng.choice(lc)[1] if lc else 1.0), xdt) for _ in range(3)]
        _run(ctx, 'C16:dtype', {'tree': td, 'ux': list(uxd), 'xdt': xdt, 'xs': xsd, 'params': [(k, v, list(u)) for k, v, u, _ in pl]})
        deg = rng.randint(1, 6)
        _run(ctx, 'C16:polynomial-sum', {'coef': [rng.choice([-1, 1]) * logu(rng, 1e-3, 1e3) for _ in range(deg + 1)],
                                          'xs': [rng.uniform(-10, 10) for _ in range(3)] + [rng.choice([-1, 1]) * logu(rng, 1e-6, 1e6)]})
        # composites, prefixes, key refusal
        ux, uy = UNITS[rng.choice(X_UNITS)], UNITS[rng.choice(Y_UNITS)]
        t = rand_tree(rng, rng.choice([1, 2]), clash_ok=False)
        plist, locs = [], []
        leaf_params(rng, _with_prefix(t, ''), ux, uy, [], plist, locs)
        xs = rand_xs(rng, locs, 3)
        params = [(k, v, list(u)) for k, v, u in plist]
        if t[0] == 'C':
            _run(ctx, 'C16:composite-sum', {'tree': _with_prefix(t, ''), 'ux': list(ux), 'uy': list(uy), 'xs': xs, 'params': params})
        q = rand_prefix(rng)
        _run(ctx, 'C16:prefix-keys', {'tree': t, 'prefix': q, 'ux': list(ux), 'uy': list(uy), 'xs': xs, 'params': params,
                                      'extras': [e for e in ['y', q + 'y', 'scale', q + 'a9', q, '', q + 'Scale'] if e != 'x']})
        # guess
        npts = rng.choice([3, 5, 20, 50])
        gx = sorted(rng.uniform(-5, 5) for _ in range(npts))
        if len(set(gx)) == npts:
            mu, sg = rng.uniform(-3, 3), logu(rng, 0.05, 3)
            gy = [rng.uniform(0, 0.1) + math.exp(-((v - mu) / sg) ** 2 / 2) for v in gx]
            tg = rand_tree(rng, rng.choice([0, 0, 1]), clash_ok=False)
            if npts > 7 or tg[0] != 'P':
                _run(ctx, 'C16:guess', {'tree': tg, 'prefix': rand_prefix(rng), 'xs': gx, 'ys': gy})


def replay(ctx, payload):
    w = payload.get('witness', {})
    key = w.get('check')
    if key not in CHECKS:
        print('no replay for', payload.get('key'))
        return False
    try:
        msg = CHECKS[key](w['args'])
    except Exception as e:  # noqa: BLE001
        msg = f'raised {type(e).__name__}: {e}'
    if msg:
        print(msg)
    return bool(msg)
