"""C08 — Q-vector and hkl conversions satisfy their defining algebra."""
from __future__ import annotations

import math
import struct
from decimal import Decimal, getcontext
from fractions import Fraction

import numpy as np

PROP = 'C08'
LEAN_TARGETS = ['ScnVerif.Props.C08']
PROPS_FILE = 'ScnVerif/Props/C08.lean'
TRANSLATORS: list = []

U64 = 2.0 ** -53
U32 = 2.0 ** -24


WL_DTYPES = ['float64', 'float64', 'float32', 'float32', 'int64', 'int32']
OTHER_DTYPES = ['float64', 'float32', 'int64', 'int32']
SHORT = {'float64': 'f64', 'float32': 'f32', 'int64': 'i64', 'int32': 'i32'}
LONG = {v: k for k, v in SHORT.items()}


def lam_value(rng, dt: str, unit: str) -> float:
    """a wavelength in 0.01..100 angstrom expressed in `unit`, representable in dtype `dt` (integers: 1..100 resp. 1..10)"""
    l_ang = lu(rng, 0.01, 100)
    v = l_ang * WL_PER_ANGSTROM[unit]
    if dt.startswith('int'):
        return float(max(1, round(lu(rng, 1, 100) * WL_PER_ANGSTROM[unit])))
    return float(np.dtype(dt).type(v))


def source_array(a):
    """scipp's vector3 / linear_transform3 hold float64 only; operands whose entries are small integers are handed
    to scipp as int64 / int32 / float32 numpy arrays (chosen deterministically from the values) so that the
    conversion of every source dtype is exercised"""
    a = np.asarray(a, dtype=np.float64)
    if a.size and np.all(a == np.round(a)) and np.all(np.abs(a) < 2**20):
        return a.astype(['int64', 'int32', 'float32'][int(np.abs(a).sum()) % 3])
    return a


B_UNITS = ['1/angstrom', '1/angstrom', '1/nm', '1/m', 'dimensionless']
Q_UNITS = ['1/angstrom', '1/angstrom', '1/nm']
WL_UNITS = ['angstrom', 'angstrom', 'nm', 'pm']
WL_PER_ANGSTROM = {'angstrom': 1.0, 'nm': 0.1, 'pm': 100.0}
BEAM_UNITS = ['m', 'm', 'mm']


def unit_factor(src, dst):
    """exact-as-scipp factor such that 1 src = factor dst; None when the units are not convertible"""
    import scipp as sc

    try:
        return Fraction(float(sc.to_unit(sc.scalar(1.0, unit=src), dst).value))
    except Exception:  # noqa: BLE001
        return None


def u_res(dt: str) -> float:
    """unit roundoff of the RESULT of Q_elements_from_wavelength: it has the float dtype of the wavelength"""
    return U32 if dt == 'float32' else U64
PI_STR = '3.14159265358979323846264338327950288419716939937510582097494459230781640628620899'
PI = Fraction(PI_STR)
Q_ULPS = 16        # |Q_component error| <= Q_ULPS * u * (2 pi / lambda): forward error of k*(b_i/|b_i| - b_f/|b_f|)
HKL_C = 32         # residual bound constant of the property's "to rounding" clause

RULE = (
    'Q: wavelengths log-uniform in 0.01..100 angstrom (float64, float32, int64 and int32 — integers 1..100 angstrom / 1..10 nm; '
    'angstrom and nm), beams = random '
    'directions (plus axis-aligned, nearly parallel, nearly antiparallel and integer-valued pairs handed over as int64/int32/float32 '
    'arrays) times lengths log-uniform in '
    '0.1..1e3 m, scalar and 1-d operands; hkl: R and U uniform on SO(3) from random unit quaternions, and with probability 0.3 '
    'near-special: exactly the identity, the identity perturbed by 1e-12..1e-4 rad about a random axis, exactly pi or pi/2 about a '
    'coordinate axis and those perturbed by 1e-12..1e-4 rad; near-diagonal and near-permutation B (given as '
    'rotation3 or as linear_transform3), B = O1*diag(s1,s2,s3)*O2 with s1 in 0.01..1 1/angstrom, condition number '
    's1/s3 log-uniform in 1..1e6 and s2 log-uniform between (also s2=s1 and s2=s3), exactly singular UB for the '
    'degenerate branch, integer-valued B and Q handed over as int64/int32/float32 arrays; Q_vec_from_Q_elements with component '
    'dtypes over {float64,float32,int64,int32} in any mix; vector3 / linear_transform3 themselves exist only as float64 in scipp '
    '(counted as not evaluable in other dtypes); Q vectors random with norm 0.01..100 1/angstrom; split/reassemble: arrays of rank 0..3 with '
    'sizes 0..3, Qy/Qz with permuted dimension order, and mismatching sizes (missing/extra/renamed dimension, '
    'different length) for the DimensionError guard. operand shapes: wavelength, incident and scattered beam (and Q_vec, UB, R for hkl) get dims independently — 0-d, '
    'per-pixel, per-run, a dim on the incident beam that the scattered beam lacks and vice versa, outer products, transposed '
    '(non-contiguous) storage, wavelength with dims of its own — every element of the broadcast result is judged against the '
    'reference for its own element operands and the result dims must be the union of the operand dims; '
    'units: wavelength in angstrom/nm/pm, beams in m/mm, B in 1/angstrom, 1/nm, 1/m or dimensionless, Q_vec in 1/angstrom or 1/nm: '
    'result units are checked (Q in 1/unit(wavelength), UB in the unit of B, unit(UB)*unit(hkl) convertible to unit(Q)) and '
    '2pi R UB hkl = Q is judged in physical terms, also from the operands U, B (key C08:hkl-chain) and through the elastic_hkl '
    'graph; zero-length beams and beams whose squared components underflow (norm 0): the result must be non-finite (key '
    'C08:q-degenerate-beam-finite) and agree with the model bit for bit (NaN = NaN); '
    'call sequences: 2-4 consecutive calls of hkl_vec_from_Q_vec (same UB object with different R, same UB value in a new '
    'object, same R with different UB, same Q with both different, identical repeat, array chunk then scalars) and of '
    'Q_elements_from_wavelength / ub_matrix_from_u_and_b with shared operand objects: every call is judged against the exact '
    'reference for its own arguments and must be bit-identical when the sequence is executed in reverse order (key '
    'C08:history-dependent); the correspondence compares every call of a sequence with the pure model. '
    'Distinct = (operation, operand bit patterns / shapes). '
    f'Tolerances: Q components {Q_ULPS}u*2pi/lambda absolute with u the unit roundoff of the result (2^-53, or 2^-24 for a float32 '
    'wavelength, whose result is float32; 16*2^-24 < the 1e-5 single-precision budget; cancellation in e_i-e_f is conditioning); '
    f'hkl: residual |2pi R UB hkl - Q|/|Q| <= {HKL_C}*(s1^2/(s2 s3))*2^-53 and forward error |hkl - hkl_exact| <= '
    f'{HKL_C}*(s1^2/(s2 s3))*2^-53*|inv(R UB)||Q|/2pi, s1>=s2>=s3 the singular values of R*UB, both evaluated in exact rational '
    'arithmetic (hkl_exact = exact solve); U*B within '
    '8u*(|U||B|); split/reassemble bit-exact.'
)
ASSUMPTIONS = [
    'Q_elements_from_wavelength computes in float64 and narrows each component to the float dtype of the wavelength '
    '(model: qElementsCast with down = Float.toFloat32 / identity; theorems at the identity cast over the reals)',
    'scipp: vector3/linear_transform3 are float64; sc.norm, element-wise vector arithmetic, matrix products and '
    'sc.spatial.inv (closed-form cofactor inverse) round as IEEE double operations in some order (the model fixes '
    'one order; the correspondence allows the derived forward-error bound)',
    'the float-level "to rounding" clauses (Q components, |Q|=scalar Q, rotation, hkl residual and forward error) are '
    'validated against exact rational / 60-digit decimal references, not proved',
    '"to rounding" for hkl means to the rounding of the documented method (one closed-form cofactor inversion of R*UB): '
    'the determinant is a cancelling sum of terms of size s1^3, so its relative error, and with it the relative residual '
    'and the forward error of hkl, is of order u*s1^2/(s2 s3) (= u*cond if one singular value is small, up to u*cond^2 if '
    'two are); the oracle bound is 32*u*s1^2/(s2 s3) with the singular values taken from the SVD of R*UB (observed '
    'maximum about 3*u*s1^2/(s2 s3)); a cofactor/Cramer inverse is not forward stable at cond*u for n = 3',
    'two_theta of the beamline graph (C03) is used for the scalar-Q comparison',
]
TRUSTED = [
    'modelled, not verified: Q_elements_from_wavelength, Q_vec_from_Q_elements, ub_matrix_from_u_and_b, '
    'hkl_vec_from_Q_vec, hkl_elements_from_hkl_vec (lean/ScnVerif/Model/QVec.lean)',
    'sc.spatial.as_vectors is modelled as element-wise combination by dimension label with the dimension order of Qx',
]
LEVEL_TEXT = (
    'Lean 4 theorems over the reals about the executable model: Q = 2pi/lambda (e_i - e_f); |Q|^2 = '
    '(2pi/lambda)^2 (2 - 2cos 2theta) and |Q| = 4pi sin(theta)/lambda for the angle between the beams, in particular |Q_vec| = '
    'Q_from_wavelength(lambda, two_theta(b_i, b_f)) with the two_theta of the beamline model (Kahan formula, C03) and the scalar '
    'kernel of C01, no free hypothesis; invariance '
    'under positive rescaling of either beam; Q(R b_i, R b_f) = R Q(b_i, b_f) for every orthogonal R; '
    'det(R UB) != 0 -> 2pi R UB hkl = Q and hkl is the unique solution; UB v = U(B v); splitting and reassembling '
    'is the identity both ways and the DimensionError guard fires exactly on unequal sizes. The same definitions run '
    'at Float and are compared with the Python kernels on every run.'
)
LEVEL_NOTE = (
    'Floating-point accuracy (conditioning-dependent) is validated by an exact-arithmetic oracle, not proved; '
    'sc.spatial.as_vectors / .fields are modelled at the level of labelled element access.'
)
TECHNIQUE = 'Lean 4 proof over an executable carrier-generic model + model/implementation correspondence'

DIMS = ['a', 'b', 'c', 'd']


def bits(x) -> str:
    return struct.pack('>d', float(x)).hex()


def unbits(h: str) -> float:
    return struct.unpack('>d', bytes.fromhex(h))[0]


def lu(rng, lo, hi):
    return math.exp(rng.uniform(math.log(lo), math.log(hi)))


def D(fr) -> Decimal:
    if isinstance(fr, Decimal):
        return fr
    fr = Fraction(fr)
    return Decimal(fr.numerator) / Decimal(fr.denominator)


def _err(e: Exception) -> str:
    import scipp as sc

    for cls, name in ((sc.DimensionError, 'err:dimension'), (sc.DTypeError, 'err:dtype'), (sc.UnitError, 'err:unit'),
                      (ValueError, 'err:value'), (TypeError, 'err:type'), (RuntimeError, 'err:runtime')):
        if isinstance(e, cls):
            return name
    return 'err:other:' + type(e).__name__


# ---- generators -------------------------------------------------------------------------------

def _axis_angle_quat(axis, angle):
    """scipp stores rotation3 coefficients as (x, y, z, w)"""
    axis = np.asarray(axis, dtype=np.float64)
    axis = axis / np.linalg.norm(axis)
    return np.array([*(axis * math.sin(angle / 2)), math.cos(angle / 2)])


def _quat_mul(a, b):
    ax, ay, az, aw = a
    bx, by, bz, bw = b
    return np.array([aw * bx + ax * bw + ay * bz - az * by, aw * by - ax * bz + ay * bw + az * bx,
                     aw * bz + ax * by - ay * bx + az * bw, aw * bw - ax * bx - ay * by - az * bz])


def rand_quat(rng, special=0.3):
    """unit quaternion: uniform on SO(3), or (with probability `special`) a NEAR-SPECIAL rotation — exactly the identity,
    the identity perturbed by 1e-12..1e-4 rad about a random axis, a rotation by exactly pi or pi/2 about a coordinate
    axis, or one of those perturbed by 1e-12..1e-4 rad"""
    if rng.random() < special:
        kind = rng.choice(['identity', 'near-identity', 'near-identity', 'near-identity', 'axis-pi', 'axis-half-pi', 'near-axis'])
        if kind == 'identity':
            return np.array([0.0, 0.0, 0.0, 1.0])
        small = lambda: _axis_angle_quat([rng.gauss(0, 1) for _ in range(3)], 10.0 ** rng.uniform(-12, -4))  # noqa: E731
        if kind == 'near-identity':
            return small()
        ax = np.eye(3)[rng.randrange(3)] * rng.choice([1.0, -1.0])
        base = np.array([*ax, 0.0]) if kind == 'axis-pi' or (kind == 'near-axis' and rng.random() < 0.5) \
            else np.array([*(ax * math.sqrt(0.5)), math.sqrt(0.5)])
        if kind == 'near-axis':
            q = _quat_mul(small(), base)
            return q / np.linalg.norm(q)
        return base
    while True:
        q = np.array([rng.gauss(0, 1) for _ in range(4)])
        n = np.linalg.norm(q)
        if n > 1e-3:
            return q / n


def rot_var(q):
    import scipp as sc

    return sc.spatial.rotation(value=q)


def rot_matrix(q) -> np.ndarray:
    """the matrix scipp uses for a rotation3 (R * identity: products with 0/1 are exact)"""
    import scipp as sc

    return np.array((rot_var(q) * sc.spatial.linear_transform(value=np.eye(3))).value)


def rand_dir(rng):
    while True:
        v = np.array([rng.gauss(0, 1) for _ in range(3)])
        n = np.linalg.norm(v)
        if n > 1e-3:
            return v / n


def beam_pair(rng, degenerate=False):
    kind = rng.choice(['random', 'random', 'random', 'random', 'axis', 'near-parallel', 'near-antiparallel', 'perpendicular', 'int-valued',
                       'int-valued', 'zero-length', 'underflow-length'])
    if kind in ('zero-length', 'underflow-length') and not degenerate:
        kind = 'random'
    if kind in ('zero-length', 'underflow-length'):
        # a placeholder / monitor pixel at the sample position: the beam has length exactly 0, or so small that its
        # squared components underflow to 0 (norm evaluates to 0): the direction, hence Q, is undefined
        good = rand_dir(rng) * lu(rng, 0.1, 1e3)
        if kind == 'zero-length':
            bad = np.array([0.0, 0.0, -0.0]) if rng.random() < 0.3 else np.zeros(3)
        else:
            bad = rand_dir(rng) * 10.0 ** rng.uniform(-320, -170)
            if not bad.any():
                bad = np.array([5e-324, 0.0, 0.0])
        which = rng.choice(['incident', 'scattered', 'both'])
        return kind, (bad if which != 'scattered' else good), (bad if which != 'incident' else good)
    if kind == 'int-valued':
        while True:
            a = np.array([float(rng.randint(-20, 20)) for _ in range(3)])
            b = np.array([float(rng.randint(-20, 20)) for _ in range(3)])
            if a.any() and b.any():
                return kind, a, b
    a = rand_dir(rng)
    if kind == 'random':
        b = rand_dir(rng)
    elif kind == 'axis':
        a = np.eye(3)[rng.randrange(3)] * rng.choice([1.0, -1.0])
        b = np.eye(3)[rng.randrange(3)] * rng.choice([1.0, -1.0])
    elif kind == 'near-parallel':
        b = a + rand_dir(rng) * lu(rng, 1e-9, 1e-2)
    elif kind == 'near-antiparallel':
        b = -a + rand_dir(rng) * lu(rng, 1e-9, 1e-2)
    else:
        c = np.cross(a, rand_dir(rng))
        b = c / np.linalg.norm(c)
    return kind, a * lu(rng, 0.1, 1e3), b * lu(rng, 0.1, 1e3)


def b_matrix(rng):
    """B = O1 diag(s) O2 with prescribed singular values; returns (matrix, s1, s2, s3, kind)"""
    if rng.random() < 0.08:
        while True:
            m = np.array([[float(rng.randint(-5, 5)) for _ in range(3)] for _ in range(3)])
            if abs(np.linalg.det(m)) > 0.5:
                return m, 'int-valued'
    if rng.random() < 0.12:
        # near-diagonal / near-permutation B (orthogonal cells in standard or permuted setting, slightly off)
        d = np.diag([lu(rng, 0.01, 1.0) * rng.choice([1.0, -1.0]) for _ in range(3)])
        off = np.array([[0.0 if i == j else rng.gauss(0, 1) * 10.0 ** rng.uniform(-12, -4) * abs(d[i, i]) for j in range(3)] for i in range(3)])
        m = d + (off if rng.random() < 0.8 else 0.0)
        if rng.random() < 0.5:
            perm = [0, 1, 2]
            rng.shuffle(perm)
            return m[:, perm], 'near-permutation'
        return m, 'near-diagonal'
    cond = 10 ** rng.uniform(0, 6)
    s1 = lu(rng, 0.01, 1.0)
    s3 = s1 / cond
    kind = rng.choice(['mid', 'mid', 'hi', 'lo'])
    s2 = {'mid': s1 * cond ** -rng.uniform(0, 1), 'hi': s1, 'lo': s3}[kind]
    o1, o2 = rot_matrix(rand_quat(rng)), rot_matrix(rand_quat(rng))
    return o1 @ np.diag([s1, s2, s3]) @ o2, kind


def singular_matrix(rng):
    """an exactly singular matrix (third row = sum of the first two, small integers: exact in floats)"""
    r1 = [float(rng.randint(-4, 4)) for _ in range(3)]
    r2 = [float(rng.randint(-4, 4)) for _ in range(3)]
    rows = [r1, r2, [a + b for a, b in zip(r1, r2)]]
    rng.shuffle(rows)
    return np.array(rows)


# ---- exact helpers ---------------------------------------------------------------------------

def fmat(m):
    return [[Fraction(float(m[i][j])) for j in range(3)] for i in range(3)]


def fvec(v):
    return [Fraction(float(x)) for x in v]


def mm(a, b):
    return [[sum(a[i][k] * b[k][j] for k in range(3)) for j in range(3)] for i in range(3)]


def mv(a, x):
    return [sum(a[i][k] * x[k] for k in range(3)) for i in range(3)]


def norm2(v) -> float:
    return math.sqrt(float(sum(Fraction(x) * Fraction(x) for x in v)))


def degenerate_beam(b) -> bool:
    """the float norm sqrt(x*x + y*y + z*z) of the beam is exactly 0 (zero beam, or all squares underflow)"""
    b = np.asarray(b, dtype=np.float64)
    with np.errstate(all='ignore'):
        return float(np.sqrt(b[0] * b[0] + b[1] * b[1] + b[2] * b[2])) == 0.0


def exact_q(lam: float, scale_to_inv_unit: Fraction, bi, bf):
    """(2 pi / lambda)(b_i/|b_i| - b_f/|b_f|) in 60-digit decimal arithmetic, on the float operands"""
    bi, bf = fvec(bi), fvec(bf)
    ni = D(sum(x * x for x in bi)).sqrt()
    nf = D(sum(x * x for x in bf)).sqrt()
    k = D(2 * PI) / D(Fraction(lam)) * D(scale_to_inv_unit)
    return [k * (D(a) / ni - D(b) / nf) for a, b in zip(bi, bf)], k


# ---- running the real code --------------------------------------------------------------------

def impl_qel(lam_vals, lam_dtype, lam_unit, bis, bfs, scalar=False, beam_unit='m'):
    import scipp as sc
    from scippneutron.conversion import tof as K

    if scalar:
        w = sc.scalar(np.dtype(lam_dtype).type(lam_vals[0]), unit=lam_unit, dtype=lam_dtype)
        bi = sc.vector(source_array(bis[0]), unit=beam_unit)
        bf = sc.vector(source_array(bfs[0]), unit=beam_unit)
    else:
        w = sc.array(dims=['x'], values=np.array(lam_vals, dtype=lam_dtype), unit=lam_unit, dtype=lam_dtype)
        bi = sc.vectors(dims=['x'], values=source_array(np.array(bis)), unit=beam_unit)
        bf = sc.vectors(dims=['x'], values=source_array(np.array(bfs)), unit=beam_unit)
    try:
        r = K.Q_elements_from_wavelength(wavelength=w, incident_beam=bi, scattered_beam=bf)
    except Exception as e:  # noqa: BLE001
        return _err(e)
    if sorted(r) != ['Qx', 'Qy', 'Qz']:
        return 'err:keys:' + ','.join(sorted(r))
    want_unit = sc.Unit('one') / sc.Unit(lam_unit)
    meta = [(str(v.dtype), bool(v.unit == want_unit), dict(v.sizes)) for v in (r['Qx'], r['Qy'], r['Qz'])]
    vals = np.stack([np.atleast_1d(np.asarray(r[k].values, dtype=np.float64)) for k in ('Qx', 'Qy', 'Qz')], axis=1)
    return vals, meta, r


def _rot_or_matrix(q, as_rotation):
    import scipp as sc

    return rot_var(q) if as_rotation else sc.spatial.linear_transform(value=rot_matrix(q))


def impl_ub(uq, u_as_rot, b, b_unit='1/angstrom'):
    import scipp as sc
    from scippneutron.conversion import tof as K

    try:
        r = K.ub_matrix_from_u_and_b(u_matrix=_rot_or_matrix(uq, u_as_rot),
                                     b_matrix=sc.spatial.linear_transform(value=source_array(b), unit=b_unit))
    except Exception as e:  # noqa: BLE001
        return _err(e)
    return r


def impl_hkl(q, ub_var, rq, r_as_rot, q_unit='1/angstrom'):
    import scipp as sc
    from scippneutron.conversion import tof as K

    try:
        r = K.hkl_vec_from_Q_vec(Q_vec=sc.vector(source_array(q), unit=q_unit), ub_matrix=ub_var,
                                 sample_rotation=_rot_or_matrix(rq, r_as_rot))
    except Exception as e:  # noqa: BLE001
        return _err(e)
    return r


def det_cond(m: np.ndarray):
    """(cond_2, s1^2/(s2 s3)) of a float matrix"""
    s = np.linalg.svd(m, compute_uv=False)
    if s[2] == 0:
        return math.inf, math.inf
    return float(s[0] / s[2]), float(s[0] * s[0] / (s[1] * s[2]))


# ---- labelled arrays --------------------------------------------------------------------------

def rand_shape(rng):
    rank = rng.choice([0, 1, 1, 2, 2, 3])
    dims = rng.sample(DIMS, rank)
    return [(d, rng.choice([0, 1, 2, 2, 3, 3])) for d in dims]


def make_var(shape, start, dtype='float64'):
    """small integer values (exact in every dtype of {float64, float32, int64, int32})"""
    import scipp as sc

    n = int(np.prod([s for _, s in shape])) if shape else 1
    vals = (np.arange(n, dtype=np.float64) + start).astype(dtype)
    if not shape:
        return sc.scalar(vals[0], unit='1/angstrom', dtype=dtype)
    return sc.array(dims=[d for d, _ in shape], values=vals.reshape([s for _, s in shape]), unit='1/angstrom', dtype=dtype)


def f64(var):
    return var.to(dtype='float64', copy=False)


def comp_dtypes(rng):
    """dtypes of Qx, Qy, Qz: mostly float64, otherwise any mix of the four"""
    if rng.random() < 0.5:
        return ['float64'] * 3
    return [rng.choice(OTHER_DTYPES) for _ in range(3)]


def proto_arr(var):
    sizes = ','.join(f'{DIMS.index(d)}:{n}' for d, n in var.sizes.items()) or '-'
    data = ','.join(bits(x) for x in np.asarray(var.values, dtype=np.float64).ravel()) or '-'
    return sizes, data


def canon_var(var):
    sizes = ','.join(f'{DIMS.index(d)}:{n}' for d, n in var.sizes.items()) or '-'
    data = ','.join(bits(x) for x in np.asarray(var.values, dtype=np.float64).ravel()) or '-'
    return sizes, data


def qvec_case(rng):
    """(kind, shapes for x, y, z)"""
    sx = rand_shape(rng)
    kind = rng.choice(['same', 'same', 'permuted', 'permuted', 'length', 'missing', 'extra', 'renamed'])
    sy, sz = list(sx), list(sx)

    def perm(s):
        s = list(s)
        rng.shuffle(s)
        return s

    def mutate(s):
        s = list(s)
        if kind == 'length' and s:
            i = rng.randrange(len(s))
            s[i] = (s[i][0], s[i][1] + 1)
        elif kind == 'missing' and s:
            s.pop(rng.randrange(len(s)))
        elif kind == 'extra' and len(s) < len(DIMS):
            s.insert(rng.randrange(len(s) + 1), (rng.choice([d for d in DIMS if d not in dict(s)]), rng.choice([1, 2])))
        elif kind == 'renamed' and s and len(s) < len(DIMS):
            i = rng.randrange(len(s))
            s[i] = (rng.choice([d for d in DIMS if d not in dict(s)]), s[i][1])
        return s

    if kind == 'permuted':
        sy, sz = perm(sx), perm(sx)
    elif kind != 'same':
        if rng.random() < 0.5:
            sy = mutate(sx)
        else:
            sz = mutate(sx)
        if rng.random() < 0.3:
            sy = perm(sy)
    return kind, sx, sy, sz


# ---- correspondence ---------------------------------------------------------------------------

def correspond(ctx):
    import scipp as sc
    from scippneutron.conversion import tof as K

    rng = ctx.rng
    # --- Q elements
    groups = []
    lines = []
    for _ in range(ctx.n(300, 6000)):
        dt = rng.choice(WL_DTYPES)
        unit = rng.choice(WL_UNITS)
        beam_unit = rng.choice(BEAM_UNITS)
        scalar = rng.random() < 0.2
        n = 1 if scalar else rng.randint(1, 40)
        lam, bis, bfs, kinds = [], [], [], []
        for _ in range(n):
            lam.append(lam_value(rng, dt, unit))
            k, a, b = beam_pair(rng, degenerate=True)
            kinds.append(k)
            bis.append(a)
            bfs.append(b)
        groups.append((dt, unit, scalar, lam, bis, bfs, kinds, beam_unit))
        for l, a, b in zip(lam, bis, bfs):
            lines.append(('c08.qel32 ' if dt == 'float32' else 'c08.qel ') + ' '.join(bits(x) for x in (l, *a, *b)))
    outs = ctx.driver(lines)
    # result dtype as coded (model): float_dtype(wavelength)
    res_dtype = {LONG[d]: LONG[o] for d, o in zip(SHORT.values(), ctx.driver([f'c08.qdtype {d}' for d in SHORT.values()]))}
    ctx.count('dtype-not-evaluable:vector3 and linear_transform3 exist only as float64 (integer / float32 sources are converted on construction)', 0)
    pos = 0
    for dt, unit, scalar, lam, bis, bfs, kinds, beam_unit in groups:
        res = impl_qel(lam, dt, unit, bis, bfs, scalar, beam_unit)
        ctx.count('qel-units:' + unit + '/' + beam_unit)
        mo = outs[pos:pos + len(lam)]
        pos += len(lam)
        ctx.count(f'qel:{dt}:{unit}:{"scalar" if scalar else "array"}')
        if isinstance(res, str):
            ctx.disagree({'op': 'qel', 'dtype': dt, 'unit': unit}, res, 'ok', 'kernel raised')
            continue
        vals, meta, _ = res
        exp_sizes = {} if scalar else {'x': len(lam)}
        # dtype as coded: computed in float64, each component narrowed by as_float_type(., wavelength)
        if meta != [(res_dtype[dt], True, exp_sizes)] * 3:
            ctx.disagree({'op': 'qel', 'dtype': dt, 'unit': unit}, meta, [(res_dtype[dt], True, exp_sizes)] * 3, 'dtype / unit / sizes')
        for l, a, b, kd, v, m in zip(lam, bis, bfs, kinds, vals, mo):
            mv_ = [unbits(t) if t != 'nan' else math.nan for t in m.split()]
            ctx.case(('qel', dt, unit, bits(l), tuple(bits(x) for x in (*a, *b))), True,
                     sample={'op': 'qel', 'lambda': l, 'unit': unit, 'dtype': dt, 'kind': kd, 'impl': [bits(x) for x in v], 'model': m})
            ctx.count('qel-kind:' + kd)
            k = 2 * math.pi / l
            same = lambda x, y: x == y or (math.isnan(x) and math.isnan(y))  # noqa: E731
            if degenerate_beam(a) or degenerate_beam(b):
                # zero-length beam: the model (0/0, x/0 as coded) and the code must produce the same NaN / inf pattern
                ctx.count('qel:degenerate-beam')
                if not all(same(x, y) for x, y in zip(v, mv_)):
                    ctx.disagree({'op': 'qel', 'lambda': bits(l), 'bi': [bits(x) for x in a], 'bf': [bits(x) for x in b]},
                                 [repr(float(x)) for x in v], m, 'zero-length beam: NaN/inf pattern differs from the model')
                continue
            if all(same(x, y) for x, y in zip(v, mv_)):
                ctx.count('qel:bit-equal')
            elif all(abs(x - y) <= Q_ULPS * U64 * k + (2 * U32 * abs(y) if dt == 'float32' else 0.0) for x, y in zip(v, mv_)):
                # float64 computation within the derived bound; a float32 result may then round to the neighbour
                ctx.count('qel:within-tolerance')
            else:
                ctx.disagree({'op': 'qel', 'lambda': bits(l), 'bi': [bits(x) for x in a], 'bf': [bits(x) for x in b]},
                             [bits(x) for x in v], m, f'components differ by more than {Q_ULPS}u*2pi/lambda (+1 ulp of a float32 result)')
    # --- UB and hkl
    cases, lines = [], []
    for _ in range(ctx.n(3000, 100000)):
        uq, rq = rand_quat(rng), rand_quat(rng)
        u_rot, r_rot = rng.random() < 0.5, rng.random() < 0.5
        singular = rng.random() < 0.04
        if singular:
            b, bkind = singular_matrix(rng), 'singular'
            uq = np.array([0.0, 0.0, 0.0, 1.0])  # keep UB exactly singular
            rq = np.array([0.0, 0.0, 0.0, 1.0])
        else:
            b, bkind = b_matrix(rng)
        q = rand_dir(rng) * lu(rng, 0.01, 100)
        um, rm = rot_matrix(uq), rot_matrix(rq)
        cases.append((uq, u_rot, rq, r_rot, b, bkind, q, um, rm, rng.choice(B_UNITS), rng.choice(Q_UNITS)))
        lines.append('c08.ub ' + ' '.join(bits(x) for x in (*um.ravel(), *b.ravel())))
    outs = ctx.driver(lines)
    lines2, keep = [], []
    for (uq, u_rot, rq, r_rot, b, bkind, q, um, rm, b_unit, q_unit), o in zip(cases, outs):
        ubv = impl_ub(uq, u_rot, b, b_unit)
        ctx.count(f'ub-units:{b_unit}|Q:{q_unit}')
        ctx.count(f'ub:{"rotation3" if u_rot else "linear_transform3"}:{bkind}')
        ctx.case(('ub', tuple(bits(x) for x in (*uq, *b.ravel())), u_rot), True)
        if isinstance(ubv, str):
            ctx.disagree({'op': 'ub'}, ubv, 'ok', 'kernel raised')
            continue
        ub = np.array(ubv.value)
        model = np.array([unbits(t) if t != 'nan' else math.nan for t in o.split()]).reshape(3, 3)
        bound = 8 * U64 * (np.abs(um) @ np.abs(b))
        # unit as coded: unit(U) * unit(B), values not converted
        meta = (str(ubv.dtype), bool(ubv.unit == sc.Unit('dimensionless') * sc.Unit(b_unit)), dict(ubv.sizes))
        if meta != ('linear_transform3', True, {}):
            ctx.disagree({'op': 'ub'}, meta, ('linear_transform3', True, {}), 'dtype / unit / sizes of UB')
        if not np.all(np.abs(ub - model) <= bound):
            ctx.disagree({'op': 'ub', 'u': [bits(x) for x in um.ravel()], 'b': [bits(x) for x in b.ravel()]},
                         [bits(x) for x in ub.ravel()], o, 'U*B differs by more than 8u(|U||B|)')
        # hkl on the implementation's own UB (so both sides invert the same matrix)
        lines2.append('c08.hkl ' + ' '.join(bits(x) for x in (*q, *ub.ravel(), *rm.ravel())))
        keep.append((ubv, ub, rq, r_rot, rm, q, bkind, b_unit, q_unit))
    outs2 = ctx.driver(lines2)
    for (ubv, ub, rq, r_rot, rm, q, bkind, b_unit, q_unit), o in zip(keep, outs2):
        hv = impl_hkl(q, ubv, rq, r_rot, q_unit)
        ctx.count(f'hkl:{"rotation3" if r_rot else "linear_transform3"}:{bkind}')
        ctx.case(('hkl', tuple(bits(x) for x in (*q, *ub.ravel(), *rq)), r_rot), True,
                 sample={'op': 'hkl', 'q': [bits(x) for x in q], 'kind': bkind, 'model': o})
        if isinstance(hv, str):
            ctx.disagree({'op': 'hkl'}, hv, 'ok', 'kernel raised')
            continue
        h = np.array(hv.value, dtype=np.float64)
        model = np.array([unbits(t) if t != 'nan' else math.nan for t in o.split()])
        # unit as coded: unit(Q) / (unit(R) * unit(UB))
        meta = (str(hv.dtype), bool(hv.unit == sc.Unit(q_unit) / ubv.unit), dict(hv.sizes))
        if meta != ('vector3', True, {}):
            ctx.disagree({'op': 'hkl'}, meta, ('vector3', True, {}), 'dtype / unit / sizes of hkl_vec')
        fin_i, fin_m = bool(np.all(np.isfinite(h))), bool(np.all(np.isfinite(model)))
        if bkind == 'singular' or not (fin_i and fin_m):
            ctx.count('hkl:nonfinite' if not fin_i else 'hkl:finite-on-singular')
            if fin_i != fin_m:
                ctx.disagree({'op': 'hkl', 'kind': bkind, 'line': lines2[0][:0]}, [bits(x) if math.isfinite(x) else repr(x) for x in h], o,
                             'finiteness differs (singular R*UB)')
            continue
        cond, dk = det_cond(rm @ ub)
        tol = 64 * dk * U64 * float(np.linalg.norm(model))
        if np.array_equal(h, model):
            ctx.count('hkl:bit-equal')
        elif np.all(np.abs(h - model) <= tol):
            ctx.count('hkl:within-tolerance')
        else:
            ctx.disagree({'op': 'hkl', 'q': [bits(x) for x in q], 'ub': [bits(x) for x in ub.ravel()], 'r': [bits(x) for x in rm.ravel()]},
                         [bits(x) for x in h], o, 'hkl differs by more than 64*(s1^2/(s2 s3))*u*|hkl|')
    # --- shaped operands (0-d, per-pixel, per-run, extra dims on either side, outer products, transposed storage)
    shaped, lines = [], []
    for _ in range(ctx.n(300, 6000)):
        pattern, sizes, w, bi, bf = gen_q_shapes(rng)
        res = eval_q_shapes(w, bi, bf)
        ctx.count('shape:q:' + pattern)
        if isinstance(res, str):
            ctx.disagree(q_shape_witness(pattern, sizes, w, bi, bf), res, 'ok', 'kernel raised on shaped operands')
            continue
        rdims, rsizes, vals = res
        want = set(w.dims) | set(bi.dims) | set(bf.dims)
        if set(rdims) != want:
            ctx.disagree(q_shape_witness(pattern, sizes, w, bi, bf), rdims, sorted(want), 'result dims are not the union of the operand dims')
            continue
        for idx in _all_indices(rdims, rsizes):
            shaped.append((pattern, sizes, w, bi, bf, idx, vals[tuple(idx[d] for d in rdims)]))
            lines.append('c08.qel ' + ' '.join(bits(x) for x in (float(w.at(idx)), *bi.at(idx), *bf.at(idx))))
    for (pattern, sizes, w, bi, bf, idx, got), o in zip(shaped, ctx.driver(lines)):
        mv_ = [unbits(t) if t != 'nan' else math.nan for t in o.split()]
        k = 2 * math.pi / float(w.at(idx))
        ctx.case(('q-shape', pattern, tuple(w.dims), tuple(bi.dims), tuple(bf.dims), tuple(sorted(idx.items())), bits(float(w.at(idx))),
                  tuple(bits(x) for x in bf.at(idx))), True)
        if degenerate_beam(bi.at(idx)) or degenerate_beam(bf.at(idx)):
            ok = all(x == y or (math.isnan(x) and math.isnan(y)) for x, y in zip(got, mv_))
        else:
            ok = all(abs(x - y) <= Q_ULPS * U64 * k for x, y in zip(got, mv_))
        if not ok:
            ctx.disagree(dict(q_shape_witness(pattern, sizes, w, bi, bf), index=idx), [repr(float(x)) for x in got], o,
                         'element of a shaped evaluation differs from the model on the same element operands')
    shaped, lines = [], []
    for _ in range(ctx.n(200, 4000)):
        pattern, sizes, q, ub, r = gen_hkl_shapes(rng)
        res = eval_hkl_shapes(q, ub, r)
        ctx.count('shape:hkl:' + pattern)
        if isinstance(res, str):
            ctx.disagree({'op': 'hkl-shape', 'pattern': pattern, 'dims': [q.dims, ub.dims, r.dims]}, res, 'ok', 'kernel raised on shaped operands')
            continue
        rdims, rsizes, vals = res
        if set(rdims) != set(q.dims) | set(ub.dims) | set(r.dims):
            ctx.disagree({'op': 'hkl-shape', 'pattern': pattern, 'dims': [q.dims, ub.dims, r.dims]}, rdims, 'union', 'result dims')
            continue
        for idx in _all_indices(rdims, rsizes):
            shaped.append((pattern, q, ub, r, idx, vals[tuple(idx[d] for d in rdims)]))
            lines.append('c08.hkl ' + ' '.join(bits(x) for x in (*q.at(idx), *np.asarray(ub.at(idx)).ravel(), *np.asarray(r.at(idx)).ravel())))
    for (pattern, q, ub, r, idx, got), o in zip(shaped, ctx.driver(lines)):
        model = np.array([unbits(t) if t != 'nan' else math.nan for t in o.split()])
        _, dk = det_cond(np.asarray(r.at(idx)) @ np.asarray(ub.at(idx)))
        ctx.case(('hkl-shape', pattern, tuple(q.dims), tuple(ub.dims), tuple(r.dims), tuple(sorted(idx.items())), tuple(bits(x) for x in q.at(idx))), True)
        if not (np.all(np.isfinite(got)) and np.all(np.abs(np.asarray(got) - model) <= 64 * dk * U64 * float(np.linalg.norm(model)))):
            ctx.disagree({'op': 'hkl-shape', 'pattern': pattern, 'dims': [q.dims, ub.dims, r.dims], 'index': idx},
                         [bits(x) for x in got], o, 'element of a shaped evaluation differs from the model')
    # --- call sequences of hkl_vec_from_Q_vec against the (pure) model: shared UB / R / Q objects
    seqs, lines = [], []
    for _ in range(ctx.n(300, 6000)):
        pattern, calls = gen_hkl_sequence(rng)
        seqs.append((pattern, calls))
        for c in calls:
            rm = rot_matrix(np.array(c['rq']))
            for row in np.array(c['q']).reshape(-1, 3):
                lines.append('c08.hkl ' + ' '.join(bits(x) for x in (*row, *np.array(c['ub']).ravel(), *rm.ravel())))
    outs = ctx.driver(lines)
    pos = 0
    for pattern, calls in seqs:
        res = run_hkl_sequence(calls)
        ctx.count('hkl-seq:' + pattern)
        for i, c in enumerate(calls):
            rows = np.array(c['q']).reshape(-1, 3)
            mo = outs[pos:pos + len(rows)]
            pos += len(rows)
            ctx.case(('hkl-seq', pattern, i, tuple(bits(x) for x in np.array(c['ub']).ravel()), tuple(bits(x) for x in c['rq']),
                      tuple(bits(x) for x in rows.ravel())), True)
            if isinstance(res[i], str):
                ctx.disagree(dict(seq_witness(pattern, calls), call=i), res[i], 'ok', 'kernel raised inside a call sequence')
                continue
            _, dk = det_cond(rot_matrix(np.array(c['rq'])) @ np.array(c['ub']))
            for h, o in zip(res[i], mo):
                model = np.array([unbits(t) if t != 'nan' else math.nan for t in o.split()])
                tol = 64 * dk * U64 * float(np.linalg.norm(model))
                if not (np.all(np.isfinite(h)) and np.all(np.abs(h - model) <= tol)):
                    ctx.disagree(dict(seq_witness(pattern, calls), call=i), [bits(x) for x in h], o,
                                 f'call {i} of a sequence ({pattern}) differs from the model evaluated on the same arguments')
                    break
    # --- Q_vec_from_Q_elements / hkl_elements_from_hkl_vec
    specs, lines = [], []
    for _ in range(ctx.n(1500, 20000)):
        kind, sx, sy, sz = qvec_case(rng)
        dts = comp_dtypes(rng)
        x, y, z = make_var(sx, 1.0, dts[0]), make_var(sy, 101.0, dts[1]), make_var(sz, 201.0, dts[2])
        ctx.count('qvec-dtypes:' + '/'.join(SHORT[d] for d in dts))
        specs.append((kind, x, y, z))
        lines.append('c08.qvec ' + ' '.join(t for v in (x, y, z) for t in proto_arr(v)))
    outs = ctx.driver(lines)
    lines3, vecs = [], []
    for (kind, x, y, z), o in zip(specs, outs):
        ctx.count('qvec:' + kind)
        ident = ('qvec', kind, tuple(x.sizes.items()), tuple(y.sizes.items()), tuple(z.sizes.items()), str(x.dtype), str(y.dtype), str(z.dtype))
        try:
            v = K.Q_vec_from_Q_elements(Qx=x, Qy=y, Qz=z)
            impl = ' '.join([canon_var(v.fields.x)[0], canon_var(v.fields.x)[1], canon_var(v.fields.y)[1], canon_var(v.fields.z)[1]])
            if str(v.dtype) != 'vector3' or v.unit != x.unit:
                impl += f' dtype={v.dtype} unit={v.unit}'
        except Exception as e:  # noqa: BLE001
            v, impl = None, _err(e)
        ctx.count('qvec-result:' + (impl if impl.startswith('err') else 'ok'))
        ctx.case(ident, True, sample={'op': 'qvec', 'kind': kind, 'x': dict(x.sizes), 'y': dict(y.sizes), 'z': dict(z.sizes), 'impl': impl[:80]})
        if impl != o:
            ctx.disagree({'op': 'qvec', 'kind': kind, 'x': dict(x.sizes), 'y': dict(y.sizes), 'z': dict(z.sizes)}, impl, o)
        if v is not None:
            s, dx = canon_var(v.fields.x)
            lines3.append(f'c08.hklel {s} {dx} {canon_var(v.fields.y)[1]} {canon_var(v.fields.z)[1]}')
            vecs.append(v)
    outs3 = ctx.driver(lines3)
    for v, o in zip(vecs, outs3):
        try:
            r = K.hkl_elements_from_hkl_vec(hkl_vec=v)
            impl = ' '.join([canon_var(r['h'])[0], canon_var(r['h'])[1], canon_var(r['k'])[1], canon_var(r['l'])[1]])
            if sorted(r) != ['h', 'k', 'l']:
                impl = 'err:keys'
        except Exception as e:  # noqa: BLE001
            impl = _err(e)
        ctx.case(('hklel', tuple(v.sizes.items())), True)
        ctx.count('hklel')
        if impl != o:
            ctx.disagree({'op': 'hklel', 'sizes': dict(v.sizes)}, impl, o)


# ---- oracle -----------------------------------------------------------------------------------

def _check_q_point(lam, dt, unit, bi, bf, got):
    """violations for one evaluated Q vector `got` (three floats, in 1/unit)"""
    out = []
    if degenerate_beam(bi) or degenerate_beam(bf):
        # e = beam/|beam| is undefined (0/0, x/0): the code as it is yields NaN / inf; a finite Q would be an invention
        if any(math.isfinite(x) for x in got):
            return [('C08:q-degenerate-beam-finite',
                     f'a beam has length 0 (incident {list(map(float, bi))!r}, scattered {list(map(float, bf))!r}) but Q = {got!r} has finite '
                     'components; the unit vector, hence Q, is undefined there (the scalar Q is NaN)', {})]
        return []
    scale = Fraction(1)  # result is in 1/unit(lambda) and lambda is given in that unit
    ref, k = exact_q(lam, scale, bi, bf)
    tol = D(Fraction(Q_ULPS * u_res(dt))) * k   # forward-error bound in the precision of the result
    if not all(math.isfinite(x) for x in got):
        return [('C08:q-nonfinite', f'Q has a non-finite component {got!r} for finite beams and wavelength', {})]
    err = max(abs(D(Fraction(g)) - r) for g, r in zip(got, ref))
    if err > tol:
        out.append(('C08:q-definition', f'Q differs from 2pi/lambda (e_i - e_f) by {float(err):.3e} > {float(tol):.3e}',
                    {'expected': [float(r) for r in ref]}))
    return out


def _oracle_q(ctx, n):
    import scipp as sc
    from scippneutron.conversion import tof as K

    try:
        from scippneutron.conversion import beamline as BL
    except Exception:  # noqa: BLE001
        BL = None
    rng = ctx.rng
    for _ in range(n):
        dt = rng.choice(WL_DTYPES)
        unit = rng.choice(WL_UNITS)
        beam_unit = rng.choice(BEAM_UNITS)
        m = rng.randint(1, 12)
        lam, bis, bfs, kinds = [], [], [], []
        for _ in range(m):
            lam.append(lam_value(rng, dt, unit))
            kd, a, b = beam_pair(rng, degenerate=True)
            kinds.append(kd)
            bis.append(a)
            bfs.append(b)
        res = impl_qel(lam, dt, unit, bis, bfs, beam_unit=beam_unit)
        wit0 = {'op': 'qel', 'beam_unit': beam_unit, 'lambda': bits(lam[0]), 'dtype': dt, 'unit': unit, 'bi': [bits(x) for x in bis[0]], 'bf': [bits(x) for x in bfs[0]]}
        if isinstance(res, str):
            ctx.violation('C08:q-raises', f'Q_elements_from_wavelength raised {res}', wit0)
            continue
        vals, meta, rdict = res
        if any(not mt[1] for mt in meta):
            ctx.violation('C08:q-unit', 'Q components are not in 1/unit(wavelength)', wit0)
        # scaled beams, rotated beams, scalar Q — evaluated on the same operands
        sa = [lu(rng, 1e-3, 1e3) if rng.random() < 0.7 else 2.0 ** rng.randint(-8, 8) for _ in range(m)]
        sb = [lu(rng, 1e-3, 1e3) if rng.random() < 0.7 else 2.0 ** rng.randint(-8, 8) for _ in range(m)]
        res_s = impl_qel(lam, dt, unit, [a * s for a, s in zip(bis, sa)], [b * s for b, s in zip(bfs, sb)], beam_unit=beam_unit)
        rq = rand_quat(rng)
        rvar, rm = rot_var(rq), rot_matrix(rq)
        bi_v = sc.vectors(dims=['x'], values=np.array(bis), unit=beam_unit)
        bf_v = sc.vectors(dims=['x'], values=np.array(bfs), unit=beam_unit)
        rbi, rbf = np.array((rvar * bi_v).values), np.array((rvar * bf_v).values)
        res_r = impl_qel(lam, dt, unit, list(rbi), list(rbf), beam_unit=beam_unit)
        qs = None
        if BL is not None:
            try:
                tt = BL.two_theta(incident_beam=bi_v, scattered_beam=bf_v)
                w = sc.array(dims=['x'], values=np.array(lam, dtype=dt), unit=unit, dtype=dt)
                qs_var = K.Q_from_wavelength(wavelength=w, two_theta=tt)
                qs = np.asarray(qs_var.values, dtype=np.float64)
                qs_u = 2.0 ** -24 if str(qs_var.dtype) == 'float32' else U64  # Q_from_wavelength follows the wavelength dtype
            except Exception:  # noqa: BLE001
                qs = None
        fm = fmat(rm)
        for i in range(m):
            wit = {'op': 'qel', 'lambda': bits(lam[i]), 'dtype': dt, 'unit': unit, 'kind': kinds[i], 'beam_unit': beam_unit,
                   'bi': [bits(x) for x in bis[i]], 'bf': [bits(x) for x in bfs[i]]}
            ctx.case(('oracle-q', wit['lambda'], tuple(wit['bi']), tuple(wit['bf']), dt, unit), True)
            ctx.count('oracle-q:' + kinds[i])
            got = [float(x) for x in vals[i]]
            for key, what, ex in _check_q_point(lam[i], dt, unit, bis[i], bfs[i], got):
                ctx.violation(key, what, dict(wit, **ex))
            if degenerate_beam(bis[i]) or degenerate_beam(bfs[i]):
                # undefined direction: the scalar Q of the same beams must not be finite either
                exact_zero = not np.asarray(bis[i]).any() or not np.asarray(bfs[i]).any()
                if exact_zero and qs is not None and math.isfinite(float(qs[i])):
                    ctx.violation('C08:q-norm-vs-scalar', f'zero-length beam but Q_from_wavelength(two_theta) = {float(qs[i])!r} is finite', wit)
                continue
            k = D(2 * PI) / D(Fraction(lam[i]))
            u = D(Fraction(u_res(dt)))
            if not isinstance(res_s, str):
                d = max(abs(D(Fraction(float(x))) - D(Fraction(y))) for x, y in zip(res_s[0][i], got))
                if d > 2 * Q_ULPS * u * k:
                    ctx.violation('C08:q-beam-length', f'Q changes by {float(d):.3e} when the beams are rescaled by {sa[i]!r}, {sb[i]!r}',
                                  dict(wit, sa=bits(sa[i]), sb=bits(sb[i])))
            if not isinstance(res_r, str):
                want = mv(fm, [Fraction(x) for x in got])
                d = max(abs(D(Fraction(float(x))) - D(y)) for x, y in zip(res_r[0][i], want))
                if d > 4 * Q_ULPS * u * k:
                    ctx.violation('C08:q-rotation', f'Q of the rotated beams differs from the rotated Q by {float(d):.3e}',
                                  dict(wit, quat=[bits(x) for x in rq]))
            if qs is not None:
                nq = D(sum(Fraction(x) * Fraction(x) for x in got)).sqrt()
                d = abs(nq - D(Fraction(float(qs[i]))))
                if d > 2 * Q_ULPS * u * k + D(Fraction(4 * qs_u)) * abs(D(Fraction(float(qs[i])))):
                    ctx.violation('C08:q-norm-vs-scalar', f'|Q_vec|={float(nq)!r} but Q_from_wavelength gives {float(qs[i])!r} for the same beams',
                                  wit)


def _hkl_residual(q, ub, rm, h):
    m = mm(fmat(rm), fmat(ub))
    hv = fvec(h)
    res = [2 * PI * a - Fraction(float(b)) for a, b in zip(mv(m, hv), q)]
    return norm2(res) / norm2(fvec(q))


def exact_solve(m, q):
    """x with m x = q, exact rational arithmetic (Cramer)"""
    (a, b, c), (d, e, f), (g, h, i) = m
    det = a * (e * i - f * h) - b * (d * i - f * g) + c * (d * h - e * g)
    adj = [[e * i - f * h, c * h - b * i, b * f - c * e],
           [f * g - d * i, a * i - c * g, c * d - a * f],
           [d * h - e * g, b * g - a * h, a * e - b * d]]
    return [sum(adj[r][k] * q[k] for k in range(3)) / det for r in range(3)]


def _judge_hkl(q, ub, rm, h, factor=Fraction(1)):
    """"to rounding" for the documented single closed-form inversion of R*UB → (key, what) or None.

    With s1 >= s2 >= s3 the singular values of R*UB, the determinant formed from cofactors carries a
    relative error of order u*s1^2/(s2 s3) (it is a sum of terms of size s1^3 that cancels down to
    s1 s2 s3), which scales hkl as a whole; both the residual and the forward error are therefore
    bounded by C*u*s1^2/(s2 s3) — equal to C*u*cond when only one singular value is small and up to
    C*u*cond^2 when two are.  C = 32 (observed maximum ≈ 3).

    `factor` converts unit(UB)*unit(hkl) into unit(Q): the statement checked is the physical one,
    2pi R UB hkl = Q with every quantity in its own unit."""
    if not all(math.isfinite(float(x)) for x in h):
        return ('C08:hkl-nonfinite', 'hkl has a non-finite component for a non-singular R*UB')
    mf = np.array(rm) @ np.array(ub)
    sv = np.linalg.svd(mf, compute_uv=False)
    cond, dk = det_cond(mf)
    if not any(float(x) != 0.0 for x in q):
        if any(float(x) != 0.0 for x in h):
            return ('C08:hkl-residual', f'Q = 0 but hkl = {[float(x) for x in h]!r}')
        return None
    m = mm(fmat(rm), fmat(ub))
    hv, qv = fvec(h), fvec(q)
    res = [2 * PI * factor * a - b for a, b in zip(mv(m, hv), qv)]
    rel = norm2(res) / norm2(qv)
    bound = HKL_C * dk * U64
    if rel > bound:
        return ('C08:hkl-residual', f'|2pi R UB hkl - Q|/|Q| = {rel:.3e} exceeds {HKL_C}*(s1^2/(s2 s3))*2^-53 = {bound:.3e} '
                                    f'(cond={cond:.3e}, s1^2/(s2 s3)={dk:.3e})')
    exact = [x / (2 * PI * factor) for x in exact_solve(m, qv)]
    ferr = norm2([a - b for a, b in zip(hv, exact)])
    fscale = norm2(qv) / float(sv[2]) / (2 * math.pi) / float(factor)   # |inv(R UB)| |Q| / 2pi, in the unit of hkl
    if ferr > bound * fscale:
        return ('C08:hkl-forward-error', f'|hkl - hkl_exact| = {ferr:.3e} exceeds {HKL_C}*(s1^2/(s2 s3))*2^-53*|inv(R UB)||Q|/2pi = '
                                         f'{bound * fscale:.3e} (cond={cond:.3e})')
    return None


def _oracle_hkl(ctx, n):
    import scipp as sc
    from scippneutron.conversion import tof as K

    rng = ctx.rng
    for _ in range(n):
        uq, rq = rand_quat(rng), rand_quat(rng)
        u_rot, r_rot = rng.random() < 0.5, rng.random() < 0.5
        b, bkind = b_matrix(rng)
        q = rand_dir(rng) * lu(rng, 0.01, 100)
        um, rm = rot_matrix(uq), rot_matrix(rq)
        wit = {'op': 'hkl', 'uq': [bits(x) for x in uq], 'rq': [bits(x) for x in rq], 'u_rot': u_rot, 'r_rot': r_rot,
               'b': [bits(x) for x in b.ravel()], 'q': [bits(x) for x in q], 'bkind': bkind,
               'b_unit': rng.choice(B_UNITS), 'q_unit': rng.choice(Q_UNITS)}
        ctx.case(('oracle-hkl', tuple(wit['uq']), tuple(wit['rq']), tuple(wit['b']), tuple(wit['q']), wit['b_unit'], wit['q_unit']), True)
        ctx.count('oracle-hkl:' + bkind)
        ctx.count(f"oracle-hkl-units:B {wit['b_unit']}|Q {wit['q_unit']}")
        _hkl_point(ctx, wit)


def _oracle_hkl_arrays(ctx, n):
    """array operands: arrays of U, B, R, Q evaluated in one call must equal, element for element and bit for
    bit, the scalar calls (and therefore inherit their residual bounds); also Q array with scalar matrices"""
    import scipp as sc
    from scippneutron.conversion import tof as K

    rng = ctx.rng
    for _ in range(n):
        m = rng.randint(2, 6)
        uqs, rqs = [rand_quat(rng) for _ in range(m)], [rand_quat(rng) for _ in range(m)]
        bs = [b_matrix(rng)[0] for _ in range(m)]
        qs = [rand_dir(rng) * lu(rng, 0.01, 100) for _ in range(m)]
        shared = rng.random() < 0.5   # one crystal / one goniometer setting, many Q
        wit = {'op': 'hkl-array', 'uq': [[bits(x) for x in q] for q in uqs], 'rq': [[bits(x) for x in q] for q in rqs],
               'b': [[bits(x) for x in b.ravel()] for b in bs], 'q': [[bits(x) for x in q] for q in qs], 'shared': shared}
        ctx.case(('oracle-hkl-array', shared, tuple(tuple(w) for w in wit['q']), tuple(tuple(w) for w in wit['b'])), True)
        ctx.count('oracle-hkl-array:' + ('shared' if shared else 'per-element'))
        try:
            if shared:
                U, B, R = rot_var(uqs[0]), sc.spatial.linear_transform(value=bs[0], unit='1/angstrom'), rot_var(rqs[0])
            else:
                U = sc.spatial.rotations(dims=['x'], values=np.array(uqs))
                B = sc.spatial.linear_transforms(dims=['x'], values=np.array(bs), unit='1/angstrom')
                R = sc.spatial.rotations(dims=['x'], values=np.array(rqs))
            Q = sc.vectors(dims=['x'], values=np.array(qs), unit='1/angstrom')
            UB = K.ub_matrix_from_u_and_b(u_matrix=U, b_matrix=B)
            H = K.hkl_vec_from_Q_vec(Q_vec=Q, ub_matrix=UB, sample_rotation=R)
            el = K.hkl_elements_from_hkl_vec(hkl_vec=H)
            hv = np.array(H.values).reshape(m, 3)
            ubs = np.array(UB.values).reshape(-1, 3, 3)
            comps = np.stack([np.asarray(el[k].values) for k in ('h', 'k', 'l')], axis=1)
        except Exception as e:  # noqa: BLE001
            ctx.violation('C08:hkl-raises', f'array operands raised {_err(e)}', wit)
            continue
        if dict(H.sizes) != {'x': m} or not np.array_equal(comps, hv):
            ctx.violation('C08:split-lossy', 'h, k, l are not the components of the hkl array', wit)
        for i in range(m):
            j = 0 if shared else i
            ubv = impl_ub(uqs[j], True, bs[j])
            one = impl_hkl(qs[i], ubv, rqs[j], True)
            if isinstance(ubv, str) or isinstance(one, str):
                continue
            if not (np.array_equal(np.array(ubv.value), ubs[j if not shared else 0]) and np.array_equal(np.array(one.value), hv[i])):
                ctx.violation('C08:hkl-array-vs-scalar', f'element {i} of the array evaluation differs from the scalar evaluation', dict(wit, index=i))


def _oracle_split(ctx, n):
    import scipp as sc
    from scippneutron.conversion import tof as K

    rng = ctx.rng
    for _ in range(n):
        kind, sx, sy, sz = qvec_case(rng)
        dts = comp_dtypes(rng)
        x, y, z = make_var(sx, 1.0, dts[0]), make_var(sy, 101.0, dts[1]), make_var(sz, 201.0, dts[2])
        wit = {'op': 'qvec', 'kind': kind, 'x': list(map(list, sx)), 'y': list(map(list, sy)), 'z': list(map(list, sz)), 'dtypes': dts}
        ctx.case(('oracle-qvec', kind, tuple(sx), tuple(sy), tuple(sz), tuple(dts)), True)
        ctx.count('oracle-qvec:' + kind)
        same = dict(sx) == dict(sy) == dict(sz)
        try:
            v = K.Q_vec_from_Q_elements(Qx=x, Qy=y, Qz=z)
        except sc.DimensionError:
            if same:
                ctx.violation('C08:guard', 'DimensionError although Qx, Qy, Qz have the same sizes', wit)
            continue
        except Exception as e:  # noqa: BLE001
            ctx.violation('C08:guard', f'{_err(e)} instead of a result / DimensionError', wit)
            continue
        if not same:
            ctx.violation('C08:guard', f'no DimensionError although the sizes differ; result sizes {dict(v.sizes)}', wit)
            continue
        # vector3 holds float64: the components come back as the (exactly converted) float64 values
        ok = (v.dims == x.dims and str(v.dtype) == 'vector3' and sc.identical(v.fields.x, f64(x))
              and sc.identical(v.fields.y, f64(y.transpose(x.dims) if x.dims else y))
              and sc.identical(v.fields.z, f64(z.transpose(x.dims) if x.dims else z)))
        if ok:
            el = K.hkl_elements_from_hkl_vec(hkl_vec=v)
            ok = sc.identical(el['h'], v.fields.x) and sc.identical(el['k'], v.fields.y) and sc.identical(el['l'], v.fields.z)
            if ok:
                back = K.Q_vec_from_Q_elements(Qx=el['h'], Qy=el['k'], Qz=el['l'])
                ok = sc.identical(back, v)
        if not ok:
            ctx.violation('C08:split-lossy', 'splitting and reassembling is not the identity', wit)


def _oracle_graph(ctx, n):
    """end to end through the graph: wavelength, beams, U, B, R -> Q_vec, hkl_vec, h, k, l"""
    import scipp as sc

    from scippneutron.conversion.graph import tof as G

    rng = ctx.rng
    for _ in range(n):
        m = rng.randint(1, 5)
        wl_unit, beam_unit, b_unit = rng.choice(WL_UNITS), rng.choice(BEAM_UNITS), rng.choice(B_UNITS)
        lam = [lu(rng, 0.01, 100) * WL_PER_ANGSTROM[wl_unit] for _ in range(m)]
        pairs = [beam_pair(rng) for _ in range(m)]
        bis, bfs = [p[1] for p in pairs], [p[2] for p in pairs]
        uq, rq = rand_quat(rng), rand_quat(rng)
        b, bkind = b_matrix(rng)
        da = sc.DataArray(sc.ones(dims=['x'], shape=[m]), coords={
            'wavelength': sc.array(dims=['x'], values=lam, unit=wl_unit),
            'incident_beam': sc.vectors(dims=['x'], values=np.array(bis), unit=beam_unit),
            'scattered_beam': sc.vectors(dims=['x'], values=np.array(bfs), unit=beam_unit),
            'u_matrix': rot_var(uq), 'b_matrix': sc.spatial.linear_transform(value=b, unit=b_unit),
            'sample_rotation': rot_var(rq)})
        wit = {'op': 'graph', 'lambda': [bits(x) for x in lam], 'bi': [[bits(x) for x in v] for v in bis],
               'bf': [[bits(x) for x in v] for v in bfs], 'uq': [bits(x) for x in uq], 'rq': [bits(x) for x in rq],
               'b': [bits(x) for x in b.ravel()], 'wl_unit': wl_unit, 'beam_unit': beam_unit, 'b_unit': b_unit}
        ctx.case(('oracle-graph', tuple(wit['lambda']), tuple(wit['uq']), tuple(wit['b']), wl_unit, beam_unit, b_unit), True)
        ctx.count(f'oracle-graph:{wl_unit}/{beam_unit}/B {b_unit}')
        try:
            out = da.transform_coords(['Q_vec', 'hkl_vec', 'h', 'k', 'l'], graph=G.elastic_hkl('wavelength'), keep_intermediate=True)
            qv = np.array(out.coords['Q_vec'].values).reshape(m, 3)
            hk = np.array(out.coords['hkl_vec'].values).reshape(m, 3)
            ub = np.array(out.coords['ub_matrix'].value)
            ub_unit, h_unit, q_unit = out.coords['ub_matrix'].unit, out.coords['hkl_vec'].unit, out.coords['Q_vec'].unit
            comps = np.stack([np.asarray(out.coords[k].values) for k in ('h', 'k', 'l')], axis=1)
        except Exception as e:  # noqa: BLE001
            ctx.violation('C08:graph-raises', f'transform_coords with elastic_hkl raised {_err(e)}', wit)
            continue
        rm = rot_matrix(rq)
        if not np.array_equal(comps, hk):
            ctx.violation('C08:split-lossy', 'h, k, l of the graph are not the components of hkl_vec', wit)
        if unit_factor(q_unit, sc.Unit('one') / sc.Unit(wl_unit)) != 1:
            ctx.violation('C08:q-unit', f'Q_vec of the graph has unit {q_unit} for a wavelength in {wl_unit}', wit)
        if unit_factor(ub_unit, b_unit) != 1:
            ctx.violation('C08:ub-product', f'ub_matrix of the graph has unit {ub_unit} for B in {b_unit}', wit)
        factor = unit_factor(ub_unit * h_unit, q_unit)
        chain = unit_factor(sc.Unit(b_unit) * h_unit, q_unit)
        if factor is None or chain is None:
            ctx.violation('C08:hkl-unit', f'unit(UB)*unit(hkl) = {ub_unit * h_unit} / unit(B)*unit(hkl) is not convertible to unit(Q) = {q_unit}', wit)
            continue
        um = rot_matrix(uq)
        for i in range(m):
            for key, what, ex in _check_q_point(lam[i], 'float64', wl_unit, bis[i], bfs[i], [float(x) for x in qv[i]]):
                ctx.violation(key, what + ' (through the graph)', dict(wit, index=i))
            j = _judge_hkl(qv[i], ub, rm, hk[i], factor)
            if j:
                ctx.violation(j[0], j[1] + ' (through the graph)', dict(wit, index=i))
            jc = _judge_hkl(qv[i], um @ b, rm, hk[i], chain)
            if jc:
                ctx.violation('C08:hkl-chain', f'2pi R U B hkl = Q fails in physical units through the graph (B in {b_unit}, Q in {q_unit}, '
                              f'hkl in {h_unit}): ' + jc[1], dict(wit, index=i))


def _hkl_point(ctx, wit):
    """UB = U*B, hkl residual and components for one (U, B, R, Q) given as a witness dict"""
    import scipp as sc
    from scippneutron.conversion import tof as K

    uq = np.array([unbits(x) for x in wit['uq']])
    rq = np.array([unbits(x) for x in wit['rq']])
    b = np.array([unbits(x) for x in wit['b']]).reshape(3, 3)
    q = np.array([unbits(x) for x in wit['q']])
    um, rm = rot_matrix(uq), rot_matrix(rq)
    b_unit, q_unit = wit.get('b_unit', '1/angstrom'), wit.get('q_unit', '1/angstrom')
    ubv = impl_ub(uq, wit['u_rot'], b, b_unit)
    if isinstance(ubv, str):
        ctx.violation('C08:ub-raises', f'ub_matrix_from_u_and_b raised {ubv}', wit)
        return
    ub = np.array(ubv.value)
    exact = mm(fmat(um), fmat(b))
    bound = 8 * U64 * (np.abs(um) @ np.abs(b))
    bad = [(i, j) for i in range(3) for j in range(3) if abs(Fraction(float(ub[i, j])) - exact[i][j]) > Fraction(float(bound[i, j]))]
    # UB = U*B as a physical quantity: U is dimensionless, so UB carries the unit of B with the numbers of U*B
    if bad or unit_factor(ubv.unit, b_unit) != 1:
        ctx.violation('C08:ub-product', f'UB is not U*B (entries {bad}; unit {ubv.unit} for B in {b_unit})', wit)
    hv = impl_hkl(q, ubv, rq, wit['r_rot'], q_unit)
    if isinstance(hv, str):
        ctx.violation('C08:hkl-raises', f'hkl_vec_from_Q_vec raised {hv}', wit)
        return
    h = np.array(hv.value, dtype=np.float64)
    factor = unit_factor(ubv.unit * hv.unit, q_unit)
    if factor is None:
        ctx.violation('C08:hkl-unit', f'unit(UB)*unit(hkl) = {ubv.unit * hv.unit} is not convertible to unit(Q) = {q_unit}', wit)
        return
    j = _judge_hkl(q, ub, rm, h, factor)
    if j:
        ctx.violation(j[0], j[1], wit)
    # the whole chain in physical terms, from the OPERANDS: 2pi R (U B [unit of B]) hkl [unit of hkl] = Q [unit of Q]
    cf = unit_factor(sc.Unit(b_unit) * hv.unit, q_unit)
    if cf is None:
        ctx.violation('C08:hkl-chain', f'unit(B)*unit(hkl) = {sc.Unit(b_unit) * hv.unit} is not convertible to unit(Q) = {q_unit}', wit)
    else:
        jc = _judge_hkl(q, um @ b, rm, h, cf)
        if jc:
            ctx.violation('C08:hkl-chain', f'2pi R U B hkl = Q fails in physical units (B in {b_unit}, Q in {q_unit}, hkl in {hv.unit}): ' + jc[1], wit)
    try:
        el = K.hkl_elements_from_hkl_vec(hkl_vec=hv)
        if [float(el[k].value) for k in ('h', 'k', 'l')] != [float(x) for x in h]:
            ctx.violation('C08:split-lossy', 'hkl_elements_from_hkl_vec does not return the components of hkl_vec', wit)
    except Exception as e:  # noqa: BLE001
        ctx.violation('C08:split-lossy', f'hkl_elements_from_hkl_vec raised {_err(e)}', wit)


def _oracle_corpus(ctx):
    """minimised past findings (corpus/C08/*.json), always evaluated first"""
    import glob
    import json
    import os

    base = os.path.join(os.path.dirname(os.path.dirname(os.path.dirname(os.path.abspath(__file__)))), 'corpus', 'C08')
    for path in sorted(glob.glob(os.path.join(base, '*.json'))):
        with open(path) as f:
            for w in json.load(f):
                if w.get('op') == 'hkl':
                    ctx.count('corpus')
                    ctx.case(('corpus', tuple(w['uq']), tuple(w['rq']), tuple(w['b']), tuple(w['q'])), True)
                    _hkl_point(ctx, w)


# ---- call sequences (history independence) ----------------------------------------------------

SEQ_PATTERNS = ['same-UB-diff-R', 'same-UB-diff-R', 'same-R-diff-UB', 'same-Q-diff-both', 'repeat', 'array-then-scalar',
                'same-UB-value-new-object']


def gen_hkl_sequence(rng):
    """2-4 calls of hkl_vec_from_Q_vec that share one operand and vary another (a goniometer scan keeps UB and
    changes R; a crystal change keeps R; ...).  A call = dict(ub=3x3 floats, ubid=object identity tag, rq, r_rot, q)."""
    pattern = rng.choice(SEQ_PATTERNS)
    n = 2 if pattern == 'repeat' else rng.randint(2, 4)

    def new_ub():
        b, _ = b_matrix(rng)
        return rot_matrix(rand_quat(rng)) @ b

    def new_q(array=False):
        if array:
            return np.array([rand_dir(rng) * lu(rng, 0.01, 100) for _ in range(rng.randint(2, 4))])
        return rand_dir(rng) * lu(rng, 0.01, 100)

    ub0, rq0, q0 = new_ub(), rand_quat(rng), new_q()
    r_rot = rng.random() < 0.5
    calls = []
    for i in range(n):
        if pattern in ('same-UB-diff-R', 'same-UB-value-new-object'):
            c = dict(ub=ub0, ubid=0 if pattern == 'same-UB-diff-R' else i, rq=rand_quat(rng), q=q0 if rng.random() < 0.5 else new_q())
        elif pattern == 'same-R-diff-UB':
            c = dict(ub=new_ub(), ubid=i, rq=rq0, q=q0 if rng.random() < 0.5 else new_q())
        elif pattern == 'same-Q-diff-both':
            c = dict(ub=new_ub(), ubid=i, rq=rand_quat(rng), q=q0)
        elif pattern == 'repeat':
            c = dict(ub=ub0, ubid=0, rq=rq0, q=q0)
        else:  # array-then-scalar: a chunk of Q vectors, then single vectors at other goniometer settings, same UB
            c = dict(ub=ub0, ubid=0, rq=rand_quat(rng), q=new_q(array=(i == 0)))
        c['r_rot'] = r_rot
        calls.append(c)
    return pattern, calls


def run_hkl_sequence(calls, order=None):
    """execute the calls in the given order on the real code; operands with the same `ubid` are the same
    Variable object.  Returns {call index: result array (k,3) | error string}"""
    import scipp as sc
    from scippneutron.conversion import tof as K

    ub_objs = {}
    out = {}
    for i in (order if order is not None else range(len(calls))):
        c = calls[i]
        if c['ubid'] not in ub_objs:
            ub_objs[c['ubid']] = sc.spatial.linear_transform(value=np.array(c['ub']), unit='1/angstrom')
        q = np.array(c['q'])
        qv = sc.vector(q, unit='1/angstrom') if q.ndim == 1 else sc.vectors(dims=['x'], values=q, unit='1/angstrom')
        try:
            r = K.hkl_vec_from_Q_vec(Q_vec=qv, ub_matrix=ub_objs[c['ubid']], sample_rotation=_rot_or_matrix(np.array(c['rq']), c['r_rot']))
            out[i] = np.array(r.values, dtype=np.float64).reshape(-1, 3)
        except Exception as e:  # noqa: BLE001
            out[i] = _err(e)
    return out


def seq_witness(pattern, calls):
    return {'op': 'hkl-seq', 'pattern': pattern,
            'calls': [{'ub': [bits(x) for x in np.array(c['ub']).ravel()], 'ubid': c['ubid'], 'rq': [bits(x) for x in c['rq']],
                       'r_rot': c['r_rot'], 'q': [[bits(x) for x in row] for row in np.array(c['q']).reshape(-1, 3)],
                       'q_scalar': np.array(c['q']).ndim == 1} for c in calls]}


def calls_from_witness(w):
    calls = []
    for c in w['calls']:
        q = np.array([[unbits(x) for x in row] for row in c['q']])
        calls.append(dict(ub=np.array([unbits(x) for x in c['ub']]).reshape(3, 3), ubid=c['ubid'],
                          rq=np.array([unbits(x) for x in c['rq']]), r_rot=c['r_rot'], q=q[0] if c['q_scalar'] else q))
    return calls


def judge_hkl_sequence(calls):
    """→ list of (what, call index): every call of the sequence must satisfy the hkl criterion for ITS OWN arguments,
    and must give bit-identical results whether the sequence is run forwards or backwards (a pure function)."""
    found = []
    fwd = run_hkl_sequence(calls)
    for i, c in enumerate(calls):
        if isinstance(fwd[i], str):
            found.append((f'call {i} of the sequence raised {fwd[i]}', i))
            continue
        rm = rot_matrix(np.array(c['rq']))
        for row, h in zip(np.array(c['q']).reshape(-1, 3), fwd[i]):
            j = _judge_hkl(row, np.array(c['ub']), rm, h)
            if j:
                found.append((f'call {i} of the sequence (after {i} earlier call(s)) is wrong for its own arguments: {j[1]}', i))
                break
    rev = run_hkl_sequence(calls, order=list(reversed(range(len(calls)))))
    for i in range(len(calls)):
        a, b = fwd[i], rev[i]
        same = (a == b) if isinstance(a, str) or isinstance(b, str) else np.array_equal(a, b)
        if not same:
            found.append((f'call {i} returns a different result when the sequence is executed in reverse order', i))
    return found


def _oracle_sequences(ctx, n):
    import scipp as sc
    from scippneutron.conversion import tof as K

    rng = ctx.rng
    for _ in range(n):
        pattern, calls = gen_hkl_sequence(rng)
        w = seq_witness(pattern, calls)
        ctx.case(('oracle-hkl-seq', pattern, tuple(tuple(c['ub']) for c in w['calls']), tuple(tuple(c['rq']) for c in w['calls'])), True)
        ctx.count('oracle-seq:hkl:' + pattern)
        found = judge_hkl_sequence(calls)
        if found:
            ctx.violation('C08:history-dependent', 'hkl_vec_from_Q_vec: ' + found[0][0], dict(w, failing_call=found[0][1]))
    # Q_elements_from_wavelength and ub_matrix_from_u_and_b: shared operand objects, forwards vs backwards
    for _ in range(max(1, n // 4)):
        m = rng.randint(2, 4)
        kd, bi, bf = beam_pair(rng)
        bi_v, bf_v = sc.vector(bi, unit='m'), sc.vector(bf, unit='m')
        share = rng.choice(['beams', 'wavelength', 'incident'])
        lam0 = lu(rng, 0.01, 100)
        qcalls = []
        for i in range(m):
            lam = lam0 if share == 'wavelength' else lu(rng, 0.01, 100)
            if share == 'beams' or i == 0:
                a, b, av, bv = bi, bf, bi_v, bf_v
            elif share == 'incident':
                _, _, b = beam_pair(rng)
                a, av, bv = bi, bi_v, sc.vector(b, unit='m')
            else:
                _, a, b = beam_pair(rng)
                av, bv = sc.vector(a, unit='m'), sc.vector(b, unit='m')
            qcalls.append((lam, a, b, av, bv))
        ctx.case(('oracle-q-seq', share, tuple(bits(c[0]) for c in qcalls), tuple(bits(x) for x in bi)), True)
        ctx.count('oracle-seq:qel:' + share)

        def run_q(order):
            res = {}
            for i in order:
                lam, a, b, av, bv = qcalls[i]
                try:
                    r = K.Q_elements_from_wavelength(wavelength=sc.scalar(lam, unit='angstrom'), incident_beam=av, scattered_beam=bv)
                    res[i] = [float(r[k].value) for k in ('Qx', 'Qy', 'Qz')]
                except Exception as e:  # noqa: BLE001
                    res[i] = _err(e)
            return res

        fwd, rev = run_q(range(m)), run_q(reversed(range(m)))
        wit = {'op': 'qel-seq', 'share': share, 'calls': [{'lambda': bits(c[0]), 'bi': [bits(x) for x in c[1]], 'bf': [bits(x) for x in c[2]]} for c in qcalls]}
        for i, (lam, a, b, _, _) in enumerate(qcalls):
            if isinstance(fwd[i], str):
                ctx.violation('C08:history-dependent', f'Q_elements_from_wavelength: call {i} of the sequence raised {fwd[i]}', dict(wit, failing_call=i))
                break
            bad = _check_q_point(lam, 'float64', 'angstrom', a, b, fwd[i])
            if bad or fwd[i] != rev[i]:
                what = bad[0][1] if bad else 'different result when the sequence is executed in reverse order'
                ctx.violation('C08:history-dependent', f'Q_elements_from_wavelength: call {i} of the sequence: {what}', dict(wit, failing_call=i))
                break
        # U*B with a shared U and varying B, and a shared B with varying U
        share_u = rng.random() < 0.5
        uq0, b0 = rand_quat(rng), b_matrix(rng)[0]
        u_obj, b_obj = rot_var(uq0), sc.spatial.linear_transform(value=b0, unit='1/angstrom')
        ucalls = []
        for i in range(m):
            if share_u:
                bb = b_matrix(rng)[0]
                ucalls.append((uq0, bb, u_obj, sc.spatial.linear_transform(value=bb, unit='1/angstrom')))
            else:
                uq = rand_quat(rng)
                ucalls.append((uq, b0, rot_var(uq), b_obj))
        ctx.case(('oracle-ub-seq', share_u, tuple(bits(x) for x in uq0), tuple(bits(x) for x in b0.ravel())), True)
        ctx.count('oracle-seq:ub:' + ('shared-U' if share_u else 'shared-B'))

        def run_u(order):
            res = {}
            for i in order:
                try:
                    res[i] = np.array(K.ub_matrix_from_u_and_b(u_matrix=ucalls[i][2], b_matrix=ucalls[i][3]).value)
                except Exception as e:  # noqa: BLE001
                    res[i] = _err(e)
            return res

        fwd, rev = run_u(range(m)), run_u(reversed(range(m)))
        for i, (uq, bb, _, _) in enumerate(ucalls):
            wit = {'op': 'ub-seq', 'shared': 'U' if share_u else 'B', 'failing_call': i,
                   'calls': [{'uq': [bits(x) for x in c[0]], 'b': [bits(x) for x in c[1].ravel()]} for c in ucalls]}
            if isinstance(fwd[i], str):
                ctx.violation('C08:history-dependent', f'ub_matrix_from_u_and_b: call {i} of the sequence raised {fwd[i]}', wit)
                break
            um = rot_matrix(uq)
            exact = mm(fmat(um), fmat(bb))
            bound = 8 * U64 * (np.abs(um) @ np.abs(bb))
            bad = any(abs(Fraction(float(fwd[i][r, c])) - exact[r][c]) > Fraction(float(bound[r, c])) for r in range(3) for c in range(3))
            if bad or not np.array_equal(fwd[i], rev[i]):
                ctx.violation('C08:history-dependent', f'ub_matrix_from_u_and_b: call {i} of the sequence is not U*B of its own arguments '
                              'or depends on the order of execution', wit)
                break


# ---- operand shapes ----------------------------------------------------------------------------

class Operand:
    """an operand with labelled dims: numpy values (dims..., item shape), the scipp variable (possibly a transposed,
    non-contiguous view) and element access by dimension label"""

    def __init__(self, dims, sizes, values, var, transposed=False):
        self.dims, self.sizes, self.values, self.var, self.transposed = list(dims), dict(sizes), values, var, transposed

    def at(self, idx):
        if not self.dims:
            return self.values
        return self.values[tuple(idx[d] for d in self.dims)]

    def witness(self):
        return {'dims': self.dims, 'shape': [self.sizes[d] for d in self.dims], 'transposed': self.transposed,
                'values': [bits(x) for x in np.asarray(self.values, dtype=np.float64).ravel()]}


def _mk_operand(kind, dims, sizes, values, unit, transposed=False, quats=None):
    """kind: 'scalar' (wavelength), 'vector', 'matrix', 'rotation' (values = matrices, quats = quaternions)"""
    import scipp as sc

    shape = [sizes[d] for d in dims]
    order = list(reversed(dims)) if (transposed and len(dims) >= 2) else list(dims)

    def arrange(a, item_ndim):
        # store in `order`, then present as a transposed view in `dims`
        if order == list(dims):
            return a
        perm = [dims.index(d) for d in order] + [len(dims) + i for i in range(item_ndim)]
        return np.ascontiguousarray(np.transpose(a, perm))

    if kind == 'scalar':
        var = sc.array(dims=order, values=arrange(values, 0), unit=unit) if dims else sc.scalar(float(values), unit=unit)
    elif kind == 'vector':
        var = sc.vectors(dims=order, values=arrange(values, 1), unit=unit) if dims else sc.vector(values, unit=unit)
    elif kind == 'matrix':
        var = (sc.spatial.linear_transforms(dims=order, values=arrange(values, 2), unit=unit) if dims
               else sc.spatial.linear_transform(value=values, unit=unit))
    else:
        var = sc.spatial.rotations(dims=order, values=arrange(quats, 1)) if dims else sc.spatial.rotation(value=quats)
    if dims and order != list(dims):
        var = var.transpose(dims)
    return Operand(dims, sizes, values, var, transposed and len(dims) >= 2)


def operand_from_witness(kind, w, unit):
    sizes = dict(zip(w['dims'], w['shape']))
    item = {'scalar': (), 'vector': (3,), 'matrix': (3, 3)}[kind]
    vals = np.array([unbits(x) for x in w['values']]).reshape(tuple(w['shape']) + item)
    if kind == 'scalar' and not w['dims']:
        vals = float(vals)
    return _mk_operand(kind, w['dims'], sizes, vals, unit, w['transposed'])


Q_SHAPE_PATTERNS = ['all-0d', 'scattered-per-pixel', 'incident-extra-dim', 'incident-extra-dim', 'scattered-extra-dim',
                    'outer-product', 'same-dims-transposed', 'wavelength-own-dims', 'random', 'random']


def _subset(rng, pool):
    dims = [d for d in pool if rng.random() < 0.5]
    rng.shuffle(dims)
    return dims


def gen_q_shapes(rng):
    """wavelength, incident_beam, scattered_beam with independently chosen dims"""
    pattern = rng.choice(Q_SHAPE_PATTERNS)
    sizes = {d: rng.randint(1, 3) for d in ('pixel', 'run', 'wl')}
    tr = {'w': False, 'bi': False, 'bf': False}
    if pattern == 'all-0d':
        dw, di, df = [], [], []
    elif pattern == 'scattered-per-pixel':
        dw, di, df = rng.choice([[], ['pixel'], ['wl']]), [], ['pixel']
    elif pattern == 'incident-extra-dim':       # per-run incident beam, per-pixel (or 0-d) scattered beam
        dw, di, df = rng.choice([[], ['wl']]), ['run'], rng.choice([['pixel'], []])
    elif pattern == 'scattered-extra-dim':
        dw, di, df = [], ['run'], ['run', 'pixel']
    elif pattern == 'outer-product':
        dw, di, df = ['wl'], ['run'], ['pixel']
    elif pattern == 'same-dims-transposed':
        dw, di, df = rng.choice([[], ['pixel', 'run']]), ['run', 'pixel'], ['pixel', 'run']
        tr = {'w': rng.random() < 0.5, 'bi': rng.random() < 0.5, 'bf': True}
    elif pattern == 'wavelength-own-dims':
        dw, di, df = ['pixel', 'wl'], [], ['pixel']
        tr['w'] = rng.random() < 0.5
    else:
        dw, di, df = _subset(rng, ['pixel', 'run', 'wl']), _subset(rng, ['pixel', 'run']), _subset(rng, ['pixel', 'run'])
        tr = {k: rng.random() < 0.3 for k in tr}

    def beams(dims):
        shape = [sizes[d] for d in dims]
        n = int(np.prod(shape)) if shape else 1
        a = np.array([beam_pair(rng, degenerate=True)[1 + (i % 2)] for i in range(n)]).reshape([*shape, 3])
        return a if dims else a.reshape(3)

    shape_w = [sizes[d] for d in dw]
    lam = np.array([lu(rng, 0.01, 100) for _ in range(int(np.prod(shape_w)) if shape_w else 1)]).reshape(shape_w)
    w = _mk_operand('scalar', dw, sizes, lam if dw else float(lam), 'angstrom', tr['w'])
    bi = _mk_operand('vector', di, sizes, beams(di), 'm', tr['bi'])
    bf = _mk_operand('vector', df, sizes, beams(df), 'm', tr['bf'])
    return pattern, sizes, w, bi, bf


def _all_indices(dims, sizes):
    import itertools

    return [dict(zip(dims, t)) for t in itertools.product(*[range(sizes[d]) for d in dims])]


def eval_q_shapes(w, bi, bf):
    """real kernel on shaped operands → (result dims, {index tuple: [Qx,Qy,Qz]}) or error string"""
    from scippneutron.conversion import tof as K

    try:
        r = K.Q_elements_from_wavelength(wavelength=w.var, incident_beam=bi.var, scattered_beam=bf.var)
    except Exception as e:  # noqa: BLE001
        return _err(e)
    rdims = list(r['Qx'].dims)
    if any(list(r[k].dims) != rdims for k in ('Qy', 'Qz')):
        return 'err:component-dims'
    comps = [np.asarray(r[k].values, dtype=np.float64) for k in ('Qx', 'Qy', 'Qz')]
    sizes = dict(r['Qx'].sizes)
    return rdims, sizes, {tuple(i[d] for d in rdims): [float(c[tuple(i[d] for d in rdims)]) if rdims else float(c) for c in comps]
                          for i in _all_indices(rdims, sizes)}


def judge_q_shapes(pattern, sizes, w, bi, bf):
    """→ list of (key, what, extra)"""
    res = eval_q_shapes(w, bi, bf)
    if isinstance(res, str):
        return [('C08:q-raises', f'Q_elements_from_wavelength raised {res} for operand dims {w.dims}/{bi.dims}/{bf.dims}', {})]
    rdims, rsizes, vals = res
    want = set(w.dims) | set(bi.dims) | set(bf.dims)
    if set(rdims) != want or any(rsizes[d] != sizes[d] for d in rdims):
        return [('C08:q-shape', f'result dims {rdims} {rsizes}, expected the union {sorted(want)} of the operand dims', {})]
    for idx in _all_indices(rdims, rsizes):
        got = vals[tuple(idx[d] for d in rdims)]
        bad = _check_q_point(float(w.at(idx)), 'float64', 'angstrom', bi.at(idx), bf.at(idx), got)
        if bad:
            return [(bad[0][0], f'operand dims wavelength={w.dims} incident={bi.dims} scattered={bf.dims} ({pattern}), element {idx}: '
                     + bad[0][1], dict(bad[0][2], index=idx))]
    return []


def q_shape_witness(pattern, sizes, w, bi, bf):
    return {'op': 'qel-shape', 'pattern': pattern, 'sizes': sizes, 'w': w.witness(), 'bi': bi.witness(), 'bf': bf.witness()}


HKL_SHAPE_PATTERNS = ['all-0d', 'q-per-pixel', 'goniometer-scan', 'per-run-crystal', 'outer-product', 'transposed', 'random', 'random']


def gen_hkl_shapes(rng):
    """Q_vec, ub_matrix, sample_rotation with independently chosen dims"""
    pattern = rng.choice(HKL_SHAPE_PATTERNS)
    sizes = {d: rng.randint(1, 3) for d in ('pixel', 'run', 'scan')}
    tr = {'q': False, 'ub': False, 'r': False}
    if pattern == 'all-0d':
        dq, du, dr = [], [], []
    elif pattern == 'q-per-pixel':
        dq, du, dr = ['pixel'], [], []
    elif pattern == 'goniometer-scan':          # one crystal, R per scan point, Q per pixel (or 0-d)
        dq, du, dr = rng.choice([['pixel'], []]), [], ['scan']
    elif pattern == 'per-run-crystal':
        dq, du, dr = ['run', 'pixel'], ['run'], rng.choice([[], ['run']])
    elif pattern == 'outer-product':
        dq, du, dr = ['pixel'], ['run'], ['scan']
    elif pattern == 'transposed':
        dq, du, dr = ['pixel', 'run'], ['run', 'scan'], ['scan', 'run']
        tr = {'q': True, 'ub': rng.random() < 0.5, 'r': rng.random() < 0.5}
    else:
        dq, du, dr = _subset(rng, ['pixel', 'run', 'scan']), _subset(rng, ['run', 'scan']), _subset(rng, ['run', 'scan'])
        tr = {k: rng.random() < 0.3 for k in tr}

    def n_of(dims):
        shape = [sizes[d] for d in dims]
        return shape, (int(np.prod(shape)) if shape else 1)

    shq, nq = n_of(dq)
    qv = np.array([rand_dir(rng) * lu(rng, 0.01, 100) for _ in range(nq)]).reshape([*shq, 3])
    shu, nu = n_of(du)
    ubs = np.array([rot_matrix(rand_quat(rng)) @ b_matrix(rng)[0] for _ in range(nu)]).reshape([*shu, 3, 3])
    shr, nr = n_of(dr)
    quats = np.array([rand_quat(rng) for _ in range(nr)])
    rms = np.array([rot_matrix(q) for q in quats]).reshape([*shr, 3, 3])
    r_rot = rng.random() < 0.5
    q = _mk_operand('vector', dq, sizes, qv if dq else qv.reshape(3), '1/angstrom', tr['q'])
    ub = _mk_operand('matrix', du, sizes, ubs if du else ubs.reshape(3, 3), '1/angstrom', tr['ub'])
    if r_rot:
        r = _mk_operand('rotation', dr, sizes, rms if dr else rms.reshape(3, 3), None, tr['r'],
                        quats=quats.reshape([*shr, 4]) if dr else quats.reshape(4))
    else:
        r = _mk_operand('matrix', dr, sizes, rms if dr else rms.reshape(3, 3), 'dimensionless', tr['r'])
    return pattern, sizes, q, ub, r


def eval_hkl_shapes(q, ub, r):
    from scippneutron.conversion import tof as K

    try:
        h = K.hkl_vec_from_Q_vec(Q_vec=q.var, ub_matrix=ub.var, sample_rotation=r.var)
    except Exception as e:  # noqa: BLE001
        return _err(e)
    rdims, rsizes = list(h.dims), dict(h.sizes)
    vals = np.asarray(h.values, dtype=np.float64)
    return rdims, rsizes, {tuple(i[d] for d in rdims): (vals[tuple(i[d] for d in rdims)] if rdims else vals)
                           for i in _all_indices(rdims, rsizes)}


def judge_hkl_shapes(pattern, sizes, q, ub, r):
    res = eval_hkl_shapes(q, ub, r)
    if isinstance(res, str):
        return [('C08:hkl-raises', f'hkl_vec_from_Q_vec raised {res} for operand dims {q.dims}/{ub.dims}/{r.dims}', {})]
    rdims, rsizes, vals = res
    want = set(q.dims) | set(ub.dims) | set(r.dims)
    if set(rdims) != want or any(rsizes[d] != sizes[d] for d in rdims):
        return [('C08:hkl-shape', f'result dims {rdims} {rsizes}, expected the union {sorted(want)} of the operand dims', {})]
    for idx in _all_indices(rdims, rsizes):
        j = _judge_hkl(q.at(idx), ub.at(idx), r.at(idx), vals[tuple(idx[d] for d in rdims)])
        if j:
            return [(j[0], f'operand dims Q={q.dims} UB={ub.dims} R={r.dims} ({pattern}), element {idx}: ' + j[1], {'index': idx})]
    return []


def _oracle_shapes(ctx, n):
    rng = ctx.rng
    for _ in range(n):
        pattern, sizes, w, bi, bf = gen_q_shapes(rng)
        ctx.count('oracle-shape:q:' + pattern)
        wit = q_shape_witness(pattern, sizes, w, bi, bf)
        ctx.case(('oracle-q-shape', pattern, tuple(w.dims), tuple(bi.dims), tuple(bf.dims), tuple(wit['bf']['values'][:3]), tuple(wit['w']['values'][:1])), True)
        for key, what, ex in judge_q_shapes(pattern, sizes, w, bi, bf):
            ctx.violation(key, what, dict(wit, **ex))
    for _ in range(n):
        pattern, sizes, q, ub, r = gen_hkl_shapes(rng)
        ctx.count('oracle-shape:hkl:' + pattern)
        wit = {'op': 'hkl-shape', 'pattern': pattern, 'sizes': sizes, 'q': q.witness(), 'ub': ub.witness(), 'r': r.witness(),
               'r_is_rotation3': str(r.var.dtype) == 'rotation3'}
        ctx.case(('oracle-hkl-shape', pattern, tuple(q.dims), tuple(ub.dims), tuple(r.dims), tuple(wit['q']['values'][:3])), True)
        for key, what, ex in judge_hkl_shapes(pattern, sizes, q, ub, r):
            ctx.violation(key, what, dict(wit, **ex))


def oracle(ctx, deep):
    getcontext().prec = 60
    _oracle_corpus(ctx)
    if deep:
        _oracle_q(ctx, 150)
        _oracle_hkl(ctx, 1500)
        _oracle_hkl_arrays(ctx, 100)
        _oracle_sequences(ctx, 400)
        _oracle_shapes(ctx, 300)
        _oracle_split(ctx, 800)
        _oracle_graph(ctx, 60)
    else:
        _oracle_q(ctx, ctx.n(250, 6000))
        _oracle_hkl(ctx, ctx.n(3000, 100000))
        _oracle_hkl_arrays(ctx, ctx.n(150, 3000))
        _oracle_sequences(ctx, ctx.n(400, 8000))
        _oracle_shapes(ctx, ctx.n(400, 8000))
        _oracle_split(ctx, ctx.n(1000, 15000))
        _oracle_graph(ctx, ctx.n(150, 3000))


# ---- replay -----------------------------------------------------------------------------------

def replay(ctx, payload):
    import scipp as sc
    from scippneutron.conversion import tof as K

    getcontext().prec = 60
    w = payload.get('witness', {})
    key = payload.get('key', '')
    op = w.get('op')
    if op == 'qel' and key in ('C08:q-definition', 'C08:q-nonfinite', 'C08:q-raises', 'C08:q-unit', 'C08:q-degenerate-beam-finite'):
        lam = unbits(w['lambda'])
        bi = np.array([unbits(x) for x in w['bi']])
        bf = np.array([unbits(x) for x in w['bf']])
        res = impl_qel([lam], w['dtype'], w['unit'], [bi], [bf], beam_unit=w.get('beam_unit', 'm'))
        if isinstance(res, str):
            print('raised', res)
            return True
        found = _check_q_point(lam, w['dtype'], w['unit'], bi, bf, [float(x) for x in res[0][0]])
        for k, what, _ in found:
            print(k, '-', what)
        return bool(found) or any(not mt[1] for mt in res[1])
    if op == 'qel-shape':
        sizes = w['sizes']
        found = judge_q_shapes(w['pattern'], sizes, operand_from_witness('scalar', w['w'], 'angstrom'),
                               operand_from_witness('vector', w['bi'], 'm'), operand_from_witness('vector', w['bf'], 'm'))
        for k, what, _ in found:
            print(k, '-', what)
        return bool(found)
    if op == 'hkl-seq':
        found = judge_hkl_sequence(calls_from_witness(w))
        for what, i in found:
            print('C08:history-dependent -', what)
        return bool(found)
    if op == 'hkl':
        sub = type(ctx)(ctx.prop, 'quick', payload.get('seed', 0), ctx.repo)
        _hkl_point(sub, w)
        for v in sub.violations:
            print(v['key'], '-', v['what'])
        return bool(sub.violations)
    if op == 'qvec':
        dts = w.get('dtypes', ['float64'] * 3)
        x, y, z = (make_var([tuple(p) for p in w[k]], s, d) for (k, s), d in zip((('x', 1.0), ('y', 101.0), ('z', 201.0)), dts))
        same = dict(x.sizes) == dict(y.sizes) == dict(z.sizes)
        try:
            v = K.Q_vec_from_Q_elements(Qx=x, Qy=y, Qz=z)
        except sc.DimensionError:
            return same
        except Exception:  # noqa: BLE001
            return True
        if not same:
            return True
        el = K.hkl_elements_from_hkl_vec(hkl_vec=v)
        return not (sc.identical(el['h'], f64(x)) and sc.identical(el['k'], f64(y.transpose(x.dims) if x.dims else y))
                    and sc.identical(el['l'], f64(z.transpose(x.dims) if x.dims else z)))
    print('no specific replay for', key, '- re-running the oracle search')
    sub = type(ctx)(ctx.prop, 'quick', payload.get('seed', 0), ctx.repo)
    oracle(sub, False)
    return any(v['key'] == key for v in sub.violations)
