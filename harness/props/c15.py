"""C15 — XYE files round-trip coordinates and values exactly, uncertainties to rounding."""
from __future__ import annotations

import io
import itertools
import math
import os
import struct
import tempfile
import warnings
from decimal import Decimal
from fractions import Fraction

from ..translate import xye as tr_xye

PROP = 'C15'
LEAN_TARGETS = ['ScnVerif.Props.C15']
PROPS_FILE = 'ScnVerif/Props/C15.lean'
TRANSLATORS = [tr_xye.translate]
RULE = (
    'tables of 1..1e4 rows of finite float64 (uniform bit patterns, subnormals, extreme exponents, powers of ten, exact '
    'halfway cases of the 19-digit rounding j/2^k and their neighbours), variances >= 0; coordinate dtypes float64 / float32 / '
    'int64 (|x| <= 2^53) / int32 and data dtypes float64 / float32 (the model prints the exact value of each input and takes '
    'the square root in the precision of the data; datetime coordinates are refused with TypeError); headers: generated default, empty, '
    'random ASCII incl. newlines, "#", blanks, carriage returns and digits; 1..5 coordinates with / without coord=; written '
    'through a path and through a StringIO. The text written by save_xye is compared character for character with the Lean '
    "model's file, the arrays returned by load_xye bit for bit with the model's reader (also on hand-made tables: CR/LF/CRLF "
    'line ends, comments, blank lines, ragged rows, malformed numbers, exact midpoints between adjacent doubles). The refusal '
    'logic is enumerated over variances x ndim(0,1,2) x masks x 0..5 coordinates x dimension-coordinate present x coord= '
    '(none / existing / missing) x bin edges x scalar coordinates. Distinct = distinct (operation, input bits / text).'
)
ASSUMPTIONS = [
    'numpy.savetxt / Python "%.18e" print correctly rounded and numpy.loadtxt (strtod) parses correctly rounded: this is what '
    'the character-level and bit-level comparison with the exact Lean printer / parser checks on every sample',
    'standard model of floating-point arithmetic for sqrt and multiplication (variance_few_ulp), no overflow / underflow',
    'no hypothesis is left at the number level: parseDecimal(formatE18 b) = b for every finite bit pattern is a theorem about '
    'the model (numbers_back: binary64 gap, printer error, text generation and tokenizing, zeros, and the rounding core of '
    'the parser, parser_nearest); that numpy / glibc print and parse like the model is what the text and bit comparison of '
    'the correspondence run checks on every sample',
]
TRUSTED = [
    'modelled, not verified: scippneutron.io.xye.save_xye/load_xye/_deduce_coord/_generate_xye_header and the parts of '
    'numpy.savetxt / numpy.loadtxt they use (header prefixing, "%.18e", tokenizer, universal newlines of text-mode files)',
    'str(scipp.Unit) is passed to the model as text',
    'translator harness/translate/xye.py: the header = header.replace(old, new) statements of save_xye that precede '
    'np.savetxt are extracted (ast) into lean/ScnVerif/Gen/Xye.lean on every run; theorem header_rewriting_known pins '
    'them to "none" or "the carriage-return repair", the only two forms the round-trip theorems cover',
]
LEVEL_TEXT = (
    'Lean 4 theorems about a character-level model of save_xye/load_xye (exact %.18e printer, exact strtod): the refusals '
    '(accepted implies 1-D, variances, no masks, a coordinate, determined, not bin edges); the file is the prefixed header '
    'lines followed by one line per row; loading it returns exactly n rows for every n >= 1 and every header without a bare '
    'carriage return (any header for file objects), the header having no influence; print-then-parse is the identity for any '
    'printer of relative error <= 10^-18 and any nearest-element parser on a set with relative gaps >= 2^-53; the exact '
    'rounding of the printer is within half a unit of the 19th digit; sqrt-then-square changes the variance by at most '
    '(1+u)^3-1 under the standard rounding model.'
)
LEVEL_NOTE = (
    'Tie: text equality of the model file with the real save_xye output and bit equality of the loaded arrays on every run. '
    'The concrete printer/parser pair is not proved to compose to the identity (that is the abstract theorem plus the '
    'correspondence); numpy/glibc number formatting is compared, not verified.'
)
TECHNIQUE = 'Lean 4 proof about a character-level executable model + exact text/bit correspondence with the implementation'


def bits(x: float) -> str:
    return struct.pack('>d', float(x)).hex()


def unbits(h: str) -> float:
    return struct.unpack('>d', bytes.fromhex(h))[0]


def thex(s: str) -> str:
    b = s.encode('latin-1')
    return b.hex() if b else '-'


def unthex(h: str) -> str:
    return '' if h == '-' else bytes.fromhex(h).decode('latin-1')


def err_kind(e) -> str:
    import scipp as sc

    for cls, k in ((sc.VariancesError, 'err:variances'), (sc.DimensionError, 'err:dimension'), (sc.CoordError, 'err:coord'),
                   (KeyError, 'err:key'), (IndexError, 'err:index'), (ValueError, 'err:value'), (TypeError, 'err:type')):
        if isinstance(e, cls):
            return k
    return 'err:other:' + type(e).__name__


# ------------------------------------------------------------------------------------------------
# generators

def from_bits(n: int) -> float:
    return struct.unpack('>d', struct.pack('>Q', n))[0]


_TIES: list = []


def ties():
    """exactly representable numbers whose decimal expansion has exactly 20 significant digits (so '%.18e' meets an
    exact tie), found by exact decimal expansion"""
    if not _TIES:
        import random

        r = random.Random(12345)
        for k in range(1, 75):
            for _ in range(60):
                j = r.randrange(1, 2 ** r.randint(1, 53)) | 1
                x = j / 2.0 ** k
                if Fraction(x) == Fraction(j, 2 ** k) and x > 0:
                    d = Decimal(x).as_tuple()
                    if len(d.digits) == 20:
                        _TIES.append(x)
        assert len(_TIES) > 50
    return _TIES


def rand_float(rng, nonneg=False) -> float:
    import numpy as np

    r = rng.random()
    if r < 0.35:
        while True:
            n = rng.getrandbits(64)
            if (n >> 52) & 0x7FF != 0x7FF:
                x = from_bits(n)
                break
    elif r < 0.45:
        x = from_bits(rng.getrandbits(52) | (rng.getrandbits(1) << 63))  # subnormal
    elif r < 0.55:
        x = rng.choice([0.0, -0.0, 5e-324, 2.2250738585072014e-308, 2.225073858507201e-308, 1.7976931348623157e308,
                        1.0, 0.1, 1e22, 1e23, 9.999999999999999e22, 0.5, 1.5, 9.5, 9.999999999999999995e0, 1e-5, 123456789.0])
        x = x * rng.choice([1, -1])
    elif r < 0.70:
        x = rng.choice(ties()) * rng.choice([1, -1])
        if rng.random() < 0.4:
            x = float(np.nextafter(x, rng.choice([-math.inf, math.inf])))
    elif r < 0.85:
        x = rng.choice([1, -1]) * 10.0 ** rng.randint(-320, 308) * rng.choice([1.0, rng.random(), 1 + rng.random() * 1e-15])
    else:
        x = rng.uniform(-1e3, 1e3)
    if not math.isfinite(x):
        x = 1.0
    return abs(x) if nonneg else x


HEADER_CHARS = 'abcXYZ 0123456789.e+-#\n\t;:[]()/\\\'"!$%&*,<=>?@^_`{|}~'


def rand_header(rng, allow_cr=True):
    r = rng.random()
    if r < 0.15:
        return None  # GenerateHeader
    if r < 0.25:
        return ''
    n = rng.choice([1, 2, 5, 20, 80])
    chars = HEADER_CHARS + ('\r\r' if allow_cr and rng.random() < 0.25 else '')
    h = ''.join(rng.choice(chars) for _ in range(n))
    if rng.random() < 0.2:
        h = rng.choice(['#', '\n', '# 1 2 3', '1.0 2.0 3.0', 'a\n1 2 3\nb', '\n\n', ' ', '#\n#', 'x [m]\n', 'E\t'])
    if allow_cr and rng.random() < 0.06:
        h = rng.choice(['a\rb', 'a\r1 2 3', '\r', 'x\r\ny', 'a\r#b', '\r1e0 2e0 3e0\r', 'q\n\rz'])
    return h


NAME_CHARS = 'abcdxyzQ_01-.'


_NAME_POOL: list = []


def rand_name(rng, used):
    """coordinate / dimension names from a fixed pool: scipp keeps every dimension label ever used in a process-wide table of
    limited size, so a long run must not invent new labels for every case"""
    if not _NAME_POOL:
        import random

        r = random.Random(777)
        seen = set()
        while len(_NAME_POOL) < 400:
            n = ''.join(r.choice(NAME_CHARS) for _ in range(r.randint(1, 8)))
            if n not in seen:
                seen.add(n)
                _NAME_POOL.append(n)
    while True:
        n = rng.choice(_NAME_POOL)
        if n not in used:
            return n


UNIT_POOL = ['counts', 'm', 'dimensionless', 'angstrom', 'us', 'meV', 'K', '1/angstrom', None]


CDTYPES = ['float64', 'float64', 'float32', 'int64', 'int32']
DDTYPES = ['float64', 'float64', 'float32']


def from_bits32(n: int) -> float:
    return struct.unpack('>f', struct.pack('>I', n))[0]


def rand_float32(rng, nonneg=False) -> float:
    """a finite float32 value (as a Python float holding it exactly)"""
    import numpy as np

    r = rng.random()
    if r < 0.4:
        while True:
            n = rng.getrandbits(32)
            if (n >> 23) & 0xFF != 0xFF:
                x = from_bits32(n)
                break
    elif r < 0.5:
        x = from_bits32(rng.getrandbits(23) | (rng.getrandbits(1) << 31))  # subnormal
    elif r < 0.65:
        x = float(np.float32(rng.choice([0.0, -0.0, 1.0, 0.1, -16.07, 0.25, 0.3, 3.4028234663852886e38, 1.1754943508222875e-38, 1e-45, 16777217.0, 1e10])))
    else:
        x = float(np.float32(rng.choice([1, -1]) * math.exp(rng.uniform(-20, 20))))
    return abs(x) if nonneg else x


def rand_int(rng, dtype) -> float:
    """an integer the dtype holds and float64 represents exactly"""
    r = rng.random()
    if r < 0.4:
        v = rng.randint(-1000, 1000)
    elif dtype == 'int32':
        v = rng.choice([rng.randint(-2**31, 2**31 - 1), 2**31 - 1, -2**31])
    else:
        v = rng.choice([rng.randint(-2**53, 2**53), 2**53, -2**53, rng.randint(-2**40, 2**40)])
    return float(v)


def rand_value(rng, dtype, nonneg=False) -> float:
    if dtype == 'float64':
        return rand_float(rng, nonneg)
    if dtype == 'float32':
        return rand_float32(rng, nonneg)
    return rand_int(rng, dtype)


def make_da(rows, dim, coords, chosen, unit, cunits, cdtype='float64', ddtype='float64'):
    """coords: list of names; chosen carries rows' x (in dtype cdtype), the others carry other numbers;
    rows hold the exact values as Python floats"""
    import numpy as np
    import scipp as sc

    xs = np.array([r[0] for r in rows], dtype='float64').astype(cdtype)
    ys = np.array([r[1] for r in rows], dtype='float64').astype(ddtype)
    vs = np.array([r[2] for r in rows], dtype='float64').astype(ddtype)
    assert all(float(a) == b[0] or b[0] != b[0] for a, b in zip(xs, rows)) and all(float(a) == b[1] for a, b in zip(ys, rows))
    da = sc.DataArray(sc.array(dims=[dim], values=ys, variances=vs, unit=unit))
    for i, c in enumerate(coords):
        vals = xs if c == chosen else np.zeros(len(rows)) + float(i + 1)
        da.coords[c] = sc.array(dims=[dim], values=vals, unit=cunits[i])
    return da


SUFFIXES = ['', '.xye', '.dat', '.txt', '.gz', '.bz2', '.xz']
TARGETS = ['sio', 'file'] + [f'{k}:{suf}' for k in ('str', 'path') for suf in SUFFIXES]


def rand_target(rng):
    r = rng.random()
    if r < 0.4:
        return 'sio'
    if r < 0.5:
        return 'file'
    return rng.choice(TARGETS[2:])


def _opener(suffix):
    import bz2
    import gzip
    import lzma

    return {'.gz': gzip.open, '.bz2': bz2.open, '.xz': lzma.open}.get(suffix, open)


def _as_target(target, d):
    """the object handed to save_xye / load_xye for a path-like target"""
    import pathlib

    kind, suffix = target.split(':')
    p = os.path.join(d, 'table' + suffix)
    return (p if kind == 'str' else pathlib.Path(p)), suffix


def read_target_text(p, suffix):
    """the text of a file written by save_xye: decompressed by suffix (as numpy.savetxt compresses by suffix) with
    Python's gzip / bz2 / lzma, newlines untouched"""
    with _opener(suffix)(str(p), 'rb') as f:
        raw = f.read()
    return raw.decode('utf-8')


def write_target_text(p, suffix, text):
    with _opener(suffix)(str(p), 'wb') as f:
        f.write(text.encode('utf-8'))


def is_path_like(target):
    """readers that see the file through a text-mode layer with universal newlines"""
    return target != 'sio'


def save_real(da, header, coord, target):
    """(text written by save_xye, or error kind); target: 'sio' | 'file' | 'str:<suffix>' | 'path:<suffix>'"""
    from scippneutron.io.xye import save_xye

    if isinstance(target, bool):
        target = 'str:.xye' if target else 'sio'
    kw = {}
    if header is not None:
        kw['header'] = header
    if coord is not None:
        kw['coord'] = coord
    try:
        if target == 'sio':
            buf = io.StringIO()
            save_xye(buf, da, **kw)
            return buf.getvalue()
        with tempfile.TemporaryDirectory() as d:
            if target == 'file':
                p = os.path.join(d, 'table.txt')
                with open(p, 'w', encoding='utf-8') as f:
                    save_xye(f, da, **kw)
                return read_target_text(p, '')
            t, suffix = _as_target(target, d)
            save_xye(t, da, **kw)
            return read_target_text(t, suffix)
    except Exception as e:  # noqa: BLE001
        return err_kind(e)


def load_real(text, target):
    """canonical ('ok', n, xbits, ybits, vbits) or error kind"""
    import numpy as np
    from scippneutron.io.xye import load_xye

    if isinstance(target, bool):
        target = 'str:.xye' if target else 'sio'
    kw = dict(dim='x', unit='counts', coord_unit='m')
    try:
        with warnings.catch_warnings():
            warnings.simplefilter('ignore')
            with np.errstate(all='ignore'):
                if target == 'sio':
                    r = load_xye(io.StringIO(text), **kw)
                else:
                    with tempfile.TemporaryDirectory() as d:
                        if target == 'file':
                            p = os.path.join(d, 'table.txt')
                            write_target_text(p, '', text)
                            with open(p, encoding='utf-8') as f:
                                r = load_xye(f, **kw)
                        else:
                            t, suffix = _as_target(target, d)
                            write_target_text(t, suffix, text)
                            r = load_xye(t, **kw)
                if r.variances is None or set(r.coords.keys()) != {'x'}:
                    return 'err:shape'
                return ('ok', r.sizes['x'], [_b(v) for v in r.coords['x'].values], [_b(v) for v in r.values], [_b(v) for v in r.variances])
    except Exception as e:  # noqa: BLE001
        return err_kind(e)


def _b(v):
    v = float(v)
    return 'nan' if v != v else bits(v)


def parse_model_load(out):
    if not out.startswith('ok '):
        return out
    t = out.split()
    n = int(t[1])
    vals = t[2:]
    if len(vals) != 3 * n:
        return 'malformed:' + out[:60]
    return ('ok', n, vals[:n], vals[n:2 * n], vals[2 * n:])


def rand_rows(rng, n, cdtype='float64', ddtype='float64'):
    return [(rand_value(rng, cdtype), rand_value(rng, ddtype), rand_value(rng, ddtype, nonneg=True)) for _ in range(n)]


# ------------------------------------------------------------------------------------------------
# correspondence

def correspond(ctx):
    r = ctx.driver(['c15.repls'])[0]
    ctx.note('header rewriting statements of save_xye seen by the translator: ' + r)
    if r.startswith('untranslated'):
        ctx.disagree({'op': 'translate'}, 'save_xye assigns to header in a way the translator does not know', r)
    _corr_files(ctx)
    _corr_tables(ctx)
    _corr_refusals(ctx)
    _corr_histories(ctx)


def _sizes(ctx):
    rng = ctx.rng
    if ctx.quick:
        return [1, 1, 2, 3] + [rng.randint(1, 40) for _ in range(110)] + [rng.randint(100, 1000) for _ in range(3)] + [10000]
    return [1, 1, 1, 2, 3] + [rng.randint(1, 60) for _ in range(8000)] + [rng.randint(100, 2000) for _ in range(150)] + [10000, 9999, 4096]


def _corr_files(ctx):
    rng = ctx.rng
    cases = []
    for n in _sizes(ctx):
        cdtype, ddtype = rng.choice(CDTYPES), rng.choice(DDTYPES)
        rows = rand_rows(rng, n, cdtype, ddtype)
        header = rand_header(rng)
        ncoords = rng.randint(1, 5)
        names = []
        for _ in range(ncoords):
            names.append(rand_name(rng, names))
        dim = rng.choice(names) if rng.random() < 0.7 else rand_name(rng, names)
        if ncoords == 1:
            chosen, coord_arg = names[0], rng.choice([None, names[0]])
        elif dim in names and rng.random() < 0.5:
            chosen, coord_arg = dim, None
        else:
            chosen = rng.choice(names)
            coord_arg = chosen
        unit = rng.choice(UNIT_POOL)
        cunits = [rng.choice(UNIT_POOL) for _ in names]
        target = rand_target(rng)
        path_mode = is_path_like(target)
        cases.append(dict(rows=rows, header=header, names=names, dim=dim, chosen=chosen, coord_arg=coord_arg, unit=unit,
                          cunits=cunits, path=path_mode, target=target, cdtype=cdtype, ddtype=ddtype))
    import scipp as sc

    # generated headers need str(unit): ask the model for them first
    gh_lines = []
    for c in cases:
        if c['header'] is None:
            cu = c['cunits'][c['names'].index(c['chosen'])]
            f = lambda u: 'none' if u is None else thex(str(sc.Unit(u)))  # noqa: E731
            gh_lines.append(f"c15.genheader {thex(c['chosen'])} {f(cu)} {f(c['unit'])}")
    gh = iter(ctx.driver(gh_lines))
    lines = []
    for c in cases:
        c['model_header'] = unthex(next(gh)) if c['header'] is None else c['header']
        flat = ' '.join(f'{bits(x)} {bits(y)} {bits(v)}' for x, y, v in c['rows'])
        lines.append(f"c15.save {'f' if c['ddtype'] == 'float32' else 'd'} {thex(c['model_header'])} {flat}")
    outs = ctx.driver(lines)
    load_lines, load_cases = [], []
    for c, out in zip(cases, outs):
        da = make_da(c['rows'], c['dim'], c['names'], c['chosen'], c['unit'], c['cunits'], c['cdtype'], c['ddtype'])
        real = save_real(da, c['header'], c['coord_arg'], c['target'])
        ctx.count('save:target:' + c['target'])
        ctx.count(f"save:dtype:{c['cdtype']}/{c['ddtype']}")
        model = unthex(out)
        n = len(c['rows'])
        hk = 'generated' if c['header'] is None else ('empty' if c['header'] == '' else ('cr' if '\r' in c['header'] else 'text'))
        ctx.count(f'save:{"path-like" if c["path"] else "sio"}:header-{hk}')
        ctx.count('save:rows:' + ('1' if n == 1 else '2-99' if n < 100 else '100-9999' if n < 10000 else '10000'))
        ident = ('save', c['header'], tuple(c['names']), c['chosen'], c['unit'], tuple(c['cunits']), c['target'], c['cdtype'], c['ddtype'],
                 tuple(bits(v) for r in c['rows'] for v in r))
        ctx.case(ident, True, sample={'op': 'save', 'rows': n, 'header': c['header'], 'target': c['target'], 'coord_dtype': c['cdtype'], 'data_dtype': c['ddtype'], 'first_line_impl': real.split('\n')[0][:90],
                                      'last_line_impl': real.rstrip('\n').split('\n')[-1]})
        if real != model:
            i = next((i for i, (a, b) in enumerate(zip(real, model)) if a != b), min(len(real), len(model)))
            ctx.disagree({'op': 'save', 'coord_dtype': c['cdtype'], 'data_dtype': c['ddtype'], 'header': c['header'], 'rows': [[bits(v) for v in r] for r in c['rows'][:50]], 'target': c['target'],
                          'coord_arg': c['coord_arg'], 'names': c['names'], 'dim': c['dim']},
                         real[max(0, i - 60):i + 60], model[max(0, i - 60):i + 60], f'text differs at offset {i}')
            continue
        if real.startswith('err:'):
            continue
        tgts = {c['target']}
        if n <= 200:
            tgts |= {'sio', rng.choice(TARGETS[1:])}
        for tg in sorted(tgts):
            load_lines.append(f"c15.load {'p' if is_path_like(tg) else 's'} {thex(real)}")
            load_cases.append((c, real, tg))
    for (c, text, tg), out in zip(load_cases, ctx.driver(load_lines)):
        real = load_real(text, tg)
        model = parse_model_load(out)
        ctx.count(f'load:{tg}:' + (real if isinstance(real, str) else 'ok'))
        ctx.case(('load', text, tg), True)
        if real != model:
            ctx.disagree({'op': 'load-saved', 'target': tg, 'text': text[:400], 'header': c['header']},
                         real if isinstance(real, str) else real[:2], model if isinstance(model, str) else model[:2])


NUM_TOKENS = ['1', '-2.5', '+3', '.5', '5.', '1e5', '1E-5', '1.5e+300', '1e400', '-1e-400', 'inf', '-Infinity', 'nan', 'NaN', '0', '-0',
              '00012', '1e', '1e+', '.', '1.5.5', '1_0', '0x10', 'abc', '', '1d5', '--1', '+-1', 'e5', '1e5.5', 'infinit']


def midpoint_text(rng):
    """decimal string of the exact midpoint between two adjacent doubles, or its neighbour in the last digit"""
    import numpy as np

    a = abs(rand_float(rng))
    with np.errstate(all='ignore'):
        b = float(np.nextafter(a, math.inf))
    if not math.isfinite(b):
        a, b = 1.0, float(np.nextafter(1.0, 2.0))
    mid = (Fraction(a) + Fraction(b)) / 2
    # exact expansion: mid = p / 2^k
    k = mid.denominator.bit_length() - 1
    digits = str(mid.numerator * 5 ** k)
    s = digits + 'e-' + str(k) if k else digits
    r = rng.random()
    if r < 0.33:
        return s
    d = int(digits) + (1 if r < 0.66 else -1)
    return (str(d) + 'e-' + str(k)) if k else str(d)


def rand_table(rng):
    rows = []
    ncol = rng.choice([3, 3, 3, 3, 4, 2, 5, 1])
    nrow = rng.choice([0, 1, 1, 2, 3, 5])
    lines = []
    for _ in range(nrow):
        r = rng.random()
        nc = ncol if r < 0.93 else rng.choice([2, 3, 4])
        toks = []
        for _ in range(nc):
            q = rng.random()
            if q < 0.5:
                toks.append(repr(rand_float(rng)))
            elif q < 0.65:
                toks.append('%.18e' % rand_float(rng))
            elif q < 0.8:
                toks.append(midpoint_text(rng))
            elif q < 0.97:
                toks.append(rng.choice(NUM_TOKENS[:16]))
            else:
                toks.append(rng.choice(NUM_TOKENS))
        line = ' '.join(toks)
        q = rng.random()
        if q < 0.1:
            line += '#' + rng.choice(['', ' c', '1 2 3', ' a\rb'])
        elif q < 0.13:
            line = rng.choice([' ' + line, line + ' ', line.replace(' ', '  ', 1)])
        lines.append(line)
        if rng.random() < 0.15:
            lines.append(rng.choice(['', '# comment', '#', '# 1 2 3', '#\r']))
    del rows
    nl = rng.choice(['\n', '\n', '\n', '\r\n', '\r'])
    text = nl.join(lines)
    if rng.random() < 0.8 and lines:
        text += nl
    return text


def _corr_tables(ctx):
    rng = ctx.rng
    n = ctx.n(800, 80000)
    cases = []
    for _ in range(n):
        text = rand_table(rng)
        pm = rng.random() < 0.5
        if not pm and '\r' in text.replace('\r\n', '\n').split('#')[0]:
            # a bare CR outside a comment handed over in a StringIO: numpy reports an embedded newline; keep a few
            if rng.random() < 0.7:
                pm = True
        cases.append((text, pm))
    outs = ctx.driver([f"c15.load {'p' if pm else 's'} {thex(t)}" for t, pm in cases])
    for (text, pm), out in zip(cases, outs):
        real = load_real(text, rng.choice(TARGETS[1:]) if pm else 'sio')
        model = parse_model_load(out)
        ctx.count('table:' + (real if isinstance(real, str) else 'ok'))
        ctx.case(('table', text, pm), True, sample={'op': 'load', 'text': text[:200], 'path': pm, 'impl': real if isinstance(real, str) else list(real[:3])})
        if real != model:
            ctx.disagree({'op': 'load', 'path': pm, 'text': text}, real, model)


def _corr_histories(ctx):
    """call histories on one path / file object: the model is a pure function of the last table saved, so every load of the
    implementation is compared with the model's round trip of that table"""
    rng = ctx.rng
    hists = [rand_history(rng) for _ in range(ctx.n(40, 1500))]
    lines, index = [], {}
    for h, a in enumerate(hists):
        last = None
        for i, st in enumerate(a['steps']):
            if st['op'] == 'save':
                last = st
            elif st['op'] == 'load':
                index[(h, i)] = len(lines)
                # a generated header never matters for the table: the model gets an empty one in its place
                hdr = '' if last['header'] is None else last['header']
                flat = ' '.join(' '.join(r) for r in last['rows'])
                lines.append(f"c15.roundtrip p {'f' if last.get('ddtype') == 'float32' else 'd'} {thex(hdr)} {flat}")
    outs = ctx.driver(lines)
    for h, a in enumerate(hists):
        def on_load(i, last, back, h=h, a=a):
            model = parse_model_load(outs[index[(h, i)]])
            if isinstance(back, Exception):
                impl = err_kind(back)
            else:
                impl = ('ok', back.sizes[last['dim']], [_b(v) for v in back.coords[last['chosen']].values], [_b(v) for v in back.values],
                        [_b(v) for v in back.variances])
            ctx.count('history:' + a['target'].split(':')[0] + ':' + (impl if isinstance(impl, str) else 'ok'))
            ctx.case(('history', h, i, repr(a['steps'][:i + 1])[:2000]), True)
            if impl != model:
                ctx.disagree({'op': 'history', 'target': a['target'], 'step': i, 'ops': [s['op'] for s in a['steps'][:i + 1]]},
                             impl if isinstance(impl, str) else impl[:2], model if isinstance(model, str) else model[:2],
                             'load after a history of saves differs from the round trip of the last table saved')
        try:
            run_history(a, on_load)
        except Exception as e:  # noqa: BLE001
            ctx.disagree({'op': 'history', 'target': a['target']}, err_kind(e), 'ok', 'history raised')


def _refusal_cases():
    """(has_variances, ndim, masks, n_coords, dim_coord_present, coord_arg kind, edges_on, scalar_on)"""
    for hv, nd, mk, nc in itertools.product((True, False), (0, 1, 2), (False, True), range(0, 6)):
        for dimc in ((False, True) if nc > 0 else (False,)):
            for arg in ('none', 'first', 'last', 'missing'):
                if nc == 0 and arg in ('first', 'last'):
                    continue
                for edges in ('none', 'chosen', 'other', 'all'):
                    for scalar in ('none', 'chosen', 'other', 'dt-chosen', 'dt-other', 'int-chosen', 'f32-chosen'):
                        if nd != 1 and (edges != 'none' or scalar != 'none'):
                            continue
                        if nc == 0 and (edges != 'none' or scalar != 'none'):
                            continue
                        if nc == 1 and (edges == 'other' or scalar in ('other', 'dt-other')):
                            continue
                        yield (hv, nd, mk, nc, dimc, arg, edges, scalar)


def _build_refusal(case):
    import numpy as np
    import scipp as sc

    hv, nd, mk, nc, dimc, arg, edges, scalar = case
    n = 3
    dims = ['x', 'y'][:nd]
    shape = [n, 2][:nd]
    data = sc.array(dims=dims, values=np.ones(shape), variances=np.ones(shape) if hv else None) if nd else sc.scalar(1.0, variance=1.0 if hv else None)
    da = sc.DataArray(data)
    names = [f'c{i}' for i in range(nc)]
    if dimc and nc:
        names[nc // 2] = 'x'
    argname = {'none': None, 'first': names[0] if names else None, 'last': names[-1] if names else None, 'missing': 'nope'}[arg]
    if argname is not None:
        chosen = argname
    elif nc == 1:
        chosen = names[0]
    else:
        chosen = 'x'
    desc = []
    for nm in names:
        is_chosen = nm == chosen
        e = nd == 1 and (edges == 'all' or (edges == 'chosen' and is_chosen) or (edges == 'other' and not is_chosen))
        s = nd == 1 and ((scalar == 'chosen' and is_chosen) or (scalar == 'other' and not is_chosen))
        dt = nd == 1 and ((scalar == 'dt-chosen' and is_chosen) or (scalar == 'dt-other' and not is_chosen))
        if nd == 0 or s:
            da.coords[nm] = sc.scalar(1.5)
            desc.append((nm, 0, False, True))
        else:
            m = n + 1 if e else n
            vals = np.arange(float(m))
            if dt:
                da.coords[nm] = sc.array(dims=['x'], values=vals.astype('int64').astype('datetime64[s]'), unit='s')
            elif scalar == 'int-chosen' and is_chosen:
                da.coords[nm] = sc.array(dims=['x'], values=vals.astype('int64'))
            elif scalar == 'f32-chosen' and is_chosen:
                da.coords[nm] = sc.array(dims=['x'], values=vals.astype('float32'))
            else:
                da.coords[nm] = sc.array(dims=['x'], values=vals)
            desc.append((nm, 1, e, not dt))
    if mk:
        da.masks['m'] = sc.array(dims=dims, values=np.zeros(shape, dtype=bool)) if nd else sc.scalar(False)
    return da, argname, desc


def _corr_refusals(ctx):
    from scippneutron.io.xye import save_xye

    cases = list(_refusal_cases())
    lines, built = [], []
    for case in cases:
        da, argname, desc = _build_refusal(case)
        built.append((da, argname))
        toks = ['c15.check', '1' if case[0] else '0', str(case[1]), '1' if case[2] else '0', thex('x'),
                'none' if argname is None else thex(argname)]
        for nm, nd, e, num in desc:
            toks += [thex(nm), str(nd), '1' if e else '0', '1' if num else '0']
        lines.append(' '.join(toks))
    outs = ctx.driver(lines)
    for case, (da, argname), out in zip(cases, built, outs):
        buf = io.StringIO()
        try:
            save_xye(buf, da, coord=argname)
            written = buf.getvalue().split(' ')[1]
            impl = 'ok ' + thex(written)
        except Exception as e:  # noqa: BLE001
            impl = err_kind(e)
        ctx.count('refusal:' + (impl if impl.startswith('err') else 'ok'))
        ctx.case(('refusal', case), True, sample={'op': 'check', 'case': case, 'impl': impl})
        if impl != out:
            ctx.disagree({'op': 'check', 'case': case}, impl, out)
    ctx.exhaustive = None  # the refusal grid is enumerated completely; the numeric part is sampled


# ------------------------------------------------------------------------------------------------
# direct oracle: the property statement on the real functions

def ulp_distance(a: float, b: float) -> float:
    """number of doubles between two non-negative finite doubles (difference of their bit patterns)"""
    if not (math.isfinite(a) and math.isfinite(b)) or a < 0 or b < 0:
        return math.inf
    return abs(int(bits(abs(a)), 16) - int(bits(abs(b)), 16))


def _ulp32(v: float) -> Fraction:
    """spacing of float32 numbers at the non-negative float32 value v"""
    import numpy as np

    f = np.float32(v)
    with np.errstate(all='ignore'):
        up = float(np.nextafter(f, np.float32(np.inf)))
    if math.isfinite(up):
        return Fraction(up) - Fraction(float(f))
    return Fraction(float(f)) - Fraction(float(np.nextafter(f, np.float32(0))))


def check_roundtrip(a):
    """a: rows (bit triples), header, names, dim, coord_arg, chosen, path"""
    import numpy as np
    import scipp as sc
    from scippneutron.io.xye import load_xye, save_xye

    rows = [tuple(unbits(h) for h in r) for r in a['rows']]
    cdtype, ddtype = a.get('cdtype', 'float64'), a.get('ddtype', 'float64')
    da = make_da(rows, a['dim'], a['names'], a['chosen'], a.get('unit', 'counts'), a.get('cunits') or ['m'] * len(a['names']),
                 cdtype, ddtype)
    kw = {}
    if a['header'] is not None:
        kw['header'] = a['header']
    if a['coord_arg'] is not None:
        kw['coord'] = a['coord_arg']
    n = len(rows)
    with tempfile.TemporaryDirectory() as d, warnings.catch_warnings():
        warnings.simplefilter('ignore')
        tgt = a.get('target') or ('str:.xye' if a.get('path') else 'sio')
        handle = None
        try:
            if tgt == 'sio':
                buf = io.StringIO()
                save_xye(buf, da, **kw)
                text = buf.getvalue()
                buf.seek(0)
                target = buf
            elif tgt == 'file':
                p = os.path.join(d, 'table.txt')
                with open(p, 'w', encoding='utf-8') as f:
                    save_xye(f, da, **kw)
                text = read_target_text(p, '')
                handle = target = open(p, encoding='utf-8')  # noqa: SIM115
            else:
                target, suffix = _as_target(tgt, d)
                save_xye(target, da, **kw)
                try:
                    text = read_target_text(target, suffix)
                except Exception as e:  # noqa: BLE001
                    return _blame(a, 'save'), (f'the file {os.path.basename(str(target))!r} written by save_xye cannot be read as '
                                               f'{suffix or "plain"} text: {type(e).__name__}: {e}')
        except Exception as e:  # noqa: BLE001
            return _blame(a, 'save'), f'save_xye raised {type(e).__name__}: {e}'
        # header never interferes with the table: the lines that are not comments are the n rows
        phys = text.replace('\r\n', '\n').replace('\r', '\n').split('\n') if tgt != 'sio' else text.split('\n')
        table = [ln for ln in phys if ln and not ln.startswith('#')]
        if len(table) != n or any(len(ln.split(' ')) != 3 for ln in table):
            return _blame(a, 'rows'), (f'the file has {len(table)} non-comment lines for {n} rows '
                                       f'(header {a["header"]!r}): {table[:2]!r}')
        try:
            back = load_xye(target, dim=a['dim'], unit=da.unit, coord_unit=da.coords[a['chosen']].unit, coord=a['chosen'])
        except Exception as e:  # noqa: BLE001
            return _blame(a, 'load'), f'load_xye({tgt}) raised {type(e).__name__}: {e}'
        finally:
            if handle is not None:
                handle.close()
    if back.sizes != {a['dim']: n}:
        return 'rows', f'{n} rows written, {dict(back.sizes)} read back'
    if set(back.coords.keys()) != {a['chosen']}:
        return 'coord-name', f'coords {list(back.coords.keys())}'
    xs = back.coords[a['chosen']].values
    for i, (x, y, v) in enumerate(rows):
        if bits(xs[i]) != bits(x):
            return 'coord', f'row {i}: {cdtype} coordinate {x!r} ({bits(x)}) read back as {float(xs[i])!r} ({bits(xs[i])})'
        if bits(back.values[i]) != bits(y):
            return 'values', f'row {i}: {ddtype} value {y!r} ({bits(y)}) read back as {float(back.values[i])!r} ({bits(back.values[i])})'
        if ddtype == 'float32':
            # few units in the last place of the precision the variance was given in
            u = abs(Fraction(float(back.variances[i])) - Fraction(v)) / _ulp32(v) if math.isfinite(float(back.variances[i])) else math.inf
        else:
            u = ulp_distance(float(back.variances[i]), v)
        if not u <= 2:
            return 'variances', f'row {i}: {ddtype} variance {v!r} read back as {float(back.variances[i])!r}: {float(u):.3g} ulp'
    if not np.all(np.isfinite(back.variances)):
        return 'variances', 'non-finite variance read back'
    return None


def _matches(spec, back):
    """None if the loaded DataArray `back` is what the save described by `spec` wrote (x, y bitwise, variances <= 2 ulp),
    else a short description"""
    rows = [tuple(unbits(h) for h in r) for r in spec['rows']]
    ddtype = spec.get('ddtype', 'float64')
    n = len(rows)
    if back.sizes != {spec['dim']: n}:
        return f'{n} rows written, {dict(back.sizes)} read back'
    if set(back.coords.keys()) != {spec['chosen']}:
        return f'coords {list(back.coords.keys())}'
    xs = back.coords[spec['chosen']].values
    for i, (x, y, v) in enumerate(rows):
        if bits(xs[i]) != bits(x):
            return f'row {i}: coordinate {x!r} read back as {float(xs[i])!r}'
        if bits(back.values[i]) != bits(y):
            return f'row {i}: value {y!r} read back as {float(back.values[i])!r}'
        bv = float(back.variances[i])
        if ddtype == 'float32':
            u = abs(Fraction(bv) - Fraction(v)) / _ulp32(v) if math.isfinite(bv) else math.inf
        else:
            u = ulp_distance(bv, v)
        if not u <= 2:
            return f'row {i}: variance {v!r} read back as {bv!r}'
    return None


def _history_da(spec):
    rows = [tuple(unbits(h) for h in r) for r in spec['rows']]
    return make_da(rows, spec['dim'], spec['names'], spec['chosen'], 'counts', ['m'] * len(spec['names']),
                   spec.get('cdtype', 'float64'), spec.get('ddtype', 'float64'))


def run_history(a, on_load):
    """replay a call history on ONE target (a path as str / pathlib.Path, or one text-mode file object): steps are
    {'op': 'save', ...table...}, {'op': 'save-other', ...} (an unrelated save to another path) and {'op': 'load'};
    on_load(index, last_save_spec, loaded DataArray or exception) is called for every load"""
    import scipp as sc
    from scippneutron.io.xye import load_xye, save_xye

    tgt = a['target']
    with tempfile.TemporaryDirectory() as d, warnings.catch_warnings():
        warnings.simplefilter('ignore')
        if tgt == 'file':
            fobj = open(os.path.join(d, 'table.txt'), 'w+', encoding='utf-8')  # noqa: SIM115
            target = fobj
        else:
            fobj = None
            target, _ = _as_target(tgt, d)
        other = os.path.join(d, 'other.xye')
        last = None
        try:
            for i, st in enumerate(a['steps']):
                if st['op'] in ('save', 'save-other'):
                    da = _history_da(st)
                    kw = {}
                    if st['header'] is not None:
                        kw['header'] = st['header']
                    if st['coord_arg'] is not None:
                        kw['coord'] = st['coord_arg']
                    if st['op'] == 'save-other':
                        save_xye(other, da, **kw)
                        continue
                    if fobj is not None:
                        fobj.seek(0)
                        fobj.truncate()
                    save_xye(target, da, **kw)
                    if fobj is not None:
                        fobj.flush()
                    last = st
                else:
                    if fobj is not None:
                        fobj.seek(0)
                    try:
                        da0 = _history_da(last)
                        back = load_xye(target, dim=last['dim'], unit=da0.unit, coord_unit=da0.coords[last['chosen']].unit,
                                        coord=last['chosen'])
                    except Exception as e:  # noqa: BLE001
                        back = e
                    on_load(i, last, back)
        finally:
            if fobj is not None:
                fobj.close()
    del sc


def check_history(a):
    """every load returns what the LAST save to that target wrote, whatever was saved / loaded before, also when the same
    file is loaded twice and after an unrelated save to another path"""
    found = []
    saves = [st for st in a['steps'] if st['op'] == 'save']

    def on_load(i, last, back):
        if found:
            return
        if isinstance(back, Exception):
            found.append(('history-dependent', f'step {i}: load_xye raised {type(back).__name__}: {back}'))
            return
        msg = _matches(last, back)
        if msg is None:
            return
        stale = [k for k, st in enumerate(saves) if st is not last and _matches(dict(st, dim=last['dim'], chosen=last['chosen']), back) is None]
        if stale:
            found.append(('stale-load', f'step {i}: load_xye({a["target"]}) returned the table of save #{stale[-1]} '
                                        f'({len(saves[stale[-1]]["rows"])} rows), not of the last save ({len(last["rows"])} rows): {msg}'))
        else:
            found.append(('history-dependent', f'step {i}: load after {sum(1 for s in a["steps"][:i] if s["op"] == "save")} saves: {msg}'))

    try:
        run_history(a, on_load)
    except Exception as e:  # noqa: BLE001
        return 'history-dependent', f'raised {type(e).__name__}: {e}'
    return found[0] if found else None


def rand_history(rng):
    tgt = rng.choice(['file'] + TARGETS[2:])
    steps = []
    nsave = rng.randint(2, 4)
    for k in range(nsave):
        spec = _oracle_case(rng, rng.choice([1, 2, 3, rng.randint(1, 30)]), allow_cr=False)
        steps.append({'op': 'save', **{key: spec[key] for key in ('rows', 'header', 'names', 'dim', 'chosen', 'coord_arg', 'cdtype', 'ddtype')}})
        steps.append({'op': 'load'})
        r = rng.random()
        if r < 0.35:
            steps.append({'op': 'load'})               # the same unchanged file twice
        elif r < 0.6:
            sp2 = _oracle_case(rng, rng.randint(1, 5), allow_cr=False)
            steps.append({'op': 'save-other', **{key: sp2[key] for key in ('rows', 'header', 'names', 'dim', 'chosen', 'coord_arg', 'cdtype', 'ddtype')}})
            steps.append({'op': 'load'})
    return {'target': tgt, 'steps': steps}


def _blame(a, otherwise):
    """the target is to blame iff the same table and header round-trip through a StringIO; the header is to blame iff the
    same table with an empty header round-trips"""
    tgt = a.get('target') or ('str:.xye' if a.get('path') else 'sio')
    if tgt != 'sio':
        try:
            if check_roundtrip(dict(a, target='sio', path=False)) is None:
                # is it the kind of target, or only what a text-mode reader makes of this header?
                if a['header'] == '' or check_roundtrip(dict(a, header='')) is not None:
                    return 'path-target'
        except Exception:  # noqa: BLE001
            pass
    if a['header'] == '':
        return otherwise
    try:
        clean = check_roundtrip(dict(a, header='')) is None
    except Exception:  # noqa: BLE001
        clean = False
    if not clean:
        return otherwise
    if a['header'] is None:
        return 'header:generated'
    return 'header:carriage-return' if '\r' in a['header'] else 'header:other'


LOSSY = ['no-variances', 'bin-edges', 'masks', 'two-dims', 'zero-dims', 'no-coords', 'ambiguous-coord', 'missing-coord-arg',
         'datetime-coord']


def check_lossy(a):
    """data the format cannot represent must be refused, and nothing be written"""
    import numpy as np
    import scipp as sc
    from scippneutron.io.xye import save_xye

    n = a['n']
    kind = a['kind']
    vals = np.arange(1.0, n + 1)
    data = sc.array(dims=['x'], values=vals, variances=None if kind == 'no-variances' else vals.copy(), unit='counts')
    if kind == 'two-dims':
        data = sc.array(dims=['x', 'y'], values=np.ones((n, 2)), variances=np.ones((n, 2)))
    if kind == 'zero-dims':
        data = sc.scalar(1.0, variance=1.0)
    da = sc.DataArray(data)
    if kind != 'no-coords':
        m = n + 1 if kind == 'bin-edges' else n
        names = ['a', 'b', 'c'][:a.get('ncoords', 2)] if kind == 'ambiguous-coord' else ['x']
        for nm in names:
            if kind == 'datetime-coord':
                da.coords[nm] = sc.array(dims=['x'], values=np.arange(m).astype('datetime64[s]'), unit='s')
            else:
                da.coords[nm] = sc.scalar(1.0) if kind == 'zero-dims' else sc.array(dims=['x'], values=np.arange(float(m)), unit='m')
    if kind == 'masks':
        da.masks['m'] = sc.array(dims=['x'], values=np.zeros(n, dtype=bool))
    buf = io.StringIO()
    try:
        kw = {'header': a['header']} if a.get('header') is not None else {}
        if kind == 'missing-coord-arg':  # exactly one coordinate, and a coord= that does not exist
            kw['coord'] = 'no-such-coordinate'
        save_xye(buf, da, **kw)
    except Exception:  # noqa: BLE001
        if buf.getvalue():
            return f'{kind}: refused, but {len(buf.getvalue())} characters were written first'
        return None
    return f'{kind}: written without complaint: {buf.getvalue()[:80]!r}'


def check_gap(a):
    """binary64 neighbours are at relative distance >= 2^-53 (hypothesis of the abstract round-trip theorem)"""
    import numpy as np

    x = unbits(a['x'])
    with np.errstate(all='ignore'):
        nb = (float(np.nextafter(x, math.inf)), float(np.nextafter(x, -math.inf)))
    for y in nb:
        if math.isfinite(y) and x != 0 and abs(Fraction(y) - Fraction(x)) < Fraction(1, 2 ** 53) * abs(Fraction(x)) and abs(x) >= 2.2250738585072014e-308:
            return f'gap between {x!r} and {y!r} below 2^-53 relative'
    return None


def _oracle_case(rng, n, allow_cr):
    names = []
    for _ in range(rng.randint(1, 5)):
        names.append(rand_name(rng, names))
    dim = rng.choice(names) if rng.random() < 0.7 else rand_name(rng, names)
    if len(names) == 1:
        chosen, arg = names[0], rng.choice([None, names[0]])
    elif dim in names and rng.random() < 0.5:
        chosen, arg = dim, None
    else:
        chosen = rng.choice(names)
        arg = chosen
    cdtype, ddtype = rng.choice(CDTYPES), rng.choice(DDTYPES)
    return {'rows': [[bits(v) for v in r] for r in rand_rows(rng, n, cdtype, ddtype)], 'header': rand_header(rng, allow_cr), 'names': names,
            'dim': dim, 'chosen': chosen, 'coord_arg': arg, 'target': (tg := rand_target(rng)), 'path': tg != 'sio', 'cdtype': cdtype, 'ddtype': ddtype}


def oracle(ctx, deep):
    rng = ctx.rng
    sizes = [1, 1, 2] + [rng.randint(1, 30) for _ in range(400 if deep else ctx.n(150, 10000))] + [rng.randint(100, 3000) for _ in range(ctx.n(2, 40))] + [10000]
    for n in sizes:
        a = _oracle_case(rng, n, allow_cr=True)
        try:
            r = check_roundtrip(a)
        except Exception as e:  # noqa: BLE001
            r = ('exception', f'{type(e).__name__}: {e}')
        ctx.case(('roundtrip', repr(a)), True)
        ctx.count('oracle:roundtrip:' + a['target'])
        ctx.count(f"oracle:roundtrip:dtype:{a['cdtype']}/{a['ddtype']}")
        if r:
            # minimise: a single row, then the smallest header of the same kind
            cands = [dict(a, rows=a['rows'][:1])] if len(a['rows']) > 1 else []
            if a['header'] and '\r' in a['header']:
                cands += [dict(a, rows=a['rows'][:1], header=h) for h in ('a\rb', 'a\r1 2 3')]
            elif a['header']:
                cands += [dict(a, rows=a['rows'][:1], header=a['header'][:k]) for k in (1, 2, 4, 8)]
            cands.append(dict(a, rows=a['rows'][:1], header=''))
            for small in cands:
                try:
                    r2 = check_roundtrip(small)
                except Exception:  # noqa: BLE001
                    r2 = None
                if r2 and r2[0] == r[0]:
                    a, r = small, r2
            ctx.violation('C15:' + r[0], r[1], {'check': 'roundtrip', 'args': a})
    for _ in range(ctx.n(60, 2500) if not deep else 300):
        a = rand_history(rng)
        r = check_history(a)
        ctx.case(('history', repr(a)[:3000]), True)
        ctx.count('oracle:history:' + a['target'].split(':')[0])
        if r:
            # minimise: shortest violating prefix, then drop steps one at a time
            for k in range(2, len(a['steps']) + 1):
                r2 = check_history(dict(a, steps=a['steps'][:k]))
                if r2 and r2[0] == r[0]:
                    a, r = dict(a, steps=a['steps'][:k]), r2
                    break
            j = 0
            while j < len(a['steps']) - 1:
                cand = dict(a, steps=a['steps'][:j] + a['steps'][j + 1:])
                r2 = check_history(cand) if any(st['op'] == 'save' for st in cand['steps'][:1]) else None
                if r2 and r2[0] == r[0]:
                    a, r = cand, r2
                else:
                    j += 1
            ctx.violation('C15:' + r[0], r[1], {'check': 'history', 'args': a})
    for kind in LOSSY:
        for n in (1, 2, 7):
            for header in (None, '', 'h\n#'):
                for nco in (2, 3, 5):
                    if kind != 'ambiguous-coord' and nco != 2:
                        continue
                    a = {'kind': kind, 'n': n, 'header': header, 'ncoords': nco}
                    msg = check_lossy(a)
                    ctx.case(('lossy', kind, n, header, nco), True)
                    ctx.count('oracle:lossy:' + kind)
                    if msg:
                        ctx.violation('C15:lossy-accepted:' + kind, msg, {'check': 'lossy', 'args': a})
    for _ in range(ctx.n(300, 20000)):
        a = {'x': bits(rand_float(rng))}
        msg = check_gap(a)
        ctx.case(('gap', a['x']), True)
        if msg:
            ctx.violation('C15:binary64-gap', msg, {'check': 'gap', 'args': a})


def replay(ctx, payload):
    w = payload.get('witness', {})
    fn = {'roundtrip': check_roundtrip, 'lossy': check_lossy, 'gap': check_gap, 'history': check_history}.get(w.get('check'))
    if fn is None:
        print('no replay for', payload.get('key'))
        return False
    try:
        r = fn(w['args'])
    except Exception as e:  # noqa: BLE001
        r = f'raised {type(e).__name__}: {e}'
    if r:
        print(r)
    return bool(r)
